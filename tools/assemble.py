"""Assembler: turns a unit template (contracts/<UNIT>/unit.rs) into the file Verus checks.

The template is ordinary Rust/Verus text (prelude, spec fns, lemmas) with `//@` directives
that say where text cut from /repo goes and which contract clauses are spliced into it:

  //@macros path=<file> names=a,b,c            unit-wide table for the mini-expander
  //@cut fn path=<file> name=<fn> [impl="<header>"] [ret=<name>] [rename=<new>] [nth=N] [rules=..]
  //@spec                                        lines up to the next directive go between
      requires ... ensures ...                   the signature and the body
  //@loop N                                      lines go before the N-th loop's body `{`
      invariant ...
  //@before "<code substring>" [k]               lines go on the line before the k-th occurrence
  //@after "<code substring>" [k]                lines go after the line holding the k-th occurrence
  //@replace "<from>" "<to>" [count=N]           exact, counted stand-in (R9/R10); miss -> exit 2
  //@mutate "<from>" "<to>"                      negative control: a copy of the function with this
                                                 one edit, named <fn>__negctlK, that MUST fail
  //@end
  //@cut type kind=enum|struct|type|const path=<file> name=<T> [derives=A,B]
  //@end
  //@cut slice path=<file> fn=<fn> [impl=..] anchor="<code substring>" [k=N] take=stmt|block|arm|expr|cond
       wrap_head / wrap_tail given as plain lines after //@head and //@tail
  //@end

Output: generated text, line map (generated line -> origin), list of cuts (path, lines,
sha, rule hits), list of spliced clauses (obligation labels), names expected to fail.
"""
import os
import re
import shlex
import sys

sys.path.insert(0, os.path.dirname(os.path.abspath(__file__)))
import extract  # noqa: E402
from extract import CutError, Source, apply_rules, cut_fn, cut_item, cut_macro, _sub  # noqa: E402
from rustlex import mask, match_close, code_find, line_of, CODE  # noqa: E402


def _parse_directive(line):
    body = line.strip()[3:].strip()
    try:
        toks = shlex.split(body, posix=True)
    except ValueError as e:
        raise CutError('bad directive %r: %s' % (line, e))
    return toks


def _kv(toks):
    pos, kv = [], {}
    for t in toks:
        mm = re.match(r'^([a-z_]+)=(.*)$', t, re.S)
        if mm and not t.startswith('"'):
            kv[mm.group(1)] = mm.group(2)
        else:
            pos.append(t)
    return pos, kv


def _find_code_occurrence(text, needle, k, what):
    m = mask(text)
    if needle.startswith('re:'):
        # structural anchor given as a regular expression (matched at code positions only)
        hits_ = [mm.start() for mm in re.finditer(needle[3:], text) if m[mm.start()] == CODE]
        if len(hits_) < k:
            raise CutError('anchor lost: %s %r (occurrence %d)' % (what, needle, k))
        return hits_[k - 1]
    i = -1
    for _ in range(k):
        i = code_find(text, m, needle, i + 1)
        if i < 0:
            raise CutError('anchor lost: %s %r (occurrence %d)' % (what, needle, k))
    return i


def _loops(text, body_open):
    """indices of the body '{' of each loop (while / loop / for) in textual order."""
    m = mask(text)
    out = []
    for mm in re.finditer(r'\b(while|loop|for)\b', text):
        if mm.start() < body_open or m[mm.start()] != CODE:
            continue
        kw = mm.group(1)
        # `for` in `impl X for Y` / HRTB cannot occur inside a fn body cut; `for<'a>` skip
        j = mm.end()
        if kw == 'for' and text[j:j + 1] == '<':
            continue
        n = len(text)
        while j < n:
            if m[j] == CODE:
                if text[j] == '{':
                    break
                if text[j] in '([':
                    j = match_close(text, m, j)
                if text[j] == ';':
                    j = -1
                    break
            j += 1
        if j < 0 or j >= n:
            continue
        out.append(j)
    return out


def desugar_for(text, body_open, n, itname, hits, plain=False, entry=None, exit_=None):
    """R11: rewrite the n-th loop, which must be `for PAT in EXPR {`, into the loop Rust (and Verus' own
    `for` support) desugars it to, so that invariant_except_break / ensures can be stated:
        let mut IT = VerusForLoopWrapper::new(IntoIterator::into_iter(EXPR)); let ghost IT__snap0 = IT.snapshot@;
        loop { let ghost IT__old = IT; let PAT = match IT.next() { Some(v) => v, None => { break; } }; <peek trigger> BODY }
    Line structure is preserved."""
    lp = _loops(text, body_open)
    if n > len(lp):
        raise CutError('anchor lost: desugar_for loop %d (function has %d loops)' % (n, len(lp)))
    m = mask(text)
    ob = lp[n - 1]
    # find the keyword start
    kws = [mm for mm in re.finditer(r'\b(while|loop|for)\b', text) if m[mm.start()] == CODE and mm.start() >= body_open and mm.start() < ob]
    kw = kws[-1]
    if kw.group(1) != 'for':
        raise CutError('desugar_for: loop %d is `%s`, not `for`' % (n, kw.group(1)))
    head = text[kw.end():ob]
    # split at ` in ` at depth 0
    hm = mask(head)
    d = 0
    pos = -1
    for i, ch in enumerate(head):
        if hm[i] != CODE:
            continue
        if ch in '([{':
            d += 1
        elif ch in ')]}':
            d -= 1
        elif d == 0 and head.startswith(' in ', i):
            pos = i
            break
    if pos < 0:
        raise CutError('desugar_for: cannot split `for PAT in EXPR`')
    pat = head[:pos].strip()
    expr = head[pos + 4:].strip()
    nl = head.count('\n')
    if plain:
        # Rust's own desugaring, for an iterator that the prelude models itself (no vstd iterator wrapper)
        new_head = ('let mut %s = core::iter::IntoIterator::into_iter(%s); loop ' % (itname, ' '.join(expr.split()))) + '\n' * nl
        new_body_start = ('{ let ghost %s__old = %s; let %s = match %s.next() { Some(v__) => v__, None => { break; } }; '
                          % (itname, itname, ' '.join(pat.split()), itname))
        text = text[:kw.start()] + new_head + new_body_start + text[ob + 1:]
        hits['R11.for_desugared'] = hits.get('R11.for_desugared', 0) + 1
        return text
    new_head = ('let mut %s = vstd::std_specs::iter::VerusForLoopWrapper::new(core::iter::IntoIterator::into_iter(%s)); '
                'let ghost %s__snap0 = %s.snapshot@; %sloop ' % (itname, ' '.join(expr.split()), itname, itname,
                                                                 ('proof { %s } ' % entry) if entry else '')) + '\n' * nl
    # entry= / exit= : proof text (lemma calls) placed just before the loop / just before the break on exhaustion
    exit_txt = ('proof { %s } ' % exit_) if exit_ else ''
    new_body_start = ('{ let ghost %s__old = %s; let %s = match %s.next() { Some(v__) => v__, None => { ' % (itname, itname, ' '.join(pat.split()), itname)
                      + exit_txt + 'break; } }; '
                      + 'proof { assert(vstd::std_specs::iter::trigger_peek_implications(vstd::std_specs::iter::IteratorSpec::peek(&%s__old.snapshot@, %s__old.index@))); } '
                      % (itname, itname))
    text = text[:kw.start()] + new_head + new_body_start + text[ob + 1:]
    hits['R11.for_desugared'] = hits.get('R11.for_desugared', 0) + 1
    return text


def desugar_while_let(text, body_open, n, hits, exit_=None):
    """R11b: the n-th loop, which must be `while let Some(ID) = EXPR {`, becomes `loop { let ID = match EXPR { Some(v__) => v__,
    None => { <exit proof> break; } };` -- Rust's own meaning of `while let`; after a `while let` Verus does not know that the
    pattern failed to match, with the explicit break an `ensures` can say so.  Line structure is preserved."""
    lp = _loops(text, body_open)
    if n > len(lp):
        raise CutError('anchor lost: desugar_while_let loop %d (function has %d loops)' % (n, len(lp)))
    m = mask(text)
    ob = lp[n - 1]
    kws = [mm for mm in re.finditer(r'\b(while|loop|for)\b', text) if m[mm.start()] == CODE and mm.start() >= body_open and mm.start() < ob]
    kw = kws[-1]
    head = text[kw.end():ob]
    mm = re.match(r'\s*let\s+Some\(\s*([A-Za-z_][A-Za-z0-9_]*)\s*\)\s*=(.*)$', head, re.S)
    if kw.group(1) != 'while' or not mm:
        raise CutError('desugar_while_let: loop %d is not `while let Some(id) = expr`' % n)
    ident, expr = mm.group(1), mm.group(2).strip()
    nl = head.count('\n')
    new_head = 'loop ' + '\n' * nl
    new_body = '{ let %s = match %s { Some(v__) => v__, None => { %sbreak; } }; ' % (ident, ' '.join(expr.split()), ('proof { %s } ' % exit_) if exit_ else '')
    hits['R11b.while_let_desugared'] = hits.get('R11b.while_let_desugared', 0) + 1
    return text[:kw.start()] + new_head + new_body + text[ob + 1:]


class Piece:
    """a run of generated lines with a common origin description"""

    def __init__(self, lines, origin):
        self.lines = lines
        self.origin = origin


class Assembly:
    def __init__(self, unit, repo_root):
        self.unit = unit
        self.repo = repo_root
        self.out = []          # list of (text_line, origin)
        self.cuts = []         # dicts
        self.clauses = []      # dicts: fn, label, text, tmpl_line
        self.negctl = []       # function names expected to fail
        self.macros = {}
        self.hits_total = {}
        self.includes = []
        self.negctl_skipped = []
        self.conditions = []
        self.opaque_marker = None
        self.cut_texts = []

    def emit(self, line, origin):
        self.out.append((line, origin))

    def text(self):
        return '\n'.join(l for l, _ in self.out) + '\n'


def _count_clauses(block):
    """split a spliced block into labelled clauses (for obligation counting / naming)."""
    txt = '\n'.join(block)
    m = mask(txt)
    clauses = []
    kind = None
    depth = 0
    start = None
    i = 0
    n = len(txt)
    kw = re.compile(r'\b(requires|ensures|invariant_except_break|invariant|decreases|recommends)\b')
    pos = 0
    # find keyword positions at depth 0
    marks = []
    d = 0
    for i, ch in enumerate(txt):
        if m[i] != CODE:
            continue
        if ch in '([{':
            d += 1
        elif ch in ')]}':
            d -= 1
        elif d == 0:
            mm = kw.match(txt, i)
            if mm and (i == 0 or not (txt[i - 1].isalnum() or txt[i - 1] == '_')):
                marks.append((i, mm.group(1), mm.end()))
    if not marks:
        # proof block: count assert( ... ) statements
        for mm in re.finditer(r'\bassert\s*(?:\(|forall|by)', txt):
            if m[mm.start()] == CODE:
                clauses.append(('assert', txt[mm.start():txt.find('\n', mm.start()) if txt.find('\n', mm.start()) > 0 else n].strip()))
        return clauses
    marks.append((n, None, n))
    for (a, k, e), (b, _, _) in zip(marks, marks[1:]):
        seg = txt[e:b]
        sm = mask(seg)
        d = 0
        last = 0
        for i, ch in enumerate(seg):
            if sm[i] != CODE:
                continue
            if ch in '([{':
                d += 1
            elif ch in ')]}':
                d -= 1
            elif ch == ',' and d == 0:
                c = seg[last:i].strip()
                if c:
                    clauses.append((k, c))
                last = i + 1
        c = seg[last:].strip()
        if c:
            clauses.append((k, c))
    return clauses


def _apply_conditionals(lines, repo_root, asm):
    """//@if path=<file> regex=<re> ... //@else ... //@endif : the contract text may depend on a structural fact of the
    working tree (e.g. which collection type an alias names) -- never on line numbers.  Inactive lines are blanked."""
    out = []
    stack = []   # (active_parent, cond_value, in_else)
    for no, ln in enumerate(lines, 1):
        st = ln.strip()
        if st.startswith('//@if '):
            toks = _parse_directive(ln)
            _, kv = _kv(toks[1:])
            try:
                txt = open(os.path.join(repo_root, kv['path']), encoding='utf-8').read()
            except OSError:
                txt = ''
            val = re.search(kv['regex'], txt) is not None
            parent = all(a for a, _, _ in stack) if stack else True
            stack.append((parent and val, val, False))
            asm.conditions.append({'line': no, 'path': kv['path'], 'regex': kv['regex'], 'holds': val})
            out.append('')
            continue
        if st.startswith('//@ifunit '):
            # //@ifunit A,B : template text shared by several units (one file, regions per unit)
            names = st[len('//@ifunit '):].replace(' ', '').split(',')
            val = asm.unit in names
            parent = all(a for a, _, _ in stack) if stack else True
            stack.append((parent and val, val, False))
            out.append('')
            continue
        if st.startswith('//@else'):
            if not stack:
                raise CutError('template line %d: //@else without //@if' % no)
            _, val, _ = stack.pop()
            parent = all(a for a, _, _ in stack) if stack else True
            stack.append((parent and not val, val, True))
            out.append('')
            continue
        if st.startswith('//@endif'):
            if not stack:
                raise CutError('template line %d: //@endif without //@if' % no)
            stack.pop()
            out.append('')
            continue
        active = all(a for a, _, _ in stack) if stack else True
        out.append(ln if active else '')
    if stack:
        raise CutError('template: //@if without //@endif')
    return out


def process_template(unit, tmpl_path, repo_root):
    with open(tmpl_path, encoding='utf-8') as f:
        lines = f.read().split('\n')
    asm = Assembly(unit, repo_root)
    lines = _apply_conditionals(lines, repo_root, asm)
    # //@cutall kind=const path=<file> re=<regex on the item name>: one type cut per matching top-level item, in file order
    exp = []
    for ln in lines:
        if ln.strip().startswith('//@cutall '):
            toks_ = _parse_directive(ln)
            _, kv_ = _kv(toks_[1:])
            src_ = Source.get(repo_root, kv_['path'])
            names_ = []
            for mm_ in re.finditer(r'(?m)^(?:pub(?:\([a-z]+\))?\s+)?' + kv_['kind'] + r'\s+([A-Za-z_][A-Za-z0-9_]*)\b', src_.text):
                if src_.mask[mm_.start(1)] == CODE and re.search(kv_['re'], mm_.group(1)) and mm_.group(1) not in names_:
                    names_.append(mm_.group(1))
            if not names_ and not kv_.get('opt'):
                raise CutError('cutall: no %s item matches %r in %s' % (kv_['kind'], kv_['re'], kv_['path']))
            for nm_ in names_:
                exp.append('//@cut type kind=%s path=%s name=%s' % (kv_['kind'], kv_['path'], nm_))
                if kv_.get('staticrefs'):
                    # inside verus! a const of reference type needs its lifetime spelt out
                    exp.append('//@replace ": &" ": &\'static "')
                exp.append('//@end')
        else:
            exp.append(ln)
    lines = exp
    i = 0
    n = len(lines)
    while i < n:
        ln = lines[i]
        st = ln.strip()
        if not st.startswith('//@'):
            asm.emit(ln, ('tmpl', i + 1))
            i += 1
            continue
        toks = _parse_directive(ln)
        if not toks:
            i += 1
            continue
        d = toks[0]
        if d == 'include':
            inc = os.path.join(os.path.dirname(tmpl_path), toks[1])
            try:
                with open(inc, encoding='utf-8') as f:
                    inc_lines = f.read().split('\n')
            except OSError as e:
                raise CutError('include %s: %s' % (inc, e))
            if any(l.strip().startswith('//@') for l in inc_lines):
                raise CutError('include %s: directives are not allowed in included files' % inc)
            for k, l in enumerate(inc_lines):
                asm.emit(l, ('include', toks[1], k + 1))
            asm.includes.append(inc)
            i += 1
            continue
        if d == 'formatfn':
            # //@formatfn "<format string>" <fn>: format!("<format string>", a, b) in later cuts -> fn(&a, &b)
            extract.FORMAT_FNS['"%s"' % toks[1]] = toks[2]
            i += 1
            continue
        if d == 'lazystatic':
            # //@lazystatic path=<file> name=<NAME> [opt=1] [ensures="<clause over r>"]: the item `static ref NAME: TYPE = EXPR;` of a lazy_static! block becomes
            # `pub fn NAME() -> TYPE { EXPR }` (the initialiser is the text of /repo; uses `*NAME` are rewritten by a //@replace in the cut
            # that uses it).  With opt=1 an absent item emits nothing.
            _, kv = _kv(toks[1:])
            src = Source.get(repo_root, kv['path'])
            t_, m_ = src.text, src.mask
            mm = None
            for cand in re.finditer(r'\bstatic\s+ref\s+' + re.escape(kv['name']) + r'\s*:', t_):
                if m_[cand.start()] == CODE:
                    mm = cand
                    break
            if mm is None:
                if not kv.get('opt'):
                    raise CutError('anchor lost: lazy_static item %s in %s' % (kv['name'], kv['path']))
                i += 1
                continue
            eq_ = code_find(t_, m_, '=', mm.end())
            k_ = eq_ + 1
            while k_ < len(t_):
                if m_[k_] == CODE:
                    if t_[k_] == ';':
                        break
                    if t_[k_] in '([{':
                        k_ = match_close(t_, m_, k_)
                k_ += 1
            ty_ = ' '.join(t_[mm.end():eq_].split())
            ex_ = ' '.join(t_[eq_ + 1:k_].split())
            ens_ = (' ensures %s' % kv['ensures']) if kv.get('ensures') else ''
            asm.emit('pub fn %s() -> (r: %s)%s { %s }   // cut: %s:%d (lazy_static item)' % (kv['name'], ty_, ens_, ex_, kv['path'], line_of(t_, mm.start())), ('tmpl', i + 1))
            asm.cut_record.append({'kind': 'lazystatic', 'name': kv['name'], 'path': kv['path'], 'line': line_of(t_, mm.start())}) if hasattr(asm, 'cut_record') else None
            i += 1
            continue
        if d == 'table':
            # //@table path=<file> macro=<NAME> arg=<k> name=<spec fn name>: the k-th argument (0-based) of every
            # invocation NAME!( ... ) in the file, as a spec sequence of integer literals -- a fact of the table in /repo
            _, kv = _kv(toks[1:])
            src = Source.get(repo_root, kv['path'])
            t_, m_ = src.text, src.mask
            vals = []
            for mm in re.finditer(r'\b' + re.escape(kv['macro']) + r'!\s*\(', t_):
                if m_[mm.start()] != CODE:
                    continue
                o_ = mm.end() - 1
                c_ = match_close(t_, m_, o_)
                args_ = extract._split_args(t_[o_ + 1:c_])
                k_ = int(kv['arg'])
                if len(args_) <= k_ or not re.match(r'^-?\d+$', args_[k_].strip()):
                    raise CutError('table %s: invocation at %s:%d has no integer literal as argument %d' % (kv['macro'], kv['path'], line_of(t_, mm.start()), k_))
                vals.append(args_[k_].strip())
            if not vals:
                raise CutError('table %s: no invocation found in %s' % (kv['macro'], kv['path']))
            asm.emit('pub open spec fn %s() -> Seq<int> { seq![%s] }' % (kv['name'], ', '.join(v + 'int' for v in vals)), ('table', kv['path'], kv['macro'], len(vals)))
            asm.cuts.append({'kind': 'table', 'name': kv['name'], 'where': '%s: %d invocations of %s!, argument %d' % (kv['path'], len(vals), kv['macro'], int(kv['arg'])),
                             'sha256_16_repo_text': __import__('hashlib').sha256(','.join(vals).encode()).hexdigest()[:16], 'dropped': {}, 'asserts_in_code': 0})
            i += 1
            continue
        if d == 'opaque_consts_here':
            asm.opaque_marker = len(asm.out)
            asm.emit('', ('tmpl', i + 1))
            i += 1
            continue
        if d == 'macros':
            _, kv = _kv(toks[1:])
            src = Source.get(repo_root, kv['path'])
            for nm in kv['names'].split(','):
                md = cut_macro(src, nm)
                asm.macros[nm] = md
                asm.cuts.append({'kind': 'macro', 'name': nm, 'where': md.where})
            i += 1
            continue
        if d == 'macrofn':
            j = i + 1
            block = []
            while j < n and not lines[j].strip().startswith('//@end'):
                block.append((j + 1, lines[j]))
                j += 1
            if j >= n:
                raise CutError('template %s line %d: //@macrofn without //@end' % (tmpl_path, i + 1))
            _do_macrofn(asm, toks[1:], block, i + 1)
            i = j + 1
            continue
        if d == 'cut':
            # gather the whole directive block
            j = i + 1
            block = []
            while j < n and not lines[j].strip().startswith('//@end'):
                block.append((j + 1, lines[j]))
                j += 1
            if j >= n:
                raise CutError('template %s line %d: //@cut without //@end' % (tmpl_path, i + 1))
            _do_cut(asm, toks[1:], block, i + 1)
            i = j + 1
            continue
        raise CutError('template %s line %d: unknown directive %s' % (tmpl_path, i + 1, d))
    if asm.opaque_marker is not None:
        # SCREAMING_CASE identifiers that the cut text uses but nothing declares (e.g. a constant introduced in /repo
        # after the contracts were written) are declared as opaque constants: no contract mentions them, so their
        # values cannot matter to any obligation; without this the unit would merely fail to compile (undecided)
        whole = asm.text()
        wm = mask(whole)
        declared = set(mm.group(1) for mm in re.finditer(r'\b(?:const|static)\s+([A-Z][A-Z0-9_]{2,})\b', whole))
        used = set()
        for t in asm.cut_texts:
            tm = mask(t)
            for mm in re.finditer(r'(?<![A-Za-z0-9_:.])([A-Z][A-Z0-9_]{2,})(?![A-Za-z0-9_!(<:])', t):
                if tm[mm.start()] == CODE:
                    used.add(mm.group(1))
        missing = sorted(used - declared)
        if missing:
            decl = 'pub struct VerifOpaqueConst; ' + ' '.join('pub const %s: VerifOpaqueConst = VerifOpaqueConst;' % n for n in missing)
            asm.out[asm.opaque_marker] = (decl, ('opaque_consts', missing))
            asm.hits_total['R14.opaque_const:' + '+'.join(missing)] = len(missing)
    return asm


def _do_macrofn(asm, toks, block, tmpl_line):
    """R13: generate `<name>__fn` from a macro body, splice its contract like any fn cut, and register the macro in
    fn mode.  //@params name:kind:type with kind in mut | ref | val | alias (alias: the argument is always the given
    place expression of another parameter, e.g. `self.buffer`; it is not passed, the body uses the place)."""
    pos, kv = _kv(toks)
    src = Source.get(asm.repo, kv['path'])
    md = cut_macro(src, kv['name'])
    secs = _sections(block)
    fn_params = None
    rest = []
    for sec in secs:
        tk = sec[0]
        if tk[0] == 'params':
            fn_params = []
            for t in tk[1:]:
                pn, kind, ty = t.split(':', 2)
                fn_params.append((pn, kind, ty))
        else:
            rest.append(sec)
    if fn_params is None or [p[0] for p in fn_params] != [p[0] for p in md.params]:
        raise CutError('macrofn %s: //@params must list the macro parameters %s in order' % (kv['name'], [p[0] for p in md.params]))
    may_return = kv.get('may_return', '0') == '1'
    g, params, body, hits = extract.macro_as_fn(md, asm.macros, fn_params, may_return, kv.get('generics'), None, kv.get('errwrap', 'PrinterLogMessageResult::Err'))
    fname = kv['name'] + '__fn'
    ret = ' -> (%s: core::result::Result<(), Error>)' % kv.get('ret', 'r') if may_return else ''
    mline = int(md.where.split(':')[1])
    tail = '\n    core::result::Result::Ok(())\n' if may_return else '\n'
    attr = ('#[verifier::rlimit(%s)] ' % kv['rlimit']) if kv.get('rlimit') else ''
    text = attr + 'pub fn %s%s(%s)%s {' % (fname, g, params, ret) + body + tail + '}'

    class _C:
        pass
    c = _C()
    c.src = src
    c.line = mline
    c.kind = 'macro-as-fn'
    c.where = lambda: md.where
    c.sha = lambda: __import__('hashlib').sha256(md.body.encode()).hexdigest()[:16]
    kv2 = {'name': fname, 'path': kv['path']}
    _finish_cut(asm, c, text, hits, kv2, rest, 'fn')
    md.fn_params = [(pn, kind, ty) for pn, kind, ty in fn_params]
    md.may_return = may_return
    md.errwrap = kv.get('errwrap', 'PrinterLogMessageResult::Err')
    asm.macros[kv['name']] = md


def _sections(block):
    """split the lines of a cut block into (directive tokens, [ (lineno, text) ... ])"""
    secs = []
    cur = None
    for no, ln in block:
        if ln.strip().startswith('//@'):
            cur = (_parse_directive(ln), [], no)
            secs.append(cur)
        else:
            if cur is None:
                if ln.strip():
                    raise CutError('template line %d: text before any section in //@cut block' % no)
                continue
            cur[1].append((no, ln))
    return secs


def _name_return(sig, ret):
    """`-> T` => `-> (ret: T)` in a signature text (everything before the body '{')."""
    m = mask(sig)
    po = code_find(sig, m, '(', sig.find('fn '))
    pc = match_close(sig, m, po)
    a = code_find(sig, m, '->', pc)
    if a < 0:
        raise CutError('ret= given but the function has no return type')
    w = re.search(r'\bwhere\b', sig[a:])
    end = a + w.start() if w else len(sig)
    ty = sig[a + 2:end].strip()
    return sig[:a] + '-> (%s: %s)' % (ret, ty) + ('\n' + sig[end:] if w else ' ')


def _do_cut(asm, toks, block, tmpl_line):
    pos, kv = _kv(toks)
    kind = pos[0]
    src = Source.get(asm.repo, kv['path'])
    secs = _sections(block)
    if kind == 'type':
        c = cut_item(src, kv.get('kind', 'enum'), kv['name'], int(kv.get('depth', '0')))
        text, hits = apply_rules(c.text, rules=['R5'])
        if 'derives' in kv:
            def repl(mm):
                old = [x.strip() for x in mm.group(1).split(',') if x.strip()]
                keep = [x for x in kv['derives'].split(',') if x]
                dropped = [x for x in old if x not in keep]
                if dropped:
                    hits['R5.derive_dropped:' + '+'.join(dropped)] = 1
                return ('#[derive(%s)]' % ', '.join(keep)) if keep else ''
            text = re.sub(r'#\[derive\(([^)]*)\)\]', repl, text)
        if kv.get('pubfields'):
            # visibility has no semantics for any property; Verus treats a datatype with private fields as opaque
            def pf(mm):
                hits['R5.field_visibility_widened'] = hits.get('R5.field_visibility_widened', 0) + 1
                return mm.group(1) + 'pub ' + mm.group(2)
            text = re.sub(r'(?m)^(\s+)(?:pub\([a-z]+\)\s+)?(?!pub\b)([A-Za-z_][A-Za-z0-9_]*\s*:)', pf, text)
        for tk, lines_, no in secs:
            if tk[0] == 'replace':
                text = _apply_replace(text, tk, hits, no)
            else:
                raise CutError('template line %d: %s not allowed in a type cut' % (no, tk[0]))
        _emit_cut(asm, c, text, {}, hits, kv)
        return
    if kind == 'fn':
        c = cut_fn(src, kv['name'], kv.get('impl'), int(kv.get('nth', '1')))
        rules = None
        if 'rules' in kv:
            rules = [r for r in extract.ALL_RULES if ('-' + r) not in kv['rules'].split(',')]
        raw = c.text
        pre_hits = {}
        # //@subst_slice anchor=.. take=.. [end_anchor=..] [k=..] with="<code>": BEFORE any rule, the located part of the function is
        # replaced by <code> (a call of a wrapper function whose body is that very part, cut as a slice and verified on its own);
        # line structure is kept.  Applied back to front so that earlier spans stay valid.
        spans = []
        for tk, lines_, no in secs:
            if tk[0] == 'subst_slice':
                _, kv2 = _kv(tk[1:])
                kv2.setdefault('name', kv['name'])
                s_, e_ = _slice_span(raw, kv2)
                spans.append((s_, e_, kv2['with'], kv2.get('label', kv2['anchor'][:30])))
        for s_, e_, w_, lab_ in sorted(spans, reverse=True):
            removed = raw[s_:e_]
            raw = raw[:s_] + w_ + '\n' * removed.count('\n') + raw[e_:]
            pre_hits['R16.part_replaced_by_call_of_its_slice_wrapper:' + lab_] = 1
        text, hits = apply_rules(raw, rules=rules, macros=asm.macros)
        hits.update(pre_hits)
    elif kind == 'slice':
        c, text, hits = _cut_slice(asm, src, kv)
    else:
        raise CutError('template line %d: unknown cut kind %s' % (tmpl_line, kind))

    _finish_cut(asm, c, text, hits, kv, secs, kind)


def _finish_cut(asm, c, text, hits, kv, secs, kind):
    if kind == 'fn' and kv.get('rlimit') and '#[verifier::rlimit' not in text:
        mm0 = re.search(r'(?m)^(\s*)((?:pub(?:\([a-z]+\))?\s+)?(?:const\s+)?fn\b)', text)
        if mm0:
            text = text[:mm0.start(2)] + '#[verifier::rlimit(%s)] ' % kv['rlimit'] + text[mm0.start(2):]
    mutations = []
    inserts = {}      # char index in text -> list of (lineno, line)
    # replaces first (they change the text the anchors look at)
    for tk, lines_, no in secs:
        if tk[0] == 'replace':
            text = _apply_replace(text, tk, hits, no)
        elif tk[0] == 'replace_chain':
            text = _apply_replace_chain(text, tk, hits, no)
    for tk, lines_, no in secs:
        if tk[0] == 'bytelits':
            text = extract.r15_byte_literals(text, hits)
    for tk, lines_, no in secs:
        if tk[0] == 'opaque_unsafe':
            text = extract.r12_unsafe_blocks(text, hits)
    for tk, lines_, no in secs:
        if tk[0] == 'desugar_for':
            pos_, kv_ = _kv(tk[1:])
            text = desugar_for(text, 0, int(pos_[0]), pos_[1] if len(pos_) > 1 else 'it', hits, plain=(len(pos_) > 2 and pos_[2] == 'plain'),
                               entry=kv_.get('entry'), exit_=kv_.get('exit'))
    for tk, lines_, no in secs:
        if tk[0] == 'desugar_while_let':
            pos_, kv_ = _kv(tk[1:])
            text = desugar_while_let(text, 0, int(pos_[0]), hits, exit_=kv_.get('exit'))
    m = mask(text)
    if kind == 'fn':
        fnkw = re.search(r'\bfn\s+' + re.escape(kv['name']) + r'\b', text)
        po = code_find(text, m, '(', fnkw.end())
        pc = match_close(text, m, po)
        bo = pc + 1
        while not (m[bo] == CODE and text[bo] == '{'):
            if m[bo] == CODE and text[bo] in '([':
                bo = match_close(text, m, bo)
            bo += 1
    else:
        bo = 0
        fnkw = None
    fname = kv.get('rename', kv.get('name', kv.get('label', 'slice')))
    for tk, lines_, no in secs:
        t0 = tk[0]
        if t0 in ('replace', 'replace_chain', 'desugar_for', 'opaque_unsafe', 'bytelits', 'desugar_while_let', 'subst_slice'):
            continue
        if t0 == 'mutate':
            mutations.append((tk[1], tk[2], no))
            continue
        while lines_ and not lines_[-1][1].strip():
            lines_ = lines_[:-1]
        if t0 == 'spec':
            if kind != 'fn':
                raise CutError('template line %d: //@spec only for fn cuts' % no)
            at = bo
            lab = 'spec'
        elif t0 == 'loop':
            k = int(tk[1])
            lp = _loops(text, bo)
            if k > len(lp):
                raise CutError('anchor lost: loop %d of %s (function has %d loops)' % (k, fname, len(lp)))
            at = lp[k - 1]
            lab = 'loop%d' % k
        elif t0 == 'loop_end':
            # last position of the k-th loop's body (just before its closing brace): a hint every path through the body passes
            k = int(tk[1])
            lp = _loops(text, bo)
            if k > len(lp):
                raise CutError('anchor lost: loop %d of %s (function has %d loops)' % (k, fname, len(lp)))
            at = match_close(text, m, lp[k - 1])
            lab = 'loop%d_end' % k
        elif t0 in ('before', 'after', 'before_opt', 'after_opt'):
            # *_opt: a proof hint for a statement that may legitimately be absent (e.g. a helper call that was inlined): if the
            # anchor is not there the hint is dropped -- the obligations it helped then stand or fall on their own
            if len(tk) > 2 and tk[2] == '*':
                # every occurrence of the anchor gets the same lines (e.g. one hint that fits every `return;`), so that an
                # added or removed occurrence neither shifts nor loses a hint
                t0b = t0.replace('_opt', '')
                # from="<anchor A>" / to="<anchor B>": only the occurrences that lie between the (first occurrences of the) two
                # region anchors, themselves unique statements of the function -- "every occurrence in this part of the function"
                _pos, _kvr = _kv(tk[3:])
                lo_ = _find_code_occurrence(text, _kvr['from'], 1, 'region start of %s' % fname) if 'from' in _kvr else 0
                hi_ = _find_code_occurrence(text, _kvr['to'], 1, 'region end of %s' % fname) if 'to' in _kvr else len(text)
                kk = 1
                nhit = 0
                while True:
                    try:
                        idx = _find_code_occurrence(text, tk[1], kk, '%s of %s' % (t0, fname))
                    except CutError:
                        break
                    if not (lo_ <= idx < hi_):
                        kk += 1
                        continue
                    nhit += 1
                    if t0b == 'before':
                        at_ = text.rfind('\n', 0, idx) + 1
                    else:
                        e = text.find('\n', idx)
                        at_ = len(text) if e < 0 else e + 1
                    lab_ = '%s:%s#%d' % (t0b, tk[1][:40], kk)
                    inserts.setdefault(at_, []).append((lab_, lines_))
                    for ck, ctext in _count_clauses([l for _, l in lines_]):
                        if ck in ('ensures', 'invariant', 'invariant_except_break', 'assert', 'decreases'):
                            asm.clauses.append({'fn': fname, 'at': lab_, 'kind': ck, 'text': ' '.join(ctext.split())[:300], 'tmpl_line': lines_[0][0]})
                    kk += 1
                if nhit == 0 and not t0.endswith('_opt'):
                    raise CutError('anchor lost: %s %r of %s' % (t0, tk[1], fname))
                continue
            k = int(tk[2]) if len(tk) > 2 else 1
            try:
                idx = _find_code_occurrence(text, tk[1], k, '%s of %s' % (t0, fname))
            except CutError:
                if t0.endswith('_opt'):
                    hits['hint_dropped:' + tk[1][:40]] = hits.get('hint_dropped:' + tk[1][:40], 0) + 1
                    continue
                raise
            t0 = t0.replace('_opt', '')
            if t0 == 'before':
                at = text.rfind('\n', 0, idx) + 1
            else:
                e = text.find('\n', idx)
                at = len(text) if e < 0 else e + 1
            lab = '%s:%s#%d' % (t0, tk[1][:40], k)
        elif t0 == 'at_entry':
            # first line of the function body (right after its opening brace)
            if kind != 'fn':
                raise CutError('template line %d: //@at_entry only for fn cuts' % no)
            at = bo + 1
            lab = 'at_entry'
        elif t0 == 'at_end':
            # last position of the function body (just before its closing brace)
            if kind != 'fn':
                raise CutError('template line %d: //@at_end only for fn cuts' % no)
            at = match_close(text, m, bo)
            lab = 'at_end'
        elif t0 == 'before_tail':
            # @before-return: the line of the function body's tail expression (last line holding code)
            if kind != 'fn':
                raise CutError('template line %d: //@before_tail only for fn cuts' % no)
            bc_ = match_close(text, m, bo)
            k3 = bc_ - 1
            while k3 > bo and (text[k3].isspace() or m[k3] != CODE):
                k3 -= 1
            at = text.rfind('\n', 0, k3) + 1
            lab = 'before_tail'
        elif t0 in ('head', 'tail'):
            continue
        else:
            raise CutError('template line %d: unknown section %s' % (no, t0))
        inserts.setdefault(at, []).append((lab, lines_))
        for ck, ctext in _count_clauses([l for _, l in lines_]):
            if ck in ('ensures', 'invariant', 'invariant_except_break', 'assert', 'decreases'):
                asm.clauses.append({'fn': fname, 'at': lab, 'kind': ck, 'text': ' '.join(ctext.split())[:300], 'tmpl_line': lines_[0][0]})

    head = [s for s in secs if s[0][0] == 'head']
    tail = [s for s in secs if s[0][0] == 'tail']

    # build the generated lines with origins
    def build(text, rename, origin_tag):
        m = mask(text)
        sig_end = bo
        segs = []   # (string, origin or None for repo text)
        cuts_at = sorted(inserts)
        prev = 0
        pieces = []
        for at in cuts_at:
            pieces.append(('repo', text[prev:at], prev))
            for lab, lines_ in inserts[at]:
                pieces.append(('ins', lines_, lab))
            prev = at
        pieces.append(('repo', text[prev:], prev))
        gen = []
        # repo text pieces: keep track of repo line numbers
        for p in pieces:
            if p[0] == 'repo':
                seg = p[1]
                startline = c.line + text.count('\n', 0, p[2])
                parts = seg.split('\n')
                for k, l in enumerate(parts):
                    if k == len(parts) - 1 and l == '':
                        continue
                    gen.append([l, ('repo', c.src.rel, startline + k, fname)])
            else:
                # an insert in the middle of a line: break the line
                for no, l in p[1]:
                    gen.append([l, ('clause', no, p[2], fname)])
        return gen

    if kind == 'fn':
        # rename / name the return value in the signature (text before bo)
        sig = text[:bo]
        body = text[bo:]
        if 'ret' in kv:
            sig2 = _name_return(sig, kv['ret'])
        else:
            sig2 = sig
        if 'rename' in kv:
            sig2 = re.sub(r'\bfn\s+' + re.escape(kv['name']) + r'\b', 'fn ' + kv['rename'], sig2, count=1)
        if not kv.get('keepconst'):
            # Verus: a `const fn` cannot carry requires/ensures; constness has no run-time meaning
            sig2 = re.sub(r'\bpub\s+const\s+fn\b', 'pub fn', sig2)
            sig2 = re.sub(r'(?<![A-Za-z_])const\s+fn\b', 'fn', sig2)
        # keep the line count of the signature
        dl = sig.count('\n') - sig2.count('\n')
        if dl > 0:
            sig2 = sig2 + '\n' * dl
        elif dl < 0:
            sig2 = ' '.join(sig2.split('\n'))
            sig2 = sig2 + '\n' * sig.count('\n')
        delta = len(sig2) - len(sig)
        text2 = sig2 + body
        inserts = {(at + delta if at >= bo else at): v for at, v in inserts.items()}
        bo2 = bo + delta
        text = text2
        bo = bo2
    for s in head:
        for no, l in s[1]:
            asm.emit(l, ('wrap', no, fname))
    gen = build(text, None, None)
    for l, o in gen:
        asm.emit(l, o)
    for s in tail:
        for no, l in s[1]:
            asm.emit(l, ('wrap', no, fname))
    _record_cut(asm, c, hits, kv, fname, text)

    # negative controls
    for k, (frm, to, no) in enumerate(mutations, 1):
        mt = text
        mm_ = mask(mt)
        idx = code_find(mt, mm_, frm, bo if kind == 'fn' else 0)
        if idx < 0:
            # the working tree no longer has the text this control edits: skip the control (noted in the
            # evidence) rather than leave the unit undecided
            asm.negctl_skipped.append({'of': fname, 'from': frm, 'to': to, 'why': 'text to edit not present in the cut'})
            continue
        mt = mt[:idx] + to + mt[idx + len(frm):]
        nm = '%s__negctl%d' % (fname, len(asm.negctl) + 1)
        # a control only has to fail: cap its resource limit so that it fails fast
        _l0 = len(mt)
        mt = re.sub(r'#\[verifier::rlimit\((\d+)\)\]', lambda m_: '#[verifier::rlimit(%d)]' % min(int(m_.group(1)), 40), mt)
        rshift = len(mt) - _l0
        if kind == 'fn':
            mt = re.sub(r'\bfn\s+' + re.escape(fname) + r'\b', 'fn ' + nm, mt, count=1)
        else:
            raise CutError('//@mutate on a slice: put the mutation on the wrapper instead')
        shift = len(to) - len(frm)
        saved = inserts
        nshift = len(nm) - len(fname)
        newins = {}
        for at, v in saved.items():
            a2 = at + (nshift if at > fnkw.start() else 0) + rshift
            a2 = a2 + (shift if at > idx else 0)
            newins[a2] = v
        inserts_backup = inserts
        inserts = newins
        gen = build(mt, None, None)
        inserts = inserts_backup
        for l, o in gen:
            asm.emit(l, ('negctl', nm, o))
        asm.negctl.append({'name': nm, 'of': fname, 'from': frm, 'to': to})


def _apply_replace_chain(text, tk, hits, no):
    """//@replace_chain "<prefix>" when="<whole chain>" then="<stand-in A>" else="<stand-in B>":
    the method chain that starts with <prefix> (a code occurrence; the chain is extended over `.name(...)`, `.name::<..>(...)`
    and `?` segments) is an expression Verus cannot take (iterator adapters with closures).  If its text is the expected one
    (compared without whitespace) it is replaced by stand-in A, whose assumed contract is what that exact expression computes
    (decided for the real expression by a Kani unit); otherwise by stand-in B, whose contract assumes only what any expression
    of that type gives -- so a changed selection expression fails the caller's postcondition instead of losing an anchor."""
    pos, kv = _kv(tk[1:])
    prefix = pos[0]
    m = mask(text)
    a = code_find(text, m, prefix, 0)
    if a < 0:
        raise CutError('stand-in lost: chain prefix %r not found (template line %d)' % (prefix, no))
    j = a + len(prefix)
    n = len(text)
    while True:
        k = j
        while k < n and text[k].isspace():
            k += 1
        if k < n and text[k] == '?':
            j = k + 1
            continue
        if k < n and text[k] == '.' and m[k] == CODE:
            mm = re.match(r'\.\s*[A-Za-z_][A-Za-z0-9_]*\s*(::\s*<[^>]*>\s*)?', text[k:])
            if not mm:
                break
            q = k + mm.end()
            if q < n and text[q] == '(':
                j = match_close(text, m, q) + 1
                continue
            # field access / tuple index
            j = q
            continue
        break
    chain = text[a:j]
    same = ''.join(chain.split()) == ''.join(kv['when'].split())
    text = _sub(text, a, j, kv['then'] if same else kv['else'])
    hits['R9.chain:' + prefix[:40] + (':expected' if same else ':UNEXPECTED')] = 1
    return text


def _apply_replace(text, tk, hits, no):
    pos, kv = _kv(tk[1:])
    frm, to = pos[0], pos[1]
    want = kv.get('count', '1')
    m = mask(text)
    if kv.get('ws'):
        # whitespace-insensitive exact match (the text may be laid out over several lines)
        proj = []
        idxmap = []
        for i, ch in enumerate(text):
            if not ch.isspace():
                proj.append(ch)
                idxmap.append(i)
        proj = ''.join(proj)
        needle = ''.join(frm.split())
        spans = []
        i = -1
        while True:
            i = proj.find(needle, i + 1)
            if i < 0:
                break
            a, b = idxmap[i], idxmap[i + len(needle) - 1] + 1
            if m[a] == CODE:
                spans.append((a, b))
        if want == '0+':
            pass
        elif (want == '*' and not spans) or (want != '*' and len(spans) != int(want)):
            raise CutError('stand-in lost: %r found %d times, expected %s (template line %d)' % (frm, len(spans), want, no))
        for a, b in reversed(spans):
            text = _sub(text, a, b, to)
        hits['R9.' + frm[:50]] = len(spans)
        return text
    found = []
    i = -1
    while True:
        i = code_find(text, m, frm, i + 1)
        if i < 0:
            break
        found.append(i)
    if want == '0+':
        # an alternative stand-in: the expression may be written this way or another way that has its own stand-in
        pass
    elif want == '*':
        if not found:
            raise CutError('stand-in lost: %r not found (template line %d)' % (frm, no))
    elif len(found) != int(want):
        raise CutError('stand-in lost: %r found %d times, expected %s (template line %d)' % (frm, len(found), want, no))
    for i in reversed(found):
        text = _sub(text, i, i + len(frm), to)
    hits['R9.' + frm[:50]] = len(found)
    return text


def _emit_cut(asm, c, text, inserts, hits, kv):
    parts = text.split('\n')
    for k, l in enumerate(parts):
        asm.emit(l, ('repo', c.src.rel, c.line + k, kv.get('name')))
    _record_cut(asm, c, hits, kv, kv.get('name'), text)


def _record_cut(asm, c, hits, kv, fname, text):
    import hashlib
    asm.cut_texts.append(text)
    asm.cuts.append({
        'kind': c.kind, 'name': fname, 'impl': kv.get('impl'), 'where': c.where(),
        'sha256_16_repo_text': c.sha(),
        'sha256_16_verified_text': hashlib.sha256(text.encode()).hexdigest()[:16],
        'dropped': hits,
        'asserts_in_code': len(re.findall(r'\bassert!\(', text)),
    })
    for k, v in hits.items():
        asm.hits_total[k] = asm.hits_total.get(k, 0) + v


def _slice_span(t, kv):
    """locate a statement / block / match arm / expression / range inside the function text `t` by a structural anchor;
    returns (start, end) offsets into `t`"""
    m = mask(t)
    k = int(kv.get('k', '1'))
    idx = -1
    for _ in range(k):
        idx = code_find(t, m, kv['anchor'], idx + 1)
        if idx < 0:
            raise CutError('anchor lost: slice %s anchor %r in fn %s' % (kv.get('label'), kv['anchor'], kv.get('fn', kv.get('name'))))
    take = kv.get('take', 'stmt')
    n = len(t)
    if take == 'arm':
        # anchor is the arm pattern; body is the `{...}` after `=>`
        a = code_find(t, m, '=>', idx)
        j = a + 2
        while t[j].isspace():
            j += 1
        if t[j] != '{':
            raise CutError('slice %s: arm body is not a block' % kv.get('label'))
        e = match_close(t, m, j)
        s, e = j, e + 1
    elif take == 'block':
        # first '{' at bracket depth 0 after the anchor start
        j = idx
        while j < n:
            if m[j] == CODE:
                if t[j] == '{':
                    break
                if t[j] in '([':
                    j = match_close(t, m, j)
            j += 1
        e = match_close(t, m, j)
        s, e = (idx if kv.get('from', 'anchor') == 'anchor' else j), e + 1
        # if / else chains
        if kv.get('chain') == 'else':
            while True:
                rest = t[e:]
                mm = re.match(r'\s*else\b', rest)
                if not mm:
                    break
                j = e + mm.end()
                while j < n:
                    if m[j] == CODE:
                        if t[j] == '{':
                            break
                        if t[j] in '([':
                            j = match_close(t, m, j)
                    j += 1
                e = match_close(t, m, j) + 1
    elif take == 'range':
        # from the start of the line holding the anchor to the end of the statement that starts at `end_anchor`
        s = t.rfind('\n', 0, idx) + 1
        ea = kv['end_anchor']
        j = code_find(t, m, ea, idx)
        if j < 0:
            raise CutError('anchor lost: slice %s end_anchor %r' % (kv.get('label'), ea))
        if re.match(r'(if|for|while|loop|match)\b', t[j:]):
            k2 = j
            while k2 < n:
                if m[k2] == CODE:
                    if t[k2] == '{':
                        break
                    if t[k2] in '([':
                        k2 = match_close(t, m, k2)
                k2 += 1
            e = match_close(t, m, k2) + 1
            while True:
                mm2 = re.match(r'\s*else\b', t[e:])
                if not mm2:
                    break
                k2 = e + mm2.end()
                while k2 < n:
                    if m[k2] == CODE:
                        if t[k2] == '{':
                            break
                        if t[k2] in '([':
                            k2 = match_close(t, m, k2)
                    k2 += 1
                e = match_close(t, m, k2) + 1
        else:
            k2 = j
            while k2 < n:
                if m[k2] == CODE:
                    if t[k2] == ';':
                        break
                    if t[k2] in '([{':
                        k2 = match_close(t, m, k2)
                k2 += 1
            e = k2 + 1
    elif take == 'rest_of_block':
        # from the start of the line holding the anchor to the end of the enclosing `{ ... }` block
        s = t.rfind('\n', 0, idx) + 1
        d = 0
        k2 = idx
        e = None
        while k2 < n:
            if m[k2] == CODE:
                if t[k2] in '{([':
                    k2 = match_close(t, m, k2)
                elif t[k2] == '}':
                    e = k2
                    break
            k2 += 1
        if e is None:
            raise CutError('slice %s: enclosing block end not found' % kv.get('label'))
    elif take == 'stmt':
        # from the start of the anchor to the terminating ';' at depth 0
        j = idx
        while j < n:
            if m[j] == CODE:
                if t[j] == ';':
                    break
                if t[j] in '([{':
                    j = match_close(t, m, j)
            j += 1
        s, e = idx, j + 1
    elif take == 'cond':
        # `if <cond> {` / `while <cond> {` : the condition text after the anchor keyword
        kwm = re.match(r'(if|while)\b', t[idx:])
        if not kwm:
            raise CutError('slice %s: take=cond needs the anchor to start with if/while' % kv.get('label'))
        j = idx + kwm.end()
        s = j
        while j < n:
            if m[j] == CODE:
                if t[j] == '{':
                    break
                if t[j] in '([':
                    j = match_close(t, m, j)
            j += 1
        e = j
    elif take == 'expr':
        # expression after the anchor up to (not including) the terminating ';' or '{' of a match scrutinee
        s = idx + len(kv['anchor'])
        until = kv.get('until', ';')
        j = s
        while j < n:
            if m[j] == CODE:
                if t[j] == until:
                    break
                if t[j] in '([{':
                    j = match_close(t, m, j)
            j += 1
        e = j
    else:
        raise CutError('slice: unknown take=%s' % take)
    return s, e


def _cut_slice(asm, src, kv):
    """a statement / block / match arm / expression inside a function, located by a structural
    anchor (a code substring) and the kind of balanced unit to take."""
    f = cut_fn(src, kv['fn'], kv.get('impl'))
    s, e = _slice_span(f.text, kv)
    c = extract.Cut(src, f.start + s, f.start + e, 'slice', kv.get('label', kv['fn'] + '@' + kv['anchor'][:20]))
    # reborrow=a,b : names that are `&mut` references in the enclosing function (the wrapper declares them so); a macro-as-function
    # call then passes `&mut *a`
    ctx = c.text + ''.join(' %s: &mut _;' % nm for nm in kv.get('reborrow', '').split(',') if nm)
    text, hits = apply_rules(c.text, macros=asm.macros, context=ctx)
    return c, text, hits
