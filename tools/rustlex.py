"""Minimal Rust-aware lexer used by the cutter.

mask(text) returns a bytearray the same length as text with one class per char:
  0 = code, 1 = comment, 2 = string / char / byte literal contents (delimiters included)
Everything the cutter does (brace matching, keyword search, macro-call search) looks at
class-0 characters only, so braces in strings, chars and comments never confuse it.
"""
import re

CODE, COMMENT, STR = 0, 1, 2

_ident = re.compile(r'[A-Za-z_][A-Za-z0-9_]*')


def mask(text):
    n = len(text)
    m = bytearray(n)
    i = 0
    while i < n:
        c = text[i]
        if c == '/' and i + 1 < n and text[i + 1] == '/':
            j = text.find('\n', i)
            if j < 0:
                j = n
            for k in range(i, j):
                m[k] = COMMENT
            i = j
            continue
        if c == '/' and i + 1 < n and text[i + 1] == '*':
            depth = 1
            j = i + 2
            while j < n and depth > 0:
                if text.startswith('/*', j):
                    depth += 1
                    j += 2
                elif text.startswith('*/', j):
                    depth -= 1
                    j += 2
                else:
                    j += 1
            for k in range(i, j):
                m[k] = COMMENT
            i = j
            continue
        # raw strings r"..", r#".."#, br#".."#
        if c in 'rb' and (i == 0 or not (text[i - 1].isalnum() or text[i - 1] == '_')):
            mm = re.match(r'(?:br|r)(#*)"', text[i:i + 40])
            if mm:
                hashes = mm.group(1)
                endtok = '"' + hashes
                j = text.find(endtok, i + mm.end())
                j = n if j < 0 else j + len(endtok)
                for k in range(i, j):
                    m[k] = STR
                i = j
                continue
            if c == 'b' and i + 1 < n and text[i + 1] in '"\'':
                m[i] = STR
                i += 1
                c = text[i]
                # fall through to string / char handling below
            else:
                i += 1
                continue
        if c == '"':
            j = i + 1
            while j < n:
                if text[j] == '\\':
                    j += 2
                    continue
                if text[j] == '"':
                    j += 1
                    break
                j += 1
            for k in range(i, min(j, n)):
                m[k] = STR
            i = j
            continue
        if c == "'":
            # char literal or lifetime
            if i + 2 < n and text[i + 1] == '\\':
                j = text.find("'", i + 3)
                if j < 0:
                    j = n - 1
                for k in range(i, j + 1):
                    m[k] = STR
                i = j + 1
                continue
            if i + 2 < n and text[i + 2] == "'":
                for k in range(i, i + 3):
                    m[k] = STR
                i += 3
                continue
            # multi-byte char literal like 'ñ' is a single python char, handled above.
            i += 1  # lifetime
            continue
        i += 1
    return m


OPEN = {'(': ')', '[': ']', '{': '}'}
CLOSE = {')': '(', ']': '[', '}': '{'}


def match_close(text, m, open_idx):
    """index of the bracket closing text[open_idx] (code chars only)."""
    o = text[open_idx]
    assert o in OPEN, (o, open_idx)
    depth = 0
    n = len(text)
    i = open_idx
    while i < n:
        if m[i] == CODE:
            c = text[i]
            if c in OPEN:
                depth += 1
            elif c in CLOSE:
                depth -= 1
                if depth == 0:
                    return i
        i += 1
    raise ValueError('unbalanced bracket at %d' % open_idx)


def code_find(text, m, needle, start=0, end=None):
    """find needle starting at a code char, all of needle's chars being code."""
    end = len(text) if end is None else end
    i = start
    while True:
        i = text.find(needle, i, end)
        if i < 0:
            return -1
        if all(m[k] == CODE for k in range(i, i + len(needle))):
            return i
        i += 1


def code_finditer(text, m, regex, start=0, end=None):
    end = len(text) if end is None else end
    for mm in regex.finditer(text, start, end):
        if m[mm.start()] == CODE:
            yield mm


def depth_at(text, m, idx, start=0):
    """brace depth ({ only) at idx counted from start."""
    d = 0
    for i in range(start, idx):
        if m[i] == CODE:
            if text[i] == '{':
                d += 1
            elif text[i] == '}':
                d -= 1
    return d


def line_of(text, idx):
    return text.count('\n', 0, idx) + 1
