"""Replay: after the verifier reports a failed obligation, try to exhibit a failing input on the real
code.  Verus gives no counterexample, so each property carries *recipes*: small crafted inputs derived
from the shape of the contract (ties, bounds equal to an entry time, ...) with an oracle taken from
the property statement.  They are run against the `s4` binary built from /repo's working tree.
A recipe that fails is attached to the replay file as the failing input; if none fails the VIOLATION
line ends with `no-failing-input-found`.  Recipes never decide a property: the verifier does.
"""
import json
import os
import re
import subprocess
import sys

ANSI = re.compile(rb'\x1b\[[0-9;]*m')


def build_s4(repo, log):
    """cargo build (debug, offline) of the working tree; returns path to the binary or None."""
    env = dict(os.environ, CARGO_NET_OFFLINE='true')
    try:
        p = subprocess.run(['cargo', 'build', '--offline', '--bin', 's4'], cwd=repo, env=env, capture_output=True, text=True, timeout=1800)
    except Exception as e:  # noqa
        log.append('cargo build failed to run: %s' % e)
        return None
    if p.returncode != 0:
        log.append('cargo build failed: ' + p.stderr[-1500:])
        return None
    b = os.path.join(repo, 'target', 'debug', 's4')
    return b if os.path.exists(b) else None


def run_s4(s4, args, cwd=None, timeout=120, stdin=None):
    p = subprocess.run([s4] + args, cwd=cwd, capture_output=True, timeout=timeout, input=stdin)
    return p.returncode, p.stdout, p.stderr


# ----------------------------------------------------------------------------------------------
# recipes: each returns dict(name, cmd, expected, observed, failed: bool, input: path)

def r_c08_equal_times(s4, repo, scratch):
    """two records with the same time value must both be printed, in file order"""
    src = os.path.join(repo, 'logs/programs/utmp/host-entry6.wtmp')
    d = bytearray(open(src, 'rb').read())
    esz = 384
    n = len(d) // esz
    d[esz + 340:esz + 348] = d[340:348]           # record 1 gets record 0's time value
    inp = os.path.join(scratch, 'c08_equal_times.wtmp')
    open(inp, 'wb').write(d)
    rc, out, err = run_s4(s4, ['--color', 'never', inp])
    lines = out.split(b'\n')
    lines = [l for l in lines if b'ut_type' in l]
    pids = [re.search(rb"ut_pid (\d+)", l).group(1).decode() if re.search(rb"ut_pid (\d+)", l) else '?' for l in lines]
    return {'name': 'C08.equal_times', 'input': inp, 'how_made': 'host-entry6.wtmp with bytes 340..348 of record 1 overwritten by those of record 0',
            'cmd': '%s --color never %s' % (s4, inp), 'expected': '%d records printed (one per non-null record)' % n,
            'observed': '%d lines; ut_pid sequence %s' % (len(lines), pids), 'failed': len(lines) != n}


def r_c08_order(s4, repo, scratch):
    """records are printed in time order even when stored out of order"""
    src = os.path.join(repo, 'logs/programs/utmp/host-entry6.wtmp')
    d = bytearray(open(src, 'rb').read())
    esz = 384
    recs = [d[i * esz:(i + 1) * esz] for i in range(len(d) // esz)]
    rev = b''.join(reversed(recs))
    inp = os.path.join(scratch, 'c08_reversed.wtmp')
    open(inp, 'wb').write(rev)
    rc1, out1, _ = run_s4(s4, ['--color', 'never', src])
    rc2, out2, _ = run_s4(s4, ['--color', 'never', inp])
    return {'name': 'C08.reversed_storage', 'input': inp, 'how_made': 'host-entry6.wtmp with its six records stored in reverse',
            'cmd': '%s --color never %s' % (s4, inp), 'expected': 'same output as the original file (time order)',
            'observed': 'identical' if out1 == out2 else 'differs: %r' % out2[:300], 'failed': out1 != out2 or not out1}


def r_c03_journal_before_inclusive(s4, repo, scratch):
    """a journal entry whose instant equals --dt-before is inside the window (both bounds inclusive)"""
    f = os.path.join(repo, 'logs/Ubuntu16/6c6ab73d82464b9493892c81fc732b3a/system.journal')
    x = '2023-12-15T23:51:09.163335+00:00'    # six entries of that file carry exactly this receive time
    def n(args):
        rc, out, err = run_s4(s4, ['--color', 'never'] + args + [f])
        return len([l for l in out.split(b'\n') if l])
    total, nb, na, nab = n([]), n(['-b', x]), n(['-a', x]), n(['-a', x, '-b', x])
    ok = total > 0 and nab >= 1 and nb + na - nab == total
    return {'name': 'C03.journal_before_inclusive', 'input': f, 'how_made': 'file from the repository; bound = receive time of six of its entries',
            'cmd': '%s --color never -a %s -b %s %s' % (s4, x, x, f),
            'expected': 'lines(-b X) + lines(-a X) - lines(-a X -b X) == lines() and lines(-a X -b X) >= 1',
            'observed': 'total=%d  -b X=%d  -a X=%d  -a X -b X=%d' % (total, nb, na, nab), 'failed': not ok}


def r_c13_field_order_fixedstruct(s4, repo, scratch):
    """file-name field before datetime field, for every colour setting (accounting records)"""
    f = os.path.join(repo, 'logs/programs/utmp/host-entry6.wtmp')
    rc1, out_never, _ = run_s4(s4, ['--color', 'never', '-n', '-u', f])
    rc2, out_always, _ = run_s4(s4, ['--color', 'always', '-n', '-u', f])
    plain = ANSI.sub(b'', out_always)
    l1 = [l.strip(b' \t\r\x00') for l in out_never.split(b'\n') if b'ut_type' in l]
    l2 = [l.strip(b' \t\r\x00') for l in plain.split(b'\n') if b'ut_type' in l]
    starts_with_file = all(l.startswith(b'host-entry6.wtmp') for l in l1)
    return {'name': 'C13.field_order_fixedstruct', 'input': f, 'how_made': 'file from the repository',
            'cmd': '%s --color never -n -u %s' % (s4, f),
            'expected': 'every line starts with the file-name field; identical to --color always with escapes removed',
            'observed': 'never: %r | always(stripped): %r' % (l1[0][:60] if l1 else b'', l2[0][:60] if l2 else b''),
            'failed': not (l1 and starts_with_file and l1 == l2)}


def r_c01_tie_order(s4, repo, scratch):
    """messages of different sources with the same instant are printed in the order the sources were named"""
    names = ['d', 'a', 'h', 'c', 'b', 'g', 'e', 'f']
    paths = []
    for n in names:
        p = os.path.join(scratch, 'c01_%s.log' % n)
        with open(p, 'w') as f:
            for sec in (1, 2, 3):
                f.write('2024-01-01 00:00:%02d +00:00 source %s message %d\n' % (sec, n, sec))
        paths.append(p)
    want = ''.join(n for sec in (1, 2, 3) for n in names)
    got_all = []
    ok = True
    for _ in range(4):
        rc, out, err = run_s4(s4, ['--color', 'never'] + paths)
        got = ''.join(l.split(b'source ')[1][:1].decode() for l in out.split(b'\n') if b'source ' in l)
        got_all.append(got)
        if got != want:
            ok = False
    return {'name': 'C01.tie_order', 'input': paths[0], 'how_made': 'eight text logs, each with three messages at the same three instants; named in the order d a h c b g e f',
            'cmd': '%s --color never %s' % (s4, ' '.join(paths)), 'expected': want, 'observed': ' | '.join(got_all), 'failed': not ok}


def r_c01_chronological(s4, repo, scratch):
    """the merge of chronological sources is chronological and keeps each source's order"""
    a = os.path.join(scratch, 'c01_x.log'); b = os.path.join(scratch, 'c01_y.log')
    with open(a, 'w') as f:
        for sec in (1, 4, 5, 9):
            f.write('2024-01-01 00:00:%02d +00:00 x %d\n' % (sec, sec))
    with open(b, 'w') as f:
        for sec in (2, 3, 5, 7, 8):
            f.write('2024-01-01 00:00:%02d +00:00 y %d\n' % (sec, sec))
    rc, out, err = run_s4(s4, ['--color', 'never', b, a])
    got = [l.split()[3].decode() + l.split()[4].decode() for l in out.split(b'\n') if l.strip()]
    want = ['x1', 'y2', 'y3', 'x4', 'y5', 'x5', 'y7', 'y8', 'x9']
    return {'name': 'C01.chronological', 'input': a, 'how_made': 'two interleaved text logs with one tie (second 5); y named first',
            'cmd': '%s --color never %s %s' % (s4, b, a), 'expected': ' '.join(want), 'observed': ' '.join(got), 'failed': got != want}


def r_c01_submillisecond(s4, repo, scratch):
    """instants that differ only below the millisecond are still merged in order"""
    a = os.path.join(scratch, 'c01_us_a.log'); b = os.path.join(scratch, 'c01_us_b.log')
    open(a, 'w').write('2024-01-01T00:00:00.000100+00:00 A1\n2024-01-01T00:00:00.000900+00:00 A2\n2024-01-01T00:00:00.002000+00:00 A3\n')
    open(b, 'w').write('2024-01-01T00:00:00.000500+00:00 B1\n2024-01-01T00:00:00.001500+00:00 B2\n2024-01-01T00:00:00.002000+00:00 B3\n')
    rc, out, err = run_s4(s4, ['--color', 'never', a, b])
    got = [l.split()[1].decode() for l in out.split(b'\n') if l.strip()]
    want = ['A1', 'B1', 'A2', 'B2', 'A3', 'B3']
    return {'name': 'C01.submillisecond', 'input': a, 'how_made': 'two text logs with microsecond timestamps interleaved inside one millisecond, plus one exact tie',
            'cmd': '%s --color never %s %s' % (s4, a, b), 'expected': ' '.join(want), 'observed': ' '.join(got), 'failed': got != want}


def r_c01_yearless_rollover_at_first_message(s4, repo, scratch):
    """a log without years whose year rolls over between its FIRST and second message is merged in order with a log that has years"""
    a = os.path.join(scratch, 'c01_yl_a.log'); b = os.path.join(scratch, 'c01_yl_b.log')
    open(a, 'w').write('Dec 31 23:59:58 hostA app[1]: A1 old year\nJan  1 00:00:01 hostA app[1]: A2 new year\nJan  1 00:00:02 hostA app[1]: A3 new year\n')
    open(b, 'w').write('2024-01-01 00:00:00 +0000 hostB B1 hello\n2024-01-01 00:00:03 +0000 hostB B2 hello\n')
    mt = 1704110400  # 2024-01-01 12:00:00 UTC
    os.utime(a, (mt, mt)); os.utime(b, (mt, mt))
    rc, out, err = run_s4(s4, ['--color', 'never', '-t', '+00:00', a, b])
    got = [w.decode() for l in out.split(b'\n') if l.strip() for w in l.split() if re.fullmatch(rb'[AB][0-9]', w)]
    want = ['A1', 'B1', 'A2', 'A3', 'B2']
    return {'name': 'C01.yearless_rollover_at_first_message', 'input': a, 'how_made': 'three syslog lines without a year (Dec 31, Jan 1, Jan 1; file mtime 2024-01-01 12:00 UTC) and a log with explicit 2024-01-01 stamps',
            'cmd': '%s --color never -t +00:00 %s %s' % (s4, a, b), 'expected': ' '.join(want), 'observed': ' '.join(got), 'failed': got != want}


def r_c01_stdin_paths_position(s4, repo, scratch):
    """paths read from standard input ("-") are sources named at the position of the "-": ties go a, b (stdin), c"""
    names = {}
    for n in 'abc':
        names[n] = os.path.join(scratch, 'c01_stdin_%s.log' % n)
        open(names[n], 'w').write('2024-01-01T00:00:00+00:00 %s1\n2024-01-01T00:00:01+00:00 %s2\n' % (n.upper(), n.upper()))
    rc, out, err = run_s4(s4, ['--color', 'never', names['a'], '-', names['c']], stdin=(names['b'] + '\n').encode())
    got = [l.split()[1].decode() for l in out.split(b'\n') if l.strip()]
    want = ['A1', 'B1', 'C1', 'A2', 'B2', 'C2']
    return {'name': 'C01.stdin_paths_position', 'input': names['a'], 'how_made': 'three two-line logs with the same two instants; b.log is named on standard input',
            'cmd': "printf '%s\\n' | %s --color never %s - %s" % (names['b'], s4, names['a'], names['c']), 'expected': ' '.join(want), 'observed': ' '.join(got), 'failed': got != want}


def r_c08_compressed_returns_to_earlier_block(s4, repo, scratch):
    """a gzip'd wtmp that spans several blocks and stores records out of time order prints the same as the plain file"""
    import gzip
    src = os.path.join(repo, 'logs/programs/utmp/host-entry6.wtmp')
    d = open(src, 'rb').read() * 70       # 420 records, 161280 bytes: three 64 KiB blocks, time order returns to block 0
    plain = os.path.join(scratch, 'c08_big.wtmp'); gz = os.path.join(scratch, 'c08_big.wtmp.gz')
    open(plain, 'wb').write(d); open(gz, 'wb').write(gzip.compress(d, mtime=0))
    rc1, want, _ = run_s4(s4, ['--color', 'never', plain])
    rc2, got, _ = run_s4(s4, ['--color', 'never', gz])
    return {'name': 'C08.compressed_returns_to_earlier_block', 'input': gz, 'how_made': 'host-entry6.wtmp repeated 70 times (420 records), gzip',
            'cmd': '%s --color never %s' % (s4, gz), 'expected': 'the %d lines printed for the plain file' % want.count(b'\n'),
            'observed': 'identical' if got == want else '%d lines (%d bytes)' % (got.count(b'\n'), len(got)), 'failed': got != want}


def r_c11_years_across_two_new_years(s4, repo, scratch):
    """a year-less log that spans two new years: the last message gets the year of the modification time, the year steps back at each wrap"""
    inp = os.path.join(scratch, 'c11_years.log')
    rows = [('Nov 30 10:00:00', 2022), ('Dec 31 23:59:58', 2022), ('Jan  1 00:00:01', 2023), ('Jun 15 12:00:00', 2023),
            ('Dec 31 23:00:00', 2023), ('Jan  1 00:30:00', 2024), ('Jan  2 08:00:00', 2024)]
    open(inp, 'w').write(''.join('%s hostA app[1]: message %d\n' % (t, i + 1) for i, (t, y) in enumerate(rows)))
    mt = 1704196800  # 2024-01-02 12:00:00 UTC
    os.utime(inp, (mt, mt))
    rc, out, err = run_s4(s4, ['--color', 'never', '-t', '+00:00', '-u', '-d', '%Y', inp])
    got = [l[:4].decode('ascii', 'replace') for l in out.split(b'\n') if l.strip()]
    want = [str(y) for t, y in rows]
    return {'name': 'C11.years_across_two_new_years', 'input': inp, 'how_made': 'seven syslog lines without a year, Nov 30 .. Jan 2 over two new years; file mtime 2024-01-02 12:00 UTC',
            'cmd': "%s --color never -t +00:00 -u -d %%Y %s" % (s4, inp), 'expected': ' '.join(want), 'observed': ' '.join(got), 'failed': got != want}


def r_c14_documented_forms(s4, repo, scratch):
    """-a / -b forms: a bare date is midnight in the --tz-offset zone, '@+2h' is relative to the other bound, '+epoch' is an instant, an inverted window is refused"""
    inp = os.path.join(scratch, 'c14_hours.log')
    lines = ['2024-01-%02dT%02d:00:00+00:00 hour %02d\n' % (1 + h // 24, h % 24, h) for h in range(48)]
    open(inp, 'w').write(''.join(lines))
    bad = None
    def hours(out):
        return [int(l.split()[-1]) for l in out.decode().splitlines() if l.strip()]
    cases = [(['-t=+00:00', '-a', '20240102'], list(range(24, 48))),
             (['-t=-02:00', '-a', '20240102'], list(range(26, 48))),
             (['-t=+00:00', '-a', '20240101T120000', '-b', '@+2h'], [12, 13, 14]),
             (['-t=+00:00', '-b', '20240101T120000', '-a', '@-2h'], [10, 11, 12]),
             (['-t=-08:00', '-a', '+1704110400'], list(range(12, 48))),
             (['-t=+00:00', '-a', '20240101T120000', '-b', '20240101T120000'], [12])]
    for args, want in cases:
        rc, out, err = run_s4(s4, ['--color', 'never'] + args + [inp])
        if hours(out) != want:
            bad = bad or (' '.join(args), want[:3] + ['..'] + want[-1:], hours(out)[:4])
    rc, out, err = run_s4(s4, ['--color', 'never', '-t=+00:00', '-a', '20240102', '-b', '20240101', inp])
    if rc == 0 or out:
        bad = bad or ('-a 20240102 -b 20240101', 'non-zero exit, nothing printed', 'rc=%d, %d bytes' % (rc, len(out)))
    rc, out, err = run_s4(s4, ['--color', 'never', '-t=+00:00', '-a', 'not-a-date', inp])
    if rc == 0 or out:
        bad = bad or ('-a not-a-date', 'non-zero exit, nothing printed', 'rc=%d, %d bytes' % (rc, len(out)))
    return {'name': 'C14.documented_forms', 'input': inp, 'how_made': '48 hourly lines from 2024-01-01T00:00:00+00:00',
            'cmd': '%s --color never -t <zone> -a <value> [-b <value>] %s' % (s4, inp), 'expected': 'the hours inside each documented window; refusal of inverted / unparseable values',
            'observed': 'as expected' if not bad else 'with %s expected %s, got %s' % bad, 'failed': bool(bad)}


def r_c14_relative_to_program_start(s4, repo, scratch):
    """'-1h' means one hour before program start, whatever --tz-offset is"""
    import time, datetime
    inp = os.path.join(scratch, 'c14_now.log')
    now = int(time.time())
    rows = [(now - 8 * 3600, 'eight hours ago'), (now - 3 * 3600, 'three hours ago'), (now - 1800, 'half an hour ago')]
    open(inp, 'w').write(''.join('%s %s\n' % (datetime.datetime.fromtimestamp(t, datetime.timezone.utc).strftime('%Y-%m-%dT%H:%M:%S+00:00'), m) for t, m in rows))
    bad = None
    for tz in ('+00:00', '+05:00', '-05:00', '+09:30'):
        for args, want in ((['--dt-after=-1h'], 1), (['--dt-after=-4h', '--dt-before=-1h'], 1), (['--dt-after=-9h'], 3)):
            rc, out, err = run_s4(s4, ['--color', 'never', '-t=' + tz] + args + [inp])
            got = len([l for l in out.split(b'\n') if l.strip()])
            if got != want:
                bad = bad or ('-t=%s %s' % (tz, ' '.join(args)), want, got)
    return {'name': 'C14.relative_to_program_start', 'input': inp, 'how_made': 'three lines stamped 8 h, 3 h and 30 min before the recipe ran (zone +00:00)',
            'cmd': '%s --color never -t=<zone> --dt-after=-1h %s' % (s4, inp), 'expected': 'the same messages for every --tz-offset',
            'observed': 'as expected' if not bad else 'with %s expected %d message(s), got %d' % bad, 'failed': bool(bad)}


def r_c11_backwards_between_25_and_26_hours(s4, repo, scratch):
    """time running backwards by more than 25 hours (here 25.5 h) is a year step; by 24.5 h it is not (the project's documented threshold)"""
    bad = None
    for name, rows in (('c11_25h30.log', [('Mar  5 12:00:00', 2023), ('Mar  4 10:30:00', 2024)]), ('c11_24h30.log', [('Mar  5 12:00:00', 2024), ('Mar  4 11:30:00', 2024)])):
        inp = os.path.join(scratch, name)
        open(inp, 'w').write(''.join('%s hostA app[1]: message %d\n' % (t, i + 1) for i, (t, y) in enumerate(rows)))
        mt = 1709640000  # 2024-03-05 12:00:00 UTC
        os.utime(inp, (mt, mt))
        rc, out, err = run_s4(s4, ['--color', 'never', '-t=+00:00', '-u', '-d', '%Y', inp])
        got = [l[:4].decode('ascii', 'replace') for l in out.split(b'\n') if l.strip()]
        want = [str(y) for t, y in rows]
        if got != want:
            bad = bad or (name, ' '.join(want), ' '.join(got))
    return {'name': 'C11.backwards_between_25_and_26_hours', 'input': os.path.join(scratch, 'c11_25h30.log'), 'how_made': 'two-line logs without a year whose second message lies 25.5 h / 24.5 h before the first; mtime 2024-03-05',
            'cmd': '%s --color never -t=+00:00 -u -d %%Y <file>' % s4, 'expected': '2023 2024 for the 25.5 h step, 2024 2024 for the 24.5 h step',
            'observed': 'as expected' if not bad else 'for %s expected %s, got %s' % bad, 'failed': bool(bad)}


def r_c01_directory_sources_in_sorted_order(s4, repo, scratch):
    """the files of a walked directory are sources in sorted path order: ties go z (named first), then a, b, c"""
    d = os.path.join(scratch, 'c01_dir'); os.makedirs(d, exist_ok=True)
    z = os.path.join(scratch, 'c01_z.log')
    for path, n in [(z, 'Z')] + [(os.path.join(d, '%s.log' % c), c.upper()) for c in 'abc']:
        open(path, 'w').write('2024-01-01T00:00:00+00:00 %s1\n2024-01-01T00:00:01+00:00 %s2\n' % (n, n))
    rc, out, err = run_s4(s4, ['--color', 'never', z, d])
    got = [l.split()[1].decode() for l in out.split(b'\n') if l.strip()]
    want = ['Z1', 'A1', 'B1', 'C1', 'Z2', 'A2', 'B2', 'C2']
    return {'name': 'C01.directory_sources_in_sorted_order', 'input': d, 'how_made': 'z.log and a directory holding a.log, b.log, c.log, all with the same two instants',
            'cmd': '%s --color never %s %s' % (s4, z, d), 'expected': ' '.join(want), 'observed': ' '.join(got), 'failed': got != want}


def r_c03_evtx_window(s4, repo, scratch):
    """an event log stored out of order: every record with creation time <= B is printed under --dt-before B"""
    f = os.path.join(repo, 'logs/programs/evtx/Microsoft-Windows-Kernel-PnP%4Configuration.evtx')
    rx = re.compile(rb'SystemTime="([^"]*)"')
    rc, out, err = run_s4(s4, ['--color', 'never', f])
    all_ts = [m.decode() for m in rx.findall(out)]
    bad = []
    for b in ('2023-03-16T03:00:00', '2023-03-10T03:49:43', '2023-03-16T03:54:33'):
        rc, o2, err = run_s4(s4, ['--color', 'never', '-b', b + '+00:00', f])
        got = len(rx.findall(o2))
        want = len([t for t in all_ts if t <= b + '.000000Z'])
        if got != want:
            bad.append('%s: printed %d, expected %d' % (b, got, want))
    return {'name': 'C03.evtx_window', 'input': f, 'how_made': 'file from the repository (stores records 204, 205 after later ones)',
            'cmd': '%s --color never -b 2023-03-16T03:00:00+00:00 %s' % (s4, f), 'expected': 'for each bound B: records printed == records of the unfiltered run with creation time <= B',
            'observed': '; '.join(bad) if bad else 'all bounds agree (%d records in total)' % len(all_ts), 'failed': bool(bad) or not all_ts}


def r_c04_instants(s4, repo, scratch):
    """lines in common notations with a four-digit year: the attributed instant is the written one, wherever the year sits in the line"""
    shapes = [
        "{Y}-{m}-{d} {H}:{M}:{S} msg", "[{Y}-{m}-{d} {H}:{M}:{S}] msg", "{Y}-{m}-{d}T{H}:{M}:{S}Z msg", "INFO {Y}-{m}-{d} {H}:{M}:{S} msg",
        "ERROR: {Y}/{m}/{d} {H}:{M}:{S} msg", "host.example: {Y}-{m}-{d} {H}:{M}:{S} msg", "[ERROR] {Y}-{m}-{d}T{H}:{M}:{S} msg",
        "abc def ghi {Y}-{m}-{d} {H}:{M}:{S} msg", "<6>abcdefghi jklmnopq {Y}-{m}-{d} {H}:{M}:{S} msg",
    ]
    bad = []
    n = 0
    first_inp = None
    for si, sh in enumerate(shapes):
        for (Y, m, d) in [(1970, '03', '04'), (1999, '09', '30'), (2000, '03', '03'), (2038, '06', '09'), (2099, '08', '07')]:
            inp = os.path.join(scratch, 'c04_s%d_%d.log' % (si, Y))
            want = []
            with open(inp, 'w') as f:
                for k, (H, M, S) in enumerate([('00', '00', '00'), ('03', '04', '05'), ('09', '40', '53')]):
                    f.write(sh.format(Y=Y, m=m, d=d, H=H, M=M, S=S) + ' %d\n' % k)
                    want.append('%d%s%sT%s%s%s' % (Y, m, d, H, M, S))
            first_inp = first_inp or inp
            rc, out, err = run_s4(s4, ['--color', 'never', '-u', '-d', '%Y%m%dT%H%M%S', '--tz-offset', '+00:00', inp])
            got = [l.split(b':', 1)[0].decode('ascii', 'replace') for l in out.split(b'\n') if l]
            n += 1
            if got != want:
                bad.append((inp, want, got))
    return {'name': 'C04.instants_with_year4', 'input': bad[0][0] if bad else first_inp,
            'how_made': '%d generated files, 9 line shapes x 5 years, three lines each' % n,
            'cmd': '%s --color never -u -d %%Y%%m%%dT%%H%%M%%S --tz-offset +00:00 <file>' % s4,
            'expected': 'the field before the first ":" of every line is the instant written in the line',
            'observed': 'all as written' if not bad else 'file %s: expected %s, printed %s' % bad[0], 'failed': bool(bad)}


def r_c13_align_widest_printed(s4, repo, scratch):
    """aligned names are padded to the widest PRINTED name: a source that prints nothing must not widen the field"""
    d = os.path.join(scratch, 'c13_align')
    os.makedirs(d, exist_ok=True)
    a = os.path.join(d, 'a.log')
    b = os.path.join(d, 'a_much_longer_file_name.log')
    open(a, 'w').write('2020-01-02 00:00:01 a one\n2020-01-02 00:00:02 a two\n    continuation of a two\n2020-01-02 00:00:03 a three\n')
    open(b, 'w').write('2019-06-01 00:00:01 old one\n2019-06-01 00:00:02 old two\n2019-06-01 00:00:03 old three\n')
    flt = ['-a', '2020-01-01 00:00:00', '-t', '+00:00']
    rc1, plain, _ = run_s4(s4, ['--color', 'never'] + flt + [a, b])
    bad = None
    for opt, name in (('--prepend-filename', 'a.log'), ('--prepend-filepath', a)):
        rc2, deco, _ = run_s4(s4, ['--color', 'never'] + flt + [opt, '--prepend-file-align', a, b])
        pre = (name + ':').encode()
        stripped = b''.join((l[len(pre):] if l.startswith(pre) else b'<<' + l) for l in deco.splitlines(True))
        if stripped != plain or not plain:
            bad = bad or (opt, deco[:200])
    return {'name': 'C13.align_widest_printed', 'input': d,
            'how_made': 'a.log (3 messages inside the window) and a_much_longer_file_name.log (all messages before -a)',
            'cmd': '%s --color never -a "2020-01-01 00:00:00" -t +00:00 --prepend-filename|--prepend-filepath --prepend-file-align %s %s' % (s4, a, b),
            'expected': 'every line starts with the printed file\'s own name (no padding: it is the widest printed name) and ":"; removing it leaves the undecorated output',
            'observed': 'as expected' if not bad else 'with %s: %r' % bad, 'failed': bool(bad)}


def r_c04_fractions(s4, repo, scratch):
    """1 to 9 fractional digits are kept as written"""
    inp = os.path.join(scratch, 'c04_fractions.log')
    want = []
    digs = '123456789'
    with open(inp, 'w') as f:
        for k in range(1, 10):
            f.write('2000-01-02T03:04:%02d.%sZ fraction with %d digits\n' % (k, digs[:k], k))
            want.append('030400'[:4] + '%02d.%s' % (k, (digs[:k] + '000000000')[:9]))
    rc, out, err = run_s4(s4, ['--color', 'never', '-u', '-d', '%H%M%S%.9f', '--tz-offset', '+00:00', inp])
    got = [l.split(b':', 1)[0].decode('ascii', 'replace') for l in out.split(b'\n') if l]
    bad = [(w, g) for w, g in zip(want, got) if w != g] or ([('%d lines' % len(want), '%d lines' % len(got))] if len(got) != len(want) else [])
    return {'name': 'C04.fraction_digits', 'input': inp, 'how_made': 'nine lines 2000-01-02T03:04:SS.<1..9 digits>Z',
            'cmd': '%s --color never -u -d %%H%%M%%S%%.9f --tz-offset +00:00 %s' % (s4, inp),
            'expected': 'printed fraction = written digits padded with 0 to nine',
            'observed': 'all as written' if not bad else 'expected %s, printed %s' % bad[0], 'failed': bool(bad)}


def r_c03_yearless_tie_at_after(s4, repo, scratch):
    """a log without years: every message whose instant equals --dt-after is inside the window (ties included)"""
    inp = os.path.join(scratch, 'c03_yearless.log')
    ts = ['09:59:58', '09:59:59', '10:00:00', '10:00:00', '10:00:00', '10:00:01', '10:00:02', '10:00:03', '10:00:04', '10:00:05', '10:00:06', '10:00:07']
    lines = ['Mar  3 %s host1 app[100]: message %02d\n' % (t, i + 1) for i, t in enumerate(ts)]
    open(inp, 'w').write(''.join(lines))
    mt = 1614772800  # 2021-03-03 12:00:00 UTC
    os.utime(inp, (mt, mt))
    bad = None
    for args, first, last in ((['-a', '2021-03-03T10:00:00'], 3, 12), (['-a', '2021-03-03T10:00:00', '-b', '2021-03-03T10:00:04'], 3, 9),
                              (['-a', '2021-03-03T10:00:00', '-b', '2021-03-03T10:00:00'], 3, 5), (['-a', '2021-03-03T10:00:01'], 6, 12)):
        rc, out, err = run_s4(s4, ['--color', 'never', '-t', '+00:00'] + args + [inp])
        want = ''.join(lines[first - 1:last]).encode()
        if out != want:
            bad = bad or (' '.join(args), 'messages %d..%d' % (first, last), out.decode('utf-8', 'replace')[:400])
    return {'name': 'C03.yearless_tie_at_after', 'input': inp, 'how_made': '12 syslog lines without a year, three of them at Mar 3 10:00:00; file mtime 2021-03-03 12:00 UTC',
            'cmd': '%s --color never -t +00:00 -a 2021-03-03T10:00:00 [-b ..] %s' % (s4, inp),
            'expected': 'exactly the messages with A <= t <= B, all three tied messages included',
            'observed': 'as expected' if not bad else 'with %s expected %s, printed %r' % bad, 'failed': bool(bad)}


def r_c02_continuation_at_block_boundary(s4, repo, scratch):
    """a continuation line that starts on the first byte of a block and is longer than the block still belongs to its message"""
    bad = None
    first_inp = None
    for bsz in (64, 0x10000):
        inp = os.path.join(scratch, 'c02_boundary_%d.log' % bsz)
        m1 = b'2020-01-01 00:00:00 first message\n'
        m2a = b'2020-01-01 00:00:01 second message begins\n'
        if bsz == 64:
            m1 = b''
            m2a = b'2020-01-01 00:00:01 second message '
        m2b = b'' if bsz == 64 else b'    continuation A '
        pad = bsz - 1 - len(m1) - len(m2a) - len(m2b)
        head = m1 + m2a + m2b + b'.' * pad + b'\n'
        assert len(head) == bsz
        body = head + b'    continuation B ' + b'x' * (bsz + 40) + b'\n' + b'2020-01-01 00:00:02 third message\n2020-01-01 00:00:03 fourth message\n'
        open(inp, 'wb').write(body)
        first_inp = first_inp or inp
        args = ['--color', 'never'] + (['--blocksz', '64'] if bsz == 64 else []) + [inp]
        rc, out, err = run_s4(s4, args)
        if out != body:
            bad = bad or (inp, len(body), len(out))
    return {'name': 'C02.continuation_at_block_boundary', 'input': bad[0] if bad else first_inp,
            'how_made': 'a message whose first part fills block 0 exactly, followed by a continuation line longer than a block; block sizes 64 and 65536',
            'cmd': '%s --color never [--blocksz 64] <file>' % s4, 'expected': 'output byte-identical to the file',
            'observed': 'identical' if not bad else 'file %s has %d bytes, printed %d bytes' % bad, 'failed': bool(bad)}


def r_c13_evtx_prepend_file_only(s4, repo, scratch):
    """event-log messages with only the file-name field prepended: every line gets `name:`, nothing else changes"""
    src = os.path.join(repo, 'logs/programs/evtx/Microsoft-Windows-Kernel-PnP%4Configuration.evtx')
    rc1, plain, _ = run_s4(s4, ['--color', 'never', src])
    rc2, deco, err = run_s4(s4, ['--color', 'never', '-n', src])
    pre = (os.path.basename(src) + ':').encode()
    stripped = b''.join((l[len(pre):] if l.startswith(pre) else b'<<' + l) for l in deco.splitlines(True))
    bad = rc2 != 0 or stripped != plain or not plain
    obs = 'as expected' if not bad else ('exit status %d, %d bytes printed; stderr tail: %s' % (rc2, len(deco), err.decode('utf-8', 'replace').strip().split('\n')[0][:200] if rc2 else 'output differs'))
    return {'name': 'C13.evtx_prepend_file_only', 'input': src, 'how_made': 'file from the repository',
            'cmd': '%s --color never -n %s' % (s4, src), 'expected': 'exit 0; removing "<file name>:" from every line leaves the output of the run without -n',
            'observed': obs, 'failed': bool(bad)}


def r_c02_mixed_notation_first_message(s4, repo, scratch):
    """a continuation line that carries a timestamp in another notation: the file is still printed byte for byte"""
    bad = None
    first = None
    for i, second in enumerate(('    peer: 2024/03/01 10:00:04 connection reset', '2024/03/01 10:00:04 peer says hello from another log')):
        inp = os.path.join(scratch, 'c02_mixed_%d.log' % i)
        body = ('2024-03-01T10:00:00+00:00 host1 app[12]: alpha upstream failed, peer said:\n' + second + '\n'
                '2024-03-01T10:00:05+00:00 host1 app[12]: bravo second message\n2024-03-01T10:00:09+00:00 host1 app[12]: charlie third message\n').encode()
        open(inp, 'wb').write(body)
        first = first or inp
        rc, out, err = run_s4(s4, ['--color', 'never', inp])
        if out != body:
            bad = bad or (inp, out.decode('utf-8', 'replace')[:300])
    return {'name': 'C02.mixed_notation_first_message', 'input': bad[0] if bad else first,
            'how_made': 'four-line RFC 3339 log whose second line holds a timestamp in the YYYY/MM/DD notation (block zero sees two patterns and re-parses)',
            'cmd': '%s --color never <file>' % s4, 'expected': 'output byte-identical to the file',
            'observed': 'identical' if not bad else 'file %s printed as %r' % bad, 'failed': bool(bad)}


def r_c08_smallest_layout_single_record(s4, repo, scratch):
    """a file holding exactly one record of the smallest supported layout (NetBSD lastlog, 32 bytes) is printed"""
    import struct
    d = os.path.join(scratch, 'c08_one')
    os.makedirs(d, exist_ok=True)
    inp = os.path.join(d, 'lastlog')
    open(inp, 'wb').write(struct.pack('<q8s16s', 1700000000, b'pts/0', b'192.168.1.5'))
    rc, out, err = run_s4(s4, ['--color', 'never', '--tz-offset', '+00:00', inp])
    got = out.replace(b'\0', b'').decode('utf-8', 'replace').strip()
    want = "ll_time 1700000000 ll_line 'pts/0' ll_host '192.168.1.5'"
    return {'name': 'C08.smallest_layout_single_record', 'input': inp, 'how_made': 'struct lastlog {int64 ll_time; char ll_line[8]; char ll_host[16]} with one record',
            'cmd': '%s --color never --tz-offset +00:00 %s' % (s4, inp), 'expected': want, 'observed': got or '<nothing>', 'failed': got != want}


def r_c04_month_abbreviation_with_dot(s4, repo, scratch):
    """RFC 2822-like lines with an abbreviated month followed by a dot: every month, the instant written"""
    bad = None
    first = None
    names = ['Jan', 'Feb', 'Mar', 'Apr', 'May', 'Jun', 'Jul', 'Aug', 'Sep', 'Oct', 'Nov', 'Dec']
    for i, nm in enumerate(names):
        inp = os.path.join(scratch, 'c04_mon_%02d.log' % (i + 1))
        open(inp, 'w').write('Sun, 03 %s. 2000 00:00:00 +0000 msg one\nSun, 03 %s. 2000 00:00:03 +0000 msg two\n' % (nm, nm))
        first = first or inp
        rc, out, err = run_s4(s4, ['--color', 'never', '-u', '-d', '%Y%m%dT%H%M%S', inp])
        got = [l.split(b':', 1)[0].decode('ascii', 'replace') for l in out.split(b'\n') if l]
        want = ['2000%02d03T000000' % (i + 1), '2000%02d03T000003' % (i + 1)]
        if rc != 0 or got != want:
            tail = [l for l in err.decode('utf-8', 'replace').split('\n') if 'panicked' in l or 'unexpected month' in l][:2]
            bad = bad or (inp, rc, got, ' / '.join(tail))
    return {'name': 'C04.month_abbreviation_with_dot', 'input': bad[0] if bad else first, 'how_made': 'twelve files "Sun, 03 <Mon>. 2000 00:00:0x +0000 msg"',
            'cmd': '%s --color never -u -d %%Y%%m%%dT%%H%%M%%S <file>' % s4, 'expected': 'exit 0 and the written instant before each line',
            'observed': 'all as written' if not bad else 'file %s: exit %d, printed %s; %s' % bad, 'failed': bool(bad)}


def r_c19_summary_bytes_match_stdout(s4, repo, scratch):
    """--summary: total and per-file 'Printed bytes' equal the bytes written to stdout, for every prepend combination"""
    import re as _re
    bad = None
    wtmp = os.path.join(repo, 'logs/programs/utmp/host-entry6.wtmp')
    txt = os.path.join(scratch, 'c19_text.log')
    open(txt, 'w').write('2024-01-01 00:00:01 +00:00 first\n    continuation\n2024-01-01 00:00:02 +00:00 second\n2024-01-01 00:00:03 +00:00 third, no newline at the end')
    for inp in (wtmp, txt):
        for opts in ([], ['-n'], ['-u'], ['-n', '-u'], ['-n', '-u', '--separator', 'XYZ']):
            rc, out, err = run_s4(s4, ['--color', 'never', '--summary'] + opts + [inp])
            e = err.decode('utf-8', 'replace')
            tot = _re.findall(r'(?m)^Printed bytes\s*:\s*(\d+)', e)
            per = _re.findall(r'(?m)^  Printed:\s*\n\s*bytes\s*:\s*(\d+)', e)
            seps = opts.count('--separator') and len(out.split(b'XYZ')) - 1
            ok = tot and int(tot[-1]) == len(out) and per and int(per[-1]) + 3 * seps + (1 if (inp == txt) else 0) == len(out)
            if not ok:
                bad = bad or (inp, ' '.join(opts), len(out), tot[-1:] or ['?'], per[-1:] or ['?'])
    return {'name': 'C19.summary_bytes_match_stdout', 'input': bad[0] if bad else wtmp, 'how_made': 'host-entry6.wtmp from the repository and a generated 3-message text log without final newline',
            'cmd': '%s --color never --summary [-n] [-u] [--separator XYZ] <file>' % s4,
            'expected': 'total Printed bytes = bytes on stdout; per-file bytes + separators + supplied newline = the same',
            'observed': 'all equal' if not bad else 'file %s options [%s]: stdout %d bytes, summary total %s, per-file %s' % bad, 'failed': bool(bad)}


def r_c13_prependdate_lines_in_parts(s4, repo, scratch):
    """datetime field only, lines longer than the block: the field appears once per line"""
    inp = os.path.join(scratch, 'c13_parts.log')
    body = ''.join('2024-01-01 00:00:%02d +00:00 %s line %d\n%s' % (i, 'x' * 10, i, ('    continuation of %d %s\n' % (i, 'y' * 80)) if i % 2 else '') for i in range(1, 9))
    open(inp, 'w').write(body)
    rc1, plain, _ = run_s4(s4, ['--color', 'never', '--blocksz', '64', inp])
    rc2, deco, _ = run_s4(s4, ['--color', 'never', '--blocksz', '64', '-u', '-d', '%Y%m%dT%H%M%S', inp])
    out = []
    ok = True
    for l in deco.splitlines(True):
        if len(l) > 16 and l[8:9] == b'T' and l[15:16] == b':':
            out.append(l[16:])
        else:
            ok = False
            out.append(l)
    ok = ok and b''.join(out) == plain and plain == body.encode()
    return {'name': 'C13.prependdate_lines_in_parts', 'input': inp, 'how_made': '8 messages, every second one with an 80-byte continuation line; --blocksz 64 so that lines are held in several parts',
            'cmd': '%s --color never --blocksz 64 -u -d %%Y%%m%%dT%%H%%M%%S %s' % (s4, inp), 'expected': 'every line = 15-character datetime field, ":", then the undecorated line',
            'observed': 'as expected' if ok else 'differs: %r' % deco[:300], 'failed': not ok}


def r_c12_first_line_longer_than_block(s4, repo, scratch):
    """a first line longer than the block size: the file is printed as at any other block size"""
    inp = os.path.join(scratch, 'c12_long_first_line.log')
    body = ('2024-01-01 00:00:01 +00:00 ' + 'a' * 90 + '\n2024-01-01 00:00:02 +00:00 short\n').encode()
    open(inp, 'wb').write(body)
    bad = None
    for b in ('64', '72', '100', '128', '4096'):
        rc, out, err = run_s4(s4, ['--color', 'never', '--blocksz', b, inp])
        if out != body:
            bad = bad or (b, len(out))
    # this input is the one of known finding D6: it is evidence only for the obligation that finding names
    return {'name': 'C12.first_line_longer_than_block', 'input': inp, 'how_made': 'two messages, the first line 118 bytes long',
            'only_for_obligation': "r.0 ==> r.2 as int == bptr_middle@.len() - 1",
            'cmd': '%s --color never --blocksz 64|72|100|128|4096 %s' % (s4, inp), 'expected': 'the %d bytes of the file at every block size' % len(body),
            'observed': 'identical at every block size' if not bad else '--blocksz %s prints %d bytes' % bad, 'failed': bool(bad)}


def _xxh32(data, seed=0):
    P1, P2, P3, P4, P5 = 2654435761, 2246822519, 3266489917, 668265263, 374761393
    M = 0xFFFFFFFF
    rotl = lambda x, r: ((x << r) | (x >> (32 - r))) & M
    n = len(data); i = 0
    if n >= 16:
        v = [(seed + P1 + P2) & M, (seed + P2) & M, seed & M, (seed - P1) & M]
        while i <= n - 16:
            for k in range(4):
                w = int.from_bytes(data[i:i + 4], 'little'); i += 4
                v[k] = (rotl((v[k] + w * P2) & M, 13) * P1) & M
        h = (rotl(v[0], 1) + rotl(v[1], 7) + rotl(v[2], 12) + rotl(v[3], 18)) & M
    else:
        h = (seed + P5) & M
    h = (h + n) & M
    while i <= n - 4:
        h = (rotl((h + int.from_bytes(data[i:i + 4], 'little') * P3) & M, 17) * P4) & M; i += 4
    while i < n:
        h = (rotl((h + data[i] * P5) & M, 11) * P1) & M; i += 1
    h ^= h >> 15; h = (h * P2) & M; h ^= h >> 13; h = (h * P3) & M; h ^= h >> 16
    return h


def _lz4_frame_stored(data, block=65536):
    """an LZ4 frame whose blocks are stored uncompressed (valid LZ4; needs no compressor): 64 KiB blocks, independent, no checksums"""
    desc = bytes([0x60, 0x40])
    out = bytearray(b'\x04\x22\x4d\x18' + desc + bytes([(_xxh32(desc) >> 8) & 0xFF]))
    for i in range(0, len(data), block):
        chunk = data[i:i + block]
        out += (len(chunk) | 0x80000000).to_bytes(4, 'little') + chunk
    out += (0).to_bytes(4, 'little')
    return bytes(out)


def r_c12_lz4_block_boundaries(s4, repo, scratch):
    """an LZ4 file whose 64 KiB LZ4 blocks do not line up with the read block size prints the same as the plain file"""
    lines = ['2024-01-01T00:%02d:%02d.%03d+00:00 host app[1]: message number %06d %s\n' % ((i // 60) % 60, i % 60, i % 1000, i, 'x' * (i % 37)) for i in range(2500)]
    body = ''.join(lines).encode()
    inp = os.path.join(scratch, 'c12_blocks.log.lz4')
    open(inp, 'wb').write(_lz4_frame_stored(body))
    bad = None
    for b in ('0x10000', '1000', '33333', '0x40000'):
        rc, out, err = run_s4(s4, ['--color', 'never', '--blocksz', b, inp])
        if out != body:
            first = next((k for k in range(min(len(out), len(body))) if out[k] != body[k]), min(len(out), len(body)))
            bad = bad or (b, len(out), first, out.count(b'\0'))
    return {'name': 'C12.lz4_block_boundaries', 'input': inp, 'how_made': '2500 timestamped lines (%d bytes) as an LZ4 frame of stored 64 KiB blocks' % len(body),
            'cmd': '%s --color never --blocksz 0x10000|1000|33333|0x40000 %s' % (s4, inp), 'expected': 'the %d bytes of the data at every block size' % len(body),
            'observed': 'identical at every block size' if not bad else '--blocksz %s prints %d bytes, first difference at byte %d, %d NUL bytes' % bad, 'failed': bool(bad)}


def r_c12_gz_short_reads(s4, repo, scratch):
    """a gzip file larger than the decoder's 32 KiB window prints the same at every block size"""
    import gzip
    lines = ['2024-01-01T00:%02d:%02d.%03d+00:00 host app[1]: message number %06d %s\n' % ((i // 60) % 60, i % 60, i % 1000, i, 'y' * (i % 41)) for i in range(2500)]
    body = ''.join(lines).encode()
    inp = os.path.join(scratch, 'c12_short_reads.log.gz')
    open(inp, 'wb').write(gzip.compress(body, mtime=0))
    bad = None
    for b in ('0x10000', '256', '1000', '33333', '0x40000'):
        rc, out, err = run_s4(s4, ['--color', 'never', '--blocksz', b, inp])
        if out != body:
            bad = bad or (b, len(out))
    return {'name': 'C12.gz_short_reads', 'input': inp, 'how_made': '2500 timestamped lines (%d bytes), gzip' % len(body),
            'cmd': '%s --color never --blocksz 0x10000|256|1000|33333|0x40000 %s' % (s4, inp), 'expected': 'the %d bytes of the data at every block size' % len(body),
            'observed': 'identical at every block size' if not bad else '--blocksz %s prints %d bytes' % bad, 'failed': bool(bad)}


RECIPES = {
    'C12': [r_c12_first_line_longer_than_block, r_c12_lz4_block_boundaries, r_c12_gz_short_reads],
    'C19': [r_c19_summary_bytes_match_stdout],
    'C02': [r_c02_continuation_at_block_boundary, r_c02_mixed_notation_first_message],
    'C04': [r_c04_instants, r_c04_fractions, r_c04_month_abbreviation_with_dot],
    'C10': [r_c03_evtx_window],
    'C01': [r_c01_tie_order, r_c01_chronological, r_c01_submillisecond, r_c01_yearless_rollover_at_first_message, r_c01_stdin_paths_position, r_c01_directory_sources_in_sorted_order],
    'C06': [r_c01_tie_order, r_c01_chronological, r_c01_submillisecond],
    'C13': [r_c13_field_order_fixedstruct, r_c13_align_widest_printed, r_c13_evtx_prepend_file_only, r_c13_prependdate_lines_in_parts],
    'C03': [r_c03_journal_before_inclusive, r_c03_evtx_window, r_c03_yearless_tie_at_after, r_c14_relative_to_program_start],
    'C11': [r_c11_years_across_two_new_years, r_c01_yearless_rollover_at_first_message, r_c11_backwards_between_25_and_26_hours],
    'C14': [r_c14_documented_forms, r_c14_relative_to_program_start],
    'C08': [r_c08_equal_times, r_c08_order, r_c08_smallest_layout_single_record, r_c08_compressed_returns_to_earlier_block],
}


def find_failing_input(prop, P, violations, repo, scratch):
    log = []
    recipes = RECIPES.get(prop, [])
    if not recipes:
        return {'failing_input_found': False, 'note': 'Verus gives no counterexample and no replay recipe exists for this property'}
    s4 = build_s4(repo, log)
    if not s4:
        return {'failing_input_found': False, 'note': 'could not build s4 from the working tree', 'log': log}
    keep = os.path.join(os.path.dirname(os.path.dirname(os.path.abspath(__file__))), 'replay', 'out', 'inputs')
    os.makedirs(keep, exist_ok=True)
    results = []
    for r in recipes:
        try:
            res = r(s4, repo, scratch)
        except Exception as e:  # noqa
            res = {'name': r.__name__, 'failed': False, 'error': repr(e)}
        if res.get('failed') and res.get('input') and os.path.exists(res['input']):
            dst = os.path.join(keep, os.path.basename(res['input']))
            try:
                import shutil
                shutil.copy(res['input'], dst)
                res['cmd'] = res['cmd'].replace(res['input'], dst)
                res['input'] = dst
            except OSError:
                pass
        results.append(res)
    # a recipe bound to one obligation (the input of a recorded finding) is a failing input only for a violation of that obligation
    obl_texts = [str(v.get('obligation', '')) + ' ' + ' '.join(str(s_.get('text', '')) for s_ in v.get('spans', [])) for v in (violations or [])]
    def applies(r):
        need = r.get('only_for_obligation')
        return (not need) or any(need in t for t in obl_texts)
    failing = [r for r in results if r.get('failed') and applies(r)]
    return {'failing_input_found': bool(failing), 'failing': failing, 'all_recipes': results, 'log': log}


def run_replay_file(path, repo):
    d = json.load(open(path))
    print('property: %s' % d['property'])
    for v in d.get('failed_obligations', []):
        print('failed obligation: %s' % v['obligation'])
    rp = d.get('replay') or {}
    if not rp.get('failing_input_found'):
        print('no failing input recorded (no-failing-input-found); verifier output:')
        for v in d.get('failed_obligations', [])[:3]:
            print(v.get('verifier_output', ''))
        return 1
    log = []
    s4 = build_s4(repo, log)
    if not s4:
        print('cannot build s4: %s' % log)
        return 2
    rc = 0
    for f in rp['failing']:
        print('replaying %s: %s' % (f['name'], f['cmd']))
        fn = [r for rs in RECIPES.values() for r in rs if ('.' in f['name'] and r.__name__ == 'r_' + f['name'].lower().replace('.', '_'))]
        import tempfile
        sc = tempfile.mkdtemp(prefix='s4replay.', dir='/var/tmp')
        try:
            if fn:
                res = fn[0](s4, repo, sc)
                print('  expected: %s\n  observed: %s\n  -> %s' % (res['expected'], res['observed'], 'FAILS (violation reproduced)' if res['failed'] else 'passes'))
                if res['failed']:
                    rc = 1
        finally:
            import shutil
            shutil.rmtree(sc, ignore_errors=True)
    return rc
