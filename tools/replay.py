"""Replay: after the verifier reports a failed obligation, try to exhibit a failing input on
the real code (binary built from /repo's working tree). Recipes are per property."""
import json, os


def find_failing_input(prop, P, violations, repo, scratch):
    return {'failing_input_found': False, 'note': 'Verus gives no counterexample; no replay recipe produced a failing input'}


def run_replay_file(path, repo):
    d = json.load(open(path))
    print(json.dumps(d, indent=1)[:4000])
    return 0
