"""Cutter: locates items in /repo's working tree by name and structure (never by line
number), applies the mechanical rewrite rules R1..R10 of DESIGN.md 2.1 and returns the text
plus a record of what was dropped.

Public entry points:
  Source(path)                      a repo file with its lexer mask
  cut_fn(src, name, impl=None)      -> Cut   (fn item: signature + body)
  cut_item(src, kind, name)         -> Cut   (enum / struct / type / const)
  cut_macro(src, name)              -> MacroDef
  cut_slice(src, fn_cut, spec)      -> Cut   (statement / arm / expression inside a fn)
  apply_rules(cut, rules, macros)   -> rewritten text, hit counts
"""
import hashlib
import os
import re
import sys

sys.path.insert(0, os.path.dirname(os.path.abspath(__file__)))
from rustlex import mask, match_close, code_find, code_finditer, line_of, CODE, COMMENT, STR  # noqa: E402


class CutError(Exception):
    """anchor lost / construct outside the accepted subset -> exit 2 (undecided)"""


class Source:
    _cache = {}

    def __init__(self, root, rel):
        self.root = root
        self.rel = rel
        self.path = os.path.join(root, rel)
        try:
            with open(self.path, encoding='utf-8') as f:
                self.text = f.read()
        except OSError as e:
            raise CutError('cannot read %s: %s' % (self.path, e))
        self.mask = mask(self.text)

    @classmethod
    def get(cls, root, rel):
        key = (root, rel)
        st = os.stat(os.path.join(root, rel)).st_mtime_ns if os.path.exists(os.path.join(root, rel)) else 0
        hit = cls._cache.get(key)
        if hit and hit[0] == st:
            return hit[1]
        s = cls(root, rel)
        cls._cache[key] = (st, s)
        return s


class Cut:
    def __init__(self, src, start, end, kind, name, text=None):
        self.src = src
        self.start = start
        self.end = end          # exclusive
        self.kind = kind
        self.name = name
        self.text = src.text[start:end] if text is None else text
        self.line = line_of(src.text, start)
        self.line_end = line_of(src.text, end)
        self.hits = {}

    def sha(self):
        return hashlib.sha256(self.text.encode()).hexdigest()[:16]

    def where(self):
        return '%s:%d-%d' % (self.src.rel, self.line, self.line_end)


# --------------------------------------------------------------------------------------
# locating items

def _impl_blocks(src, impl):
    """yield (open_brace_idx, close_brace_idx) of every `impl ... <impl> {` block.
    `impl` is matched against the normalised header text between `impl` and `{`:
    'SyslineReader' matches an inherent impl of that type (generics ignored);
    'Trait for Type' matches a trait impl."""
    t, m = src.text, src.mask
    want = ' '.join(impl.split())
    for mm in code_finditer(t, m, re.compile(r'\bimpl\b')):
        ob = code_find(t, m, '{', mm.end())
        if ob < 0:
            continue
        header = t[mm.end():ob]
        header = re.sub(r'^\s*<[^>]*>', '', header)          # impl<'a, T>
        header = re.sub(r'\bwhere\b.*$', '', header, flags=re.S)
        header = ' '.join(header.split())
        h2 = re.sub(r'<[^>]*>', '', header).strip()
        if header == want or h2 == want:
            yield ob, match_close(t, m, ob)


def _fn_at(src, i, name):
    """given index of 'fn' keyword of `fn name`, return (item_start, body_open, body_close)."""
    t, m = src.text, src.mask
    # the body '{' is the first code '{' at paren depth 0 after the parameter list
    po = code_find(t, m, '(', i)
    # generics may precede '(' and contain no parens normally
    pc = match_close(t, m, po)
    j = pc + 1
    n = len(t)
    while j < n:
        if m[j] == CODE:
            if t[j] == '{':
                break
            if t[j] == ';':
                raise CutError('fn %s has no body' % name)
            if t[j] in '([':
                j = match_close(t, m, j)
        j += 1
    bo = j
    bc = match_close(t, m, bo)
    # item start: walk back over qualifiers, attributes and doc comments
    s = i
    line_start = t.rfind('\n', 0, s) + 1
    s = line_start
    while True:
        prev_end = s - 1
        if prev_end <= 0:
            break
        prev_start = t.rfind('\n', 0, prev_end) + 1
        pl = t[prev_start:prev_end].strip()
        if pl.startswith('#[') or pl.startswith('///') or pl.startswith('//!'):
            s = prev_start
            continue
        # multi-line attribute ending with ')]'
        break
    return s, bo, bc


def cut_fn(src, name, impl=None, nth=1):
    t, m = src.text, src.mask
    rx = re.compile(r'\bfn\s+' + re.escape(name) + r'\b\s*[<(]')
    ranges = [(0, len(t))] if impl is None else list(_impl_blocks(src, impl))
    if impl is not None and not ranges:
        raise CutError('impl block `%s` not found in %s' % (impl, src.rel))
    found = []
    for lo, hi in ranges:
        for mm in code_finditer(t, m, rx, lo, hi):
            if impl is None:
                # top level (or inside a `mod`): must not be inside an impl/trait/fn body.
                # accept depth 0 only.
                d = 0
                for k in range(0, mm.start()):
                    if m[k] == CODE:
                        if t[k] == '{':
                            d += 1
                        elif t[k] == '}':
                            d -= 1
                if d != 0:
                    continue
            else:
                d = 0
                for k in range(lo + 1, mm.start()):
                    if m[k] == CODE:
                        if t[k] == '{':
                            d += 1
                        elif t[k] == '}':
                            d -= 1
                if d != 0:
                    continue
            found.append(mm.start())
    if len(found) < nth:
        raise CutError('fn `%s`%s not found in %s' % (name, (' in impl ' + impl) if impl else '', src.rel))
    s, bo, bc = _fn_at(src, found[nth - 1], name)
    c = Cut(src, s, bc + 1, 'fn', name)
    c.body_open = bo - s
    return c


def cut_item(src, kind, name, depth=0):
    """enum / struct / type / const / static item at top level (depth=1: inside an impl / mod block)."""
    t, m = src.text, src.mask
    rx = re.compile(r'\b' + kind + r'\s+' + re.escape(name) + r'\b')
    for mm in code_finditer(t, m, rx):
        # top level only
        d = 0
        for k in range(0, mm.start()):
            if m[k] == CODE:
                if t[k] == '{':
                    d += 1
                elif t[k] == '}':
                    d -= 1
        if d != depth:
            continue
        # end: first of ';' or matching '}' at depth 0
        j = mm.end()
        n = len(t)
        end = None
        while j < n:
            if m[j] == CODE:
                if t[j] == ';':
                    end = j + 1
                    break
                if t[j] == '{':
                    end = match_close(t, m, j) + 1
                    break
                if t[j] in '([':
                    j = match_close(t, m, j)
            j += 1
        if end is None:
            raise CutError('item %s %s unterminated' % (kind, name))
        s = t.rfind('\n', 0, mm.start()) + 1
        while True:
            prev_end = s - 1
            if prev_end <= 0:
                break
            prev_start = t.rfind('\n', 0, prev_end) + 1
            pl = t[prev_start:prev_end].strip()
            if pl.startswith('#[') or pl.startswith('///'):
                s = prev_start
                continue
            break
        return Cut(src, s, end, kind, name)
    raise CutError('%s `%s` not found in %s' % (kind, name, src.rel))


class MacroDef:
    def __init__(self, name, params, body, where):
        self.name = name
        self.params = params     # list of (name, fragment)
        self.body = body
        self.where = where


def cut_macro(src, name):
    """single-arm macro_rules! with `$x:expr`/`$x:ident`/... comma separated parameters."""
    t, m = src.text, src.mask
    rx = re.compile(r'\bmacro_rules!\s*' + re.escape(name) + r'\b')
    for mm in code_finditer(t, m, rx):
        ob = code_find(t, m, '{', mm.end())
        oc = match_close(t, m, ob)
        # matcher (...) => { ... }   or   (...) => (( ... ))
        po = code_find(t, m, '(', ob + 1, oc)
        pc = match_close(t, m, po)
        arrow = code_find(t, m, '=>', pc, oc)
        if arrow < 0:
            raise CutError('macro %s: no =>' % name)
        bo = arrow + 2
        while t[bo].isspace():
            bo += 1
        if t[bo] not in '({[':
            raise CutError('macro %s: body not bracketed' % name)
        bc = match_close(t, m, bo)
        rest = t[bc + 1:oc].strip().strip(';').strip()
        if rest:
            raise CutError('macro %s has more than one arm (not supported by the mini-expander)' % name)
        matcher = t[po + 1:pc]
        params = re.findall(r'\$([A-Za-z_][A-Za-z0-9_]*)\s*:\s*([a-z]+)', matcher)
        body = strip_comments(t[bo + 1:bc], {})
        return MacroDef(name, params, body, '%s:%d' % (src.rel, line_of(t, mm.start())))
    raise CutError('macro_rules! %s not found in %s' % (name, src.rel))


# --------------------------------------------------------------------------------------
# rewriting

TRACE_MACROS = [
    'defn', 'defo', 'defx', 'defñ', 'def1n', 'def1o', 'def1x', 'def1ñ', 'def2n', 'def2o', 'def2x', 'def2ñ',
    'deo', 'dex', 'den', 'deñ', 'de_err', 'de_wrn', 'e_err', 'e_wrn', 'e_dbg',
    'debug_eprint', 'debug_eprintln', 'dp_err', 'dp_wrn', 'dpo', 'dpn', 'dpx', 'dpfn', 'dpfo', 'dpfx', 'dpfñ', 'dpf1n', 'dpf1x', 'dpf1o', 'dpf1ñ',
    'p_err', 'p_wrn', 'po', 'pfo', 'pfn', 'pfx', 'eprintln', 'eprint',
    'defo_tv_pair', 'deo_field_dump',
]
ASSERT_CMP = {
    'assert_le': '<=', 'assert_lt': '<', 'assert_ge': '>=', 'assert_gt': '>', 'assert_eq': '==', 'assert_ne': '!=',
}

_IDENT_CH = re.compile(r'[A-Za-z0-9_ñ]')


def _split_args(text):
    """split macro/call argument text at top-level commas (Rust-aware)."""
    m = mask(text)
    out = []
    depth = 0
    last = 0
    for i, ch in enumerate(text):
        if m[i] != CODE:
            continue
        if ch in '([{':
            depth += 1
        elif ch in ')]}':
            depth -= 1
        elif ch == ',' and depth == 0:
            # generics like foo::<A, B> are rare in these macros; accepted risk, checked by rustc afterwards
            out.append(text[last:i])
            last = i + 1
    tail = text[last:]
    if tail.strip() or out:
        out.append(tail)
    return [a.strip() for a in out if a.strip() != '' or True]


def _macro_calls(text, m, names):
    """yield (start, bang_idx, open_idx, close_idx, name) for name!( ... ) invocations in code."""
    rx = re.compile(r'(?<![A-Za-z0-9_ñ])(' + '|'.join(re.escape(n) for n in sorted(names, key=len, reverse=True)) + r')!\s*([\(\[\{])')
    for mm in rx.finditer(text):
        if m[mm.start()] != CODE:
            continue
        o = mm.end() - 1
        try:
            c = match_close(text, m, o)
        except ValueError:
            continue
        yield mm.start(), o, c, mm.group(1)



def _sub(text, s, e, new):
    """replace text[s:e] by new keeping the number of lines unchanged, so that line k of a cut
    is always line (cut.line + k) of the repository file (exact line map)."""
    removed_nl = text.count('\n', s, e)
    new_nl = new.count('\n')
    if new_nl > removed_nl:
        new = new.replace('\n', ' ')
        new_nl = 0
    return text[:s] + new + '\n' * (removed_nl - new_nl) + text[e:]


def _count(hits, key, n=1):
    hits[key] = hits.get(key, 0) + n


def strip_comments(text, hits):
    m = mask(text)
    out = []
    i = 0
    n = len(text)
    ncom = 0
    while i < n:
        if m[i] == COMMENT:
            j = i
            while j < n and m[j] == COMMENT:
                j += 1
            seg = text[i:j]
            # keep newlines so that line structure survives
            out.append('\n' * seg.count('\n'))
            ncom += 1
            i = j
        else:
            out.append(text[i])
            i += 1
    if ncom:
        _count(hits, 'R5.comments', ncom)
    return ''.join(out)


def r5_attrs(text, hits):
    # remove #[inline...], #[allow(...)], #[doc...], #[derive(...Debug...)] handled by caller for types
    def repl(mm):
        _count(hits, 'R5.attr')
        return '\n' * mm.group(0).count('\n')
    text = re.sub(r'#\[(?:inline(?:\([a-z]*\))?|allow\([^\]]*\)|doc[^\]]*|must_use|cold|track_caller)\]', repl, text)
    return text


def r2_cfg_blocks(text, hits):
    """delete `#[cfg(debug_assertions)] { ... }` / `#[cfg(test)] stmt;` / `#[cfg(any(debug_assertions, test))] ...`."""
    rx = re.compile(r'#\[cfg\(\s*(?:debug_assertions|test|any\(\s*debug_assertions\s*,\s*test\s*\)|any\(\s*test\s*,\s*debug_assertions\s*\))\s*\)\]')
    while True:
        m = mask(text)
        mm = None
        for cand in rx.finditer(text):
            if m[cand.start()] == CODE:
                mm = cand
                break
        if not mm:
            return text
        j = mm.end()
        n = len(text)
        # the attribute applies to the next statement / block / item
        while j < n and text[j].isspace():
            j += 1
        k = j
        end = None
        while k < n:
            if m[k] == CODE:
                if text[k] == '{':
                    end = match_close(text, m, k) + 1
                    # `let x = {..};` or `if c {..} else {..}`: continue to ';' or else
                    rest = text[end:].lstrip()
                    if rest.startswith('else'):
                        k = end + (len(text[end:]) - len(rest)) + 4
                        continue
                    if text[j:k].strip() and not re.match(r'(if|while|for|loop|unsafe|match)\b', text[j:k].strip()) and rest.startswith(';'):
                        end = text.index(';', end) + 1
                    break
                if text[k] == ';':
                    end = k + 1
                    break
                if text[k] in '([':
                    k = match_close(text, m, k)
            k += 1
        if end is None:
            raise CutError('R2: cannot find extent of cfg block')
        _count(hits, 'R2.cfg_debug_or_test')
        text = _sub(text, mm.start(), end, '')


def r1_trace(text, hits):
    """delete trace/diagnostic macro statements."""
    while True:
        m = mask(text)
        done = True
        for s, o, c, name in _macro_calls(text, m, TRACE_MACROS):
            e = c + 1
            if name in ('eprintln', 'eprint'):
                # a line of the --summary report whose format string a template registered (//@formatfn) is not diagnostics: it
                # keeps its arguments as a call fn(&a1, ..) with an assumed contract (what the report shows under that label)
                args_ = _split_args(text[o + 1:c])
                lit_ = args_[0].strip() if args_ else ''
                if lit_ in FORMAT_FNS:
                    text = _sub(text, s, e, '%s(%s)' % (FORMAT_FNS[lit_], ', '.join('&(' + a.strip() + ')' for a in args_[1:] if a.strip())))
                    _count(hits, 'R4.eprintln_as_fn:' + FORMAT_FNS[lit_])
                    done = False
                    break
            # swallow a trailing ';'
            k = e
            while k < len(text) and text[k] in ' \t':
                k += 1
            if k < len(text) and text[k] == ';':
                e = k + 1
                text = _sub(text, s, e, '')
            else:
                # expression position (e.g. match arm `=> defo!(..),` or tail): replace by ()
                text = _sub(text, s, e, '()')
            _count(hits, 'R1.' + name)
            done = False
            break
        if done:
            break
    # debug_print_guard / stack offset helpers
    def repl(mm):
        _count(hits, 'R1.' + mm.group(1))
        return '\n' * mm.group(0).count('\n')
    text = re.sub(r'\blet\s+_[a-z_0-9]*\s*=\s*(debug_print_guard|stack_offset_set)\s*\([^;]*\)\s*;', repl, text)
    text = re.sub(r'\b(stack_offset_set)\s*\([^;]*\)\s*;', repl, text)
    return text


def r7_debug_panic(text, hits):
    while True:
        m = mask(text)
        for s, o, c, name in _macro_calls(text, m, ['debug_panic']):
            e = c + 1
            k = e
            while k < len(text) and text[k] in ' \t':
                k += 1
            if k < len(text) and text[k] == ';':
                e = k + 1
                text = _sub(text, s, e, '')
            else:
                text = _sub(text, s, e, '()')
            _count(hits, 'R7.debug_panic')
            break
        else:
            return text


def r3_asserts(text, hits):
    names = []
    for k in ASSERT_CMP:
        names += [k, 'debug_' + k]
    while True:
        m = mask(text)
        for s, o, c, name in _macro_calls(text, m, names):
            base = name[6:] if name.startswith('debug_') else name
            args = _split_args(text[o + 1:c])
            if len(args) < 2:
                raise CutError('R3: %s! with <2 args' % name)
            a, b = args[0], args[1]
            new = 'assert!((%s) %s (%s))' % (a, ASSERT_CMP[base], b)
            text = _sub(text, s, c + 1, new)
            _count(hits, 'R3.' + name)
            break
        else:
            break
    # panic!("fmt", args) -> panic!() : the message has no semantics; its arguments need Debug impls the prelude types lack
    pos = 0
    while True:
        m = mask(text)
        found = False
        for s, o, c, name in _macro_calls(text, m, ['panic', 'unreachable']):
            if s < pos:
                continue
            if text[o + 1:c].strip():
                text = _sub(text, s, c + 1, name + '!()')
                _count(hits, 'R3.panic_message_dropped')
            pos = s + len(name) + 2
            found = True
            break
        if not found:
            break
    # assert!(cond, "fmt", args) / debug_assert!(cond, ...) -> assert!(cond)
    pos = 0
    while True:
        m = mask(text)
        found = False
        for s, o, c, name in _macro_calls(text, m, ['assert', 'debug_assert']):
            if s < pos:
                continue
            args = _split_args(text[o + 1:c])
            new = 'assert!(%s)' % args[0]
            if text[s:c + 1] != new:
                if name == 'debug_assert':
                    _count(hits, 'R3.debug_assert')
                if len(args) > 1:
                    _count(hits, 'R3.assert_fmt_args_dropped')
                text = _sub(text, s, c + 1, new)
            pos = s + len('assert!(')
            found = True
            break
        if not found:
            break
    return text


def r15_byte_literals(text, hits):
    r"""R15: b"..." -> (&[0x..u8, ..]) : Verus gives a byte-string literal a length but no content; the same bytes written as an
    array literal are known.  Purely mechanical (escapes: backslash, quote, n, r, t, 0, xNN)."""
    out = []
    i = 0
    n = len(text)
    m = mask(text)
    esc = {'n': 10, 'r': 13, 't': 9, '0': 0, '\\': 92, '"': 34, "'": 39}
    while i < n:
        if text[i] == 'b' and i + 1 < n and text[i + 1] == '"' and m[i] != COMMENT and (i == 0 or (m[i - 1] == CODE and not (text[i - 1].isalnum() or text[i - 1] == '_'))):
            j = i + 2
            bs = []
            while j < n and text[j] != '"':
                if text[j] == '\\':
                    e = text[j + 1]
                    if e == 'x':
                        bs.append(int(text[j + 2:j + 4], 16))
                        j += 4
                        continue
                    bs.append(esc[e])
                    j += 2
                    continue
                bs += list(text[j].encode('utf-8'))
                j += 1
            out.append('(&[%s])' % ', '.join('0x%02xu8' % b for b in bs))
            _count(hits, 'R15.byte_literal')
            i = j + 1
            continue
        out.append(text[i])
        i += 1
    return ''.join(out)


# format-string literal (with quotes) -> stand-in function name; set by the template directive //@formatfn
FORMAT_FNS = {}


def r4_errors(text, hits):
    """Error::new(kind, format!(..)) / Error::new(kind, "..") -> verif_error();  remaining format!(..) -> verif_string()"""
    while True:
        m = mask(text)
        mm = None
        for cand in re.finditer(r'\b(?:std::io::|io::)?Error::new\s*\(', text):
            if m[cand.start()] == CODE:
                mm = cand
                break
        if not mm:
            break
        o = mm.end() - 1
        c = match_close(text, m, o)
        text = _sub(text, mm.start(), c + 1, 'verif_error()')
        _count(hits, 'R4.Error::new')
    while True:
        m = mask(text)
        for s, o, c, name in _macro_calls(text, m, ['format']):
            args = _split_args(text[o + 1:c])
            lit = args[0].strip() if args else ''
            if lit in FORMAT_FNS:
                # a format! with a registered format string keeps its arguments: fn(&a1, &a2, ..) with an assumed contract
                text = _sub(text, s, c + 1, '%s(%s)' % (FORMAT_FNS[lit], ', '.join('&(' + a.strip() + ')' for a in args[1:] if a.strip())))
                _count(hits, 'R4.format_as_fn:' + FORMAT_FNS[lit])
            else:
                text = _sub(text, s, c + 1, 'verif_string()')
                _count(hits, 'R4.format')
            break
        else:
            break
    return text


def r6_destructuring_assign(text, hits):
    """`(a, b) = e;` -> `let (a__v, b__v) = e; a = a__v; b = b__v;`"""
    # `_ = expr;` (discarding assignment) -> `let _ = expr;`
    def repl_us(mm):
        _count(hits, 'R6.underscore_assign')
        return 'let _ ='
    mk = mask(text)
    out = []
    last = 0
    for mm in re.finditer(r'(?<![A-Za-z0-9_])_\s*=(?![=>])', text):
        if mk[mm.start()] != CODE:
            continue
        before = text[max(0, mm.start() - 8):mm.start()]
        if re.search(r'let\s+(mut\s+)?$', before):
            continue
        out.append(text[last:mm.start()])
        out.append(repl_us(mm))
        last = mm.end()
    out.append(text[last:])
    text = ''.join(out)
    rx = re.compile(r'(?m)^(\s*)\(\s*([A-Za-z_][A-Za-z0-9_\.]*(?:\s*,\s*[A-Za-z_][A-Za-z0-9_\.]*)+)\s*\)\s*=(?![=>])')
    while True:
        m = mask(text)
        mm = None
        for cand in rx.finditer(text):
            if m[cand.start(2)] == CODE:
                mm = cand
                break
        if not mm:
            return text
        # find the terminating ';' at depth 0
        k = mm.end()
        n = len(text)
        while k < n:
            if m[k] == CODE:
                if text[k] == ';':
                    break
                if text[k] in '([{':
                    k = match_close(text, m, k)
            k += 1
        names = [x.strip() for x in mm.group(2).split(',')]
        tmp = [re.sub(r'[^A-Za-z0-9_]', '_', x) + '__v' for x in names]
        rhs = text[mm.end():k]
        ind = mm.group(1)
        new = '%slet (%s) =%s;' % (ind, ', '.join(tmp), rhs)
        for a, b in zip(names, tmp):
            new += ' %s = %s;' % (a, b)
        text = _sub(text, mm.start(), k + 1, new)
        _count(hits, 'R6.destructuring_assign')


def expand_macros(text, macros, hits, depth=0, context=None):
    """mini-expander for the repository's own single-arm macro_rules (DESIGN 2.1).
    inline mode: `$name` is replaced by the parenthesised argument text, recursively.
    fn mode (R13, MacroDef.fn_params set): the invocation becomes a call of the function generated from the
    macro body (`<name>__fn`), place arguments passed by reference; if the macro can `return` from its caller the
    call is wrapped in a match that returns the error."""
    if depth > 8:
        raise CutError('macro expansion too deep')
    if not macros:
        return text
    ctx = context if context is not None else text
    while True:
        m = mask(text)
        for s, o, c, name in _macro_calls(text, m, list(macros)):
            md = macros[name]
            args = _split_args(text[o + 1:c])
            if args and args[-1] == '':
                args = args[:-1]
            if len(args) != len(md.params):
                raise CutError('macro %s: %d args for %d params' % (name, len(args), len(md.params)))
            e = c + 1
            k = e
            while k < len(text) and text[k] in ' \t':
                k += 1
            # statement position (preceded by `{`, `}`, `;` or nothing): the trailing `;` belongs to the invocation
            pb = s - 1
            while pb >= 0 and text[pb].isspace():
                pb -= 1
            stmt_pos = pb < 0 or text[pb] in '{};'
            if stmt_pos and k < len(text) and text[k] == ';':
                e = k + 1
            if getattr(md, 'fn_params', None):
                call_args = []
                for (pn, kind, ty_), a in zip(md.fn_params, args):
                    a1 = ' '.join(a.split())
                    if kind == 'fields':
                        for fdecl in ty_.split(','):
                            fname_, fk, fty = fdecl.split('=', 2)
                            call_args.append(('&mut ' if fk == 'mut' else '&') + a1 + '.' + fname_)
                        continue
                    if kind == 'alias':
                        # the argument must be the aliased place of another argument, e.g. `self.buffer`
                        base, place = ty_.split('.', 1)
                        bi = [q[0] for q in md.fn_params].index(base)
                        expect = ' '.join(args[bi].split()) + '.' + place
                        if a1.replace(' ', '') != expect.replace(' ', ''):
                            raise CutError('macro %s: argument %r is not the aliased place %r' % (name, a1, expect))
                        continue
                    if a1 == 'self' and kind in ('mut', 'ref'):
                        call_args.append(('&mut *' if kind == 'mut' else '&*') + 'self')
                        continue
                    if kind == 'mut':
                        if re.match(r'^[A-Za-z_][A-Za-z0-9_]*$', a1) and re.search(r'\b' + a1 + r'\s*:\s*&\s*mut\b', ctx):
                            call_args.append('&mut *' + a1)
                        else:
                            call_args.append('&mut ' + a1)
                    elif kind == 'ref':
                        call_args.append('&' + a1)
                    else:
                        call_args.append(a1)
                call = '%s__fn(%s)' % (name, ', '.join(call_args))
                if md.may_return:
                    new = ('match %s { core::result::Result::Ok(_) => {}, core::result::Result::Err(e__) => { return %s(e__); } }' % (call, getattr(md, 'errwrap', 'PrinterLogMessageResult::Err')))
                else:
                    # expression position (e.g. a match arm `=> m!(..),`): the call itself, no statement terminator
                    new = call + (';' if (stmt_pos or e > c + 1) else '')
                text = _sub(text, s, e, new)
                _count(hits, 'R13.macro_as_fn_call.' + name)
                break
            body = md.body
            for (pn, frag), a in zip(md.params, args):
                rep = a if frag in ('ident', 'ty', 'tt', 'literal', 'path', 'lifetime', 'block') else '(' + a + ')'
                body = re.sub(r'\$' + pn + r'\b', lambda _m, rep=rep: rep, body)
            if '$' in body:
                raise CutError('macro %s: unexpanded metavariable remains' % name)
            body = expand_macros(body, macros, hits, depth + 1, ctx)
            text = _sub(text, s, e, '{' + body + '}')
            _count(hits, 'MX.' + name)
            break
        else:
            return text


def macro_as_fn(md, macros, fn_params, may_return, generics, ret_ty, errwrap='PrinterLogMessageResult::Err'):
    """R13: text of the function generated from a macro body.  `$p` -> `(*p)` for by-reference parameters,
    `(p)` for by-value ones; `return PrinterLogMessageResult::Err(x)` -> `return Err(x)`; falls through to Ok(())."""
    hits = {}
    body = md.body
    def pname(n):
        return 'self_' if n == 'self' else n
    for (pn, frag), (fpn, kind, ty) in zip(md.params, fn_params):
        if kind == 'fields':
            for fdecl in ty.split(','):
                fname_, fk, fty = fdecl.split('=', 2)
                body = re.sub(r'\$' + pn + r'\s*\.\s*' + fname_ + r'\b', '(*%s__%s)' % (pname(pn), fname_), body)
            if re.search(r'\$' + pn + r'\b', body):
                raise CutError('macro %s: $%s used other than through the declared fields' % (md.name, pn))
            continue
        if kind == 'alias':
            base, place = ty.split('.', 1)
            rep = '((*%s).%s)' % (pname(base), place)
        else:
            rep = '(*%s)' % pname(pn) if kind in ('mut', 'ref') else '(%s)' % pname(pn)
        body = re.sub(r'\$' + pn + r'\b', lambda _m, rep=rep: rep, body)
    if '$' in body:
        raise CutError('macro %s: unexpanded metavariable remains' % md.name)
    fp2 = []
    for pn, kind, ty in fn_params:
        if kind == 'fields':
            for fdecl in ty.split(','):
                fname_, fk, fty = fdecl.split('=', 2)
                fp2.append(('%s__%s' % (pname(pn), fname_), fk, fty))
        else:
            fp2.append((pname(pn), kind, ty))
    fn_params = fp2
    sig_ctx = ', '.join('%s: %s' % (pn, ('&mut ' if kind == 'mut' else '&' if kind == 'ref' else '') + ty) for pn, kind, ty in fn_params if kind != 'alias')
    body, h2 = apply_rules(body, macros={k: v for k, v in macros.items() if k != md.name}, context=sig_ctx)
    hits.update(h2)
    if may_return:
        body = body.replace(errwrap + '(', 'core::result::Result::Err(')
    params = ', '.join('%s: %s%s' % (pn, '&mut ' if kind == 'mut' else '&' if kind == 'ref' else '', ty) for pn, kind, ty in fn_params if kind != 'alias')
    g = '<%s>' % generics if generics else ''
    return g, params, body, hits


def r12_unsafe_blocks(text, hits):
    """R12 (only on request, //@opaque_unsafe): `unsafe { ... }` statement blocks (FFI calls through raw
    pointers) -> `verif_unsafe_ffi();`.  The block's effect on Rust-visible state is assumed to be nil."""
    while True:
        m = mask(text)
        mm = None
        for cand in re.finditer(r'\bunsafe\s*\{', text):
            if m[cand.start()] == CODE:
                mm = cand
                break
        if not mm:
            return text
        o = mm.end() - 1
        c = match_close(text, m, o)
        text = _sub(text, mm.start(), c + 1, 'verif_unsafe_ffi();')
        _count(hits, 'R12.unsafe_block_opaque')


ALL_RULES = ['R2', 'R1', 'R7', 'R3', 'R4', 'R5', 'R6']


def apply_rules(text, rules=None, macros=None, context=None):
    """returns (text, hits).  Order matters: cfg blocks first (they may contain trace macros),
    then macro expansion, then trace deletion, asserts, error strings."""
    hits = {}
    rules = ALL_RULES if rules is None else rules
    text = strip_comments(text, hits)
    if 'R2' in rules:
        text = r2_cfg_blocks(text, hits)
    if macros:
        text = expand_macros(text, macros, hits, 0, context if context is not None else text)
        if 'R2' in rules:
            text = r2_cfg_blocks(text, hits)
    if 'R1' in rules:
        text = r1_trace(text, hits)
    if 'R7' in rules:
        text = r7_debug_panic(text, hits)
    if 'R3' in rules:
        text = r3_asserts(text, hits)
    if 'R4' in rules:
        text = r4_errors(text, hits)
    if 'R5' in rules:
        text = r5_attrs(text, hits)
    if 'R6' in rules:
        text = r6_destructuring_assign(text, hits)
    return text, hits
