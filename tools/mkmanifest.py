#!/usr/bin/env python3
"""Regenerates MANIFEST.json from contracts/properties.json + contracts/not_applicable.json."""
import json, os
ROOT = os.path.dirname(os.path.dirname(os.path.abspath(__file__)))
props = json.load(open(os.path.join(ROOT, 'contracts', 'properties.json')))
na = json.load(open(os.path.join(ROOT, 'contracts', 'not_applicable.json')))
checks = []
for pid in sorted(props):
    P = props[pid]
    if P.get('wip'):
        continue
    checks.append({
        'property_id': pid,
        'quick_cmd': './check %s --tier quick' % pid,
        'thorough_cmd': './check %s --tier thorough' % pid,
        'evidence_file': 'evidence/%s.json' % pid,
        'replay_cmd_template': './check %s --replay {path}' % pid,
        'engine': 'contracts',
        'level_claimed': {'category': P.get('category', 'proof'), 'text': P['level_text'], 'design_ref': P.get('design_ref', 'DESIGN.md section 4')},
        'level_note': P['level_note'],
        'technique': P.get('technique', 'contract-based deductive verification (Verus) of functions cut from /repo on every run'),
    })
claimed = set(p for p in props if not props[p].get('wip'))
M = {
    'version': 1,
    'setup_cmd': 'true',
    'hooks': {
        'guard': 's4_verif',
        'enable': 'none needed: contracts are spliced into text cut from the unmodified working tree; no hook code exists in /repo',
        'baseline_off_cmd': 'cd /repo && cargo nextest run --workspace --no-fail-fast --test-threads 8 --offline || cargo test --workspace --no-fail-fast --offline',
        'source_commits': [],
        'add_only': True,
    },
    'engines': [
        {'name': 'contracts', 'path': 'check', 'serves_properties': sorted(claimed),
         'kind_free_text': 'cutter (tools/extract.py, tools/assemble.py) + Verus 0.2026.09.13 single-file runs (tools/run_verus.py) + Kani 0.68 harnesses on cut text for bounded stand-ins (tools/run_kani.py)'},
    ],
    'checks': checks,
    'notes': 'Exit codes of ./check: 0 held, 1 violation (VIOLATION line), 2 undecided (lost anchor / tool limit; never an alarm). See DESIGN.md.',
    'not_applicable': [x for x in na if x['property_id'] not in claimed],
}
json.dump(M, open(os.path.join(ROOT, 'MANIFEST.json'), 'w'), indent=1)
print('MANIFEST.json: %d checks, %d not applicable' % (len(checks), len(M['not_applicable'])))
