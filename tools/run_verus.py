"""Run Verus on one assembled unit and classify the outcome per function / obligation."""
import json
import os
import re
import subprocess
import sys
import time

sys.path.insert(0, os.path.dirname(os.path.abspath(__file__)))
from rustlex import mask, match_close, code_find, CODE  # noqa: E402
from assemble import process_template  # noqa: E402
from extract import CutError  # noqa: E402

SEMANTIC = [
    'postcondition not satisfied',
    'precondition not satisfied',
    'assertion failed',
    'invariant not satisfied before loop',
    'invariant not satisfied at end of loop body',
    'loop invariant not satisfied',
    'possible arithmetic underflow/overflow',
    'possible division by zero',
    'possible bit shift underflow/overflow',
    'decreases not satisfied',
    'could not prove termination',
    'unreachable code reached',
    'panic',
    'index out of bounds',
    'constructed value may fail to meet its declared type invariant',
    'may fail to meet',
    'assert_by',
    'failed this',
]
UNDECIDED = ['rlimit', 'Resource limit', 'timed out', 'solver', 'canceled']


def fn_ranges(text):
    """[(name, first_line, last_line, impl_or_None)] for every fn with a body in text."""
    m = mask(text)
    out = []
    impls = []
    for mm in re.finditer(r'\bimpl\b', text):
        if m[mm.start()] != CODE:
            continue
        ob = code_find(text, m, '{', mm.end())
        if ob < 0:
            continue
        try:
            oc = match_close(text, m, ob)
        except ValueError:
            continue
        hdr = ' '.join(text[mm.end():ob].split())
        impls.append((ob, oc, hdr))
    for mm in re.finditer(r'\bfn\s+([A-Za-z_][A-Za-z0-9_]*)', text):
        if m[mm.start()] != CODE:
            continue
        po = code_find(text, m, '(', mm.end())
        if po < 0:
            continue
        try:
            pc = match_close(text, m, po)
        except ValueError:
            continue
        j = pc + 1
        n = len(text)
        ok = False
        while j < n:
            if m[j] == CODE:
                if text[j] == '{':
                    # a brace block inside a spec clause (struct pattern, `==> { .. }`, match) is followed by an operator or a
                    # comma; the function body is followed by the next item
                    try:
                        c_ = match_close(text, m, j)
                    except ValueError:
                        break
                    k_ = c_ + 1
                    while k_ < n and (text[k_].isspace() or m[k_] != CODE):
                        k_ += 1
                    if k_ < n and text[k_] in ',|&=)+-*/.;<>?:' and not text.startswith('//', k_):
                        j = c_ + 1
                        continue
                    ok = True
                    break
                if text[j] == ';':
                    break
                if text[j] in '([':
                    j = match_close(text, m, j)
            j += 1
        if not ok:
            continue
        bc = match_close(text, m, j)
        imp = None
        for ob, oc, hdr in impls:
            if ob < mm.start() < oc:
                imp = hdr
        l0 = text.count('\n', 0, mm.start()) + 1
        l1 = text.count('\n', 0, bc) + 1
        out.append((mm.group(1), l0, l1, imp))
    return out


def fn_at_line(ranges, line):
    best = None
    for name, a, b, imp in ranges:
        if a <= line <= b:
            if best is None or (a >= best[1]):
                best = (name, a, b, imp)
    return best


def run_unit(unit, tmpl_path, repo_root, scratch, rlimit=None, extra_args=None, threads=4):
    """returns a dict describing the run; never raises for tool failures (status='undecided')."""
    t0 = time.time()
    res = {'unit': unit, 'status': 'undecided', 'functions': {}, 'failures': [], 'negctl': [], 'notes': []}
    try:
        asm = process_template(unit, tmpl_path, repo_root)
    except CutError as e:
        res['notes'].append('cutter: %s' % e)
        res['reason'] = 'cutter: %s' % e
        res['wall_s'] = time.time() - t0
        return res
    gen = os.path.join(scratch, unit.lower() + '_unit.rs')
    text = asm.text()
    with open(gen, 'w', encoding='utf-8') as f:
        f.write(text)
    res['generated'] = gen
    res['cuts'] = asm.cuts
    res['clauses'] = asm.clauses
    res['dropped_total'] = asm.hits_total
    res['conditions'] = asm.conditions
    cmd = ['verus', gen, '--output-json', '--time', '--error-format=json', '--multiple-errors', '5', '--num-threads', str(threads)]
    if rlimit:
        cmd += ['--rlimit', str(rlimit)]
    if extra_args:
        cmd += extra_args
    res['cmd'] = ' '.join(cmd)
    try:
        p = subprocess.run(cmd, cwd=scratch, capture_output=True, text=True, timeout=3600)
    except subprocess.TimeoutExpired:
        res['reason'] = 'verus timed out'
        res['wall_s'] = time.time() - t0
        return res
    res['verus_rc'] = p.returncode
    try:
        js = json.loads(p.stdout)
    except Exception:
        js = None
    diags = []
    for ln in p.stderr.split('\n'):
        ln = ln.strip()
        if ln.startswith('{'):
            try:
                diags.append(json.loads(ln))
            except Exception:
                pass
    res['stderr_tail'] = p.stderr[-3000:] if js is None else ''
    ranges = fn_ranges(text)
    negnames = {d['name'] for d in asm.negctl}
    tool_errors = []
    failures = []
    for d in diags:
        if d.get('level') != 'error':
            continue
        msg = d.get('message', '')
        if msg.startswith('aborting due to'):
            continue
        spans = d.get('spans', [])
        prim = [s for s in spans if s.get('is_primary')] or spans
        line = prim[0]['line_start'] if prim else 0
        fn = None
        for s in spans:
            f_ = fn_at_line(ranges, s['line_start'])
            if f_:
                # prefer the span that is inside a function body with an 'at this exit/call' label
                fn = f_ if fn is None or s.get('label') in ('at this exit', 'at this call', None) else fn
        # the failing function is the one containing the primary span (call site / clause / assert)
        owner = fn_at_line(ranges, line) if line else None
        if owner is None:
            for s in spans:
                f_ = fn_at_line(ranges, s['line_start'])
                if f_ is not None:
                    owner = f_
                    break
        origin = asm.out[line - 1][1] if 0 < line <= len(asm.out) else None
        entry = {
            'message': msg,
            'gen_line': line,
            'origin': origin,
            'fn': owner[0] if owner else None,
            'impl': owner[3] if owner else None,
            'spans': [{'line': s['line_start'], 'label': s.get('label'), 'text': (s.get('text') or [{}])[0].get('text', '').strip()[:200],
                       'origin': asm.out[s['line_start'] - 1][1] if 0 < s['line_start'] <= len(asm.out) else None} for s in spans],
            'rendered': (d.get('rendered') or '')[:2000],
        }
        low = msg.lower()
        if any(u.lower() in low for u in UNDECIDED):
            entry['class'] = 'undecided'
        elif any(s_.lower() in low for s_ in SEMANTIC):
            entry['class'] = 'semantic'
        else:
            entry['class'] = 'tool'
        if entry['fn'] in negnames:
            entry['negctl'] = True
        failures.append(entry)
    res['failures'] = failures
    if js is None or 'verification-results' not in js:
        res['reason'] = 'verus produced no result json (rc=%s)' % p.returncode
        res['notes'].append(p.stderr[-2000:])
        res['wall_s'] = time.time() - t0
        return res
    vr = js['verification-results']
    res['verus_results'] = vr
    res['times_ms'] = {'total': js.get('times-ms', {}).get('total'), 'smt': js.get('times-ms', {}).get('smt', {}).get('total')}
    fb = []
    for mt in js.get('times-ms', {}).get('smt', {}).get('smt-run-module-times', []):
        fb += mt.get('function-breakdown', [])
    for f_ in fb:
        nm = f_['function'].split('::', 1)[1] if '::' in f_['function'] else f_['function']
        res['functions'][nm] = {'success': f_['success'], 'mode': f_.get('mode:'), 'smt_ms': f_.get('time'), 'rlimit': f_.get('rlimit')}
    tool = [e for e in failures if e['class'] == 'tool']
    if vr.get('encountered-vir-error') or tool or (vr.get('encountered-error') and not failures):
        res['reason'] = 'tool/compile error: ' + '; '.join(e['message'] for e in tool[:3]) if tool else 'verus error without diagnostics'
        res['wall_s'] = time.time() - t0
        return res
    # negative controls must fail
    failed_fns = {k.split('::')[-1] for k, v in res['functions'].items() if not v['success']}
    for d in asm.negctl:
        ok = d['name'] in failed_fns
        res['negctl'].append({'name': d['name'], 'of': d['of'], 'edit': '%s -> %s' % (d['from'], d['to']), 'failed_as_required': ok})
    for d in asm.negctl_skipped:
        res['negctl'].append({'name': d['of'] + '__negctl(skipped)', 'of': d['of'], 'edit': '%s -> %s' % (d['from'], d['to']), 'failed_as_required': True, 'skipped': d['why']})
    real_fail = [e for e in failures if not e.get('negctl') and not (e['fn'] or '').endswith('__canary')]
    # canaries: functions named *__canary must fail too
    canaries = [r[0] for r in ranges if r[0].endswith('__canary')]
    for cn in canaries:
        res['negctl'].append({'name': cn, 'of': 'precondition/assumption satisfiable', 'edit': 'ensures false', 'failed_as_required': cn in failed_fns})
    res['real_failures'] = real_fail
    bad_ctl = [c for c in res['negctl'] if not c['failed_as_required']]
    if bad_ctl:
        res['status'] = 'undecided'
        res['reason'] = 'vacuity guard: control(s) verified that must fail: ' + ', '.join(c['name'] for c in bad_ctl)
    elif any(e['class'] == 'undecided' for e in real_fail):
        res['status'] = 'undecided'
        res['reason'] = 'resource limit: ' + '; '.join('%s: %s' % (e['fn'], e['message']) for e in real_fail if e['class'] == 'undecided')
    elif real_fail:
        res['status'] = 'violation'
    else:
        # every non-control function must be reported verified
        nonctl_failed = [k for k, v in res['functions'].items() if not v['success'] and k.split('::')[-1] not in negnames and not k.endswith('__canary')]
        if nonctl_failed:
            res['status'] = 'undecided'
            res['reason'] = 'function(s) not verified without a diagnostic: ' + ', '.join(nonctl_failed)
        else:
            res['status'] = 'held'
    # counts
    nonctl = {k: v for k, v in res['functions'].items() if k.split('::')[-1] not in negnames and not k.endswith('__canary')}
    res['n_functions'] = len(nonctl)
    res['n_functions_ok'] = sum(1 for v in nonctl.values() if v['success'])
    res['n_clauses'] = len(asm.clauses) + sum(c.get('asserts_in_code', 0) for c in asm.cuts)
    failed_clause_lines = set()
    for e in real_fail:
        failed_clause_lines.add((e['fn'], e['gen_line']))
    res['n_clauses_failed'] = len(failed_clause_lines)
    res['wall_s'] = time.time() - t0
    return res


if __name__ == '__main__':
    import tempfile
    unit = sys.argv[1]
    root = os.path.dirname(os.path.dirname(os.path.abspath(__file__)))
    sc = tempfile.mkdtemp(prefix='s4verif.', dir='/var/tmp')
    # `UNIT` or `UNIT:DIR` (a unit that shares another unit's template file, regions selected by //@ifunit)
    unit, _, udir = unit.partition(':')
    r = run_unit(unit, os.path.join(root, 'contracts', udir or unit, 'unit.rs'), os.environ.get('S4_REPO', '/repo'), sc)
    keep = {k: v for k, v in r.items() if k not in ('cuts', 'clauses')}
    json.dump(keep, open('/var/tmp/vr_last.json', 'w'), indent=1)
    print('generated:', r.get('generated'))
