"""Kani runner: bounded stand-ins and full-domain loop-free harnesses on text cut from /repo.

A Kani unit is a directory contracts/<UNIT>/ with `kani.rs`, a template in the same directive language
as the Verus units (the expression / function under test is cut from the working tree on every run);
it becomes src/lib.rs of a scratch crate (no dependencies; `cargo kani` cannot build the real crate
offline, DESIGN K1).  Harness list, bounds and unwind values come from contracts/properties.json.
"""
import json
import os
import re
import resource
import subprocess
import sys
import time

sys.path.insert(0, os.path.dirname(os.path.abspath(__file__)))
from assemble import process_template  # noqa: E402
from extract import CutError  # noqa: E402

CARGO_TOML = """[package]
name = "s4verif_kani_%s"
version = "0.1.0"
edition = "2021"
[dependencies]
[workspace]
"""


def run_unit(u, unit_dir, repo_root, scratch, tier):
    t0 = time.time()
    name = u['unit']
    res = {'unit': name, 'status': 'undecided', 'harnesses': [], 'trusted': [], 'wall_s': 0}
    tmpl = os.path.join(unit_dir, u.get('template', 'kani.rs'))
    try:
        asm = process_template(name, tmpl, repo_root)
    except CutError as e:
        res['reason'] = 'cutter: %s' % e
        res['wall_s'] = time.time() - t0
        return res
    crate = os.path.join(scratch, 'crate')
    os.makedirs(os.path.join(crate, 'src'), exist_ok=True)
    with open(os.path.join(crate, 'Cargo.toml'), 'w') as f:
        f.write(CARGO_TOML % name.lower())
    text = asm.text()
    with open(os.path.join(crate, 'src', 'lib.rs'), 'w') as f:
        f.write(text)
    res['cuts'] = asm.cuts
    res['generated'] = os.path.join(crate, 'src', 'lib.rs')
    for ln in text.split('\n'):
        mm = re.match(r'\s*//\s*ASSUMED:\s*(.*)', ln)
        if mm:
            res['trusted'].append('%s: kani stand-in: %s' % (name, mm.group(1)))
    env = dict(os.environ, CARGO_NET_OFFLINE='true', CARGO_TARGET_DIR=os.path.join(scratch, 'target'))
    hs = [h for h in u.get('harnesses', []) if tier == 'thorough' or h.get('tier', 'quick') == 'quick']
    cmds = []
    any_fail = False
    any_undecided = None
    def run_one(h):
        cmd = ['cargo', 'kani', '--harness', h['name'], '--exact'] + h.get('args', [])
        th = time.time()
        try:
            def _lim():
                # no swap on this machine: cap the solver's address space so a blow-up ends in UNDECIDED, not OOM
                resource.setrlimit(resource.RLIMIT_AS, (int(h.get('mem_gb', 20)) << 30, int(h.get('mem_gb', 20)) << 30))
            # own process group: on a timeout the whole tree (cargo-kani -> kani-driver -> cbmc) is killed, not just the parent
            pp = subprocess.Popen(cmd, cwd=crate, env=env, stdout=subprocess.PIPE, stderr=subprocess.PIPE, text=True, preexec_fn=_lim, start_new_session=True)
            try:
                so, se = pp.communicate(timeout=h.get('timeout_s', 900))
                out = so + se
            except subprocess.TimeoutExpired:
                import signal
                try:
                    os.killpg(pp.pid, signal.SIGKILL)
                except OSError:
                    pass
                pp.communicate()
                out = 'TIMEOUT'
        except OSError as e:
            out = 'TOOL ERROR %s' % e
        dt = time.time() - th
        if 'VERIFICATION:- SUCCESSFUL' in out:
            r = 'SUCCESSFUL'
        elif 'VERIFICATION:- FAILED' in out:
            r = 'FAILED'
        else:
            r = 'UNDECIDED'
        failed_checks = []
        if r == 'FAILED':
            for mm in re.finditer(r'Failed Checks: (.*)\n\s*File: "([^"]*)", line (\d+)', out):
                failed_checks.append({'check': mm.group(1), 'file': mm.group(2), 'line': int(mm.group(3))})
            if not failed_checks:
                for mm in re.finditer(r'Check \d+: (\S+)\n\s*- Status: FAILURE\n\s*- Description: "([^"]*)"\n\s*- Location: (\S+)', out):
                    failed_checks.append({'check': mm.group(2), 'where': mm.group(3)})
            # an unwinding assertion that fails is a bound that is too small, not a violation
            if failed_checks and all('unwinding assertion' in c['check'] for c in failed_checks):
                r = 'UNDECIDED'
        entry = {'name': h['name'], 'bounded': bool(h.get('bounded')), 'bound': h.get('bound'), 'result': r, 'time_s': round(dt, 1),
                 'failed_checks': failed_checks[:10], 'expect': h.get('expect', 'SUCCESSFUL')}
        if r == 'UNDECIDED':
            entry['tail'] = out[-1500:]
        return ' '.join(cmd), entry

    # build once (first harness alone), then the rest in parallel: they share the compiled crate
    import concurrent.futures as _cf
    results_ = []
    if hs:
        results_.append(run_one(hs[0]))
        with _cf.ThreadPoolExecutor(max_workers=int(u.get('jobs', 4))) as ex:
            results_ += list(ex.map(run_one, hs[1:]))
    for (cmdstr, entry), h in zip(results_, hs):
        cmds.append(cmdstr)
        res['harnesses'].append(entry)
        r = entry['result']
        if h.get('expect') == 'FAILED':
            # negative control: a harness that must fail (vacuity guard)
            if r != 'FAILED':
                any_undecided = 'control harness %s did not fail (%s)' % (h['name'], r)
            continue
        if r == 'FAILED':
            any_fail = True
        elif r == 'UNDECIDED':
            any_undecided = 'harness %s undecided' % h['name']
    res['cmd'] = ' ; '.join(cmds)
    if any_fail:
        res['status'] = 'violation'
        res['real_failures'] = []
        for e in res['harnesses']:
            if e['result'] == 'FAILED' and e['expect'] != 'FAILED':
                res['real_failures'].append({
                    'message': 'kani harness FAILED', 'fn': e['name'], 'class': 'semantic',
                    'spans': [{'line': c.get('line', 0), 'label': None, 'text': c['check'], 'origin': None} for c in e['failed_checks'][:3]],
                    'rendered': 'cargo kani --harness %s: VERIFICATION:- FAILED\n' % e['name'] + '\n'.join('  %s' % c for c in e['failed_checks'][:10]),
                })
    elif any_undecided:
        res['status'] = 'undecided'
        res['reason'] = any_undecided
    elif hs:
        res['status'] = 'held'
    else:
        res['status'] = 'held'
        res['reason'] = 'no harness selected for this tier'
    res['wall_s'] = time.time() - t0
    return res
