"""Kani runner (bounded stand-ins and full-domain loop-free harnesses). Filled in per unit."""
import os, time


def run_unit(u, unit_dir, repo_root, scratch, tier):
    return {'unit': u['unit'], 'status': 'undecided', 'reason': 'kani runner not built yet', 'harnesses': [], 'wall_s': 0}
