use vstd::prelude::*;
verus! {
#[verifier::external_body] pub struct Error { _p: u8 }
#[verifier::external_body] pub struct DateTimeL { _p: u8 }
pub type DateTimeLOpt = Option<DateTimeL>;
#[verifier::external_body] pub struct Summary { _p: u8 }
pub type SummaryOpt = Option<Summary>;
#[verifier::external_body] pub struct Evtx { _p: u8 }
#[verifier::external_body] pub struct FPath { _p: u8 }
impl Clone for FPath { #[verifier::external_body] fn clone(&self) -> Self { unimplemented!() } }
#[derive(Clone, Copy)] pub struct FileType { pub k: u8 }
#[derive(Clone, Copy)] pub struct FixedOffset { pub k: i32 }
#[verifier::external_body] pub struct SystemTime { _p: u8 }
#[verifier::external_body] pub struct ThreadId { _p: u8 }
pub enum LogMessageType { Evtx, Sysline }
pub enum FileProcessingResultBlockZero { FileOk, FileErrStub, FileErrIo(Error) }
const FILEERRSTUB: FileProcessingResultBlockZero = FileProcessingResultBlockZero::FileErrStub;
const FILEOK: FileProcessingResultBlockZero = FileProcessingResultBlockZero::FileOk;
pub enum LogMessage { Evtx(Evtx) }
pub type IsLastLogMessage = bool;
pub enum ChanDatum {
    FileInfo(DateTimeLOpt, FileProcessingResultBlockZero),
    NewMessage(LogMessage, IsLastLogMessage),
    FileSummary(SummaryOpt, FileProcessingResultBlockZero),
}
// ghost tag of a datum: 0 FileInfo, 1 NewMessage, 2 FileSummary
pub open spec fn kind(d: ChanDatum) -> int { match d { ChanDatum::FileInfo(..) => 0, ChanDatum::NewMessage(..) => 1, ChanDatum::FileSummary(..) => 2 } }

#[verifier::external_body]
pub struct ChanSendDatum { _p: u8 }
impl ChanSendDatum {
    pub uninterp spec fn log(&self) -> Seq<int>;
}
// real chan_send takes &ChanSendDatum (interior mutability); ghost log must change: model with &mut? -> probe both
#[verifier::external_body]
fn chan_send(chan_send_dt: &mut ChanSendDatum, chan_datum: ChanDatum, _path: &FPath)
    ensures final(chan_send_dt).log() == old(chan_send_dt).log().push(kind(chan_datum))
{ unimplemented!() }

#[verifier::external_body] pub struct EvtxReader { _p: u8 }
impl EvtxReader {
    #[verifier::external_body] pub fn new(path: FPath, filetype: FileType) -> Result<EvtxReader, Error> { unimplemented!() }
    #[verifier::external_body] pub fn mtime(&self) -> SystemTime { unimplemented!() }
    #[verifier::external_body] pub fn analyze(&mut self, a: &DateTimeLOpt, b: &DateTimeLOpt) { unimplemented!() }
    #[verifier::external_body] pub fn next(&mut self) -> Option<Evtx> { unimplemented!() }
    #[verifier::external_body] pub fn summary_complete(&self) -> Summary { unimplemented!() }
}
impl Error { #[verifier::external_body] pub fn to_string(&self) -> String { unimplemented!() } }
impl Summary { #[verifier::external_body] pub fn new_failed(p: FPath, ft: FileType, l: LogMessageType, b: u64, e: Option<String>) -> Summary { unimplemented!() } }
#[verifier::external_body] fn systemtime_to_datetime(tz: &FixedOffset, st: &SystemTime) -> DateTimeL { unimplemented!() }

pub open spec fn protocol_ok(l: Seq<int>) -> bool {
    l.len() >= 2 && l[0] == 0 && l.last() == 2 && forall|i: int| 0 < i < l.len() - 1 ==> l[i] == 1
}

type ThreadInitData = (FPath, usize, FileType, u8, u64, DateTimeLOpt, DateTimeLOpt, FixedOffset);

#[verifier::exec_allows_no_decreases_clause]
fn exec_evtxprocessor(
    chan_send_dt: &mut ChanSendDatum,
    thread_init_data: ThreadInitData,
)
    requires old(chan_send_dt).log().len() == 0
    ensures protocol_ok(final(chan_send_dt).log())
{
    let (
        path,
        _pathid,
        filetype,
        _logmessagespecificdata,
        _blocksz,
        filter_dt_after_opt,
        filter_dt_before_opt,
        tz_offset,
    ) = thread_init_data;

    let mut evtxreader: EvtxReader = match EvtxReader::new(
        path.clone(),
        filetype,
    ) {
        Ok(val) => val,
        Err(err) => {
            let err_string = err.to_string();
            // send `ChanDatum::FileInfo`
            chan_send(
                chan_send_dt,
                ChanDatum::FileInfo(
                    DateTimeLOpt::None,
                    FileProcessingResultBlockZero::FileErrIo(err)
                ),
                &path
            );
            // send `ChanDatum::FileSummary`
            let summary = Summary::new_failed(
                path.clone(),
                filetype,
                LogMessageType::Evtx,
                0,
                Some(err_string)
            );
            chan_send(
                chan_send_dt,
                ChanDatum::FileSummary(Some(summary), FILEERRSTUB),
                &path
            );
            return;
        }
    };

    // send `ChanDatum::FileInfo`
    let mtime = evtxreader.mtime();
    let dt = systemtime_to_datetime(&tz_offset, &mtime);
    chan_send(
        chan_send_dt,
        ChanDatum::FileInfo(DateTimeLOpt::Some(dt), FILEOK),
        &path
    );

    evtxreader.analyze(
        &filter_dt_after_opt,
        &filter_dt_before_opt,
    );

    while let Some(evtx) = evtxreader.next()
        invariant chan_send_dt.log().len() >= 1, chan_send_dt.log()[0] == 0,
            forall|i: int| 0 < i < chan_send_dt.log().len() ==> chan_send_dt.log()[i] == 1,
    {
        let is_last = false;
        chan_send(
            chan_send_dt,
            ChanDatum::NewMessage(
                LogMessage::Evtx(evtx),
                is_last,
            ),
            &path
        );
    }

    let summary = evtxreader.summary_complete();
    chan_send(
        chan_send_dt,
        ChanDatum::FileSummary(
            Some(summary),
            FILEOK,
        ),
        &path
    );
}
}
fn main() {}
