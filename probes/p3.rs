use vstd::prelude::*;
use vstd::std_specs::cmp::*;
use core::cmp::Ordering;
verus! {

#[verifier::external_body]
pub struct DateTimeL { _p: u8 }

pub uninterp spec fn instant(dt: DateTimeL) -> int;

impl Copy for DateTimeL {}
impl Clone for DateTimeL {
    #[verifier::external_body]
    fn clone(&self) -> (r: Self) ensures r == *self { DateTimeL{_p: self._p} }
}
impl PartialEq for DateTimeL {
    #[verifier::external_body]
    fn eq(&self, other: &Self) -> (r: bool) { self._p == other._p }
}
impl PartialEqSpecImpl for DateTimeL {
    open spec fn obeys_eq_spec() -> bool { true }
    open spec fn eq_spec(&self, other: &Self) -> bool { instant(*self) == instant(*other) }
}
impl PartialOrd for DateTimeL {
    #[verifier::external_body]
    fn partial_cmp(&self, other: &Self) -> (r: Option<Ordering>) { self._p.partial_cmp(&other._p) }
}
impl PartialOrdSpecImpl for DateTimeL {
    open spec fn obeys_partial_cmp_spec() -> bool { true }
    open spec fn partial_cmp_spec(&self, other: &Self) -> Option<Ordering> {
        if instant(*self) < instant(*other) { Some(Ordering::Less) }
        else if instant(*self) == instant(*other) { Some(Ordering::Equal) }
        else { Some(Ordering::Greater) }
    }
}

pub type DateTimeLOpt = Option<DateTimeL>;

pub enum Result_Filter_DateTime1 {
    Pass,
    OccursAtOrAfter,
    OccursBefore,
}

pub fn dt_after_or_before(
    dt: &DateTimeL,
    dt_filter: &DateTimeLOpt,
) -> (r: Result_Filter_DateTime1)
    ensures
        dt_filter.is_none() ==> r is Pass,
        dt_filter.is_some() ==> (if instant(*dt) < instant(dt_filter.unwrap()) { r is OccursBefore } else { r is OccursAtOrAfter }),
{
    if dt_filter.is_none() {
        return Result_Filter_DateTime1::Pass;
    }

    let dt_a = &dt_filter.unwrap();
    if dt < dt_a {
        return Result_Filter_DateTime1::OccursBefore;
    }

    Result_Filter_DateTime1::OccursAtOrAfter
}
}
fn main() {}
