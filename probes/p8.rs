use vstd::prelude::*;
use std::sync::Arc;
verus! {
pub type FileOffset = u64;
pub type FileSz = u64;
pub fn min(a: u64, b: u64) -> (r: u64) ensures r == (if a <= b { a } else { b }) { if a <= b { a } else { b } }

#[verifier::external_body]
pub struct DateTimeL { _p: u8 }
pub type DateTimeLOpt = Option<DateTimeL>;
pub uninterp spec fn instant(dt: DateTimeL) -> int;

pub enum Result_Filter_DateTime1 { Pass, OccursAtOrAfter, OccursBefore }

#[verifier::external_body]
pub fn dt_after_or_before(dt: &DateTimeL, dt_filter: &DateTimeLOpt) -> (r: Result_Filter_DateTime1)
    ensures
        dt_filter.is_none() ==> r is Pass,
        dt_filter.is_some() ==> (if instant(*dt) < instant(dt_filter.unwrap()) { r is OccursBefore } else { r is OccursAtOrAfter }),
{ unimplemented!() }

#[verifier::external_body]
pub struct Sysline { _p: u8 }
pub type SyslineP = Arc<Sysline>;
pub uninterp spec fn sl_beg(s: Sysline) -> int;
pub uninterp spec fn sl_end(s: Sysline) -> int;
pub uninterp spec fn sl_dt(s: Sysline) -> DateTimeL;
impl Sysline {
    #[verifier::external_body]
    pub fn fileoffset_begin(&self) -> (r: FileOffset) ensures r == sl_beg(*self) { unimplemented!() }
    #[verifier::external_body]
    pub fn fileoffset_end(&self) -> (r: FileOffset) ensures r == sl_end(*self) { unimplemented!() }
    #[verifier::external_body]
    pub fn fileoffset_next(&self) -> (r: FileOffset) ensures r == sl_end(*self) + 1 { unimplemented!() }
    #[verifier::external_body]
    pub fn dt(&self) -> (r: &DateTimeL) ensures *r == sl_dt(*self) { unimplemented!() }
}

pub enum ResultS3<T, E> { Found(T), Done, Err(E) }
impl<T, E> ResultS3<T, E> {
    pub fn is_done(&self) -> (r: bool) ensures r == (self is Done) { matches!(self, ResultS3::Done) }
}
#[verifier::external_body]
pub struct Error { _p: u8 }
pub type ResultS3SyslineFind = ResultS3<(FileOffset, SyslineP), Error>;

#[verifier::external_body]
pub struct SyslineReader { _p: u8 }

impl SyslineReader {
    pub uninterp spec fn spec_filesz(&self) -> int;
    #[verifier::external_body]
    pub fn filesz(&self) -> (r: FileSz) ensures r == self.spec_filesz() { unimplemented!() }
    #[verifier::external_body]
    pub fn find_sysline(&mut self, fileoffset: FileOffset) -> (r: ResultS3SyslineFind)
        ensures final(self).spec_filesz() == old(self).spec_filesz(),
    { unimplemented!() }
    #[verifier::external_body]
    pub fn is_sysline_last(&self, syslinep: &SyslineP) -> (r: bool) { unimplemented!() }

    pub fn sysline_dt_after_or_before(
        syslinep: &SyslineP,
        dt_filter: &DateTimeLOpt,
    ) -> Result_Filter_DateTime1 {
        let dt: &DateTimeL = (*syslinep).dt();
        dt_after_or_before(dt, dt_filter)
    }

    #[verifier::exec_allows_no_decreases_clause]
    pub fn find_sysline_at_datetime_filter_binary_search(
        &mut self,
        fileoffset: FileOffset,
        dt_filter: &DateTimeLOpt,
    ) -> ResultS3SyslineFind {
        let filesz: FileSz = self.filesz();
        let fo_end: FileOffset = filesz as FileOffset;
        let mut try_fo: FileOffset = fileoffset;
        let mut try_fo_last: FileOffset = try_fo;
        let mut syslinep_opt: Option<SyslineP> = None;
        let mut fo_a: FileOffset = fileoffset; // begin "range cursor" marker
        let mut fo_b: FileOffset = fo_end; // end "range cursor" marker

        loop {
            let result: ResultS3SyslineFind = self.find_sysline(try_fo);
            let done = result.is_done();
            match result {
                ResultS3SyslineFind::Found((fo, syslinep)) => {
                    match SyslineReader::sysline_dt_after_or_before(&syslinep, dt_filter) {
                        Result_Filter_DateTime1::Pass => {
                            return ResultS3SyslineFind::Found((fo, syslinep));
                        } // end Pass
                        Result_Filter_DateTime1::OccursAtOrAfter => {
                            if try_fo == fileoffset {
                                return ResultS3SyslineFind::Found((fo, syslinep));
                            }
                            try_fo_last = try_fo;
                            fo_b = min((*syslinep).fileoffset_begin(), try_fo_last);
                            assert!(fo_a <= fo_b);
                            try_fo = fo_a + ((fo_b - fo_a) / 2);
                        } // end OccursAtOrAfter
                        Result_Filter_DateTime1::OccursBefore => {
                            let syslinep_foe: FileOffset = (*syslinep).fileoffset_end();
                            try_fo_last = try_fo;
                            assert!(try_fo_last <= syslinep_foe);
                            fo_a = min(syslinep_foe, fo_b);
                            try_fo = fo_a + ((fo_b - fo_a) / 2);
                        } // end OccursBefore
                    } // end SyslineReader::sysline_dt_after_or_before()
                    syslinep_opt = Some(syslinep);
                } // end Found
                ResultS3SyslineFind::Done => {
                    try_fo_last = try_fo;
                    try_fo = fo_a + ((fo_b - fo_a) / 2);
                } // end Done
                ResultS3SyslineFind::Err(_err) => {
                    break;
                } // end Err
            } // match result
            if done && try_fo == try_fo_last {
                break;
            } else if try_fo != try_fo_last {
                continue;
            }
            let mut syslinep = syslinep_opt.unwrap();
            let fo_beg: FileOffset = syslinep.fileoffset_begin();
            if self.is_sysline_last(&syslinep) && fo_beg < try_fo {
                return ResultS3SyslineFind::Done;
            }
            let fo_next: FileOffset = syslinep.fileoffset_next();
            if fo_beg < try_fo {
                let syslinep_next: SyslineP = match self.find_sysline(fo_next) {
                    ResultS3SyslineFind::Found((_, syslinep_)) => {
                        syslinep_
                    }
                    ResultS3SyslineFind::Done => {
                        break;
                    }
                    ResultS3SyslineFind::Err(_err) => {
                        break;
                    }
                };
                let syslinep_compare = dt_after_or_before(&(*syslinep).dt(), dt_filter);
                let syslinep_next_compare = dt_after_or_before(&(*syslinep_next).dt(), dt_filter);
                syslinep = match (syslinep_compare, syslinep_next_compare) {
                    (_, Result_Filter_DateTime1::Pass) | (Result_Filter_DateTime1::Pass, _) => {
                        break;
                    }
                    (Result_Filter_DateTime1::OccursBefore, Result_Filter_DateTime1::OccursBefore) => {
                        syslinep_next
                    }
                    (Result_Filter_DateTime1::OccursBefore, Result_Filter_DateTime1::OccursAtOrAfter) => {
                        syslinep_next
                    }
                    (Result_Filter_DateTime1::OccursAtOrAfter, Result_Filter_DateTime1::OccursAtOrAfter) => {
                        syslinep
                    }
                    _ => {
                        break;
                    }
                };
            } else {
            }
            let fo_: FileOffset = syslinep.fileoffset_next();
            return ResultS3SyslineFind::Found((fo_, syslinep));
        } // end loop

        ResultS3SyslineFind::Done
    }
}
}
fn main() {}
