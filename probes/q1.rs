#![feature(allocator_api)]
use vstd::prelude::*;
use std::sync::Arc;
verus! {
pub type BlockIndex = usize;
pub uninterp spec fn vec_cap<T>(v: &Vec<T>) -> usize;
pub assume_specification<T, A: std::alloc::Allocator> [Vec::<T, A>::capacity] (v: &Vec<T, A>) -> (r: usize)
    ensures r >= v@.len();

#[verifier::external_body]
pub struct Error { _p: u8 }
pub type PrinterLogMessageResult = Result<(usize, usize), Error>;
const BUFFER_USE: bool = true;

pub struct LinePart { pub blockp: Arc<Vec<u8>>, pub blocki_beg: BlockIndex, pub blocki_end: BlockIndex }
impl LinePart {
    pub open spec fn wf(&self) -> bool { self.blocki_beg <= self.blocki_end <= self.blockp@.len() }
    pub open spec fn bytes(&self) -> Seq<u8> { self.blockp@.subrange(self.blocki_beg as int, self.blocki_end as int) }
    #[verifier::external_body]
    pub fn as_slice(&self) -> (r: &[u8]) requires self.wf() ensures r@ == self.bytes() { &self.blockp[self.blocki_beg..self.blocki_end] }
}
pub struct Line { pub lineparts: Vec<LinePart> }
pub type LineP = Arc<Line>;

#[verifier::external_body]
pub struct StdoutLock { _p: u8 }
impl StdoutLock {
    pub uninterp spec fn view(&self) -> Seq<u8>;
    #[verifier::external_body]
    pub fn write_all(&mut self, buf: &[u8]) -> (r: Result<(), Error>)
        ensures r is Ok ==> final(self)@ == old(self)@ + buf@, r is Err ==> final(self)@ == old(self)@ { unimplemented!() }
    #[verifier::external_body]
    pub fn flush(&mut self) -> (r: Result<(), Error>) ensures final(self)@ == old(self)@ { unimplemented!() }
}

pub struct PrinterLogMessage { pub buffer: Vec<u8> }

impl PrinterLogMessage {
    fn print_line(
        &mut self,
        linep: &LineP,
        stdout_lock: &mut StdoutLock,
    ) -> (r: PrinterLogMessageResult)
        requires forall|i: int| 0 <= i < linep.lineparts@.len() ==> linep.lineparts@[i].wf(),
    {
        let mut printed: usize = 0;
        let mut flushed: usize = 0;
        for linepart in (*linep).lineparts.iter() {
            let slice: &[u8] = linepart.as_slice();
            // ---- expansion of buffer_write_or_return!(stdout_lock, self.buffer, slice, printed, flushed)
            {
        let mut error_ret: Option<Error> = None;
        if ! BUFFER_USE {
            match (stdout_lock).write_all((slice)) {
                Ok(_) => {
                    (printed) += (slice).len();
                }
                Err(err) => {
                    error_ret = Some(err);
                }
            }
            if let Err(err) = (stdout_lock).flush() {
                if let None = error_ret {
                    error_ret = Some(err);
                }
            }
            (flushed) += 1;
            match error_ret {
                Some(err) => return PrinterLogMessageResult::Err(err),
                None => {}
            }
        } else {
            let len: usize = (self.buffer).len();
            let slice_len: usize = (slice).len();
            let cap: usize = (self.buffer).capacity();
            let remain: usize = cap - len;
            if slice_len <= remain {
                (self.buffer).extend_from_slice((slice));
            } else {
                match (stdout_lock).write_all((self.buffer).as_slice()) {
                    Ok(_) => {
                        (printed) += (self.buffer).len();
                        (flushed) += 1;
                        (self.buffer).clear();
                    }
                    Err(err) => {
                        (self.buffer).clear();
                        match (stdout_lock).flush() {
                            Ok(_) => {}
                            Err(_) => {}
                        }
                        (flushed) += 1;
                        error_ret = Some(err);
                    }
                }
                match error_ret {
                    Some(_) => {
                        (self.buffer).extend_from_slice((slice));
                    },
                    None => {
                        if (slice).len() > cap {
                            match (stdout_lock).write_all((slice)) {
                                Ok(_) => {
                                    (printed) += (slice).len();
                                }
                                Err(err) => {
                                    error_ret = Some(err);
                                }
                            }
                            if let Err(err) = (stdout_lock).flush() {
                                if let None = error_ret {
                                        error_ret = Some(err);
                                }
                            }
                            (flushed) += 1;
                        } else {
                            (self.buffer).extend_from_slice((slice));
                        }
                    }
                }
                match error_ret {
                    Some(err) => return PrinterLogMessageResult::Err(err),
                    None => {}
                }
            }
        }
            }
        }

        PrinterLogMessageResult::Ok((printed, flushed))
    }
}
}
fn main() {}
