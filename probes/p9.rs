use vstd::prelude::*;
use std::collections::BTreeMap;
verus! {
pub type FileOffset = u64;
pub const TIMEVAL_SZ_MAX: usize = 16;

#[derive(Clone, Copy, PartialEq, Eq, PartialOrd, Ord)]
pub struct tv_pair_type(pub i64, pub i64);

type MapTvPairToFo = BTreeMap<tv_pair_type, FileOffset>;

#[verifier::external_body]
pub struct DateTimeL { _p: u8 }
pub type DateTimeLOpt = Option<DateTimeL>;
#[verifier::external_body]
pub fn convert_datetime_tvpair(dt: &DateTimeL) -> tv_pair_type { unimplemented!() }

#[verifier::external_body]
pub struct Error { _p: u8 }
pub enum ResultS3<T, E> { Found(T), Done, Err(E) }
pub type ResultReadDataToBuffer = ResultS3<usize, Error>;
pub type ResultTvFo = Result<(usize, usize, usize, usize, MapTvPairToFo), Error>;

#[verifier::external_body]
pub struct BlockReader { _p: u8 }
impl BlockReader {
    #[verifier::external_body]
    pub fn filesz(&self) -> u64 { unimplemented!() }
    #[verifier::external_body]
    pub fn read_data_to_buffer(&mut self, beg: FileOffset, end: FileOffset, oneblock: bool, buffer: &mut [u8]) -> ResultReadDataToBuffer { unimplemented!() }
}
#[derive(Clone, Copy)]
pub struct FixedStructType { pub k: u8 }
impl FixedStructType {
    #[verifier::external_body]
    pub fn size(&self) -> usize { unimplemented!() }
    #[verifier::external_body]
    pub fn size_tv(&self) -> usize { unimplemented!() }
    #[verifier::external_body]
    pub fn offset_tv(&self) -> usize { unimplemented!() }
    #[verifier::external_body]
    pub fn tv_pair_from_buffer(&self, b: &[u8]) -> Option<tv_pair_type> { unimplemented!() }
}

    #[verifier::exec_allows_no_decreases_clause]
    pub(crate) fn preprocess_timevalues(
        blockreader: &mut BlockReader,
        fixedstruct_type: FixedStructType,
        dt_filter_after: &DateTimeLOpt,
        dt_filter_before: &DateTimeLOpt,
    ) -> ResultTvFo
    {
        // allocate largest possible buffer needed on the stack
        let mut buffer: [u8; TIMEVAL_SZ_MAX] = [0; TIMEVAL_SZ_MAX];
        // map of time values to file offsets
        let mut map_tv_pair_fo: MapTvPairToFo = MapTvPairToFo::new();
        // count of out of order entries
        let mut out_of_order: usize = 0;
        let mut valid_no_pass_filter: usize = 0;
        let mut invalid: usize = 0;
        let mut total_entries: usize = 0;

        let tv_filter_after: Option<tv_pair_type> = match dt_filter_after {
            Some(dt) => Some(convert_datetime_tvpair(dt)),
            None => None,
        };
        let tv_filter_before: Option<tv_pair_type> = match dt_filter_before {
            Some(dt) => Some(convert_datetime_tvpair(dt)),
            None => None,
        };

        // 1. get offsets
        let entry_sz: FileOffset = fixedstruct_type.size() as FileOffset;
        let tv_sz: usize = fixedstruct_type.size_tv();
        let tv_offset: usize = fixedstruct_type.offset_tv();
        let slice_: &mut [u8] = &mut buffer[..tv_sz];
        let mut fo: FileOffset = 0;
        let mut tv_pair_prev: Option<tv_pair_type> = None;
        loop {
            // 2. jump to each offset, grab datetime bytes,
            let beg: FileOffset = fo + tv_offset as FileOffset;
            let end: FileOffset = beg + tv_sz as FileOffset;
            match blockreader.read_data_to_buffer(
                beg,
                end,
                false,
                slice_,
            ) {
                ResultReadDataToBuffer::Found(_readn) => {
                }
                ResultReadDataToBuffer::Err(err) => {
                    return ResultTvFo::Err(err);
                }
                ResultReadDataToBuffer::Done => {
                    break;
                }
            }
            // 3. convert bytes to tv_sec, tv_usec
            let tv_pair: tv_pair_type = match fixedstruct_type.tv_pair_from_buffer(
                slice_,
            ) {
                Some(pair) => pair,
                None => {
                    fo += entry_sz;
                    invalid += 1;
                    continue;
                }
            };
            if tv_pair == tv_pair_type(0, 0) {
                fo += entry_sz;
                continue;
            }
            match tv_pair_prev {
                Some(tv_pair_prev) => {
                    if tv_pair < tv_pair_prev {
                        out_of_order += 1;
                    }
                }
                None => {}
            }
            tv_pair_prev = Some(tv_pair);
            total_entries += 1;
            // 4. compare to time value filters
            if let Some(tv_filter) = tv_filter_after {
                if tv_pair < tv_filter {
                    fo += entry_sz;
                    valid_no_pass_filter += 1;
                    continue;
                }
            }
            if let Some(tv_filter) = tv_filter_before {
                if tv_pair > tv_filter {
                    fo += entry_sz;
                    valid_no_pass_filter += 1;
                    continue;
                }
            }
            // 5. save entries that pass the time value filters
            map_tv_pair_fo.insert(tv_pair, fo);

            fo += entry_sz;
        }
        ResultTvFo::Ok(
            (total_entries, invalid, valid_no_pass_filter, out_of_order, map_tv_pair_fo)
        )
    }
}
fn main() {}
