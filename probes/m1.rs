use vstd::prelude::*;
verus! {

pub struct Msg { pub t: int, pub id: int }

// cur[p] = messages of source p not yet printed (head first)
pub open spec fn total(cur: Seq<Seq<Msg>>) -> nat
    decreases cur.len()
{
    if cur.len() == 0 { 0 } else { total(cur.drop_last()) + cur.last().len() }
}

pub open spec fn nonempty(cur: Seq<Seq<Msg>>, p: int) -> bool { 0 <= p < cur.len() && cur[p].len() > 0 }

// p is the source whose head is earliest, lowest index among ties
pub open spec fn is_min(cur: Seq<Seq<Msg>>, p: int) -> bool {
    nonempty(cur, p)
    && forall|q: int| nonempty(cur, q) ==> (cur[p][0].t < cur[q][0].t || (cur[p][0].t == cur[q][0].t && p <= q))
}

pub open spec fn has_any(cur: Seq<Seq<Msg>>) -> bool { exists|p: int| nonempty(cur, p) }

pub open spec fn pick(cur: Seq<Seq<Msg>>) -> int { choose|p: int| is_min(cur, p) }

pub open spec fn pop(cur: Seq<Seq<Msg>>, p: int) -> Seq<Seq<Msg>> { cur.update(p, cur[p].skip(1)) }

pub open spec fn merge(cur: Seq<Seq<Msg>>) -> Seq<(int, Msg)>
    decreases total(cur)
{
    if has_any(cur) && is_min(cur, pick(cur)) && total(pop(cur, pick(cur))) < total(cur) {
        seq![(pick(cur), cur[pick(cur)][0])] + merge(pop(cur, pick(cur)))
    } else {
        Seq::empty()
    }
}

proof fn lemma_total_update(cur: Seq<Seq<Msg>>, p: int, s: Seq<Msg>)
    requires 0 <= p < cur.len()
    ensures total(cur.update(p, s)) == total(cur) - cur[p].len() + s.len()
    decreases cur.len()
{
    if p == cur.len() - 1 {
        assert(cur.update(p, s).drop_last() =~= cur.drop_last());
    } else {
        lemma_total_update(cur.drop_last(), p, s);
        assert(cur.update(p, s).drop_last() =~= cur.drop_last().update(p, s));
    }
}

proof fn lemma_min_unique(cur: Seq<Seq<Msg>>, p: int, q: int)
    requires is_min(cur, p), is_min(cur, q)
    ensures p == q
{}

// existence of a minimum among finitely many non-empty sources
proof fn lemma_min_exists(cur: Seq<Seq<Msg>>, n: int) -> (p: int)
    requires 0 <= n <= cur.len(), exists|q: int| 0 <= q < n && nonempty(cur, q)
    ensures 0 <= p < n, nonempty(cur, p),
        forall|q: int| 0 <= q < n && nonempty(cur, q) ==> (cur[p][0].t < cur[q][0].t || (cur[p][0].t == cur[q][0].t && p <= q))
    decreases n
{
    let last = n - 1;
    if exists|q: int| 0 <= q < last && nonempty(cur, q) {
        let p0 = lemma_min_exists(cur, last);
        if nonempty(cur, last) && cur[last][0].t < cur[p0][0].t { last } else { p0 }
    } else {
        last
    }
}

// THE STEP LEMMA: if the coordinator selected `sel` as (earliest, lowest id) among the pending heads,
// and every non-exhausted source has its head pending, then `sel` is what merge() emits next.
pub proof fn lemma_merge_step(cur: Seq<Seq<Msg>>, sel: int)
    requires is_min(cur, sel)
    ensures merge(cur) == seq![(sel, cur[sel][0])] + merge(pop(cur, sel))
{
    assert(nonempty(cur, sel));
    assert(has_any(cur));
    lemma_min_unique(cur, sel, pick(cur));
    lemma_total_update(cur, sel, cur[sel].skip(1));
}

pub proof fn lemma_merge_done(cur: Seq<Seq<Msg>>)
    requires forall|p: int| 0 <= p < cur.len() ==> cur[p].len() == 0
    ensures merge(cur) == Seq::<(int, Msg)>::empty()
{
    if has_any(cur) { let p = choose|p: int| nonempty(cur, p); assert(false); }
}

}
fn main() {}
