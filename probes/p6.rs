#![feature(allocator_api)]
use vstd::prelude::*;
use std::collections::{BTreeMap, HashMap, HashSet};
use std::sync::Arc;
verus! {
pub type PathId = usize;
pub type Count = u64;

pub assume_specification<'a, K, V, S, A, Q> [std::collections::HashMap::<K, V, S, A>::get_mut] (_0: &'a mut std::collections::HashMap<K, V, S, A>, _1: &Q) -> (r: std::option::Option<&'a mut V>)
           where
           A: std::alloc::Allocator,
           K: std::cmp::Eq + std::hash::Hash + std::borrow::Borrow<Q>,
           Q: std::marker::MetaSized + std::hash::Hash + std::cmp::Eq + ?Sized,
           S: std::hash::BuildHasher,;

pub struct Sysline { pub nlines: u64 }
pub type SyslineP = Arc<Sysline>;
impl Sysline {
    pub fn count_lines(&self) -> (r: Count) ensures r == self.nlines { self.nlines }
}

#[derive(Copy, Clone)]
pub struct SummaryPrinted {
    pub bytes: Count,
    pub flushed: Count,
    pub lines: Count,
    pub syslines: Count,
}

impl SummaryPrinted {
    pub fn summaryprint_update_sysline(
        &mut self,
        syslinep: &SyslineP,
        printed: Count,
        flushed: Count,
    )
        requires old(self).bytes + printed <= u64::MAX, old(self).flushed + flushed <= u64::MAX,
                 old(self).syslines < u64::MAX, old(self).lines + syslinep.nlines <= u64::MAX,
        ensures final(self).bytes == old(self).bytes + printed,
                final(self).syslines == old(self).syslines + 1,
                final(self).lines == old(self).lines + syslinep.nlines,
                final(self).flushed == old(self).flushed + flushed,
    {
        assert!(printed >= 0);
        self.syslines += 1;
        self.lines += (*syslinep).count_lines();
        self.bytes += printed;
        self.flushed += flushed;
    }

    pub fn summaryprint_map_update_sysline(
        syslinep: &SyslineP,
        pathid: &PathId,
        map_: &mut HashMap<PathId, SummaryPrinted>,
        printed: Count,
        flushed: Count,
    )
    {
        match map_.get_mut(pathid) {
            Some(sp) => {
                sp.summaryprint_update_sysline(syslinep, printed, flushed);
            }
            None => {
            }
        };
    }
}
}
fn main() {}
