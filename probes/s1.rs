use vstd::prelude::*;
use std::sync::Arc;
verus! {
pub type Count = u64;
pub type PathId = usize;
#[verifier::external_body] pub struct Error { _p: u8 }
pub struct Sysline { pub nl: bool, pub nlines: u64 }
pub type SyslineP = Arc<Sysline>;
impl Sysline {
    pub fn ends_with_newline(&self) -> (r: bool) ensures r == self.nl { self.nl }
}
pub uninterp spec fn payload(s: &Sysline) -> Seq<u8>;
#[verifier::external_body] pub struct PrinterLogMessage { _p: u8 }
impl PrinterLogMessage {
    #[verifier::external_body]
    pub fn print_sysline(&mut self, syslinep: &SyslineP) -> (r: Result<(usize, usize), Error>)
        ensures r is Ok ==> r->Ok_0.0 == payload(&**syslinep).len()
    { unimplemented!() }
}
#[verifier::external_body]
pub fn write_stdout(buffer: &[u8]) { unimplemented!() }
pub const NLu8a: [u8; 1] = [10];

#[derive(Copy, Clone)]
pub struct SummaryPrinted { pub bytes: Count, pub flushed: Count, pub syslines: Count }
impl SummaryPrinted {
    #[verifier::external_body]
    pub fn summaryprint_update_sysline(&mut self, syslinep: &SyslineP, printed: Count, flushed: Count)
        ensures final(self).bytes == old(self).bytes + printed, final(self).syslines == old(self).syslines + 1, final(self).flushed == old(self).flushed + flushed
    { unimplemented!() }
}

// ---- slice harness (declared), slice text (cut) between the markers
pub fn pl6_sysline(
    printer: &mut PrinterLogMessage,
    syslinep: &SyslineP,
    pathid: &PathId,
    is_last: bool,
    sepb: &[u8],
    sepb_print: bool,
    cli_opt_summary: bool,
    has_print_err_in: bool,
    summaryprinted_in: SummaryPrinted,
    disconnect_in: Vec<PathId>,
    Ghost(out_in): Ghost<Seq<u8>>,
) -> (r: (bool, SummaryPrinted, Vec<PathId>, Ghost<Seq<u8>>, Ghost<bool>))
    requires sepb_print == (sepb@.len() > 0),
        summaryprinted_in.bytes < 0x1000_0000_0000, summaryprinted_in.flushed < 0x1000_0000_0000, sepb@.len() < 0x1000_0000,
        summaryprinted_in.syslines < 0x1000_0000_0000,
    ensures
        // what reached stdout in this step (when the print succeeded)
        r.4@ ==> r.3@ == out_in + payload(&**syslinep) + sepb@ + (if is_last && !syslinep.nl { seq![10u8] } else { Seq::<u8>::empty() }),
        // C19: the total grows by exactly the bytes written in this step
        r.4@ && cli_opt_summary ==> r.1.bytes == summaryprinted_in.bytes + (r.3@.len() - out_in.len()),
        !cli_opt_summary ==> r.1 == summaryprinted_in,
{
    let mut has_print_err = has_print_err_in;
    let mut summaryprinted = summaryprinted_in;
    let mut disconnect = disconnect_in;
    let ghost mut out = out_in;
    let ghost mut ok = true;
    // ---- cut text begins
                    let mut printed: Count = 0;
                    let mut flushed: Count = 0;
                    match printer.print_sysline(syslinep) {
                        Ok((printed_, flushed_)) => {
                            printed = printed_ as Count;
                            flushed = flushed_ as Count;
                            proof { out = out + payload(&**syslinep); }   // @ghost R8
                        },
                        Err(_err) => {
                            // Only print a printing error once and only for debug builds.
                            if !has_print_err {
                                has_print_err = true;
                            }
                            disconnect.push(*pathid);
                            proof { ok = false; }   // @ghost
                        }
                    }
                    if sepb_print {
                        write_stdout(sepb);
                        proof { out = out + sepb@; }   // @ghost R8
                        if cli_opt_summary {
                            summaryprinted.bytes += sepb.len() as Count;
                            summaryprinted.flushed += 1;
                        }
                    }
                    if is_last && !(*syslinep).ends_with_newline() {
                        write_stdout(&NLu8a);
                        proof { out = out + seq![10u8]; }   // @ghost R8
                        if cli_opt_summary {
                            summaryprinted.bytes += NLu8a.len() as Count;
                            summaryprinted.flushed += 1;
                        }
                    }
                    if cli_opt_summary {
                        // update the single total program `SummaryPrinted`
                        summaryprinted.summaryprint_update_sysline(syslinep, printed, flushed);

                    }
    // ---- cut text ends
    (has_print_err, summaryprinted, disconnect, Ghost(out), Ghost(ok))
}
}
fn main() {}
