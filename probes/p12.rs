use vstd::prelude::*;
use vstd::std_specs::cmp::*;
use core::cmp::Ordering;
use std::collections::BTreeMap;
verus! {
pub type FileOffset = u64;
#[derive(Clone, Copy, PartialEq, Eq, PartialOrd, Ord)]
pub struct tv_pair_type(pub i64, pub i64);

pub open spec fn tv_lt(a: tv_pair_type, b: tv_pair_type) -> bool { a.0 < b.0 || (a.0 == b.0 && a.1 < b.1) }

impl PartialEqSpecImpl for tv_pair_type {
    open spec fn obeys_eq_spec() -> bool { true }
    open spec fn eq_spec(&self, other: &Self) -> bool { self.0 == other.0 && self.1 == other.1 }
}
impl PartialOrdSpecImpl for tv_pair_type {
    open spec fn obeys_partial_cmp_spec() -> bool { true }
    open spec fn partial_cmp_spec(&self, other: &Self) -> Option<Ordering> {
        if tv_lt(*self, *other) { Some(Ordering::Less) } else if *self == *other { Some(Ordering::Equal) } else { Some(Ordering::Greater) }
    }
}
impl OrdSpecImpl for tv_pair_type {
    open spec fn obeys_cmp_spec() -> bool { true }
    open spec fn cmp_spec(&self, other: &Self) -> Ordering {
        if tv_lt(*self, *other) { Ordering::Less } else if *self == *other { Ordering::Equal } else { Ordering::Greater }
    }
}

pub fn lt_test(a: tv_pair_type, b: tv_pair_type) -> (r: bool)
    ensures r == tv_lt(a, b)
{
    a < b
}

pub fn walk(m: &BTreeMap<tv_pair_type, FileOffset>, fileoffset: FileOffset) -> (r: u64)
    requires vstd::laws_cmp::obeys_cmp::<tv_pair_type>(),
{
    let mut c = 0u64;
    for (k, fo_at) in m.iter() {
        if &fileoffset == fo_at { c = 1; }
    }
    c
}
pub fn ins(m: &mut BTreeMap<tv_pair_type, FileOffset>, k: tv_pair_type, fo: FileOffset)
    requires vstd::laws_cmp::obeys_cmp::<tv_pair_type>(),
    ensures final(m)@ == old(m)@.insert(k, fo)
{

    m.insert(k, fo);
}
}
verus!{
proof fn try_prove() ensures vstd::laws_cmp::obeys_cmp::<tv_pair_type>() {
    reveal(vstd::laws_cmp::obeys_cmp);
}
}
fn main() {}
