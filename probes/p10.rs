use vstd::prelude::*;
use std::collections::BTreeMap;
verus! {
pub type FileOffset = u64;
#[derive(Clone, Copy, PartialEq, Eq, PartialOrd, Ord)]
pub struct tv_pair_type(pub i64, pub i64);
type MapTvPairToFo = BTreeMap<tv_pair_type, FileOffset>;

pub fn lt_test(a: tv_pair_type, b: tv_pair_type) -> (r: bool)
    ensures r == (a.0 < b.0 || (a.0 == b.0 && a.1 < b.1))
{
    a < b
}

pub struct R { pub map_tvpair_fo: MapTvPairToFo, pub filesz: u64 }
impl R {
    pub fn filesz(&self) -> u64 { self.filesz }
    pub fn walk(&mut self, fileoffset: FileOffset) -> FileOffset {
        let fo_next: FileOffset = {
            let mut fo_next_: FileOffset = self.filesz();
            let mut next_pair: bool = false;
            let mut tv_pair_at_opt: Option<tv_pair_type> = None;
            for (tv_pair_at, fo_at) in self.map_tvpair_fo.iter() {
                if next_pair {
                    fo_next_ = *fo_at;
                    break;
                }
                if &fileoffset == fo_at {
                    tv_pair_at_opt = Some(*tv_pair_at);
                    next_pair = true;
                }
            }
            match tv_pair_at_opt {
                Some(tv_pair_at) => {
                    self.map_tvpair_fo.remove(&tv_pair_at);
                }
                None => {
                }
            }

            fo_next_
        };
        fo_next
    }
}
}
fn main() {}
