// UNIT CAPF — captures_to_buffer_bytes, the date and time-of-day fields (C04): what the regex captured under a group name goes,
// under that field's own name, into the buffer chrono parses -- verbatim for the fixed-width fields, and with the same numeric
// value, two digits, for the single-digit / space-padded day, month and hour forms.  Slices of the real function, one per field.
#![allow(unused_imports, non_camel_case_types, dead_code, unused_variables, unused_parens, unused_mut, unused_assignments, non_snake_case, non_upper_case_globals)]
use vstd::prelude::*;
verus! {

global size_of usize == 8;
pub type CaptureGroupName = str;
pub type DateTimePattern_str = str;
pub type Year = i32;

//@cut type kind=enum path=src/data/datetime.rs name=DTFS_Year derives=
//@end
//@cut type kind=enum path=src/data/datetime.rs name=DTFS_Month derives=
//@end
//@cut type kind=enum path=src/data/datetime.rs name=DTFS_Day derives=
//@end
//@cut type kind=enum path=src/data/datetime.rs name=DTFS_Hour derives=
//@end
//@cut type kind=enum path=src/data/datetime.rs name=DTFS_Minute derives=
//@end
//@cut type kind=enum path=src/data/datetime.rs name=DTFS_Second derives=
//@end
//@cut type kind=enum path=src/data/datetime.rs name=DTFS_Fractional derives=
//@end
//@cut type kind=enum path=src/data/datetime.rs name=DTFS_Tz derives=
//@end
//@cut type kind=enum path=src/data/datetime.rs name=DTFS_Epoch derives=
//@end
//@cut type kind=struct path=src/data/datetime.rs name=DTFSSet derives=
//@end

// ---- assumed: the regex crate's Captures, by what each named group captured (ghost: group id -> bytes)
pub enum G { Year, Month, Day, Hour, Minute, Second, Fractional, Tz, Epoch, Other }
pub uninterp spec fn gid(n: &str) -> G;
pub struct Match<'h> { pub b: &'h [u8] }
impl<'h> Match<'h> {
    pub open spec fn bytes(&self) -> Seq<u8> { self.b@ }
    pub fn as_bytes(&self) -> (r: &'h [u8]) ensures r@ == self.bytes() { self.b }
}
#[verifier::external_body]
pub struct Captures<'h> { _p: &'h [u8] }
impl<'h> Captures<'h> {
    pub uninterp spec fn cap(&self, g: G) -> Option<Seq<u8>>;
    #[verifier::external_body]
    pub fn name(&self, n: &CaptureGroupName) -> (r: Option<Match<'h>>)
        ensures r is Some <==> self.cap(gid(n)) is Some, r is Some ==> r.unwrap().bytes() == self.cap(gid(n)).unwrap()
    { unimplemented!() }
}
// the group-name constants, and which ghost group each names (assumed: distinct names denote distinct groups)
//@cutall kind=const path=src/data/datetime.rs re=^CGN_(YEAR|MONTH|DAY|HOUR|MINUTE|SECOND|EPOCH|TZ)$ staticrefs=1
#[verifier::external_body]
proof fn axiom_gids()
    ensures gid(CGN_YEAR) == G::Year, gid(CGN_MONTH) == G::Month, gid(CGN_DAY) == G::Day, gid(CGN_HOUR) == G::Hour,
            gid(CGN_MINUTE) == G::Minute, gid(CGN_SECOND) == G::Second, gid(CGN_EPOCH) == G::Epoch, gid(CGN_TZ) == G::Tz
{}

pub open spec fn is_digit(b: u8) -> bool { 0x30 <= b <= 0x39 }
pub open spec fn dv(b: u8) -> int { b - 0x30 }
/// the number a one- or two-character field denotes; a leading space counts as nothing (`%e`)
pub open spec fn field_value(d: Seq<u8>) -> int {
    if d.len() == 1 { dv(d[0]) } else if d[0] == 0x20 { dv(d[1]) } else { dv(d[0]) * 10 + dv(d[1]) }
}
pub open spec fn field_ok(d: Seq<u8>) -> bool {
    (d.len() == 1 && is_digit(d[0])) || (d.len() == 2 && (d[0] == 0x20 || is_digit(d[0])) && is_digit(d[1]))
}
/// two digits with the same value
pub open spec fn two_digits_of(out: Seq<u8>, d: Seq<u8>) -> bool {
    out.len() == 2 && is_digit(out[0]) && is_digit(out[1]) && dv(out[0]) * 10 + dv(out[1]) == field_value(d)
}
pub open spec fn spliced(b0: Seq<u8>, at: int, s: Seq<u8>) -> Seq<u8> { b0.subrange(0, at) + s + b0.subrange(at + s.len(), b0.len() as int) }

// ---- real: the three copy macros, each verified once as a function generated from its body (R13)
//@macrofn path=src/data/datetime.rs name=copy_slice_to_buffer
//@params u8_slice:val:&[u8] buffer:mut:[u8] at:mut:usize
//@spec
    requires *old(at) + u8_slice@.len() <= old(buffer)@.len(), old(buffer)@.len() <= usize::MAX,
    ensures *final(at) == *old(at) + u8_slice@.len(), final(buffer)@ =~= spliced(old(buffer)@, *old(at) as int, u8_slice@),
//@end
//@macrofn path=src/data/datetime.rs name=copy_u8_to_buffer
//@params u8_:val:u8 buffer:mut:[u8] at:mut:usize
//@spec
    requires *old(at) < old(buffer)@.len(), old(buffer)@.len() <= usize::MAX,
    ensures *final(at) == *old(at) + 1, final(buffer)@ =~= spliced(old(buffer)@, *old(at) as int, seq![u8_]),
//@end
//@macrofn path=src/data/datetime.rs name=copy_capturegroup_to_buffer
//@params name:val:&CaptureGroupName captures:val:&Captures buffer:mut:[u8] at:mut:usize
//@spec
    requires
        captures.cap(gid(name)) is Some,
        *old(at) + captures.cap(gid(name)).unwrap().len() <= old(buffer)@.len(), old(buffer)@.len() <= usize::MAX,
    ensures
        // the bytes captured under THIS name, verbatim
        *final(at) == *old(at) + captures.cap(gid(name)).unwrap().len(),
        final(buffer)@ =~= spliced(old(buffer)@, *old(at) as int, captures.cap(gid(name)).unwrap()),
//@end

/// the day field: `%d` two digits verbatim; one digit or space-padded (`%e`) becomes two digits of the same value
pub fn cap_day(buffer: &mut [u8], captures: &Captures, dtfs: &DTFSSet, at0: usize) -> (r: usize)
    requires
        at0 + 2 <= old(buffer)@.len(), old(buffer)@.len() <= usize::MAX,
        dtfs.day is _e_or_d ==> captures.cap(G::Day) is Some && field_ok(captures.cap(G::Day).unwrap()),
    ensures
        dtfs.day is _e_or_d ==> r == at0 + 2 && two_digits_of(final(buffer)@.subrange(at0 as int, at0 + 2), captures.cap(G::Day).unwrap())
            && (forall|i: int| 0 <= i < at0 || at0 + 2 <= i < old(buffer)@.len() ==> final(buffer)@[i] == old(buffer)@[i]),
        dtfs.day is _none ==> r == at0 && final(buffer)@ == old(buffer)@,
{
    proof { axiom_gids(); }
    let mut at: usize = at0;
//@cut slice path=src/data/datetime.rs fn=captures_to_buffer_bytes anchor="match dtfs.day {" take=block label=CAP-DAY reborrow=buffer
//@end
    at
}

/// the month field given as a number: `%m` verbatim, a single digit becomes two digits of the same value
pub fn cap_month_num(buffer: &mut [u8], captures: &Captures, dtfs: &DTFSSet, at0: usize) -> (r: usize)
    requires
        at0 + 2 <= old(buffer)@.len(), old(buffer)@.len() <= usize::MAX,
        dtfs.month is m || dtfs.month is ms,
        captures.cap(G::Month) is Some,
        dtfs.month is m ==> captures.cap(G::Month).unwrap().len() == 2,
        dtfs.month is ms ==> field_ok(captures.cap(G::Month).unwrap()) && captures.cap(G::Month).unwrap()[0] != 0x20,
    ensures
        r == at0 + 2,
        dtfs.month is m ==> final(buffer)@.subrange(at0 as int, at0 + 2) =~= captures.cap(G::Month).unwrap(),
        dtfs.month is ms ==> two_digits_of(final(buffer)@.subrange(at0 as int, at0 + 2), captures.cap(G::Month).unwrap()),
        forall|i: int| 0 <= i < at0 || at0 + 2 <= i < old(buffer)@.len() ==> final(buffer)@[i] == old(buffer)@[i],
{
    proof { axiom_gids(); }
    let mut at: usize = at0;
//@cut slice path=src/data/datetime.rs fn=captures_to_buffer_bytes anchor="match dtfs.month {" take=block label=CAP-MONTH reborrow=buffer
//@replace "month_bB_to_month_m_bytes(" "verif_month_names("
//@bytelits
//@end
    at
}
/// stand-in for the named-month conversion (decided by unit MON): not reached under cap_month_num's precondition
#[verifier::external_body]
pub fn verif_month_names(data: &[u8], buffer: &mut [u8]) { unimplemented!() }

/// the hour field: `%H %I %l` verbatim; `%k` (one or two digits) becomes two digits of the same value
pub fn cap_hour(buffer: &mut [u8], captures: &Captures, dtfs: &DTFSSet, at0: usize) -> (r: usize)
    requires
        at0 + 2 <= old(buffer)@.len(), old(buffer)@.len() <= usize::MAX,
        !(dtfs.hour is _none) ==> captures.cap(G::Hour) is Some,
        dtfs.hour is H || dtfs.hour is I || dtfs.hour is l ==> captures.cap(G::Hour).unwrap().len() <= 2,
        dtfs.hour is k ==> field_ok(captures.cap(G::Hour).unwrap()) && captures.cap(G::Hour).unwrap()[0] != 0x20,
    ensures
        dtfs.hour is H || dtfs.hour is I || dtfs.hour is l ==> r == at0 + captures.cap(G::Hour).unwrap().len()
            && final(buffer)@.subrange(at0 as int, r as int) =~= captures.cap(G::Hour).unwrap(),
        dtfs.hour is k ==> r == at0 + 2 && two_digits_of(final(buffer)@.subrange(at0 as int, at0 + 2), captures.cap(G::Hour).unwrap()),
        dtfs.hour is _none ==> r == at0 && final(buffer)@ == old(buffer)@,
        forall|i: int| 0 <= i < at0 || at0 + 2 <= i < old(buffer)@.len() ==> final(buffer)@[i] == old(buffer)@[i],
{
    proof { axiom_gids(); }
    let mut at: usize = at0;
//@cut slice path=src/data/datetime.rs fn=captures_to_buffer_bytes anchor="match dtfs.hour {" take=block label=CAP-HOUR reborrow=buffer
//@bytelits
//@end
    at
}

/// minute, second: the bytes captured under that very name (a missing seconds field is written as 00)
pub fn cap_min_sec(buffer: &mut [u8], captures: &Captures, dtfs: &DTFSSet, at0: usize) -> (r: usize)
    requires
        at0 + 4 <= old(buffer)@.len(), old(buffer)@.len() <= usize::MAX,
        dtfs.minute is M ==> captures.cap(G::Minute) is Some && captures.cap(G::Minute).unwrap().len() == 2,
        dtfs.second is S ==> captures.cap(G::Second) is Some && captures.cap(G::Second).unwrap().len() == 2,
    ensures
        final(buffer)@.len() == old(buffer)@.len(),
        ({
            let mn = if dtfs.minute is M { captures.cap(G::Minute).unwrap() } else { Seq::<u8>::empty() };
            let sc = if dtfs.second is S { captures.cap(G::Second).unwrap() } else if dtfs.second is _fill { seq![0x30u8, 0x30u8] } else { Seq::<u8>::empty() };
            r == at0 + mn.len() + sc.len() && final(buffer)@.subrange(at0 as int, r as int) =~= mn + sc
        }),
{
    proof { axiom_gids(); }
    let mut at: usize = at0;
//@cut slice path=src/data/datetime.rs fn=captures_to_buffer_bytes anchor="match dtfs.minute {" take=block label=CAP-MINUTE reborrow=buffer
//@end
//@cut slice path=src/data/datetime.rs fn=captures_to_buffer_bytes anchor="match dtfs.second {" take=block label=CAP-SECOND reborrow=buffer
//@bytelits
//@end
    at
}


// ---- epoch, year, zone (C04: "... every numeric UTC offset and every unambiguous zone abbreviation ...  A timestamp without zone
// information is read in the --tz-offset zone, as are ambiguous zone abbreviations")
/// the bytes of a str (vstd: str::as_bytes gives the UTF-8 encoding of the view)
pub open spec fn sb(s: &str) -> Seq<u8> { vstd::utf8::encode_utf8(s@) }
pub assume_specification[String::as_bytes](s: &String) -> (r: &[u8]) ensures r@ == vstd::utf8::encode_utf8(s@);
pub assume_specification[String::len](s: &String) -> (r: usize) ensures r == vstd::utf8::encode_utf8(s@).len();
/// stand-in (R9) for `year.to_string()`: assumed four digits for the years handed in (the code's own debug assertion)
pub uninterp spec fn year_text(y: Year) -> Seq<u8>;
#[verifier::external_body]
pub fn verif_year_to_string(y: &Year) -> (r: String) ensures vstd::utf8::encode_utf8(r@) == year_text(*y), year_text(*y).len() == 4 { unimplemented!() }
#[verifier::external_body]
pub fn verif_year_fallback() -> (r: &'static [u8]) ensures r@.len() == 4 { unimplemented!() }

/// the epoch field: the captured digits verbatim
pub fn cap_epoch(buffer: &mut [u8], captures: &Captures, dtfs: &DTFSSet, at0: usize) -> (r: usize)
    requires
        old(buffer)@.len() <= usize::MAX,
        dtfs.epoch is s ==> captures.cap(G::Epoch) is Some && at0 + captures.cap(G::Epoch).unwrap().len() <= old(buffer)@.len(),
    ensures
        dtfs.epoch is s ==> r == at0 + captures.cap(G::Epoch).unwrap().len() && final(buffer)@ =~= spliced(old(buffer)@, at0 as int, captures.cap(G::Epoch).unwrap()),
        dtfs.epoch is _none ==> r == at0 && final(buffer)@ == old(buffer)@,
{
    proof { axiom_gids(); }
    let mut at: usize = at0;
//@cut slice path=src/data/datetime.rs fn=captures_to_buffer_bytes anchor="match dtfs.epoch {" take=block label=CAP-EPOCH reborrow=buffer
//@end
    at
}

/// the year field: the captured year verbatim; for a notation without year, the captured year if the line has one, else the year
/// handed in (the file's year, four digits), else the fallback dummy year
pub fn cap_year(buffer: &mut [u8], captures: &Captures, year_opt: &Option<Year>, dtfs: &DTFSSet, at0: usize) -> (r: usize)
    requires
        old(buffer)@.len() <= usize::MAX, at0 + 4 <= old(buffer)@.len(),
        (dtfs.year is Y || dtfs.year is y) ==> captures.cap(G::Year) is Some,
        captures.cap(G::Year) is Some ==> at0 + captures.cap(G::Year).unwrap().len() <= old(buffer)@.len(),
    ensures
        (dtfs.year is Y || dtfs.year is y) ==> r == at0 + captures.cap(G::Year).unwrap().len() && final(buffer)@ =~= spliced(old(buffer)@, at0 as int, captures.cap(G::Year).unwrap()),
        dtfs.year is _fill && captures.cap(G::Year) is Some ==> final(buffer)@ =~= spliced(old(buffer)@, at0 as int, captures.cap(G::Year).unwrap()),
        dtfs.year is _fill && captures.cap(G::Year) is None && year_opt is Some ==> r == at0 + 4 && final(buffer)@ =~= spliced(old(buffer)@, at0 as int, year_text(year_opt.unwrap())),
        dtfs.year is _fill && captures.cap(G::Year) is None && year_opt is None ==> r == at0 + 4,
        dtfs.year is _none ==> r == at0 && final(buffer)@ == old(buffer)@,
{
    proof { axiom_gids(); }
    let mut at: usize = at0;
//@cut slice path=src/data/datetime.rs fn=captures_to_buffer_bytes anchor="match dtfs.year {" take=block label=CAP-YEAR reborrow=buffer
//@replace "year.to_string()" "verif_year_to_string(year)"
//@replace "YEAR_FALLBACKDUMMY.as_bytes()" "verif_year_fallback()"
//@end
    at
}

/// the zone abbreviation table, by what it maps an abbreviation to (its 200-odd VALUES are outside any contract): None = not in
/// the table, Some(empty) = ambiguous abbreviation, Some(offset text) otherwise
pub uninterp spec fn tz_table(abbr: Seq<u8>) -> Option<Seq<u8>>;
pub struct TzMapStub;
impl TzMapStub {
    #[verifier::external_body]
    pub fn get_entry(&self, k: &str) -> (r: Option<(&'static &'static str, &'static &'static str)>)
        ensures r is Some <==> tz_table(sb(k)) is Some, r is Some ==> sb(*r.unwrap().1) == tz_table(sb(k)).unwrap()
    { unimplemented!() }
}
pub const MAP_TZZ_TO_TZz: TzMapStub = TzMapStub;
#[verifier::external_body]
pub uninterp spec fn is_utf8(b: Seq<u8>) -> bool;
#[verifier::external_body]
pub fn u8_to_str(data: &[u8]) -> (r: Option<&str>) ensures r is Some <==> is_utf8(data@), r is Some ==> sb(r.unwrap()) == data@ { unimplemented!() }
/// U+2212 MINUS SIGN in UTF-8, and the ASCII hyphen-minus (stand-ins (R9) for the two constants, by value)
pub open spec fn minus_sign() -> Seq<u8> { seq![0xE2u8, 0x88u8, 0x92u8] }
#[verifier::external_body]
pub fn verif_minus_sign() -> (r: &'static [u8]) ensures r@ == minus_sign() { unimplemented!() }
#[verifier::external_body]
pub fn verif_hyphen_minus() -> (r: &'static [u8]) ensures r@ == seq![0x2Du8] { unimplemented!() }
/// stand-in (R9) for `slice.starts_with(prefix)`
#[verifier::external_body]
pub fn verif_starts_with(s: &[u8], p: &[u8]) -> (r: bool) ensures r == (s@.len() >= p@.len() && s@.subrange(0, p@.len() as int) == p@) { unimplemented!() }
/// stand-ins (R9) for `std::str::from_utf8`, `val.char_indices().nth(1)` (the byte index of the second character) and `val[i..].as_bytes()`
#[verifier::external_body]
pub fn verif_from_utf8(b: &[u8]) -> (r: core::result::Result<&str, ()>) ensures r is Ok ==> sb(r.unwrap()) == b@ { unimplemented!() }
#[verifier::external_body]
pub fn verif_second_char_index(s: &str) -> (r: Option<(usize, char)>)
    // assumed (UTF-8): a string that starts with E2 88 92 has its second character at byte 3
    ensures r is Some ==> r.unwrap().0 <= sb(s).len(), (r is Some && sb(s).len() >= 3 && sb(s).subrange(0, 3) == minus_sign()) ==> r.unwrap().0 == 3
{ unimplemented!() }
#[verifier::external_body]
pub fn verif_str_tail_bytes(s: &str, i: usize) -> (r: &[u8]) requires i <= sb(s).len() ensures r@ == sb(s).subrange(i as int, sb(s).len() as int) { unimplemented!() }

/// the zone field handed to chrono
pub fn cap_tz(buffer: &mut [u8], captures: &Captures, tz_offset_string: &String, dtfs: &DTFSSet, at0: usize) -> (r: usize)
    requires
        old(buffer)@.len() <= usize::MAX,
        at0 + vstd::utf8::encode_utf8(tz_offset_string@).len() <= old(buffer)@.len(),
        (dtfs.tz is z || dtfs.tz is zc || dtfs.tz is zp || dtfs.tz is Z) ==> captures.cap(G::Tz) is Some && at0 + captures.cap(G::Tz).unwrap().len() <= old(buffer)@.len(),
        dtfs.tz is Z ==> forall|k: Seq<u8>| tz_table(k) is Some ==> at0 + #[trigger] tz_table(k).unwrap().len() <= old(buffer)@.len(),
        // the zone-abbreviation group matches ASCII letters
        dtfs.tz is Z ==> is_utf8(captures.cap(G::Tz).unwrap()),
    ensures
        // no zone in the notation: the --tz-offset zone
        dtfs.tz is _fill ==> final(buffer)@ =~= spliced(old(buffer)@, at0 as int, vstd::utf8::encode_utf8(tz_offset_string@)),
        // a numeric offset: verbatim, except that a leading U+2212 MINUS SIGN becomes an ASCII '-'
        (dtfs.tz is z || dtfs.tz is zc || dtfs.tz is zp) && !(captures.cap(G::Tz).unwrap().len() >= 3 && captures.cap(G::Tz).unwrap().subrange(0, 3) == minus_sign())
            ==> final(buffer)@ =~= spliced(old(buffer)@, at0 as int, captures.cap(G::Tz).unwrap()),
        // a zone abbreviation: the table's offset for it; the --tz-offset zone when the abbreviation is ambiguous (empty entry)
        dtfs.tz is Z && captures.cap(G::Tz).unwrap().len() > 0 && tz_table(captures.cap(G::Tz).unwrap()) is Some && tz_table(captures.cap(G::Tz).unwrap()).unwrap().len() > 0
            ==> final(buffer)@ =~= spliced(old(buffer)@, at0 as int, tz_table(captures.cap(G::Tz).unwrap()).unwrap()),
        dtfs.tz is Z && captures.cap(G::Tz).unwrap().len() > 0 && tz_table(captures.cap(G::Tz).unwrap()) is Some && tz_table(captures.cap(G::Tz).unwrap()).unwrap().len() == 0
            ==> final(buffer)@ =~= spliced(old(buffer)@, at0 as int, vstd::utf8::encode_utf8(tz_offset_string@)),
        dtfs.tz is _none ==> r == at0 && final(buffer)@ == old(buffer)@,
{
    proof { axiom_gids(); }
    let mut at: usize = at0;
//@cut slice path=src/data/datetime.rs fn=captures_to_buffer_bytes anchor="match dtfs.tz {" take=block label=CAP-TZ reborrow=buffer
//@replace "captureb.starts_with(MINUS_SIGN)" "verif_starts_with(captureb, verif_minus_sign())"
//@replace "HYPHEN_MINUS" "verif_hyphen_minus()"
//@replace "std::str::from_utf8(&captureb)" "verif_from_utf8(captureb)"
//@replace "val.char_indices().nth(1)" "verif_second_char_index(val)"
//@replace "val[offset..].as_bytes()" "verif_str_tail_bytes(val, offset)"
//@before "if tzZ.is_empty() {"
            proof { assert(vstd::utf8::encode_utf8(Seq::<char>::empty()) =~= Seq::<u8>::empty()); if tzZ@.len() == 0 { assert(tzZ@ =~= Seq::<char>::empty()); } }
//@end
    at
}

pub proof fn capf__canary(d: Seq<u8>, out: Seq<u8>)
    requires field_ok(d), d.len() == 2, d[0] == 0x20, two_digits_of(out, d), out[0] == 0x30
    ensures false
{}

} // verus!
fn main() {}
