// UNIT CAPF — captures_to_buffer_bytes, the date and time-of-day fields (C04): what the regex captured under a group name goes,
// under that field's own name, into the buffer chrono parses -- verbatim for the fixed-width fields, and with the same numeric
// value, two digits, for the single-digit / space-padded day, month and hour forms.  Slices of the real function, one per field.
#![allow(unused_imports, non_camel_case_types, dead_code, unused_variables, unused_parens, unused_mut, unused_assignments, non_snake_case, non_upper_case_globals)]
use vstd::prelude::*;
verus! {

global size_of usize == 8;
pub type CaptureGroupName = str;
pub type DateTimePattern_str = str;
pub type Year = i32;

//@cut type kind=enum path=src/data/datetime.rs name=DTFS_Year derives=
//@end
//@cut type kind=enum path=src/data/datetime.rs name=DTFS_Month derives=
//@end
//@cut type kind=enum path=src/data/datetime.rs name=DTFS_Day derives=
//@end
//@cut type kind=enum path=src/data/datetime.rs name=DTFS_Hour derives=
//@end
//@cut type kind=enum path=src/data/datetime.rs name=DTFS_Minute derives=
//@end
//@cut type kind=enum path=src/data/datetime.rs name=DTFS_Second derives=
//@end
//@cut type kind=enum path=src/data/datetime.rs name=DTFS_Fractional derives=
//@end
//@cut type kind=enum path=src/data/datetime.rs name=DTFS_Tz derives=
//@end
//@cut type kind=enum path=src/data/datetime.rs name=DTFS_Epoch derives=
//@end
//@cut type kind=struct path=src/data/datetime.rs name=DTFSSet derives=
//@end

// ---- assumed: the regex crate's Captures, by what each named group captured (ghost: group id -> bytes)
pub enum G { Year, Month, Day, Hour, Minute, Second, Fractional, Tz, Epoch, Other }
pub uninterp spec fn gid(n: &str) -> G;
pub struct Match<'h> { pub b: &'h [u8] }
impl<'h> Match<'h> {
    pub open spec fn bytes(&self) -> Seq<u8> { self.b@ }
    pub fn as_bytes(&self) -> (r: &'h [u8]) ensures r@ == self.bytes() { self.b }
}
#[verifier::external_body]
pub struct Captures<'h> { _p: &'h [u8] }
impl<'h> Captures<'h> {
    pub uninterp spec fn cap(&self, g: G) -> Option<Seq<u8>>;
    #[verifier::external_body]
    pub fn name(&self, n: &CaptureGroupName) -> (r: Option<Match<'h>>)
        ensures r is Some <==> self.cap(gid(n)) is Some, r is Some ==> r.unwrap().bytes() == self.cap(gid(n)).unwrap()
    { unimplemented!() }
}
// the group-name constants, and which ghost group each names (assumed: distinct names denote distinct groups)
//@cutall kind=const path=src/data/datetime.rs re=^CGN_(YEAR|MONTH|DAY|HOUR|MINUTE|SECOND|EPOCH)$ staticrefs=1
#[verifier::external_body]
proof fn axiom_gids()
    ensures gid(CGN_YEAR) == G::Year, gid(CGN_MONTH) == G::Month, gid(CGN_DAY) == G::Day, gid(CGN_HOUR) == G::Hour,
            gid(CGN_MINUTE) == G::Minute, gid(CGN_SECOND) == G::Second, gid(CGN_EPOCH) == G::Epoch
{}

pub open spec fn is_digit(b: u8) -> bool { 0x30 <= b <= 0x39 }
pub open spec fn dv(b: u8) -> int { b - 0x30 }
/// the number a one- or two-character field denotes; a leading space counts as nothing (`%e`)
pub open spec fn field_value(d: Seq<u8>) -> int {
    if d.len() == 1 { dv(d[0]) } else if d[0] == 0x20 { dv(d[1]) } else { dv(d[0]) * 10 + dv(d[1]) }
}
pub open spec fn field_ok(d: Seq<u8>) -> bool {
    (d.len() == 1 && is_digit(d[0])) || (d.len() == 2 && (d[0] == 0x20 || is_digit(d[0])) && is_digit(d[1]))
}
/// two digits with the same value
pub open spec fn two_digits_of(out: Seq<u8>, d: Seq<u8>) -> bool {
    out.len() == 2 && is_digit(out[0]) && is_digit(out[1]) && dv(out[0]) * 10 + dv(out[1]) == field_value(d)
}
pub open spec fn spliced(b0: Seq<u8>, at: int, s: Seq<u8>) -> Seq<u8> { b0.subrange(0, at) + s + b0.subrange(at + s.len(), b0.len() as int) }

// ---- real: the three copy macros, each verified once as a function generated from its body (R13)
//@macrofn path=src/data/datetime.rs name=copy_slice_to_buffer
//@params u8_slice:val:&[u8] buffer:mut:[u8] at:mut:usize
//@spec
    requires *old(at) + u8_slice@.len() <= old(buffer)@.len(), old(buffer)@.len() <= usize::MAX,
    ensures *final(at) == *old(at) + u8_slice@.len(), final(buffer)@ =~= spliced(old(buffer)@, *old(at) as int, u8_slice@),
//@end
//@macrofn path=src/data/datetime.rs name=copy_u8_to_buffer
//@params u8_:val:u8 buffer:mut:[u8] at:mut:usize
//@spec
    requires *old(at) < old(buffer)@.len(), old(buffer)@.len() <= usize::MAX,
    ensures *final(at) == *old(at) + 1, final(buffer)@ =~= spliced(old(buffer)@, *old(at) as int, seq![u8_]),
//@end
//@macrofn path=src/data/datetime.rs name=copy_capturegroup_to_buffer
//@params name:val:&CaptureGroupName captures:val:&Captures buffer:mut:[u8] at:mut:usize
//@spec
    requires
        captures.cap(gid(name)) is Some,
        *old(at) + captures.cap(gid(name)).unwrap().len() <= old(buffer)@.len(), old(buffer)@.len() <= usize::MAX,
    ensures
        // the bytes captured under THIS name, verbatim
        *final(at) == *old(at) + captures.cap(gid(name)).unwrap().len(),
        final(buffer)@ =~= spliced(old(buffer)@, *old(at) as int, captures.cap(gid(name)).unwrap()),
//@end

/// the day field: `%d` two digits verbatim; one digit or space-padded (`%e`) becomes two digits of the same value
pub fn cap_day(buffer: &mut [u8], captures: &Captures, dtfs: &DTFSSet, at0: usize) -> (r: usize)
    requires
        at0 + 2 <= old(buffer)@.len(), old(buffer)@.len() <= usize::MAX,
        dtfs.day is _e_or_d ==> captures.cap(G::Day) is Some && field_ok(captures.cap(G::Day).unwrap()),
    ensures
        dtfs.day is _e_or_d ==> r == at0 + 2 && two_digits_of(final(buffer)@.subrange(at0 as int, at0 + 2), captures.cap(G::Day).unwrap())
            && (forall|i: int| 0 <= i < at0 || at0 + 2 <= i < old(buffer)@.len() ==> final(buffer)@[i] == old(buffer)@[i]),
        dtfs.day is _none ==> r == at0 && final(buffer)@ == old(buffer)@,
{
    proof { axiom_gids(); }
    let mut at: usize = at0;
//@cut slice path=src/data/datetime.rs fn=captures_to_buffer_bytes anchor="match dtfs.day {" take=block label=CAP-DAY reborrow=buffer
//@end
    at
}

/// the month field given as a number: `%m` verbatim, a single digit becomes two digits of the same value
pub fn cap_month_num(buffer: &mut [u8], captures: &Captures, dtfs: &DTFSSet, at0: usize) -> (r: usize)
    requires
        at0 + 2 <= old(buffer)@.len(), old(buffer)@.len() <= usize::MAX,
        dtfs.month is m || dtfs.month is ms,
        captures.cap(G::Month) is Some,
        dtfs.month is m ==> captures.cap(G::Month).unwrap().len() == 2,
        dtfs.month is ms ==> field_ok(captures.cap(G::Month).unwrap()) && captures.cap(G::Month).unwrap()[0] != 0x20,
    ensures
        r == at0 + 2,
        dtfs.month is m ==> final(buffer)@.subrange(at0 as int, at0 + 2) =~= captures.cap(G::Month).unwrap(),
        dtfs.month is ms ==> two_digits_of(final(buffer)@.subrange(at0 as int, at0 + 2), captures.cap(G::Month).unwrap()),
        forall|i: int| 0 <= i < at0 || at0 + 2 <= i < old(buffer)@.len() ==> final(buffer)@[i] == old(buffer)@[i],
{
    proof { axiom_gids(); }
    let mut at: usize = at0;
//@cut slice path=src/data/datetime.rs fn=captures_to_buffer_bytes anchor="match dtfs.month {" take=block label=CAP-MONTH reborrow=buffer
//@replace "month_bB_to_month_m_bytes(" "verif_month_names("
//@bytelits
//@end
    at
}
/// stand-in for the named-month conversion (decided by unit MON): not reached under cap_month_num's precondition
#[verifier::external_body]
pub fn verif_month_names(data: &[u8], buffer: &mut [u8]) { unimplemented!() }

/// the hour field: `%H %I %l` verbatim; `%k` (one or two digits) becomes two digits of the same value
pub fn cap_hour(buffer: &mut [u8], captures: &Captures, dtfs: &DTFSSet, at0: usize) -> (r: usize)
    requires
        at0 + 2 <= old(buffer)@.len(), old(buffer)@.len() <= usize::MAX,
        !(dtfs.hour is _none) ==> captures.cap(G::Hour) is Some,
        dtfs.hour is H || dtfs.hour is I || dtfs.hour is l ==> captures.cap(G::Hour).unwrap().len() <= 2,
        dtfs.hour is k ==> field_ok(captures.cap(G::Hour).unwrap()) && captures.cap(G::Hour).unwrap()[0] != 0x20,
    ensures
        dtfs.hour is H || dtfs.hour is I || dtfs.hour is l ==> r == at0 + captures.cap(G::Hour).unwrap().len()
            && final(buffer)@.subrange(at0 as int, r as int) =~= captures.cap(G::Hour).unwrap(),
        dtfs.hour is k ==> r == at0 + 2 && two_digits_of(final(buffer)@.subrange(at0 as int, at0 + 2), captures.cap(G::Hour).unwrap()),
        dtfs.hour is _none ==> r == at0 && final(buffer)@ == old(buffer)@,
        forall|i: int| 0 <= i < at0 || at0 + 2 <= i < old(buffer)@.len() ==> final(buffer)@[i] == old(buffer)@[i],
{
    proof { axiom_gids(); }
    let mut at: usize = at0;
//@cut slice path=src/data/datetime.rs fn=captures_to_buffer_bytes anchor="match dtfs.hour {" take=block label=CAP-HOUR reborrow=buffer
//@bytelits
//@end
    at
}

/// minute, second: the bytes captured under that very name (a missing seconds field is written as 00)
pub fn cap_min_sec(buffer: &mut [u8], captures: &Captures, dtfs: &DTFSSet, at0: usize) -> (r: usize)
    requires
        at0 + 4 <= old(buffer)@.len(), old(buffer)@.len() <= usize::MAX,
        dtfs.minute is M ==> captures.cap(G::Minute) is Some && captures.cap(G::Minute).unwrap().len() == 2,
        dtfs.second is S ==> captures.cap(G::Second) is Some && captures.cap(G::Second).unwrap().len() == 2,
    ensures
        final(buffer)@.len() == old(buffer)@.len(),
        ({
            let mn = if dtfs.minute is M { captures.cap(G::Minute).unwrap() } else { Seq::<u8>::empty() };
            let sc = if dtfs.second is S { captures.cap(G::Second).unwrap() } else if dtfs.second is _fill { seq![0x30u8, 0x30u8] } else { Seq::<u8>::empty() };
            r == at0 + mn.len() + sc.len() && final(buffer)@.subrange(at0 as int, r as int) =~= mn + sc
        }),
{
    proof { axiom_gids(); }
    let mut at: usize = at0;
//@cut slice path=src/data/datetime.rs fn=captures_to_buffer_bytes anchor="match dtfs.minute {" take=block label=CAP-MINUTE reborrow=buffer
//@end
//@cut slice path=src/data/datetime.rs fn=captures_to_buffer_bytes anchor="match dtfs.second {" take=block label=CAP-SECOND reborrow=buffer
//@bytelits
//@end
    at
}

pub proof fn capf__canary(d: Seq<u8>, out: Seq<u8>)
    requires field_ok(d), d.len() == 2, d[0] == 0x20, two_digits_of(out, d), out[0] == 0x30
    ensures false
{}

} // verus!
fn main() {}
