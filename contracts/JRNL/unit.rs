// UNIT JRNL — journal: the --dt-before bound is inclusive, as for every other source kind (C03).  DESIGN.md 4.JRNL
#![allow(unused_imports, non_camel_case_types, dead_code, unused_variables, unused_parens, unused_mut, unused_assignments)]
use vstd::prelude::*;
verus! {

pub type Count = u64;
pub type EpochMicroseconds = u64;
pub type EpochMicrosecondsOpt = Option<EpochMicroseconds>;

// ---- assumed: io::Error, paths, and the libsystemd handles are opaque
#[verifier::external_body]
pub struct Error { _p: u8 }
pub type Result<T> = core::result::Result<T, Error>;
#[verifier::external_body]
pub struct FPath { _p: u8 }
#[verifier::external_body]
pub struct JournalHandlePtr { _p: u8 }
#[verifier::external_body]
pub struct JournalApiPtr { _p: u8 }
/// stand-in (R12) for an `unsafe { FFI call }` block; assumed not to change Rust-visible state
#[verifier::external_body]
pub fn verif_unsafe_ffi() { }

// ---- real: result enums (src/common.rs, src/data/datetime.rs), DtUsesSource and its override (src/data/journal.rs)
//@cut type kind=enum path=src/common.rs name=ResultS3 derives=
//@end
//@cut type kind=enum path=src/common.rs name=ResultFind4 derives=
//@end
//@cut type kind=enum path=src/data/datetime.rs name=Result_Filter_DateTime1 derives=
//@end
//@cut type kind=enum path=src/data/datetime.rs name=Result_Filter_DateTime2 derives=
//@end
//@cut type kind=enum path=src/data/journal.rs name=DtUsesSource derives=Clone,Copy
//@end
//@cut type kind=const path=src/data/journal.rs name=DT_USES_SOURCE_OVERRIDE
//@end
//@cut type kind=type path=src/readers/journalreader.rs name=ResultNextCommon
//@end

// ---- real: the journal window predicates (src/readers/journalreader.rs); contracts as in unit FLT
pub open spec fn oe(d: Option<u64>) -> Option<int> { match d { Some(x) => Some(x as int), None => None } }
//@cut fn path=src/readers/journalreader.rs name=em_after_or_before ret=r
//@spec
    ensures
        em_filter is None ==> r is Pass,
        em_filter is Some ==> (r is OccursBefore <==> *em < em_filter.unwrap()),
        em_filter is Some ==> (r is OccursAtOrAfter <==> *em >= em_filter.unwrap()),
//@end
//@cut fn path=src/readers/journalreader.rs name=em_pass_filters ret=r
//@spec
    requires
        (em_filter_after is Some && em_filter_before is Some) ==> em_filter_after.unwrap() <= em_filter_before.unwrap(),
    ensures
        r is InRange <==> (em_filter_after is None || em_filter_after.unwrap() <= *em) && (em_filter_before is None || *em <= em_filter_before.unwrap()),
        r is BeforeRange <==> em_filter_after is Some && *em < em_filter_after.unwrap(),
        r is AfterRange <==> !(em_filter_after is Some && *em < em_filter_after.unwrap()) && em_filter_before is Some && em_filter_before.unwrap() < *em,
//@end

// ---- prelude: JournalReader reduced to what next_common touches; libsystemd wrappers return arbitrary values
pub struct JournalReader {
    pub analyzed: bool,
    pub journal_handle_ptr: JournalHandlePtr,
    pub journal_api_ptr: JournalApiPtr,
    pub api_calls: Count,
    pub api_call_errors: Count,
    pub path: FPath,
    pub events_processed: Count,
}
impl JournalReader {
    #[verifier::external_body]
    fn call_sd_journal_next(journal_handle_ptr: &mut JournalHandlePtr, journal_api_ptr: &mut JournalApiPtr, api_calls: &mut Count, api_call_errors: &mut Count, path: &FPath) -> (r: ResultS3<EpochMicroseconds, Error>)
        ensures *final(api_calls) <= *old(api_calls) + 1
    { unimplemented!() }
    #[verifier::external_body]
    fn call_sd_journal_get_realtime_usec(journal_handle_ptr: &mut JournalHandlePtr, journal_api_ptr: &mut JournalApiPtr, api_calls: &mut Count, api_call_errors: &mut Count, path: &FPath) -> (r: Result<EpochMicroseconds>)
        ensures *final(api_calls) <= *old(api_calls) + 1
    { unimplemented!() }
    #[verifier::external_body]
    fn get_source_realtime_timestamp(&mut self) -> (r: Option<EpochMicroseconds>)
        ensures final(self).analyzed == old(self).analyzed, final(self).events_processed == old(self).events_processed, final(self).api_calls <= old(self).api_calls + 2
    { unimplemented!() }
    #[verifier::external_body]
    fn em_first_last_update_processed(&mut self, em: &EpochMicroseconds)
        ensures final(self).analyzed == old(self).analyzed, final(self).events_processed == old(self).events_processed, final(self).api_calls <= old(self).api_calls + 2
    { unimplemented!() }

    /// the instant attributed to the entry that `next_common` reports (what the window is applied to)
    pub open spec fn em_of(rt: EpochMicroseconds, srt: EpochMicrosecondsOpt, dus: DtUsesSource) -> EpochMicroseconds {
        match dus {
            DtUsesSource::RealtimeTimestamp => rt,
            DtUsesSource::SourceRealtimeTimestamp => if srt is Some { srt.unwrap() } else { rt },
        }
    }

//@cut fn path=src/readers/journalreader.rs impl=JournalReader name=next_common ret=r
//@opaque_unsafe
//@spec
    requires
        old(self).analyzed,
        old(self).events_processed < u64::MAX, old(self).api_calls < u64::MAX - 8,
    ensures
        // C03: an entry whose instant equals the before-bound is inside the window: it is Found, not the end
        r is Found ==> (rts_filter_before is None || Self::em_of(r->Found_0.0, r->Found_0.1, r->Found_0.2) <= rts_filter_before.unwrap()),
//@before "return ResultNextCommon::Done;" 2
                // C03: the stream may end because of the bound only when the entry is strictly after it
                assert(rts_filter_before is Some && actual_epoch_usec > rts_filter_before.unwrap());
//@end
}

} // verus!
fn main() {}
