// UNIT SLN — a message is assembled as: one line that holds a datetime, plus every following line that holds none
// (C02: "every message ... exactly once, byte for byte" needs the lines between two dated lines to go to exactly one
// message, none skipped, none taken twice).  SyslineReader::find_sysline_year (the streaming path) with the line reader
// and the datetime parser behind assumed contracts.  PARTIAL correctness: termination of the searches is not claimed.
#![allow(unused_imports, non_camel_case_types, dead_code, unused_variables, unused_parens, unused_mut, unused_assignments, non_snake_case, unused_labels)]
use vstd::prelude::*;
use vstd::std_specs::cmp::*;
use core::cmp::Ordering;
use std::sync::Arc;
verus! {

global size_of usize == 8;
pub type Count = u64;
pub type FileOffset = u64;
pub type LineIndex = usize;
pub type Year = i32;
pub type DateTimeParseInstrsIndex = usize;

//@include ../common/datetime.rs
//@cut type kind=enum path=src/common.rs name=ResultS3 derives=
//@end
#[verifier::external_body]
pub struct Error { _p: u8 }
pub type Result<T> = core::result::Result<T, Error>;

pub fn max(a: FileOffset, b: FileOffset) -> (r: FileOffset) ensures r == (if a >= b { a } else { b }) { if a >= b { a } else { b } }  // stand-in for std::cmp::max

// ---- ghost model of the file: consecutive lines, each either holding a datetime ("dated") or not.
pub struct LN { pub beg: int, pub end: int, pub dated: bool }
pub open spec fn lines_wf(l: Seq<LN>, filesz: int) -> bool {
    &&& l.len() > 0 ==> l[0].beg == 0 && l.last().end == filesz - 1
    &&& l.len() == 0 ==> filesz == 0
    &&& forall|i: int| 0 <= i < l.len() ==> (#[trigger] l[i]).beg <= l[i].end
    &&& forall|i: int| 0 <= i && i + 1 < l.len() ==> (#[trigger] l[i + 1]).beg == l[i].end + 1
}
/// index of the line covering byte fo
pub open spec fn covers(l: Seq<LN>, k: int, fo: int) -> bool { 0 <= k < l.len() && l[k].beg <= fo <= l[k].end }


pub proof fn lemma_sorted(l: Seq<LN>, filesz: int, i: int, j: int)
    requires lines_wf(l, filesz), 0 <= i < j < l.len()
    ensures l[i].end < l[j].beg
    decreases j - i
{
    if i + 1 < j { lemma_sorted(l, filesz, i, j - 1); assert(l[(j - 1) + 1].beg == l[j - 1].end + 1); }
    else { assert(l[i + 1].beg == l[i].end + 1); }
}
pub proof fn lemma_cover_unique(l: Seq<LN>, filesz: int, k1: int, k2: int, fo: int)
    requires lines_wf(l, filesz), covers(l, k1, fo), covers(l, k2, fo)
    ensures k1 == k2
{
    if k1 < k2 { lemma_sorted(l, filesz, k1, k2); }
    if k2 < k1 { lemma_sorted(l, filesz, k2, k1); }
}
pub proof fn lemma_bounds(l: Seq<LN>, filesz: int, i: int)
    requires lines_wf(l, filesz), 0 <= i < l.len()
    ensures 0 <= l[i].beg, l[i].end <= filesz - 1, l[i].end == filesz - 1 ==> i == l.len() - 1, l[i].beg == 0 ==> i == 0
{
    if i > 0 { lemma_sorted(l, filesz, 0, i); }
    if i < l.len() - 1 { lemma_sorted(l, filesz, i, l.len() - 1); }
}
/// the line covering `fo`, given that it lies between the lines lo-1 and hi around an examined range
pub proof fn lemma_cover_next(l: Seq<LN>, filesz: int, c: int, fo: int, j: int)
    requires lines_wf(l, filesz), covers(l, c, fo), 0 <= j < l.len()
    ensures fo <= l[j].end ==> c <= j, fo >= l[j].beg ==> c >= j
{
    if c > j { lemma_sorted(l, filesz, j, c); }
    if c < j { lemma_sorted(l, filesz, c, j); }
}

// ---- assumed: a Line knows where it is (ghost: which line of the model)
#[verifier::external_body]
pub struct Line { _p: u8 }
pub type LineP = Arc<Line>;
pub type Lines = Vec<LineP>;
impl Line {
    pub uninterp spec fn idx(&self) -> int;
    pub uninterp spec fn beg(&self) -> int;
    pub uninterp spec fn end(&self) -> int;
    #[verifier::external_body]
    pub fn fileoffset_begin(&self) -> (r: FileOffset) ensures r as int == self.beg() { unimplemented!() }
    #[verifier::external_body]
    pub fn fileoffset_end(&self) -> (r: FileOffset) ensures r as int == self.end() { unimplemented!() }
}
pub type ResultS3LineFind = ResultS3<(FileOffset, LineP), Error>;
pub type FindDateTimeData = (LineIndex, LineIndex, DateTimeL, DateTimeParseInstrsIndex);
pub type ResultParseDateTime = Result<FindDateTimeData>;

// ---- real: Sysline (src/data/sysline.rs): the struct and the four methods the assembly uses
//@cut type kind=struct path=src/data/sysline.rs name=Sysline derives= pubfields=1
//@end
pub type SyslineP = Arc<Sysline>;
pub type ResultS3SyslineFind = ResultS3<(FileOffset, SyslineP), Error>;
impl Sysline {
    pub const SYSLINE_PARTS_WITH_CAPACITY: usize = 1;
    /// the model lines this message is made of
    pub open spec fn v(&self) -> Seq<int> { Seq::new(self.lines@.len(), |i: int| self.lines@[i].idx()) }
    pub open spec fn refs_ok(&self, l: Seq<LN>) -> bool {
        forall|i: int| 0 <= i < self.lines@.len() ==> 0 <= (#[trigger] self.lines@[i]).idx() < l.len()
            && self.lines@[i].beg() == l[self.lines@[i].idx()].beg && self.lines@[i].end() == l[self.lines@[i].idx()].end
    }
//@cut fn path=src/data/sysline.rs impl=Sysline name=new_no_lines ret=r
//@replace "Lines::with_capacity(Sysline::SYSLINE_PARTS_WITH_CAPACITY)" "Lines::new()"
//@spec
    ensures r.lines@.len() == 0, r.dt == dt
//@end
//@cut fn path=src/data/sysline.rs impl=Sysline name=push
//@spec
    ensures final(self).lines@ == old(self).lines@.push(linep), final(self).dt == old(self).dt
//@end
//@cut fn path=src/data/sysline.rs impl=Sysline name=fileoffset_begin ret=r
//@spec
    requires self.lines@.len() > 0
    ensures r as int == self.lines@[0].beg()
//@end
//@cut fn path=src/data/sysline.rs impl=Sysline name=fileoffset_end ret=r
//@spec
    requires self.lines@.len() > 0
    ensures r as int == self.lines@.last().end()
//@end
}

/// C02 (assembly): the message starts at dated line a, continues with the undated lines a+1 .. b-1, and stops because line b is
/// dated or the file ends
pub open spec fn is_message(l: Seq<LN>, v: Seq<int>) -> bool {
    &&& v.len() >= 1
    &&& 0 <= v[0] && v[0] + v.len() <= l.len()
    &&& l[v[0]].dated
    &&& forall|i: int| 0 <= i < v.len() ==> #[trigger] v[i] == v[0] + i
    &&& forall|i: int| 1 <= i < v.len() ==> !l[#[trigger] v[i]].dated
    &&& (v[0] + v.len() == l.len() || l[v[0] + v.len() as int].dated)
}

// ---- assumed: the line reader returns the line covering an offset; the datetime parser finds a datetime iff the line is
// dated (whether a line is dated does not depend on the year handed in); the caches return only what was stored
pub struct LineReader { pub ghost lines: Seq<LN>, pub ghost filesz: int }
impl LineReader {
    #[verifier::external_body]
    pub fn find_line(&mut self, fileoffset: FileOffset) -> (r: ResultS3LineFind)
        requires lines_wf(old(self).lines, old(self).filesz)
        ensures
            final(self).lines == old(self).lines, final(self).filesz == old(self).filesz,
            fileoffset >= old(self).filesz ==> !(r is Found),
            r is Found ==> covers(old(self).lines, r->Found_0.1.idx(), fileoffset as int)
                && r->Found_0.1.beg() == old(self).lines[r->Found_0.1.idx()].beg && r->Found_0.1.end() == old(self).lines[r->Found_0.1.idx()].end
                && r->Found_0.0 as int == r->Found_0.1.end() + 1,
            fileoffset < old(self).filesz ==> !(r is Done),
    { unimplemented!() }
}
impl LineReader {
    /// assumed (its documentation): Found = the whole line covering the offset, when it lies inside one block; Done = end of file,
    /// or the line covering the offset does not lie inside one block (then it is at least two bytes long); the "partial" line, if
    /// any, is that line's part inside the block
    #[verifier::external_body]
    pub fn find_line_in_block(&mut self, fileoffset: FileOffset) -> (r: (ResultS3LineFind, Option<Line>))
        requires lines_wf(old(self).lines, old(self).filesz)
        ensures
            final(self).lines == old(self).lines, final(self).filesz == old(self).filesz,
            fileoffset >= old(self).filesz ==> !(r.0 is Found),
            r.0 is Found ==> covers(old(self).lines, r.0->Found_0.1.idx(), fileoffset as int)
                && r.0->Found_0.1.beg() == old(self).lines[r.0->Found_0.1.idx()].beg && r.0->Found_0.1.end() == old(self).lines[r.0->Found_0.1.idx()].end
                && r.0->Found_0.0 as int == r.0->Found_0.1.end() + 1,
            r.0 is Done && fileoffset < old(self).filesz ==> exists|c: int| covers(old(self).lines, c, fileoffset as int) && old(self).lines[c].beg < old(self).lines[c].end,
            r.1 is Some ==> r.0 is Done && covers(old(self).lines, r.1->0.idx(), fileoffset as int),
    { unimplemented!() }
}
// ---- the sysline stores, by their views (the same views as in unit SST, which proves check_store / insert_sysline against them)
#[verifier::external_body]
pub struct RangeMapStub { _p: u8 }
impl RangeMapStub {
    pub uninterp spec fn view(&self) -> Map<FileOffset, FileOffset>;
    #[verifier::external_body]
    pub fn contains_key(&self, k: &FileOffset) -> (r: bool) ensures r == self@.contains_key(*k) { unimplemented!() }
}
#[verifier::external_body]
pub struct SyslinesStub { _p: u8 }
impl SyslinesStub { pub uninterp spec fn view(&self) -> Map<FileOffset, SyslineP>; }
#[verifier::external_body]
pub struct SyslinesLRUCache { _p: u8 }
impl SyslinesLRUCache {
    pub uninterp spec fn view(&self) -> Map<FileOffset, ResultS3SyslineFind>;
    // assumed (the lru crate, as in units RBK / LNR / SST): put stores the pair and may evict others, never alters one
    #[verifier::external_body]
    pub fn put(&mut self, k: FileOffset, v: ResultS3SyslineFind)
        ensures final(self)@.contains_key(k) && final(self)@[k] == v,
            forall|j: FileOffset| #[trigger] final(self)@.contains_key(j) && j != k ==> old(self)@.contains_key(j) && final(self)@[j] == old(self)@[j],
    { unimplemented!() }
}
/// the Sysline is a whole message of the file (what unit SST calls `genuine`)
pub open spec fn genuine(l: Seq<LN>, s: Sysline) -> bool { is_message(l, s.v()) && s.refs_ok(l) }
pub open spec fn s_beg(s: Sysline) -> int { s.lines@[0].beg() }
pub open spec fn s_end(s: Sysline) -> int { s.lines@.last().end() }
/// C02: `v` is an answer to "the message at offset fo" (what unit SST calls `answer_ok`): a whole message, the offset after it, and
/// it is the message of the line at fo (or the next message when the line at fo and the lines up to it are undated)
pub open spec fn answer_ok(l: Seq<LN>, fo: int, v: ResultS3SyslineFind) -> bool {
    v is Found ==> {
        &&& genuine(l, *v->Found_0.1)
        &&& v->Found_0.0 as int == l[v->Found_0.1.v().last()].end + 1
        &&& forall|k: int| covers(l, k, fo) ==> ({
                let a = v->Found_0.1.v()[0];
                (a <= k && forall|i: int| a < i <= k ==> !(#[trigger] l[i]).dated) || (a > k && forall|i: int| k <= i < a ==> !(#[trigger] l[i]).dated)
            })
    }
}
/// index facts of a message: line j of the message is model line v[0] + j, all inside the file
pub proof fn lemma_msg_lines(l: Seq<LN>, filesz: int, s: Sysline)
    requires lines_wf(l, filesz), genuine(l, s)
    ensures
        s.lines@.len() >= 1, 0 <= s.v()[0], s.v()[0] + s.lines@.len() <= l.len(),
        s_beg(s) == l[s.v()[0]].beg, s_end(s) == l[s.v()[0] + s.lines@.len() - 1].end, s.v().last() == s.v()[0] + s.lines@.len() - 1,
        0 <= s_beg(s) <= s_end(s) < filesz,
{
    let n = s.lines@.len() as int;
    assert(s.v().len() == n);
    assert(s.v()[0] == s.lines@[0].idx());
    assert(s.v()[n - 1] == s.v()[0] + (n - 1));
    assert(s.v()[n - 1] == s.lines@[n - 1].idx());
    lemma_bounds(l, filesz, s.v()[0]);
    lemma_bounds(l, filesz, s.v()[0] + n - 1);
    if n > 1 { lemma_sorted(l, filesz, s.v()[0], s.v()[0] + n - 1); }
}
/// the model line covering a byte of a message is one of the message's lines
pub proof fn lemma_msg_covers(l: Seq<LN>, filesz: int, s: Sysline, k: int, x: int)
    requires lines_wf(l, filesz), genuine(l, s), covers(l, k, x), s_beg(s) <= x <= s_end(s)
    ensures s.v()[0] <= k < s.v()[0] + s.lines@.len()
{
    lemma_msg_lines(l, filesz, s);
    let a = s.v()[0]; let z = a + s.lines@.len() - 1;
    lemma_cover_next(l, filesz, k, x, a);
    lemma_cover_next(l, filesz, k, x, z);
}
/// two whole messages that share a byte are the same message (same extent)
pub proof fn lemma_same_msg(l: Seq<LN>, filesz: int, s1: Sysline, s2: Sysline, x: int)
    requires lines_wf(l, filesz), genuine(l, s1), genuine(l, s2), s_beg(s1) <= x <= s_end(s1), s_beg(s2) <= x <= s_end(s2)
    ensures s_beg(s1) == s_beg(s2), s_end(s1) == s_end(s2), s1.v()[0] == s2.v()[0], s1.lines@.len() == s2.lines@.len()
{
    lemma_msg_lines(l, filesz, s1); lemma_msg_lines(l, filesz, s2);
    lemma_bounds(l, filesz, 0);
    // the line covering x
    let k = choose|k: int| covers(l, k, x);
    assert(exists|k: int| covers(l, k, x)) by {
        // x lies inside message s1, whose lines cover every byte between its first and last byte
        lemma_line_at(l, filesz, s1.v()[0], s1.v()[0] + s1.lines@.len() - 1, x);
    }
    lemma_msg_covers(l, filesz, s1, k, x); lemma_msg_covers(l, filesz, s2, k, x);
    let a1 = s1.v()[0]; let a2 = s2.v()[0];
    let n1 = s1.lines@.len() as int; let n2 = s2.lines@.len() as int;
    if a1 < a2 { assert(s1.v()[a2 - a1] == a1 + (a2 - a1)); assert(!l[s1.v()[a2 - a1]].dated); }
    if a2 < a1 { assert(s2.v()[a1 - a2] == a2 + (a1 - a2)); assert(!l[s2.v()[a1 - a2]].dated); }
    if n1 < n2 { assert(s2.v()[n1] == a2 + n1); assert(!l[s2.v()[n1]].dated); }
    if n2 < n1 { assert(s1.v()[n2] == a1 + n2); assert(!l[s1.v()[n2]].dated); }
}
/// every byte between the first byte of line i and the last byte of line j >= i lies in one of the lines i..=j
pub proof fn lemma_line_at(l: Seq<LN>, filesz: int, i: int, j: int, x: int)
    requires lines_wf(l, filesz), 0 <= i <= j < l.len(), l[i].beg <= x <= l[j].end
    ensures exists|k: int| covers(l, k, x)
    decreases j - i
{
    if x <= l[i].end { assert(covers(l, i, x)); }
    else { assert(l[i + 1].beg == l[i].end + 1); lemma_line_at(l, filesz, i + 1, j, x); }
}
/// (assumed as an axiom in unit SST) the whole message that covers fo, with the offset after it, is an answer for fo
pub proof fn lemma_covering_is_answer(l: Seq<LN>, filesz: int, fo: int, v: ResultS3SyslineFind)
    requires lines_wf(l, filesz), v is Found, genuine(l, *v->Found_0.1), s_beg(*v->Found_0.1) <= fo <= s_end(*v->Found_0.1), v->Found_0.0 as int == s_end(*v->Found_0.1) + 1
    ensures answer_ok(l, fo, v)
{
    let s = *v->Found_0.1;
    lemma_msg_lines(l, filesz, s);
    assert forall|k: int| covers(l, k, fo) implies ({
        let a = s.v()[0];
        (a <= k && forall|i: int| a < i <= k ==> !(#[trigger] l[i]).dated) || (a > k && forall|i: int| k <= i < a ==> !(#[trigger] l[i]).dated)
    }) by {
        lemma_msg_covers(l, filesz, s, k, fo);
        let a = s.v()[0];
        assert forall|i: int| a < i <= k implies !(#[trigger] l[i]).dated by { assert(s.v()[i - a] == a + (i - a)); assert(!l[s.v()[i - a]].dated); }
    }
}

pub struct SyslineReader {
    pub linereader: LineReader,
    pub syslines: SyslinesStub,
    pub syslines_by_range: RangeMapStub,
    pub find_sysline_lru_cache_enabled: bool,
    pub find_sysline_lru_cache_put: Count,
    pub find_sysline_lru_cache: SyslinesLRUCache,
    pub fileoffset_last: FileOffset,
}
impl SyslineReader {
    pub open spec fn model(&self) -> Seq<LN> { self.linereader.lines }
    pub open spec fn fsz(&self) -> int { self.linereader.filesz }
    pub uninterp spec fn stored(&self, fo: FileOffset) -> bool;
    #[verifier::external_body]
    pub fn is_streamed_file(&self) -> bool { unimplemented!() }
    #[verifier::external_body]
    pub fn fileoffset_last(&self) -> (r: FileOffset) requires self.fsz() >= 1 ensures r as int == self.fsz() - 1 { unimplemented!() }
    #[verifier::external_body]
    pub fn filesz(&self) -> (r: u64) ensures r as int == self.fsz() { unimplemented!() }
    #[verifier::external_body]
    pub fn charsz(&self) -> (r: usize) ensures r == 1 { unimplemented!() }
    /// the store invariant of unit SST, with `genuine` and `answer_ok` given their meaning over the file's lines
    pub open spec fn store_wf(&self) -> bool {
        &&& forall|k: FileOffset| #[trigger] self.syslines@.contains_key(k) ==> genuine(self.model(), *self.syslines@[k]) && s_beg(*self.syslines@[k]) == k
                && self.syslines_by_range@.contains_key(k) && self.syslines_by_range@[k] == k
        &&& forall|x: FileOffset| #[trigger] self.syslines_by_range@.contains_key(x) ==> self.syslines@.contains_key(self.syslines_by_range@[x])
                && s_beg(*self.syslines@[self.syslines_by_range@[x]]) <= x as int <= s_end(*self.syslines@[self.syslines_by_range@[x]])
        &&& forall|k: FileOffset| #[trigger] self.find_sysline_lru_cache@.contains_key(k) ==> answer_ok(self.model(), k as int, self.find_sysline_lru_cache@[k])
        &&& forall|k1: FileOffset, k2: FileOffset| #[trigger] self.syslines@.contains_key(k1) && #[trigger] self.syslines@.contains_key(k2) && k1 != k2
                ==> s_end(*self.syslines@[k1]) < s_beg(*self.syslines@[k2]) || s_end(*self.syslines@[k2]) < s_beg(*self.syslines@[k1])
    }
    pub open spec fn store_same(&self, o: &Self) -> bool {
        self.syslines == o.syslines && self.syslines_by_range == o.syslines_by_range && self.find_sysline_lru_cache == o.find_sysline_lru_cache
    }
    // ASSUMED here, PROVED in unit SST (same contract in SST's vocabulary): what the store serves is an answer for the offset
    #[verifier::external_body]
    pub fn check_store(&mut self, fileoffset: FileOffset) -> (r: Option<ResultS3SyslineFind>)
        requires old(self).store_wf()
        ensures r is Some <==> old(self).stored(fileoffset), final(self).linereader == old(self).linereader,
            final(self).store_wf(), final(self).syslines == old(self).syslines, final(self).syslines_by_range == old(self).syslines_by_range,
            r is Some ==> answer_ok(old(self).model(), fileoffset as int, r.unwrap()),
            r is None ==> !old(self).syslines_by_range@.contains_key(fileoffset),
    { unimplemented!() }
    #[verifier::external_body]
    pub fn parse_datetime_in_line_cached(&mut self, linep: &LineP, charsz: usize, year_opt: &Option<Year>) -> (r: ResultParseDateTime)
        requires 0 <= linep.idx() < old(self).model().len()
        ensures r is Ok <==> old(self).model()[linep.idx()].dated, final(self).linereader == old(self).linereader, final(self).store_same(old(self)),
            r is Ok ==> r->Ok_0.0 < r->Ok_0.1 && r->Ok_0.1 as int <= linep.end() - linep.beg() + 1,
    { unimplemented!() }
    // ASSUMED here, PROVED in unit SST: recording a whole message keeps the store invariant, provided whatever the range map already
    // (a stored message that overlaps the new one has the same extent)
    #[verifier::external_body]
    pub fn insert_sysline(&mut self, sysline: Sysline) -> (r: SyslineP)
        requires
            old(self).store_wf(), genuine(old(self).model(), sysline), 0 <= s_beg(sysline) <= s_end(sysline) < u64::MAX - 1,
            forall|k: FileOffset| #[trigger] old(self).syslines@.contains_key(k) && !(s_end(*old(self).syslines@[k]) < s_beg(sysline) || s_end(sysline) < s_beg(*old(self).syslines@[k]))
                ==> s_beg(*old(self).syslines@[k]) == s_beg(sysline) && s_end(*old(self).syslines@[k]) == s_end(sysline),
        ensures *r == sysline, final(self).linereader == old(self).linereader, final(self).store_wf(),
            final(self).find_sysline_lru_cache == old(self).find_sysline_lru_cache,
    { unimplemented!() }
    pub fn debug_assert_gt_fo_syslineend(fo: &FileOffset, syslinep: &SyslineP) { }
    #[verifier::external_body]
    pub fn count_put(&mut self)
        ensures final(self).linereader == old(self).linereader, final(self).store_same(old(self)),
    { unimplemented!() }

//@cut fn path=src/readers/syslinereader.rs impl=SyslineReader name=find_sysline_year ret=r
//@replace "pub fn find_sysline_year" "#[verifier::exec_allows_no_decreases_clause] pub fn find_sysline_year"
//@replace "self.find_sysline_lru_cache_put += 1;" "self.count_put();" count=2
//@spec
    requires
        lines_wf(old(self).model(), old(self).fsz()), old(self).fsz() < u64::MAX - 1, old(self).store_wf(),
    ensures
        final(self).model() == old(self).model(), final(self).fsz() == old(self).fsz(),
        // the stores stay right: every stored / cached Sysline is a whole message (unit SST's invariant)
        final(self).store_wf(),
        // C02: whatever is handed out -- found by the search or served from the stores -- is a whole message, the message of the line
        // at `fileoffset` (or the next one when that line and the lines before it are undated), with the offset after it
        answer_ok(old(self).model(), fileoffset as int, r),
        // C02: whatever the search did, what it hands out (when not served from the store) is a whole message: a dated line
        // and all the undated lines after it, and the offset returned with it is where the next message starts
        !old(self).stored(fileoffset) && r is Found ==> ({
            &&& is_message(old(self).model(), r->Found_0.1.v())
            &&& r->Found_0.1.refs_ok(old(self).model())
            &&& r->Found_0.0 as int == old(self).model()[r->Found_0.1.v().last()].end + 1
        }),
        // and it is the message of the line at `fileoffset` when that line, or a line before it, is dated
        !old(self).stored(fileoffset) && r is Found ==> forall|k: int| covers(old(self).model(), k, fileoffset as int) ==> ({
            let a = r->Found_0.1.v()[0];
            (a <= k && forall|i: int| a < i <= k ==> !(#[trigger] old(self).model()[i]).dated)
            || (a > k && forall|i: int| k <= i < a ==> !(#[trigger] old(self).model()[i]).dated)
        }),
        !old(self).stored(fileoffset) && fileoffset >= old(self).fsz() ==> !(r is Found),
//@at_entry
        let ghost l = self.model();
        let ghost filesz = self.fsz();
//@before "let mut fo_zero_tried"
        // ghost: the undated lines examined so far while looking for the message start are lo .. hi-1 (contiguous)
        let ghost mut lo: int = 0;
        let ghost mut hi: int = 0;
//@loop 1
            invariant_except_break
                hi == lo ==> fo1 == fileoffset && fo_a_max == 0 && !fo_zero_tried,
                hi > lo ==> fo1 <= fo_a_max && (lo > 0 ==> fo1 as int >= l[lo - 1].beg),
                hi > lo ==> fo_a_max as int == l[hi - 1].end + 1,
            invariant
                l == old(self).model(), filesz == old(self).fsz(), self.store_wf(),
                self.model() == l, self.fsz() == filesz, lines_wf(l, filesz), filesz < u64::MAX - 1, charsz_fo == 1,
                0 <= lo <= hi <= l.len(),
                forall|i: int| lo <= i < hi ==> !(#[trigger] l[i]).dated,
                hi > lo ==> forall|k: int| covers(l, k, fileoffset as int) ==> lo <= k < hi,
                hi > lo ==> fileoffset < filesz,
            ensures
                sysline.lines@.len() == 1, sysline.refs_ok(l), 0 <= sysline.lines@[0].idx() < l.len(), l[sysline.lines@[0].idx()].dated,
                fo1 as int == sysline.lines@[0].end() + 1, fileoffset < filesz,
                forall|k: int| covers(l, k, fileoffset as int) ==> ({
                    let a = sysline.lines@[0].idx();
                    (a <= k && forall|i: int| a < i <= k ==> !(#[trigger] l[i]).dated) || (a > k && forall|i: int| k <= i < a ==> !(#[trigger] l[i]).dated)
                }),
//@after "fo_a_max = max(fo_a_max, fo2);"
            let ghost c = linep.idx();
            proof {
                lemma_bounds(l, filesz, c);
                if hi > lo {
                    lemma_cover_next(l, filesz, c, fo1 as int, hi - 1);
                    if lo > 0 { lemma_cover_next(l, filesz, c, fo1 as int, lo - 1); }
                    if c >= hi { if hi < l.len() { lemma_cover_next(l, filesz, c, fo1 as int, hi); assert(l[(hi - 1) + 1].beg == l[hi - 1].end + 1); } lemma_sorted(l, filesz, hi - 1, c + 0); }
                    if c < lo { lemma_sorted(l, filesz, c, hi - 1); }
                    assert(lo - 1 <= c <= hi);
                } else {
                    assert forall|k: int| covers(l, k, fileoffset as int) implies k == c by { lemma_cover_unique(l, filesz, k, c, fileoffset as int); }
                }
                if c > 0 { assert(l[(c - 1) + 1].beg == l[c - 1].end + 1); }
            }
//@before "let line_beg: FileOffset"
            proof {
                if hi == lo { lo = c; hi = c + 1; }
                else {
                    if c < lo { lo = c; }
                    if c >= hi { hi = c + 1; }
                }
                // facts about the new range used by the three ways of choosing the next offset
                if lo > 0 { lemma_sorted(l, filesz, lo - 1, c); lemma_sorted(l, filesz, lo - 1, hi - 1); }
                if c < hi - 1 { lemma_sorted(l, filesz, c, hi - 1); }
                if c > 1 && l[c].beg <= 1 { lemma_sorted(l, filesz, 1, c); assert(l[0int + 1].beg == l[0int].end + 1); }
                if c == 1 { assert(l[0int + 1].beg == l[0int].end + 1); }
            }
//@loop 2
            invariant_except_break
                fo1 as int == sysline.lines@.last().end() + 1, fo_b == fo1,
            invariant
                l == old(self).model(), filesz == old(self).fsz(), self.store_wf(),
                self.model() == l, self.fsz() == filesz, lines_wf(l, filesz), filesz < u64::MAX - 1,
                sysline.lines@.len() >= 1, sysline.refs_ok(l),
                0 <= a0 && a0 + sysline.lines@.len() <= l.len(), fileoffset < filesz,
                l[a0].dated,
                forall|i: int| 0 <= i < sysline.lines@.len() ==> (#[trigger] sysline.lines@[i]).idx() == a0 + i,
                forall|j: int| a0 < j < a0 + sysline.lines@.len() ==> !(#[trigger] l[j]).dated,
            ensures
                fo_b as int == sysline.lines@.last().end() + 1,
                a0 + sysline.lines@.len() == l.len() || l[a0 + sysline.lines@.len() as int].dated,
                fileoffset < filesz,
//@after "ResultS3LineFind::Done => {" 2
                    proof { lemma_bounds(l, filesz, a0 + sysline.lines@.len() - 1); }
//@before "let result: ResultParseDateTime =" 2
            let ghost c = linep.idx();
            proof {
                let last = a0 + sysline.lines@.len() - 1;
                assert(sysline.lines@[sysline.lines@.len() - 1].idx() == last);
                lemma_cover_next(l, filesz, c, fo1 as int, last);
                if last + 1 < l.len() { assert(l[last + 1].beg == l[last].end + 1); lemma_cover_next(l, filesz, c, fo1 as int, last + 1); }
                assert(c == last + 1);
            }
//@before "let mut fo_b: FileOffset = fo1;"
        let ghost a0 = sysline.lines@[0].idx();
//@before "let syslinep: SyslineP = self.insert_sysline(sysline);"
        proof {
            assert(genuine(l, sysline));
            lemma_msg_lines(l, filesz, sysline);
            assert forall|k: FileOffset| #[trigger] self.syslines@.contains_key(k) && !(s_end(*self.syslines@[k]) < s_beg(sysline) || s_end(sysline) < s_beg(*self.syslines@[k]))
                implies s_beg(*self.syslines@[k]) == s_beg(sysline) && s_end(*self.syslines@[k]) == s_end(sysline) by {
                let o = *self.syslines@[k];
                lemma_msg_lines(l, filesz, o);
                // two overlapping extents share the later of their first bytes
                let x = if s_beg(o) >= s_beg(sysline) { s_beg(o) } else { s_beg(sysline) };
                lemma_same_msg(l, filesz, o, sysline, x);
            }
        }
//@after "let syslinep: SyslineP = self.insert_sysline(sysline);"
        proof { assert(answer_ok(l, fileoffset as int, ResultS3SyslineFind::Found((fo_b, syslinep)))); }
//@mutate ".put(fileoffset, ResultS3SyslineFind::Found((fo_b, syslinep.clone())));" ".put(fo_b, ResultS3SyslineFind::Found((fo_b, syslinep.clone())));"
//@mutate "fo1 = fo2;" "fo1 = fo2 + 1;"
//@mutate "fo1 = fo_a_max;" "fo1 = fo_a_max + 1;"
//@end

//@cut fn path=src/readers/syslinereader.rs impl=SyslineReader name=is_sysline_last ret=r
//@spec
    requires sysline.lines@.len() > 0, self.fsz() >= 1, sysline.lines@.last().end() < self.fsz()
    ensures r == (sysline.lines@.last().end() == self.fsz() - 1)
//@end

//@cut fn path=src/readers/syslinereader.rs impl=SyslineReader name=find_sysline_in_block_year ret=r
//@replace "pub fn find_sysline_in_block_year" "#[verifier::exec_allows_no_decreases_clause] pub fn find_sysline_in_block_year"
//@replace "self.find_sysline_lru_cache_put += 1;" "self.count_put();" count=2
//@spec
    requires
        lines_wf(old(self).model(), old(self).fsz()), 1 <= old(self).fsz() < u64::MAX - 1, old(self).store_wf(),
    ensures
        final(self).model() == old(self).model(), final(self).fsz() == old(self).fsz(),
        final(self).store_wf(),
        // C02: whatever is handed out -- found in the block or served from the stores -- is a whole message (see find_sysline_year)
        answer_ok(old(self).model(), fileoffset as int, r.0),
        // C02 (block-zero analysis): what is stored and handed out is a whole message even when lines cross the block's end:
        // a message is only returned once the line after its last line was seen to be dated, or the file ends
        !old(self).stored(fileoffset) && r.0 is Found ==> ({
            &&& is_message(old(self).model(), r.0->Found_0.1.v())
            &&& r.0->Found_0.1.refs_ok(old(self).model())
            &&& r.0->Found_0.0 as int == old(self).model()[r.0->Found_0.1.v().last()].end + 1
        }),
        // and it is the first message that starts at or after the line at `fileoffset`
        !old(self).stored(fileoffset) && r.0 is Found ==> forall|k: int| covers(old(self).model(), k, fileoffset as int) ==> ({
            let a = r.0->Found_0.1.v()[0];
            a >= k && forall|i: int| k <= i < a ==> !(#[trigger] old(self).model()[i]).dated
        }),
//@at_entry
        let ghost l = self.model();
        let ghost filesz = self.fsz();
//@before "let mut fo1: FileOffset = fileoffset;"
        let ghost mut lo: int = 0;
        let ghost mut hi: int = 0;
//@loop 1
            invariant_except_break
                hi == lo ==> fo1 == fileoffset,
                hi > lo ==> fo1 as int == l[hi - 1].end + 1,
            invariant
                l == old(self).model(), filesz == old(self).fsz(),
                self.model() == l, self.fsz() == filesz, lines_wf(l, filesz), 1 <= filesz < u64::MAX - 1, self.store_wf(),
                0 <= lo <= hi <= l.len(),
                forall|i: int| lo <= i < hi ==> !(#[trigger] l[i]).dated,
                hi > lo ==> forall|k: int| covers(l, k, fileoffset as int) ==> k == lo,
            ensures
                sysline.lines@.len() == 1, sysline.refs_ok(l), 0 <= sysline.lines@[0].idx() < l.len(), l[sysline.lines@[0].idx()].dated,
                fo1 as int == sysline.lines@[0].end() + 1, sysline.lines@[0].end() < filesz - 1,
                forall|k: int| covers(l, k, fileoffset as int) ==> ({
                    let a = sysline.lines@[0].idx();
                    a >= k && forall|i: int| k <= i < a ==> !(#[trigger] l[i]).dated
                }),
//@before "let result: ResultParseDateTime =" 1
            let ghost c = linep.idx();
            proof {
                lemma_bounds(l, filesz, c);
                if hi > lo {
                    lemma_cover_next(l, filesz, c, fo1 as int, hi - 1);
                    if hi < l.len() { assert(l[(hi - 1) + 1].beg == l[hi - 1].end + 1); lemma_cover_next(l, filesz, c, fo1 as int, hi); }
                    assert(c == hi);
                } else {
                    assert forall|k: int| covers(l, k, fileoffset as int) implies k == c by { lemma_cover_unique(l, filesz, k, c, fileoffset as int); }
                }
            }
//@before "fo1 = fo2;" 1
            proof {
                if hi == lo { lo = c; hi = c + 1; } else { hi = c + 1; }
            }
//@loop 2
            invariant_except_break
                fo1 as int == sysline.lines@.last().end() + 1,
            invariant
                l == old(self).model(), filesz == old(self).fsz(),
                self.model() == l, self.fsz() == filesz, lines_wf(l, filesz), 1 <= filesz < u64::MAX - 1, self.store_wf(),
                sysline.lines@.len() >= 1, sysline.refs_ok(l),
                0 <= b0 && b0 + sysline.lines@.len() <= l.len(),
                l[b0].dated,
                forall|i: int| 0 <= i < sysline.lines@.len() ==> (#[trigger] sysline.lines@[i]).idx() == b0 + i,
                forall|j: int| b0 < j < b0 + sysline.lines@.len() ==> !(#[trigger] l[j]).dated,
            ensures
                fo_b as int == sysline.lines@.last().end() + 1,
                b0 + sysline.lines@.len() == l.len() || l[b0 + sysline.lines@.len() as int].dated,
//@before "let fo_b: FileOffset;"
        let ghost b0 = sysline.lines@[0].idx();
//@before "fo_b = sysline.fileoffset_end()"
                    proof {
                        // not before the last byte and no line found: the file has ended (a one-byte last line cannot cross a block end)
                        let last = b0 + sysline.lines@.len() - 1;
                        assert(sysline.lines@[sysline.lines@.len() - 1].idx() == last);
                        lemma_bounds(l, filesz, last);
                        if fo1 < filesz {
                            let cc = choose|cc: int| covers(l, cc, fo1 as int) && l[cc].beg < l[cc].end;
                            lemma_bounds(l, filesz, cc);
                            lemma_cover_next(l, filesz, cc, fo1 as int, last);
                            assert(l[last + 1].beg == l[last].end + 1);
                            lemma_cover_next(l, filesz, cc, fo1 as int, last + 1);
                        }
                    }
//@before "let result: ResultParseDateTime =" 2
            let ghost c = linep.idx();
            proof {
                let last = b0 + sysline.lines@.len() - 1;
                assert(sysline.lines@[sysline.lines@.len() - 1].idx() == last);
                lemma_cover_next(l, filesz, c, fo1 as int, last);
                if last + 1 < l.len() { assert(l[last + 1].beg == l[last].end + 1); lemma_cover_next(l, filesz, c, fo1 as int, last + 1); }
                assert(c == last + 1);
            }
//@before "let syslinep: SyslineP = self.insert_sysline(sysline);" *
        proof {
            assert(genuine(l, sysline));
            lemma_msg_lines(l, filesz, sysline);
            assert forall|k: FileOffset| #[trigger] self.syslines@.contains_key(k) && !(s_end(*self.syslines@[k]) < s_beg(sysline) || s_end(sysline) < s_beg(*self.syslines@[k]))
                implies s_beg(*self.syslines@[k]) == s_beg(sysline) && s_end(*self.syslines@[k]) == s_end(sysline) by {
                let o = *self.syslines@[k];
                lemma_msg_lines(l, filesz, o);
                // two overlapping extents share the later of their first bytes
                let x = if s_beg(o) >= s_beg(sysline) { s_beg(o) } else { s_beg(sysline) };
                lemma_same_msg(l, filesz, o, sysline, x);
            }
        }
//@after "let syslinep: SyslineP = self.insert_sysline(sysline);" 1
                        proof { assert(answer_ok(l, fileoffset as int, ResultS3SyslineFind::Found((fo1, syslinep)))); }
//@after "let syslinep: SyslineP = self.insert_sysline(sysline);" 2
        proof { assert(answer_ok(l, fileoffset as int, ResultS3SyslineFind::Found((fo_b, syslinep)))); }
//@end
}

pub proof fn sln__canary(l: Seq<LN>, v: Seq<int>)
    requires lines_wf(l, 30), l.len() == 3, l[0].dated, !l[1].dated, l[2].dated, is_message(l, v), v[0] == 0
    ensures false
{}

} // verus!
fn main() {}
