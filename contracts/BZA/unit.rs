// UNIT BZA — the byte check of block-zero analysis (C02: messages may hold NUL or non-UTF-8 bytes and must still be printed):
// SyslogProcessor::blockzero_analysis_bytes (src/readers/syslogprocessor.rs) rejects a file as "null bytes" only when the first
// 128 bytes (or the whole first block if shorter) are ALL NUL; a file whose text merely contains NUL bytes goes on.
// Assumed by contract (stand-ins, R9): `iter().take(n).all(|&b| b == 0)` / `.any(..)` by their std meaning; read_block(0) = block 0.
#![allow(unused_imports, non_camel_case_types, dead_code, unused_variables, unused_parens, unused_mut, unused_assignments, non_snake_case)]
use vstd::prelude::*;
use std::sync::Arc;
verus! {

global size_of usize == 8;
pub type BlockSz = u64;
pub type BlockOffset = u64;
pub type Block = Vec<u8>;
pub type BlockP = Arc<Block>;
#[verifier::external_body]
pub struct Error { _p: u8 }
//@cut type kind=enum path=src/common.rs name=ResultS3 derives=
//@end
pub type ResultS3ReadBlock = ResultS3<BlockP, Error>;
//@cut type kind=enum path=src/common.rs name=FileProcessingResult derives=
//@end
pub type FileProcessingResultBlockZero = FileProcessingResult<Error>;
//@cut type kind=enum path=src/readers/syslogprocessor.rs name=ProcessingStage derives=PartialEq,Eq,Structural
//@end
/// stand-ins (R9) for `block.iter().take(n).all(|&b| b == 0)` and `.any(|&b| b == 0)`
pub open spec fn first_n(b: Seq<u8>, n: int) -> int { if b.len() < n { b.len() as int } else { n } }
#[verifier::external_body]
pub fn verif_take_all_zero(b: &BlockP, n: usize) -> (r: bool) ensures r == (forall|i: int| 0 <= i < first_n(b@, n as int) ==> b@[i] == 0u8) { unimplemented!() }
#[verifier::external_body]
pub fn verif_take_any_zero(b: &BlockP, n: usize) -> (r: bool) ensures r == (exists|i: int| 0 <= i < first_n(b@, n as int) && b@[i] == 0u8) { unimplemented!() }
pub fn verif_min_u64(a: u64, b: u64) -> (r: u64) ensures r == (if a <= b { a } else { b }) { if a <= b { a } else { b } }

#[verifier::external_body]
pub struct BlockReader { _p: u8 }
impl BlockReader {
    pub uninterp spec fn block0(&self) -> Seq<u8>;
    #[verifier::external_body]
    pub fn read_block(&mut self, blockoffset: BlockOffset) -> (r: ResultS3ReadBlock)
        ensures final(self).block0() == old(self).block0(), (r is Found && blockoffset == 0) ==> r->Found_0@ == old(self).block0()
    { unimplemented!() }
}
pub struct LineReader { pub blockreader: BlockReader }
pub struct SyslineReader { pub linereader: LineReader }
pub struct SyslogProcessor { pub syslinereader: SyslineReader, pub processingstage: ProcessingStage, pub blocksz_: BlockSz }
impl SyslogProcessor {
//@cut type kind=const path=src/readers/syslogprocessor.rs name=BLOCKZERO_ANALYSIS_BYTES_MIN depth=1
//@end
//@cut type kind=const path=src/readers/syslogprocessor.rs name=BLOCKZERO_ANALYSIS_BYTES_NULL_MAX depth=1
//@end
    #[verifier::external_body]
    pub fn blocksz(&self) -> (r: BlockSz) ensures r == self.blocksz_ { unimplemented!() }
    #[verifier::external_body]
    fn set_error(&mut self, error: &Error)
        ensures final(self).syslinereader == old(self).syslinereader, final(self).processingstage == old(self).processingstage, final(self).blocksz_ == old(self).blocksz_
    { unimplemented!() }
    fn assert_stage(&self, stage_expact: ProcessingStage) requires self.processingstage == stage_expact { }

//@cut fn path=src/readers/syslogprocessor.rs impl=SyslogProcessor name=blockzero_analysis_bytes ret=r
//@replace "pub(super) fn" "pub fn"
//@replace "std::cmp::min(" "verif_min_u64("
//@replace "(*blockp).iter().take(Self::BLOCKZERO_ANALYSIS_BYTES_NULL_MAX).all(|&b| b == 0)" "verif_take_all_zero(&blockp, Self::BLOCKZERO_ANALYSIS_BYTES_NULL_MAX)" count=0+
//@replace "(*blockp).iter().take(Self::BLOCKZERO_ANALYSIS_BYTES_NULL_MAX).any(|&b| b == 0)" "verif_take_any_zero(&blockp, Self::BLOCKZERO_ANALYSIS_BYTES_NULL_MAX)" count=0+
//@spec
    requires old(self).processingstage is Stage1BlockzeroAnalysis
    ensures
        // C02: a text log is turned away for "null bytes" only if its first 128 bytes (or all of block zero if shorter) are ALL NUL;
        // a log that merely CONTAINS NUL bytes is processed
        r is FileErrNullBytes ==> forall|i: int| 0 <= i < first_n(old(self).syslinereader.linereader.blockreader.block0(), 128) ==> old(self).syslinereader.linereader.blockreader.block0()[i] == 0u8,
        // ... and for "too small" only if block zero is shorter than 6 bytes (or than the block size, if that is smaller)
        r is FileErrTooSmall ==> old(self).syslinereader.linereader.blockreader.block0().len() < 6,
//@mutate "if blocksz0 < require_sz {" "if blocksz0 <= require_sz {"
//@end
}

/// vacuity guard: must NOT verify
pub proof fn bza__canary(b: Seq<u8>)
    requires b.len() == 200, first_n(b, 128) == 128, b[3] == 0u8
    ensures false
{}

} // verus!
fn main() {}
