// UNIT SST — the sysline stores of SyslineReader (C02): what `check_store` serves instead of a fresh search, and what
// `insert_sysline` records.  `genuine(s)` stands for "s is a whole message of the file" (unit SLN proves that for every Sysline it
// hands to insert_sysline); the store invariant says every stored / cached Sysline is genuine, keyed by its first byte, and that the
// range map sends every byte of a stored message to that message.  Then a store hit is a genuine message that covers the offset
// asked for, with the offset of the byte after it -- the same answer a fresh search gives.
// Assumed by contract: the rangemap crate (pointwise view: insert overwrites the range, get_key_value looks one point up), the lru
// crate (as in RBK / LNR), vstd's BTreeMap specs, Sysline's offset accessors.
#![allow(unused_imports, non_camel_case_types, dead_code, unused_variables, unused_parens, unused_mut, unused_assignments, non_snake_case)]
use vstd::prelude::*;
use std::sync::Arc;
use std::collections::BTreeMap;
use std::ops::Range;
use vstd::std_specs::btree::*;
verus! {

#[verifier::external_body]
pub struct DateTimeL { _p: u8 }
impl Copy for DateTimeL {}
impl Clone for DateTimeL { #[verifier::external_body] fn clone(&self) -> (r: Self) ensures r == *self { unimplemented!() } }
pub type DateTimeLOpt = Option<DateTimeL>;
//@cut type kind=type path=src/readers/syslinereader.rs name=SyslineRange
//@end
pub type Count = u64;
pub type FileOffset = u64;
pub type FileSz = u64;
#[verifier::external_body]
pub struct Error { _p: u8 }
//@cut type kind=enum path=src/common.rs name=ResultS3 derives=
//@end

#[verifier::external_body]
pub struct Sysline { _p: u8 }
impl Sysline {
    pub uninterp spec fn beg(&self) -> int;
    pub uninterp spec fn end(&self) -> int;
    /// the Sysline is a whole message of the file (proved by unit SLN for what find_sysline_year builds)
    pub uninterp spec fn genuine(&self) -> bool;
    #[verifier::external_body]
    pub fn fileoffset_begin(&self) -> (r: FileOffset) ensures r as int == self.beg() { unimplemented!() }
    #[verifier::external_body]
    pub fn fileoffset_end(&self) -> (r: FileOffset) ensures r as int == self.end() { unimplemented!() }
    #[verifier::external_body]
    pub fn fileoffset_next(&self) -> (r: FileOffset) requires self.end() < u64::MAX ensures r as int == self.end() + 1 { unimplemented!() }
}
//@cut type kind=type path=src/data/sysline.rs name=SyslineP
//@end
//@cut type kind=type path=src/readers/syslinereader.rs name=Syslines
//@end
//@cut type kind=type path=src/readers/syslinereader.rs name=ResultS3SyslineFind
//@end
/// extents of a well-formed Sysline
pub open spec fn ext_ok(s: Sysline) -> bool { 0 <= s.beg() <= s.end() < u64::MAX - 1 }

// ---- assumed: the rangemap crate by a pointwise view
#[verifier::external_body]
pub struct SyslinesRangeMap { _p: u8 }
impl SyslinesRangeMap {
    pub uninterp spec fn view(&self) -> Map<FileOffset, FileOffset>;
    #[verifier::external_body]
    pub fn get_key_value(&self, k: &FileOffset) -> (r: Option<(&Range<FileOffset>, &FileOffset)>)
        ensures r is Some <==> self@.contains_key(*k), r is Some ==> *r.unwrap().1 == self@[*k]
    { unimplemented!() }
    #[verifier::external_body]
    pub fn contains_key(&self, k: &FileOffset) -> (r: bool) ensures r == self@.contains_key(*k) { unimplemented!() }
    #[verifier::external_body]
    pub fn remove(&mut self, range: Range<FileOffset>)
        ensures
            forall|x: FileOffset| range.start <= x < range.end ==> !(#[trigger] final(self)@.contains_key(x)),
            forall|x: FileOffset| !(range.start <= x < range.end) ==> (#[trigger] final(self)@.contains_key(x) <==> old(self)@.contains_key(x))
                && (old(self)@.contains_key(x) ==> final(self)@[x] == old(self)@[x]),
    { unimplemented!() }
    #[verifier::external_body]
    pub fn insert(&mut self, range: Range<FileOffset>, v: FileOffset)
        requires range.start < range.end
        ensures
            forall|x: FileOffset| range.start <= x < range.end ==> #[trigger] final(self)@.contains_key(x) && final(self)@[x] == v,
            forall|x: FileOffset| !(range.start <= x < range.end) ==> (#[trigger] final(self)@.contains_key(x) <==> old(self)@.contains_key(x))
                && (old(self)@.contains_key(x) ==> final(self)@[x] == old(self)@[x]),
    { unimplemented!() }
}
// ---- assumed: the lru crate's cache by its view
#[verifier::external_body]
pub struct SyslinesLRUCache { _p: u8 }
impl SyslinesLRUCache {
    pub uninterp spec fn view(&self) -> Map<FileOffset, ResultS3SyslineFind>;
    #[verifier::external_body]
    pub fn get(&mut self, k: &FileOffset) -> (r: Option<&ResultS3SyslineFind>)
        ensures final(self)@ == old(self)@, r is Some <==> old(self)@.contains_key(*k), r is Some ==> *r.unwrap() == old(self)@[*k]
    { unimplemented!() }
    #[verifier::external_body]
    pub fn put(&mut self, k: FileOffset, v: ResultS3SyslineFind) -> (r: Option<ResultS3SyslineFind>)
        ensures final(self)@.contains_key(k) && final(self)@[k] == v,
            forall|j: FileOffset| #[trigger] final(self)@.contains_key(j) && j != k ==> old(self)@.contains_key(j) && final(self)@[j] == old(self)@[j],
    { unimplemented!() }
}
/// C02: `v` is the answer a fresh search for offset k gives (unit SLN: the postcondition of find_sysline_year -- a whole message,
/// the message of the line at k when that line or a line before it is dated, and the offset of the byte after it)
pub uninterp spec fn answer_ok(k: FileOffset, v: ResultS3SyslineFind) -> bool;
/// a genuine message that covers k, with the offset of the byte after it
pub open spec fn covering(k: FileOffset, v: ResultS3SyslineFind) -> bool {
    v is Found && v->Found_0.1.genuine() && ext_ok(*v->Found_0.1) && v->Found_0.1.beg() <= k as int <= v->Found_0.1.end() && v->Found_0.0 as int == v->Found_0.1.end() + 1
}
/// ASSUMED here, PROVED in unit SLN (lemma_covering_is_answer): the genuine message covering k is the fresh search's answer for k
#[verifier::external_body]
pub proof fn axiom_covering_is_answer(k: FileOffset, v: ResultS3SyslineFind)
    requires covering(k, v)
    ensures answer_ok(k, v)
{}
/// ASSUMED: Done / Err answers carry no message (nothing to check)
#[verifier::external_body]
pub proof fn axiom_nonfound_is_answer(k: FileOffset, v: ResultS3SyslineFind)
    requires !(v is Found)
    ensures answer_ok(k, v)
{}
#[verifier::external_body]
pub fn verif_map_get_clone(m: &Syslines, k: &FileOffset) -> (r: SyslineP) requires m@.contains_key(*k) ensures r == m@[*k] { unimplemented!() }
#[verifier::external_body]
pub fn verif_count_inc(c: &mut Count) { unimplemented!() }
pub fn max(a: usize, b: usize) -> (r: usize) ensures r == (if a >= b { a } else { b }) { if a >= b { a } else { b } }

pub struct SyslineReader {
    pub syslines: Syslines,
    pub syslines_by_range: SyslinesRangeMap,
    pub find_sysline_lru_cache: SyslinesLRUCache,
    pub find_sysline_lru_cache_enabled: bool,
    pub find_sysline_lru_cache_hit: Count,
    pub find_sysline_lru_cache_miss: Count,
    pub find_sysline_lru_cache_put: Count,
    pub syslines_by_range_hit: Count,
    pub syslines_by_range_miss: Count,
    pub syslines_by_range_put: Count,
    pub syslines_hit: Count,
    pub syslines_miss: Count,
    pub syslines_count: Count,
    pub syslines_stored_highest: usize,
    pub dt_first: DateTimeLOpt,
    pub dt_last: DateTimeLOpt,
    pub dt_first_prev: DateTimeLOpt,
    pub dt_last_prev: DateTimeLOpt,
}
impl SyslineReader {
    pub open spec fn wf(&self) -> bool {
        // every stored Sysline is genuine and keyed by its first byte; the range map knows it under its first byte
        &&& forall|k: FileOffset| #[trigger] self.syslines@.contains_key(k) ==> self.syslines@[k].genuine() && ext_ok(*self.syslines@[k]) && self.syslines@[k].beg() == k
                && self.syslines_by_range@.contains_key(k) && self.syslines_by_range@[k] == k
        // every byte the range map knows belongs to the stored Sysline it points to
        &&& forall|x: FileOffset| #[trigger] self.syslines_by_range@.contains_key(x) ==> self.syslines@.contains_key(self.syslines_by_range@[x])
                && self.syslines@[self.syslines_by_range@[x]].beg() <= x as int <= self.syslines@[self.syslines_by_range@[x]].end()
        // every cached answer is right
        &&& forall|k: FileOffset| #[trigger] self.find_sysline_lru_cache@.contains_key(k) ==> answer_ok(k, self.find_sysline_lru_cache@[k])
        // stored Syslines do not overlap
        &&& forall|k1: FileOffset, k2: FileOffset| #[trigger] self.syslines@.contains_key(k1) && #[trigger] self.syslines@.contains_key(k2) && k1 != k2
                ==> self.syslines@[k1].end() < self.syslines@[k2].beg() || self.syslines@[k2].end() < self.syslines@[k1].beg()
    }
    #[verifier::external_body]
    pub fn charsz(&self) -> (r: usize) ensures r == 1 { unimplemented!() }
    #[verifier::external_body]
    pub fn is_sysline_last(&self, sysline: &Sysline) -> bool { unimplemented!() }
    pub fn debug_assert_gt_fo_syslineend(fo: &FileOffset, syslinep: &SyslineP) requires *fo as int > syslinep.end() { }

//@cut fn path=src/readers/syslinereader.rs impl=SyslineReader name=check_store ret=r
//@replace "self.find_sysline_lru_cache_hit += 1;" "verif_count_inc(&mut self.find_sysline_lru_cache_hit);"
//@replace "self.find_sysline_lru_cache_miss += 1;" "verif_count_inc(&mut self.find_sysline_lru_cache_miss);"
//@replace "self.find_sysline_lru_cache_put += 1;" "verif_count_inc(&mut self.find_sysline_lru_cache_put);" count=*
//@replace "self.syslines_by_range_hit += 1;" "verif_count_inc(&mut self.syslines_by_range_hit);"
//@replace "self.syslines_by_range_miss += 1;" "verif_count_inc(&mut self.syslines_by_range_miss);"
//@replace "self.syslines_hit += 1;" "verif_count_inc(&mut self.syslines_hit);"
//@replace "self.syslines_miss += 1;" "verif_count_inc(&mut self.syslines_miss);"
//@replace "self.syslines[fo].clone()" "verif_map_get_clone(&self.syslines, fo)"
//@replace "self.syslines[&fileoffset].clone()" "verif_map_get_clone(&self.syslines, &fileoffset)"
//@spec
    requires old(self).wf()
    ensures
        final(self).wf(), final(self).syslines == old(self).syslines, final(self).syslines_by_range == old(self).syslines_by_range,
        // C02: whatever the store serves is the answer a fresh search would give: a cached answer, or the stored genuine
        // message that covers the offset, with the offset after it
        r is Some ==> answer_ok(fileoffset, r.unwrap()),
        // a miss: no stored Sysline covers the offset
        r is None ==> !old(self).syslines_by_range@.contains_key(fileoffset),
//@at_entry
        proof { broadcast use group_btree_axioms; }
//@after "let fo_next: FileOffset" *
                proof { axiom_covering_is_answer(fileoffset, ResultS3SyslineFind::Found((fo_next, syslinep))); }
//@before "return Some(ResultS3SyslineFind::Done);"
                            proof { axiom_nonfound_is_answer(fileoffset, ResultS3SyslineFind::Done); }
//@mutate "let fo_next: FileOffset = (*syslinep).fileoffset_next();" "let fo_next: FileOffset = (*syslinep).fileoffset_end();"
//@end

    // assumed here (proved in unit STO): disabling the caches empties the LRU cache, enabling never adds to it; neither touches the stores
    #[verifier::external_body]
    pub fn LRU_cache_disable(&mut self) -> (r: bool)
        ensures final(self).find_sysline_lru_cache@.dom() =~= Set::<FileOffset>::empty(),
            final(self).syslines == old(self).syslines, final(self).syslines_by_range == old(self).syslines_by_range,
    { unimplemented!() }
    #[verifier::external_body]
    pub fn LRU_cache_enable(&mut self) -> (r: bool)
        ensures final(self).find_sysline_lru_cache@.dom().subset_of(old(self).find_sysline_lru_cache@.dom()),
            forall|k: FileOffset| #[trigger] final(self).find_sysline_lru_cache@.contains_key(k) ==> final(self).find_sysline_lru_cache@[k] == old(self).find_sysline_lru_cache@[k],
            final(self).syslines == old(self).syslines, final(self).syslines_by_range == old(self).syslines_by_range,
    { unimplemented!() }

//@cut fn path=src/readers/syslinereader.rs impl=SyslineReader name=remove_sysline ret=r
//@replace "pub(crate) fn" "pub fn"
//@spec
    requires old(self).wf()
    ensures
        // C02 (re-parse after the year of a year-less log is known): the Sysline leaves both stores together and no cached answer
        // survives that could still hand it out
        final(self).wf(),
        final(self).syslines@ == old(self).syslines@.remove(fileoffset),
        r ==> !final(self).syslines_by_range@.contains_key(fileoffset),
        r == old(self).syslines@.contains_key(fileoffset),
//@at_entry
        proof { broadcast use group_btree_axioms; }
//@before "self.dt_first = self.dt_first_prev;"
                proof {
                    let m0 = old(self).syslines@; let b0 = old(self).syslines_by_range@;
                    assert forall|x: FileOffset| #[trigger] self.syslines_by_range@.contains_key(x) implies self.syslines@.contains_key(self.syslines_by_range@[x])
                        && self.syslines@[self.syslines_by_range@[x]].beg() <= x as int <= self.syslines@[self.syslines_by_range@[x]].end() by {
                        assert(b0.contains_key(x));
                        let k = b0[x];
                        if k == fileoffset { assert(m0[k].beg() <= x as int <= m0[k].end()); assert(false); }
                    }
                    assert forall|k: FileOffset| #[trigger] self.syslines@.contains_key(k) implies self.syslines_by_range@.contains_key(k) && self.syslines_by_range@[k] == k by {
                        assert(m0.contains_key(k) && k != fileoffset);
                        // k is the first byte of another stored Sysline: it is not inside the removed one (it points to itself)
                        if fo_beg <= k < fo_end1 { assert(b0[k] == k); assert(b0.contains_key(k)); }
                    }
                }
//@mutate "let fo_end1: FileOffset = fo_end + (self.charsz() as FileOffset);" "let fo_end1: FileOffset = fo_end;"
//@end

//@cut fn path=src/readers/syslinereader.rs impl=SyslineReader name=insert_sysline ret=r
//@replace "SyslineP::new(sysline)" "Arc::new(sysline)"
//@replace "self.syslines_count += 1;" "verif_count_inc(&mut self.syslines_count);"
//@replace "self.syslines_by_range_put += 1;" "verif_count_inc(&mut self.syslines_by_range_put);"
//@spec
    requires
        old(self).wf(), sysline.genuine(), ext_ok(sysline),
        // two genuine messages that share a byte are the same message: a stored Sysline that overlaps the new one has the same extent
        forall|k: FileOffset| #[trigger] old(self).syslines@.contains_key(k) && !(old(self).syslines@[k].end() < sysline.beg() || sysline.end() < old(self).syslines@[k].beg())
            ==> old(self).syslines@[k].beg() == sysline.beg() && old(self).syslines@[k].end() == sysline.end(),
    ensures
        *r == sysline, final(self).wf(), final(self).find_sysline_lru_cache == old(self).find_sysline_lru_cache,
        final(self).syslines@ == old(self).syslines@.insert(sysline.beg() as u64, r),
//@at_entry
        proof { broadcast use group_btree_axioms; }
//@mutate ".insert(fo_beg..fo_end1, fo_beg);" ".insert(fo_beg..fo_end, fo_beg);"
//@end
}

/// vacuity guard: must NOT verify
pub proof fn sst__canary(r: SyslineReader, k: FileOffset)
    requires r.wf(), r.syslines@.contains_key(k), r.find_sysline_lru_cache@.contains_key(k)
    ensures false
{}

} // verus!
fn main() {}
