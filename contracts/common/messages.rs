// ---- assumed: the four message kinds are opaque values that expose their datetime (and, for a
// text message, its line count).  Their internals are outside every unit that includes this file.
#[verifier::external_body]
pub struct Sysline { _p: u8 }
pub type SyslineP = Arc<Sysline>;
impl Sysline {
    pub uninterp spec fn dt_spec(&self) -> DateTimeL;
    pub uninterp spec fn count_lines_spec(&self) -> u64;
    #[verifier::external_body]
    pub fn dt(&self) -> (r: &DateTimeL) ensures *r == self.dt_spec() { unimplemented!() }
    #[verifier::external_body]
    pub fn count_lines(&self) -> (r: u64) ensures r == self.count_lines_spec() { unimplemented!() }
    pub uninterp spec fn ends_with_newline_spec(&self) -> bool;
    #[verifier::external_body]
    pub fn ends_with_newline(&self) -> (r: bool) ensures r == self.ends_with_newline_spec() { unimplemented!() }
}
#[verifier::external_body]
pub struct FixedStruct { _p: u8 }
impl FixedStruct {
    pub uninterp spec fn dt_spec(&self) -> DateTimeL;
    #[verifier::external_body]
    pub fn dt(&self) -> (r: &DateTimeL) ensures *r == self.dt_spec() { unimplemented!() }
}
#[verifier::external_body]
pub struct Evtx { _p: u8 }
impl Evtx {
    pub uninterp spec fn dt_spec(&self) -> DateTimeL;
    #[verifier::external_body]
    pub fn dt(&self) -> (r: &DateTimeL) ensures *r == self.dt_spec() { unimplemented!() }
}
#[verifier::external_body]
pub struct JournalEntry { _p: u8 }
impl JournalEntry {
    pub uninterp spec fn dt_spec(&self) -> DateTimeL;
    #[verifier::external_body]
    pub fn dt(&self) -> (r: &DateTimeL) ensures *r == self.dt_spec() { unimplemented!() }
}
