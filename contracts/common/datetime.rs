// ---- assumed: chrono datetimes are opaque values carrying an instant; comparison compares instants
// (DESIGN 7.4).  `DateTimeL` = chrono::DateTime<FixedOffset>, `Timestamp` = chrono::DateTime<Utc>.

#[verifier::external_body]
pub struct DateTimeL { _p: u8 }

pub uninterp spec fn instant(dt: DateTimeL) -> int;

impl Copy for DateTimeL {}
impl Clone for DateTimeL {
    #[verifier::external_body]
    fn clone(&self) -> (r: Self) ensures r == *self { DateTimeL{_p: self._p} }
}
impl PartialEq for DateTimeL {
    #[verifier::external_body]
    fn eq(&self, other: &Self) -> (r: bool) { self._p == other._p }
}
impl PartialEqSpecImpl for DateTimeL {
    open spec fn obeys_eq_spec() -> bool { true }
    open spec fn eq_spec(&self, other: &Self) -> bool { instant(*self) == instant(*other) }
}
impl PartialOrd for DateTimeL {
    #[verifier::external_body]
    fn partial_cmp(&self, other: &Self) -> (r: Option<Ordering>) { self._p.partial_cmp(&other._p) }
}
impl PartialOrdSpecImpl for DateTimeL {
    open spec fn obeys_partial_cmp_spec() -> bool { true }
    open spec fn partial_cmp_spec(&self, other: &Self) -> Option<Ordering> {
        if instant(*self) < instant(*other) { Some(Ordering::Less) }
        else if instant(*self) == instant(*other) { Some(Ordering::Equal) }
        else { Some(Ordering::Greater) }
    }
}
pub type DateTimeLOpt = Option<DateTimeL>;

#[verifier::external_body]
pub struct Timestamp { _p: u8 }

pub uninterp spec fn ts_instant(ts: Timestamp) -> int;

impl Copy for Timestamp {}
impl Clone for Timestamp {
    #[verifier::external_body]
    fn clone(&self) -> (r: Self) ensures r == *self { Timestamp{_p: self._p} }
}
impl PartialEq for Timestamp {
    #[verifier::external_body]
    fn eq(&self, other: &Self) -> (r: bool) { self._p == other._p }
}
impl PartialEqSpecImpl for Timestamp {
    open spec fn obeys_eq_spec() -> bool { true }
    open spec fn eq_spec(&self, other: &Self) -> bool { ts_instant(*self) == ts_instant(*other) }
}
impl PartialOrd for Timestamp {
    #[verifier::external_body]
    fn partial_cmp(&self, other: &Self) -> (r: Option<Ordering>) { self._p.partial_cmp(&other._p) }
}
impl PartialOrdSpecImpl for Timestamp {
    open spec fn obeys_partial_cmp_spec() -> bool { true }
    open spec fn partial_cmp_spec(&self, other: &Self) -> Option<Ordering> {
        if ts_instant(*self) < ts_instant(*other) { Some(Ordering::Less) }
        else if ts_instant(*self) == ts_instant(*other) { Some(Ordering::Equal) }
        else { Some(Ordering::Greater) }
    }
}
pub type TimestampOpt = Option<Timestamp>;
impl Eq for Timestamp {}
impl Ord for Timestamp {
    #[verifier::external_body]
    fn cmp(&self, other: &Self) -> (r: Ordering) { self._p.cmp(&other._p) }
}
impl OrdSpecImpl for Timestamp {
    open spec fn obeys_cmp_spec() -> bool { true }
    open spec fn cmp_spec(&self, other: &Self) -> Ordering {
        if ts_instant(*self) < ts_instant(*other) { Ordering::Less }
        else if ts_instant(*self) == ts_instant(*other) { Ordering::Equal }
        else { Ordering::Greater }
    }
}
