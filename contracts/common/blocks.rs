// ---- shared: the block partition of a file (spec + lemmas; the same text unit LNR carries)
/// the bytes of block `bo` of a file read with block size `bs`
pub open spec fn fblock(file: Seq<u8>, bs: int, bo: int) -> Seq<u8> {
    file.subrange(bo * bs, if (bo + 1) * bs <= file.len() { (bo + 1) * bs } else { file.len() as int })
}
pub open spec fn sp_last(filesz: int, bsz: int) -> int { if filesz == 0 { 0 } else { (if filesz % bsz > 0 { filesz / bsz + 1 } else { filesz / bsz }) - 1 } }

/// block `bo` of the file: its length, its bytes, and where it sits among the blocks
pub proof fn lemma_block(f: Seq<u8>, bs: int, bo: int)
    requires bs >= 1, bo >= 0, bo * bs < f.len()
    ensures
        fblock(f, bs, bo).len() == (if f.len() - bo * bs < bs { f.len() - bo * bs } else { bs }),
        fblock(f, bs, bo).len() >= 1,
        forall|i: int| 0 <= i < fblock(f, bs, bo).len() ==> #[trigger] fblock(f, bs, bo)[i] == f[bo * bs + i],
        (bo + 1) * bs == bo * bs + bs, bo * bs >= 0,
        bo <= sp_last(f.len() as int, bs),
        bo == sp_last(f.len() as int, bs) <==> bo * bs + fblock(f, bs, bo).len() == f.len(),
        bo < sp_last(f.len() as int, bs) ==> fblock(f, bs, bo).len() == bs && (bo + 1) * bs < f.len(),
{
    assert((bo + 1) * bs == bo * bs + bs) by (nonlinear_arith);
    assert(bo * bs >= 0) by (nonlinear_arith) requires bo >= 0, bs >= 1;
    let n = f.len() as int;
    let q = n / bs;
    lemma_fundamental_div_mod(n, bs);
    lemma_mod_bound(n, bs);
    assert(bs * q == q * bs) by (nonlinear_arith);
    // last = ceil(n / bs) - 1
    let last = sp_last(n, bs);
    if n % bs > 0 {
        assert(last == q);
        if bo > q { assert(bo * bs >= (q + 1) * bs) by (nonlinear_arith) requires bo >= q + 1, bs >= 1; assert((q + 1) * bs == q * bs + bs) by (nonlinear_arith); }
        if bo < q { assert((bo + 1) * bs <= q * bs) by (nonlinear_arith) requires bo + 1 <= q, bs >= 1; }
    } else {
        assert(last == q - 1);
        if bo > q - 1 { assert(bo * bs >= q * bs) by (nonlinear_arith) requires bo >= q, bs >= 1; }
        if bo < q - 1 { assert((bo + 1) * bs <= (q - 1) * bs) by (nonlinear_arith) requires bo + 1 <= q - 1, bs >= 1; assert((q - 1) * bs == q * bs - bs) by (nonlinear_arith); }
        if bo == q - 1 { assert((q - 1) * bs == q * bs - bs) by (nonlinear_arith); }
    }
}
/// offset <-> (block, index)
pub proof fn lemma_offs(fo: int, bs: int)
    requires bs >= 1, fo >= 0
    ensures (fo / bs) * bs + fo % bs == fo, 0 <= fo % bs < bs, fo / bs >= 0, (fo / bs) * bs <= fo,
{
    lemma_fundamental_div_mod(fo, bs);
    lemma_mod_bound(fo, bs);
    lemma_div_pos_is_pos(fo, bs);
    assert(bs * (fo / bs) == (fo / bs) * bs) by (nonlinear_arith);
}
/// where a byte of block `bo` sits in the file: its offset splits back into (bo, bi)
pub proof fn lemma_split(bo: int, bi: int, bs: int)
    requires bs >= 1, bo >= 0, 0 <= bi < bs
    ensures (bo * bs + bi) / bs == bo, (bo * bs + bi) % bs == bi
{
    lemma_fundamental_div_mod_converse(bo * bs + bi, bs, bo, bi);
}

/// a block at or before the last one starts inside the file
pub proof fn lemma_in_file(f: Seq<u8>, bs: int, bo: int)
    requires bs >= 1, 0 <= bo <= sp_last(f.len() as int, bs), f.len() > 0
    ensures bo * bs < f.len()
{
    let n = f.len() as int;
    let last = sp_last(n, bs);
    lemma_fundamental_div_mod(n, bs);
    lemma_mod_bound(n, bs);
    assert(bs * (n / bs) == (n / bs) * bs) by (nonlinear_arith);
    assert(last * bs < n) by {
        if n % bs > 0 { assert(last == n / bs); } else { assert(last == n / bs - 1); assert((n / bs - 1) * bs == (n / bs) * bs - bs) by (nonlinear_arith); }
    }
    assert(bo * bs <= last * bs) by (nonlinear_arith) requires bo <= last, bs >= 1;
}
