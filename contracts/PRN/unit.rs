// UNIT PRN — what the printers write (C13 field order, C02/C19 bytes written = bytes counted).  DESIGN.md 4.PRN
#![feature(allocator_api)]
#![allow(unused_imports, non_camel_case_types, dead_code, unused_variables, unused_parens, unused_mut, unused_assignments, non_upper_case_globals)]
use vstd::prelude::*;
use vstd::std_specs::cmp::*;
use core::cmp::Ordering;
use std::sync::Arc;
verus! {

global size_of usize == 8;

pub type BufIndex = usize;
pub type Count = u64;

//@include ../common/datetime.rs

// ---- assumed: Vec::capacity >= len (vstd has no spec for it)
pub assume_specification<T, A: std::alloc::Allocator> [Vec::<T, A>::capacity] (v: &Vec<T, A>) -> (r: usize)
    ensures r >= v@.len();

// ---- assumed: io::Error opaque; String is used only as a byte string
#[verifier::external_body]
pub struct Error { _p: u8 }
pub type Result<T> = core::result::Result<T, Error>;
#[verifier::external_body]
pub struct String { _p: u8 }
impl String {
    pub uninterp spec fn bytes(&self) -> Seq<u8>;
    #[verifier::external_body]
    pub fn as_bytes(&self) -> (r: &[u8]) ensures r@ == self.bytes() { unimplemented!() }
    #[verifier::external_body]
    pub fn is_empty(&self) -> (r: bool) ensures r == (self.bytes().len() == 0) { unimplemented!() }
}
pub type DateTimePattern_string = String;

// ---- assumed: the standard-output handles.  `view()` = payload bytes written through the handle so far;
// write_all appends on Ok, flush does not change the view; colour escapes are counted apart from payload
pub trait WriteStd {
    spec fn view(&self) -> Seq<u8>;
    fn write_all(&mut self, buf: &[u8]) -> (r: Result<()>)
        ensures r is Ok ==> final(self).view() == old(self).view() + buf@;
    fn flush(&mut self) -> (r: Result<()>)
        ensures final(self).view() == old(self).view();
}
#[verifier::external_body]
pub struct StdoutLock { _p: u8 }
impl WriteStd for StdoutLock {
    uninterp spec fn view(&self) -> Seq<u8>;
    #[verifier::external_body]
    fn write_all(&mut self, buf: &[u8]) -> (r: Result<()>) { unimplemented!() }
    #[verifier::external_body]
    fn flush(&mut self) -> (r: Result<()>) { unimplemented!() }
}
#[verifier::external_body]
pub struct Stdout { _p: u8 }
impl Stdout {
    #[verifier::external_body]
    pub fn lock(&self) -> (r: StdoutLock) ensures r.view() == Seq::<u8>::empty() { unimplemented!() }
}
#[verifier::external_body]
pub struct ColorSpec { _p: u8 }
#[verifier::external_body]
pub struct Color { _p: u8 }
#[verifier::external_body]
pub struct ColorChoice { _p: u8 }
#[verifier::external_body]
pub struct FixedOffset { _p: u8 }
#[verifier::external_body]
pub struct StandardStream { _p: u8 }

// ---- assumed: a line part is a byte slice of a block; real struct shapes of Line / Sysline cut from /repo
#[verifier::external_body]
pub struct LinePart { _p: u8 }
impl LinePart {
    pub uninterp spec fn bytes(&self) -> Seq<u8>;
    #[verifier::external_body]
    pub fn as_slice(&self) -> (r: &[u8]) ensures r@ == self.bytes() { unimplemented!() }
}
pub type LineParts = Vec<LinePart>;
pub type LineIndex = usize;
//@cut type kind=struct path=src/data/line.rs name=Line derives= pubfields=1
//@end
pub type LineP = Arc<Line>;
pub type Lines = Vec<LineP>;
//@cut type kind=struct path=src/data/sysline.rs name=Sysline derives= pubfields=1
//@end
pub type SyslineP = Arc<Sysline>;
impl Sysline {
    #[verifier::external_body]
    pub fn dt(&self) -> (r: &DateTimeL) ensures *r == self.dt { unimplemented!() }
}

/// bytes of a line = concatenation of its parts, in order
pub open spec fn parts_bytes(s: Seq<LinePart>) -> Seq<u8>
    decreases s.len()
{
    if s.len() == 0 { Seq::<u8>::empty() } else { parts_bytes(s.drop_last()) + s.last().bytes() }
}
/// C13 / C02: payload of a text message = for each line, in order: prefix ++ bytes of the line
pub open spec fn lines_payload(pre: Seq<u8>, ls: Seq<LineP>) -> Seq<u8>
    decreases ls.len()
{
    if ls.len() == 0 { Seq::<u8>::empty() } else { lines_payload(pre, ls.drop_last()) + pre + parts_bytes(ls.last().lineparts@) }
}
pub open spec fn total_parts(ls: Seq<LineP>) -> int
    decreases ls.len()
{
    if ls.len() == 0 { 0 } else { total_parts(ls.drop_last()) + ls.last().lineparts@.len() + 2 }
}
pub proof fn lemma_parts_prefix(s: Seq<LinePart>, k: int)
    requires 0 <= k < s.len()
    ensures parts_bytes(s.take(k + 1)) == parts_bytes(s.take(k)) + s[k].bytes(),
            parts_bytes(s.take(k + 1)).len() <= parts_bytes(s).len(),
    decreases s.len() - k
{
    assert(s.take(k + 1).drop_last() =~= s.take(k));
    assert(s.take(k + 1).last() == s[k]);
    if k + 1 < s.len() { lemma_parts_prefix(s, k + 1); assert(parts_bytes(s.take(k + 2)).len() >= parts_bytes(s.take(k + 1)).len()); }
    else { assert(s.take(k + 1) =~= s); }
}
pub proof fn lemma_lines_prefix(pre: Seq<u8>, ls: Seq<LineP>, k: int)
    requires 0 <= k < ls.len()
    ensures lines_payload(pre, ls.take(k + 1)) == lines_payload(pre, ls.take(k)) + pre + parts_bytes(ls[k].lineparts@),
            lines_payload(pre, ls.take(k + 1)).len() <= lines_payload(pre, ls).len(),
            total_parts(ls.take(k + 1)) == total_parts(ls.take(k)) + ls[k].lineparts@.len() + 2,
            total_parts(ls.take(k + 1)) <= total_parts(ls),
            total_parts(ls.take(k)) >= 0,
    decreases ls.len() - k
{
    assert(ls.take(k + 1).drop_last() =~= ls.take(k));
    assert(ls.take(k + 1).last() == ls[k]);
    lemma_total_nonneg(ls.take(k));
    if k + 1 < ls.len() { lemma_lines_prefix(pre, ls, k + 1); }
    else { assert(ls.take(k + 1) =~= ls); }
}
pub proof fn lemma_total_nonneg(ls: Seq<LineP>)
    ensures total_parts(ls) >= 0
    decreases ls.len()
{
    if ls.len() > 0 { lemma_total_nonneg(ls.drop_last()); }
}

// ---- assumed: an accounting record renders itself into the caller's buffer; R(m) = buffer[..at]
//@cut type kind=enum path=src/data/fixedstruct.rs name=InfoAsBytes derives=
//@end
#[verifier::external_body]
pub struct FixedStruct { _p: u8 }
impl FixedStruct {
    pub uninterp spec fn dt_spec(&self) -> DateTimeL;
    /// R(m): the text the record renders into a buffer of `buflen` bytes (cut short if it does not fit)
    pub uninterp spec fn render(&self, buflen: int) -> Seq<u8>;
    #[verifier::external_body]
    pub fn as_bytes(&self, buffer: &mut [u8]) -> (r: InfoAsBytes)
        ensures
            final(buffer)@.len() == old(buffer)@.len(),
            self.render(old(buffer)@.len() as int).len() <= old(buffer)@.len(),
            r is Ok ==> r->Ok_0 as int == self.render(old(buffer)@.len() as int).len(),
            r is Fail ==> r->Fail_0 as int == self.render(old(buffer)@.len() as int).len(),
            final(buffer)@.subrange(0, self.render(old(buffer)@.len() as int).len() as int) == self.render(old(buffer)@.len() as int),
    { unimplemented!() }
}

// ---- real: the printer's constants and struct (src/printer/printers.rs); fields made visible to specs
//@cut type kind=const path=src/printer/printers.rs name=BUFFER_USE
//@end
//@cut type kind=const path=src/printer/printers.rs name=BUFFER_CAP
//@end
//@cut type kind=type path=src/printer/printers.rs name=PrinterLogMessageResult
//@end
//@cut type kind=struct path=src/printer/printers.rs name=PrinterLogMessage derives= pubfields=1
//@replace "std::io::Stdout" "Stdout"
//@replace "termcolor::StandardStream" "StandardStream"
//@end

// ---- real: the printer macros, each verified ONCE as a function generated from its body (R13) against the
// contract below; invocations in the printers become calls (place arguments by reference)

//@macrofn path=src/printer/printers.rs name=buffer_flush_or_seterr generics="W: WriteStd"
//@params stdout:mut:W buffer:mut:Vec<u8> printed:mut:usize flushed:mut:usize error_ret:mut:Option<Error>
//@spec
    requires
        *old(printed) + old(buffer)@.len() <= usize::MAX, *old(flushed) < usize::MAX,
    ensures
        *final(flushed) <= *old(flushed) + 1, *final(flushed) >= *old(flushed),
        (*old(error_ret)) is Some ==> (*final(error_ret)) is Some,
        // the buffer content goes out, in order, exactly once, and is counted
        (*final(error_ret)) is None ==> final(stdout).view() == old(stdout).view() + old(buffer)@
            && final(buffer)@.len() == 0 && *final(printed) == *old(printed) + old(buffer)@.len(),
//@end

//@macrofn path=src/printer/printers.rs name=buffer_flush_or_return may_return=1 generics="W: WriteStd"
//@params stdout:mut:W buffer:mut:Vec<u8> printed:mut:usize flushed:mut:usize
//@spec
    requires
        *old(printed) + old(buffer)@.len() <= usize::MAX, *old(flushed) < usize::MAX,
    ensures
        *final(flushed) <= *old(flushed) + 1, *final(flushed) >= *old(flushed),
        r is Ok ==> final(stdout).view() == old(stdout).view() + old(buffer)@
            && final(buffer)@.len() == 0 && *final(printed) == *old(printed) + old(buffer)@.len(),
//@end

//@macrofn path=src/printer/printers.rs name=buffer_flush_nostats generics="W: WriteStd"
//@params stdout:mut:W buffer:mut:Vec<u8>
//@spec
    requires old(buffer)@.len() <= usize::MAX
//@end

//@macrofn path=src/printer/printers.rs name=buffer_write_or_return may_return=1 generics="W: WriteStd"
//@params stdout:mut:W buffer:mut:Vec<u8> slice_:val:&[u8] printed:mut:usize flushed:mut:usize
//@spec
    requires
        *old(printed) + old(buffer)@.len() + slice_@.len() <= usize::MAX, *old(flushed) < usize::MAX - 2,
    ensures
        *final(flushed) <= *old(flushed) + 2, *final(flushed) >= *old(flushed),
        // C02 / C13: the logical output stream (bytes written ++ bytes buffered) grows by exactly the slice, in order,
        // whatever the relation of the slice length to the remaining capacity and to BUFFER_CAP;
        // C19: `printed` counts exactly the bytes that reached the handle
        r is Ok ==> final(stdout).view() + final(buffer)@ == old(stdout).view() + old(buffer)@ + slice_@,
        r is Ok ==> *final(printed) - *old(printed) == final(stdout).view().len() - old(stdout).view().len(),
        r is Ok ==> final(stdout).view().len() >= old(stdout).view().len(),
        final(buffer)@.len() <= usize::MAX,
//@mutate "(*printed) += (*buffer).len();" ""
//@mutate "(*buffer).extend_from_slice((slice_));" ""
//@mutate "(*buffer).clear();" ""
//@end

/// D(m): the datetime field text for a message whose datetime is `dt`, under the printer's format and zone (opaque: chrono)
pub uninterp spec fn dt_text(fmt: Seq<u8>, dt: DateTimeL) -> Seq<u8>;

impl PrinterLogMessage {
    pub open spec fn pf(&self) -> Seq<u8> { self.prepend_file.unwrap().bytes() }

    #[verifier::external_body]
    fn datetime_to_string_fixedstruct(&self, fixedstruct: &FixedStruct) -> (r: String)
        ensures r.bytes() == dt_text(self.prepend_date_format.bytes(), fixedstruct.dt_spec())
    { unimplemented!() }

    #[verifier::external_body]
    fn datetime_to_string_sysline(&self, syslinep: &SyslineP) -> (r: String)
        ensures r.bytes() == dt_text(self.prepend_date_format.bytes(), syslinep.dt)
    { unimplemented!() }

//@cut fn path=src/printer/printers.rs impl=PrinterLogMessage name=print_line ret=r
//@replace "stdout_lock: &mut StdoutLock" "stdout_lock: &mut StdoutLock"
//@desugar_for 1 it
//@spec
    requires
        old(self).buffer@.len() + parts_bytes(linep.lineparts@).len() <= usize::MAX,
        linep.lineparts@.len() * 2 + 2 < usize::MAX,
    ensures
        final(self).same_config(old(self)),
        final(self).buffer@.len() <= usize::MAX,
        // the logical stream grows by exactly the bytes of the line, in part order; the count is what reached the handle
        r is Ok ==> final(stdout_lock).view() + final(self).buffer@ == old(stdout_lock).view() + old(self).buffer@ + parts_bytes(linep.lineparts@),
        r is Ok ==> r->Ok_0.0 as int == final(stdout_lock).view().len() - old(stdout_lock).view().len(),
        r is Ok ==> final(stdout_lock).view().len() >= old(stdout_lock).view().len(),
        r is Ok ==> r->Ok_0.1 as int <= linep.lineparts@.len() * 2,
//@before "let mut it = vstd"
        let ghost v0 = stdout_lock.view();
        let ghost b0 = self.buffer@;
//@loop 1
            invariant_except_break
                vstd::std_specs::iter::IteratorSpec::decrease(&it.iter) is Some,
            invariant
                it.snapshot@ == it__snap0, it.wf(),
                it.seq().len() == linep.lineparts@.len(),
                forall|i: int| 0 <= i < linep.lineparts@.len() ==> *it.seq()[i] == linep.lineparts@[i],
                0 <= it.index@ <= it.seq().len(),
                self.same_config(old(self)),
                b0.len() + parts_bytes(linep.lineparts@).len() <= usize::MAX, linep.lineparts@.len() * 2 + 2 < usize::MAX,
                stdout_lock.view() + self.buffer@ == v0 + b0 + parts_bytes(linep.lineparts@.take(it.index@ as int)),
                printed as int == stdout_lock.view().len() - v0.len(), stdout_lock.view().len() >= v0.len(),
                flushed as int <= it.index@ * 2,
                self.buffer@.len() <= usize::MAX,
            ensures
                it.index@ == it.seq().len(),
            decreases vstd::std_specs::iter::IteratorSpec::decrease(&it.iter).unwrap_or(arbitrary()),
//@after "let slice: &[u8]"
            proof {
                let k = it__old.index@ as int;
                lemma_parts_prefix(linep.lineparts@, k);
                assert(slice@ == linep.lineparts@[k].bytes());
                assert((stdout_lock.view() + self.buffer@).len() == stdout_lock.view().len() + self.buffer@.len());
                assert((v0 + b0 + parts_bytes(linep.lineparts@.take(k))).len() == v0.len() + b0.len() + parts_bytes(linep.lineparts@.take(k)).len());
                assert(parts_bytes(linep.lineparts@.take(k + 1)).len() == parts_bytes(linep.lineparts@.take(k)).len() + slice@.len());
            }
//@before_tail
        proof { assert(linep.lineparts@.take(linep.lineparts@.len() as int) =~= linep.lineparts@); }
//@end

    /// C13: per-line prefix of a text message = [file-name field] ++ [datetime field], in that order
    pub open spec fn sys_prefix(&self, m: &SyslineP, with_file: bool, with_date: bool) -> Seq<u8> {
        (if with_file { self.pf() } else { Seq::<u8>::empty() })
        + (if with_date { dt_text(self.prepend_date_format.bytes(), m.dt) } else { Seq::<u8>::empty() })
    }

//@cut fn path=src/printer/printers.rs impl=PrinterLogMessage name=print_sysline_ ret=r
//@desugar_for 1 it
//@spec
    requires
        old(self).buffer@.len() == 0,
        lines_payload(old(self).sys_prefix(syslinep, false, false), syslinep.lines@).len() <= usize::MAX,
        total_parts(syslinep.lines@) * 2 + 4 < usize::MAX,
    ensures
        final(self).same_config(old(self)),
        r is Ok ==> final(self).buffer@.len() == 0,
        // C19: the count returned is the number of payload bytes written
        r is Ok ==> r->Ok_0.0 as int == lines_payload(old(self).sys_prefix(syslinep, false, false), syslinep.lines@).len(),
//@loop 1
            invariant_except_break
                vstd::std_specs::iter::IteratorSpec::decrease(&it.iter) is Some,
            invariant
                it.snapshot@ == it__snap0, it.wf(),
                it.seq().len() == syslinep.lines@.len(),
                forall|i: int| 0 <= i < syslinep.lines@.len() ==> *it.seq()[i] == syslinep.lines@[i],
                0 <= it.index@ <= it.seq().len(),
                self.same_config(old(self)), self.buffer@.len() <= usize::MAX,
                
                lines_payload(self.sys_prefix(syslinep, false, false), syslinep.lines@).len() <= usize::MAX, total_parts(syslinep.lines@) * 2 + 4 < usize::MAX,
                stdout_lock.view() + self.buffer@ == lines_payload(self.sys_prefix(syslinep, false, false), syslinep.lines@.take(it.index@ as int)),
                printed as int == stdout_lock.view().len(),
                flushed as int <= 2 * total_parts(syslinep.lines@.take(it.index@ as int)),
            ensures
                it.index@ == it.seq().len(),
            decreases vstd::std_specs::iter::IteratorSpec::decrease(&it.iter).unwrap_or(arbitrary()),
//@after "let mut it = vstd"
            proof {
                let k = it__old.index@ as int;
                lemma_lines_prefix(self.sys_prefix(syslinep, false, false), syslinep.lines@, k);
                lemma_total_nonneg(syslinep.lines@.take(k));
                assert((stdout_lock.view() + self.buffer@).len() == stdout_lock.view().len() + self.buffer@.len());
                assert(lines_payload(self.sys_prefix(syslinep, false, false), syslinep.lines@.take(k + 1)).len()
                    == lines_payload(self.sys_prefix(syslinep, false, false), syslinep.lines@.take(k)).len() + self.sys_prefix(syslinep, false, false).len() + parts_bytes(syslinep.lines@[k].lineparts@).len());
            }
            let ghost k = it__old.index@ as int;
            let ghost base = lines_payload(self.sys_prefix(syslinep, false, false), syslinep.lines@.take(k));
//@before "match self.print_line(linep"
            assert(stdout_lock.view() + self.buffer@ == base + self.sys_prefix(syslinep, false, false));
            assert((stdout_lock.view() + self.buffer@).len() == stdout_lock.view().len() + self.buffer@.len());
            let ghost v1 = stdout_lock.view();
//@after "printed += p;"
                    assert(stdout_lock.view() + self.buffer@ == base + self.sys_prefix(syslinep, false, false) + parts_bytes(linep.lineparts@));
//@before "match buffer_flush_or_return__fn"
        proof {
            assert(syslinep.lines@.take(syslinep.lines@.len() as int) =~= syslinep.lines@);
            assert((stdout_lock.view() + self.buffer@).len() == stdout_lock.view().len() + self.buffer@.len());
        }
//@before_tail
        // C13 / C02: exactly the payload was written -- per line: file-name field, datetime field, line bytes -- nothing else
        assert(stdout_lock.view() == lines_payload(self.sys_prefix(syslinep, false, false), syslinep.lines@) && printed == stdout_lock.view().len() && self.buffer@.len() == 0);
//@mutate "printed += p;" "printed += 0;"
//@end

//@cut fn path=src/printer/printers.rs impl=PrinterLogMessage name=print_sysline_prependdate ret=r
//@desugar_for 1 it
//@spec
    requires
        old(self).buffer@.len() == 0,
        old(self).prepend_date_format.bytes().len() > 0,
        lines_payload(old(self).sys_prefix(syslinep, false, true), syslinep.lines@).len() <= usize::MAX,
        total_parts(syslinep.lines@) * 2 + 4 < usize::MAX,
    ensures
        final(self).same_config(old(self)),
        r is Ok ==> final(self).buffer@.len() == 0,
        // C19: the count returned is the number of payload bytes written
        r is Ok ==> r->Ok_0.0 as int == lines_payload(old(self).sys_prefix(syslinep, false, true), syslinep.lines@).len(),
//@loop 1
            invariant_except_break
                vstd::std_specs::iter::IteratorSpec::decrease(&it.iter) is Some,
            invariant
                it.snapshot@ == it__snap0, it.wf(),
                it.seq().len() == syslinep.lines@.len(),
                forall|i: int| 0 <= i < syslinep.lines@.len() ==> *it.seq()[i] == syslinep.lines@[i],
                0 <= it.index@ <= it.seq().len(),
                self.same_config(old(self)), self.buffer@.len() <= usize::MAX,
                dtb@ == dt_text(self.prepend_date_format.bytes(), syslinep.dt),
                lines_payload(self.sys_prefix(syslinep, false, true), syslinep.lines@).len() <= usize::MAX, total_parts(syslinep.lines@) * 2 + 4 < usize::MAX,
                stdout_lock.view() + self.buffer@ == lines_payload(self.sys_prefix(syslinep, false, true), syslinep.lines@.take(it.index@ as int)),
                printed as int == stdout_lock.view().len(),
                flushed as int <= 2 * total_parts(syslinep.lines@.take(it.index@ as int)),
            ensures
                it.index@ == it.seq().len(),
            decreases vstd::std_specs::iter::IteratorSpec::decrease(&it.iter).unwrap_or(arbitrary()),
//@after "let mut it = vstd"
            proof {
                let k = it__old.index@ as int;
                lemma_lines_prefix(self.sys_prefix(syslinep, false, true), syslinep.lines@, k);
                lemma_total_nonneg(syslinep.lines@.take(k));
                assert((stdout_lock.view() + self.buffer@).len() == stdout_lock.view().len() + self.buffer@.len());
                assert(lines_payload(self.sys_prefix(syslinep, false, true), syslinep.lines@.take(k + 1)).len()
                    == lines_payload(self.sys_prefix(syslinep, false, true), syslinep.lines@.take(k)).len() + self.sys_prefix(syslinep, false, true).len() + parts_bytes(syslinep.lines@[k].lineparts@).len());
            }
            let ghost k = it__old.index@ as int;
            let ghost base = lines_payload(self.sys_prefix(syslinep, false, true), syslinep.lines@.take(k));
//@before "match self.print_line(linep"
            assert(stdout_lock.view() + self.buffer@ == base + self.sys_prefix(syslinep, false, true));
            assert((stdout_lock.view() + self.buffer@).len() == stdout_lock.view().len() + self.buffer@.len());
            let ghost v1 = stdout_lock.view();
//@after "printed += p;"
                    assert(stdout_lock.view() + self.buffer@ == base + self.sys_prefix(syslinep, false, true) + parts_bytes(linep.lineparts@));
//@before "match buffer_flush_or_return__fn"
        proof {
            assert(syslinep.lines@.take(syslinep.lines@.len() as int) =~= syslinep.lines@);
            assert((stdout_lock.view() + self.buffer@).len() == stdout_lock.view().len() + self.buffer@.len());
        }
//@before_tail
        // C13 / C02: exactly the payload was written -- per line: file-name field, datetime field, line bytes -- nothing else
        assert(stdout_lock.view() == lines_payload(self.sys_prefix(syslinep, false, true), syslinep.lines@) && printed == stdout_lock.view().len() && self.buffer@.len() == 0);
//@end

//@cut fn path=src/printer/printers.rs impl=PrinterLogMessage name=print_sysline_prependfile ret=r
//@desugar_for 1 it
//@spec
    requires
        old(self).buffer@.len() == 0,
        old(self).prepend_file is Some,
        lines_payload(old(self).sys_prefix(syslinep, true, false), syslinep.lines@).len() <= usize::MAX,
        total_parts(syslinep.lines@) * 2 + 4 < usize::MAX,
    ensures
        final(self).same_config(old(self)),
        r is Ok ==> final(self).buffer@.len() == 0,
        // C19: the count returned is the number of payload bytes written
        r is Ok ==> r->Ok_0.0 as int == lines_payload(old(self).sys_prefix(syslinep, true, false), syslinep.lines@).len(),
//@loop 1
            invariant_except_break
                vstd::std_specs::iter::IteratorSpec::decrease(&it.iter) is Some,
            invariant
                it.snapshot@ == it__snap0, it.wf(),
                it.seq().len() == syslinep.lines@.len(),
                forall|i: int| 0 <= i < syslinep.lines@.len() ==> *it.seq()[i] == syslinep.lines@[i],
                0 <= it.index@ <= it.seq().len(),
                self.same_config(old(self)), self.buffer@.len() <= usize::MAX, self.prepend_file is Some,
                
                lines_payload(self.sys_prefix(syslinep, true, false), syslinep.lines@).len() <= usize::MAX, total_parts(syslinep.lines@) * 2 + 4 < usize::MAX,
                stdout_lock.view() + self.buffer@ == lines_payload(self.sys_prefix(syslinep, true, false), syslinep.lines@.take(it.index@ as int)),
                printed as int == stdout_lock.view().len(),
                flushed as int <= 2 * total_parts(syslinep.lines@.take(it.index@ as int)),
            ensures
                it.index@ == it.seq().len(),
            decreases vstd::std_specs::iter::IteratorSpec::decrease(&it.iter).unwrap_or(arbitrary()),
//@after "let mut it = vstd"
            proof {
                let k = it__old.index@ as int;
                lemma_lines_prefix(self.sys_prefix(syslinep, true, false), syslinep.lines@, k);
                lemma_total_nonneg(syslinep.lines@.take(k));
                assert((stdout_lock.view() + self.buffer@).len() == stdout_lock.view().len() + self.buffer@.len());
                assert(lines_payload(self.sys_prefix(syslinep, true, false), syslinep.lines@.take(k + 1)).len()
                    == lines_payload(self.sys_prefix(syslinep, true, false), syslinep.lines@.take(k)).len() + self.sys_prefix(syslinep, true, false).len() + parts_bytes(syslinep.lines@[k].lineparts@).len());
            }
            let ghost k = it__old.index@ as int;
            let ghost base = lines_payload(self.sys_prefix(syslinep, true, false), syslinep.lines@.take(k));
//@before "match self.print_line(linep"
            assert(stdout_lock.view() + self.buffer@ == base + self.sys_prefix(syslinep, true, false));
            assert((stdout_lock.view() + self.buffer@).len() == stdout_lock.view().len() + self.buffer@.len());
            let ghost v1 = stdout_lock.view();
//@after "printed += p;"
                    assert(stdout_lock.view() + self.buffer@ == base + self.sys_prefix(syslinep, true, false) + parts_bytes(linep.lineparts@));
//@before "match buffer_flush_or_return__fn"
        proof {
            assert(syslinep.lines@.take(syslinep.lines@.len() as int) =~= syslinep.lines@);
            assert((stdout_lock.view() + self.buffer@).len() == stdout_lock.view().len() + self.buffer@.len());
        }
//@before_tail
        // C13 / C02: exactly the payload was written -- per line: file-name field, datetime field, line bytes -- nothing else
        assert(stdout_lock.view() == lines_payload(self.sys_prefix(syslinep, true, false), syslinep.lines@) && printed == stdout_lock.view().len() && self.buffer@.len() == 0);
//@end

//@cut fn path=src/printer/printers.rs impl=PrinterLogMessage name=print_sysline_prependfile_prependdate ret=r
//@desugar_for 1 it
//@spec
    requires
        old(self).buffer@.len() == 0,
        old(self).prepend_file is Some,
        old(self).prepend_date_format.bytes().len() > 0,
        lines_payload(old(self).sys_prefix(syslinep, true, true), syslinep.lines@).len() <= usize::MAX,
        total_parts(syslinep.lines@) * 2 + 4 < usize::MAX,
    ensures
        final(self).same_config(old(self)),
        r is Ok ==> final(self).buffer@.len() == 0,
        // C19: the count returned is the number of payload bytes written
        r is Ok ==> r->Ok_0.0 as int == lines_payload(old(self).sys_prefix(syslinep, true, true), syslinep.lines@).len(),
//@loop 1
            invariant_except_break
                vstd::std_specs::iter::IteratorSpec::decrease(&it.iter) is Some,
            invariant
                it.snapshot@ == it__snap0, it.wf(),
                it.seq().len() == syslinep.lines@.len(),
                forall|i: int| 0 <= i < syslinep.lines@.len() ==> *it.seq()[i] == syslinep.lines@[i],
                0 <= it.index@ <= it.seq().len(),
                self.same_config(old(self)), self.buffer@.len() <= usize::MAX, self.prepend_file is Some,
                dtb@ == dt_text(self.prepend_date_format.bytes(), syslinep.dt),
                lines_payload(self.sys_prefix(syslinep, true, true), syslinep.lines@).len() <= usize::MAX, total_parts(syslinep.lines@) * 2 + 4 < usize::MAX,
                stdout_lock.view() + self.buffer@ == lines_payload(self.sys_prefix(syslinep, true, true), syslinep.lines@.take(it.index@ as int)),
                printed as int == stdout_lock.view().len(),
                flushed as int <= 2 * total_parts(syslinep.lines@.take(it.index@ as int)),
            ensures
                it.index@ == it.seq().len(),
            decreases vstd::std_specs::iter::IteratorSpec::decrease(&it.iter).unwrap_or(arbitrary()),
//@after "let mut it = vstd"
            proof {
                let k = it__old.index@ as int;
                lemma_lines_prefix(self.sys_prefix(syslinep, true, true), syslinep.lines@, k);
                lemma_total_nonneg(syslinep.lines@.take(k));
                assert((stdout_lock.view() + self.buffer@).len() == stdout_lock.view().len() + self.buffer@.len());
                assert(lines_payload(self.sys_prefix(syslinep, true, true), syslinep.lines@.take(k + 1)).len()
                    == lines_payload(self.sys_prefix(syslinep, true, true), syslinep.lines@.take(k)).len() + self.sys_prefix(syslinep, true, true).len() + parts_bytes(syslinep.lines@[k].lineparts@).len());
            }
            let ghost k = it__old.index@ as int;
            let ghost base = lines_payload(self.sys_prefix(syslinep, true, true), syslinep.lines@.take(k));
//@before "match buffer_write_or_return__fn(&mut stdout_lock, &mut self.buffer, dtb,"
            proof {
                assert(stdout_lock.view() + self.buffer@ == base + self.pf());
                assert((stdout_lock.view() + self.buffer@).len() == stdout_lock.view().len() + self.buffer@.len());
                assert(self.sys_prefix(syslinep, true, true).len() == self.pf().len() + dtb@.len());
            }
//@before "match self.print_line(linep"
            assert(stdout_lock.view() + self.buffer@ == base + self.sys_prefix(syslinep, true, true));
            assert((stdout_lock.view() + self.buffer@).len() == stdout_lock.view().len() + self.buffer@.len());
            let ghost v1 = stdout_lock.view();
//@after "printed += p;"
                    assert(stdout_lock.view() + self.buffer@ == base + self.sys_prefix(syslinep, true, true) + parts_bytes(linep.lineparts@));
//@before "match buffer_flush_or_return__fn"
        proof {
            assert(syslinep.lines@.take(syslinep.lines@.len() as int) =~= syslinep.lines@);
            assert((stdout_lock.view() + self.buffer@).len() == stdout_lock.view().len() + self.buffer@.len());
        }
//@before_tail
        // C13 / C02: exactly the payload was written -- per line: file-name field, datetime field, line bytes -- nothing else
        assert(stdout_lock.view() == lines_payload(self.sys_prefix(syslinep, true, true), syslinep.lines@) && printed == stdout_lock.view().len() && self.buffer@.len() == 0);
//@mutate "self.prepend_file.as_ref().unwrap().as_bytes(), &mut printed" "dtb, &mut printed"
//@end

    /// C13: payload of one accounting record = [file-name field] ++ [datetime field] ++ record text, in that order
    pub open spec fn fx_payload(&self, m: &FixedStruct, buflen: int, with_file: bool, with_date: bool) -> Seq<u8> {
        (if with_file { self.pf() } else { Seq::<u8>::empty() })
        + (if with_date { dt_text(self.prepend_date_format.bytes(), m.dt_spec()) } else { Seq::<u8>::empty() })
        + m.render(buflen)
    }
    pub open spec fn same_config(&self, o: &Self) -> bool {
        self.prepend_file == o.prepend_file && self.prepend_date_format == o.prepend_date_format
        && self.do_color == o.do_color && self.do_prepend_file == o.do_prepend_file && self.do_prepend_date == o.do_prepend_date
    }

//@cut fn path=src/printer/printers.rs impl=PrinterLogMessage name=print_fixedstruct_ ret=r
//@spec
    requires old(self).buffer@.len() == 0
    ensures
        final(self).same_config(old(self)),
        r is Ok ==> final(self).buffer@.len() == 0,
        // C19: the count returned is the number of payload bytes written
        r is Ok ==> r->Ok_0.0 as int == old(self).fx_payload(fixedstruct, old(buffer)@.len() as int, false, false).len(),
//@before_tail
        // C13 / C02: exactly the payload was written, nothing else; every byte written was counted
        assert(stdout_lock.view() == self.fx_payload(fixedstruct, buffer@.len() as int, false, false) && printed == stdout_lock.view().len() && self.buffer@.len() == 0);
//@end

//@cut fn path=src/printer/printers.rs impl=PrinterLogMessage name=print_fixedstruct_prependdate ret=r
//@spec
    requires
        old(self).buffer@.len() == 0,
        old(self).prepend_date_format.bytes().len() > 0,
        old(self).fx_payload(fixedstruct, old(buffer)@.len() as int, false, true).len() <= usize::MAX,
    ensures
        final(self).same_config(old(self)),
        r is Ok ==> final(self).buffer@.len() == 0,
        r is Ok ==> r->Ok_0.0 as int == old(self).fx_payload(fixedstruct, old(buffer)@.len() as int, false, true).len(),
//@before_tail
        assert(stdout_lock.view() == self.fx_payload(fixedstruct, buffer@.len() as int, false, true) && printed == stdout_lock.view().len() && self.buffer@.len() == 0);
//@end

//@cut fn path=src/printer/printers.rs impl=PrinterLogMessage name=print_fixedstruct_prependfile ret=r
//@spec
    requires
        old(self).buffer@.len() == 0,
        old(self).prepend_file is Some,
        old(self).fx_payload(fixedstruct, old(buffer)@.len() as int, true, false).len() <= usize::MAX,
    ensures
        final(self).same_config(old(self)),
        r is Ok ==> final(self).buffer@.len() == 0,
        r is Ok ==> r->Ok_0.0 as int == old(self).fx_payload(fixedstruct, old(buffer)@.len() as int, true, false).len(),
//@before_tail
        assert(stdout_lock.view() == self.fx_payload(fixedstruct, buffer@.len() as int, true, false) && printed == stdout_lock.view().len() && self.buffer@.len() == 0);
//@end

//@cut fn path=src/printer/printers.rs impl=PrinterLogMessage name=print_fixedstruct_prependfile_prependdate ret=r
//@spec
    requires
        old(self).buffer@.len() == 0,
        old(self).prepend_file is Some,
        old(self).prepend_date_format.bytes().len() > 0,
        old(self).fx_payload(fixedstruct, old(buffer)@.len() as int, true, true).len() <= usize::MAX,
    ensures
        final(self).same_config(old(self)),
        r is Ok ==> final(self).buffer@.len() == 0,
        r is Ok ==> r->Ok_0.0 as int == old(self).fx_payload(fixedstruct, old(buffer)@.len() as int, true, true).len(),
//@before_tail
        // C13: the file-name field comes before the datetime field, as for every other kind of message
        assert(stdout_lock.view() == self.fx_payload(fixedstruct, buffer@.len() as int, true, true) && printed == stdout_lock.view().len() && self.buffer@.len() == 0);
//@mutate "&mut self.buffer, prepend_file," "&mut self.buffer, dtb,"
//@end

    /// configuration invariant established by PrinterLogMessage::new (do_prepend_* mirror the option values)
    pub open spec fn config_ok(&self) -> bool {
        &&& self.do_prepend_file == (self.prepend_file is Some)
        &&& self.do_prepend_date == (self.prepend_date_format.bytes().len() > 0)
        &&& self.buffer@.len() == 0
    }

    // ---- assumed until brought under contract: the colour variants write the same payload (C13 "pure decoration")
    // and return its length; only escape sequences are added.  Listed in the evidence as assumptions.
    #[verifier::external_body]
    fn print_sysline_color(&mut self, syslinep: &SyslineP) -> (r: PrinterLogMessageResult)
        ensures final(self).same_config(old(self)), r is Ok ==> final(self).buffer@.len() == 0,
            r is Ok ==> r->Ok_0.0 as int == lines_payload(old(self).sys_prefix(syslinep, false, false), syslinep.lines@).len()
    { unimplemented!() }
    #[verifier::external_body]
    fn print_sysline_prependfile_color(&mut self, syslinep: &SyslineP) -> (r: PrinterLogMessageResult)
        ensures final(self).same_config(old(self)), r is Ok ==> final(self).buffer@.len() == 0,
            r is Ok ==> r->Ok_0.0 as int == lines_payload(old(self).sys_prefix(syslinep, true, false), syslinep.lines@).len()
    { unimplemented!() }
    #[verifier::external_body]
    fn print_sysline_prependdate_color(&mut self, syslinep: &SyslineP) -> (r: PrinterLogMessageResult)
        ensures final(self).same_config(old(self)), r is Ok ==> final(self).buffer@.len() == 0,
            r is Ok ==> r->Ok_0.0 as int == lines_payload(old(self).sys_prefix(syslinep, false, true), syslinep.lines@).len()
    { unimplemented!() }
    #[verifier::external_body]
    fn print_sysline_prependfile_prependdate_color(&mut self, syslinep: &SyslineP) -> (r: PrinterLogMessageResult)
        ensures final(self).same_config(old(self)), r is Ok ==> final(self).buffer@.len() == 0,
            r is Ok ==> r->Ok_0.0 as int == lines_payload(old(self).sys_prefix(syslinep, true, true), syslinep.lines@).len()
    { unimplemented!() }
    #[verifier::external_body]
    fn print_fixedstruct_color(&mut self, fixedstruct: &FixedStruct, buffer: &mut [u8]) -> (r: PrinterLogMessageResult)
        ensures final(self).same_config(old(self)), r is Ok ==> final(self).buffer@.len() == 0,
            r is Ok ==> r->Ok_0.0 as int == old(self).fx_payload(fixedstruct, old(buffer)@.len() as int, false, false).len()
    { unimplemented!() }
    #[verifier::external_body]
    fn print_fixedstruct_prependfile_color(&mut self, fixedstruct: &FixedStruct, buffer: &mut [u8]) -> (r: PrinterLogMessageResult)
        ensures final(self).same_config(old(self)), r is Ok ==> final(self).buffer@.len() == 0,
            r is Ok ==> r->Ok_0.0 as int == old(self).fx_payload(fixedstruct, old(buffer)@.len() as int, true, false).len()
    { unimplemented!() }
    #[verifier::external_body]
    fn print_fixedstruct_prependdate_color(&mut self, fixedstruct: &FixedStruct, buffer: &mut [u8]) -> (r: PrinterLogMessageResult)
        ensures final(self).same_config(old(self)), r is Ok ==> final(self).buffer@.len() == 0,
            r is Ok ==> r->Ok_0.0 as int == old(self).fx_payload(fixedstruct, old(buffer)@.len() as int, false, true).len()
    { unimplemented!() }
    #[verifier::external_body]
    fn print_fixedstruct_prependfile_prependdate_color(&mut self, fixedstruct: &FixedStruct, buffer: &mut [u8]) -> (r: PrinterLogMessageResult)
        ensures final(self).same_config(old(self)), r is Ok ==> final(self).buffer@.len() == 0,
            r is Ok ==> r->Ok_0.0 as int == old(self).fx_payload(fixedstruct, old(buffer)@.len() as int, true, true).len()
    { unimplemented!() }

//@cut fn path=src/printer/printers.rs impl=PrinterLogMessage name=print_sysline ret=r
//@spec
    requires
        old(self).config_ok(),
        lines_payload(old(self).sys_prefix(syslinep, old(self).do_prepend_file, old(self).do_prepend_date), syslinep.lines@).len() <= usize::MAX,
        total_parts(syslinep.lines@) * 2 + 4 < usize::MAX,
    ensures
        final(self).same_config(old(self)),
        r is Ok ==> final(self).config_ok(),
        // C13: every colour setting and every prepend combination yields [file][date][line] per line; C19: count = payload length
        r is Ok ==> r->Ok_0.0 as int == lines_payload(old(self).sys_prefix(syslinep, old(self).do_prepend_file, old(self).do_prepend_date), syslinep.lines@).len(),
//@end

//@cut fn path=src/printer/printers.rs impl=PrinterLogMessage name=print_fixedstruct ret=r
//@spec
    requires
        old(self).config_ok(),
        old(self).fx_payload(fixedstruct, old(buffer)@.len() as int, old(self).do_prepend_file, old(self).do_prepend_date).len() <= usize::MAX,
    ensures
        final(self).same_config(old(self)),
        r is Ok ==> final(self).config_ok(),
        r is Ok ==> r->Ok_0.0 as int == old(self).fx_payload(fixedstruct, old(buffer)@.len() as int, old(self).do_prepend_file, old(self).do_prepend_date).len(),
//@mutate "(false, true, false) => self.print_fixedstruct_prependfile(fixedstruct, buffer)" "(false, true, false) => self.print_fixedstruct_prependdate(fixedstruct, buffer)"
//@end
}

} // verus!
fn main() {}
