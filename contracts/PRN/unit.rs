// UNIT PRN — what the printers write (C13 field order, C02/C19 bytes written = bytes counted).  DESIGN.md 4.PRN
#![feature(allocator_api)]
#![allow(unused_imports, non_camel_case_types, dead_code, unused_variables, unused_parens, unused_mut, unused_assignments, non_upper_case_globals)]
use vstd::prelude::*;
use vstd::std_specs::cmp::*;
use core::cmp::Ordering;
use std::sync::Arc;
verus! {

global size_of usize == 8;

pub type BufIndex = usize;
pub type Count = u64;

//@include ../common/datetime.rs

// ---- assumed: Vec::capacity >= len (vstd has no spec for it)
pub assume_specification<T, A: std::alloc::Allocator> [Vec::<T, A>::capacity] (v: &Vec<T, A>) -> (r: usize)
    ensures r >= v@.len();

// ---- assumed: io::Error opaque; String is used only as a byte string
#[verifier::external_body]
pub struct Error { _p: u8 }
pub type Result<T> = core::result::Result<T, Error>;
#[verifier::external_body]
pub fn verif_error() -> Error { unimplemented!() }
#[verifier::external_body]
pub struct String { _p: u8 }
impl String {
    pub uninterp spec fn bytes(&self) -> Seq<u8>;
    #[verifier::external_body]
    pub fn as_bytes(&self) -> (r: &[u8]) ensures r@ == self.bytes() { unimplemented!() }
    #[verifier::external_body]
    pub fn is_empty(&self) -> (r: bool) ensures r == (self.bytes().len() == 0) { unimplemented!() }
}
pub type DateTimePattern_string = String;

// ---- assumed: the standard-output handles.  `view()` = payload bytes written through the handle so far;
// write_all appends on Ok, flush does not change the view; colour escapes are counted apart from payload
/// colour model: every payload byte is recorded together with the id of the colour that was active when it was
/// written; `cur()` is the active colour.  A plain handle has one colour (0) for ever.
pub open spec fn paint(s: Seq<u8>, c: int) -> Seq<(u8, int)> { Seq::new(s.len(), |i: int| (s[i], c)) }
pub trait WriteStd {
    spec fn view(&self) -> Seq<u8>;
    spec fn cview(&self) -> Seq<(u8, int)>;
    spec fn cur(&self) -> int;
    fn write_all(&mut self, buf: &[u8]) -> (r: Result<()>)
        ensures
            final(self).cur() == old(self).cur(),
            r is Ok ==> final(self).view() == old(self).view() + buf@,
            r is Ok ==> final(self).cview() == old(self).cview() + paint(buf@, old(self).cur());
    fn flush(&mut self) -> (r: Result<()>)
        ensures final(self).view() == old(self).view(), final(self).cview() == old(self).cview(), final(self).cur() == old(self).cur();
}
#[verifier::external_body]
pub struct StdoutLock { _p: u8 }
impl WriteStd for StdoutLock {
    uninterp spec fn view(&self) -> Seq<u8>;
    uninterp spec fn cview(&self) -> Seq<(u8, int)>;
    uninterp spec fn cur(&self) -> int;
    #[verifier::external_body]
    fn write_all(&mut self, buf: &[u8]) -> (r: Result<()>) { unimplemented!() }
    #[verifier::external_body]
    fn flush(&mut self) -> (r: Result<()>) { unimplemented!() }
}
#[verifier::external_body]
pub struct Stdout { _p: u8 }
impl Stdout {
    #[verifier::external_body]
    pub fn lock(&self) -> (r: StdoutLock) ensures r.view() == Seq::<u8>::empty() { unimplemented!() }
}
#[verifier::external_body]
pub struct ColorSpec { _p: u8 }
pub uninterp spec fn cid(c: ColorSpec) -> int;
impl Clone for ColorSpec {
    #[verifier::external_body]
    fn clone(&self) -> (r: Self) ensures cid(r) == cid(*self) { unimplemented!() }
}
impl PartialEq for ColorSpec {
    #[verifier::external_body]
    fn eq(&self, other: &Self) -> (r: bool) { unimplemented!() }
}
impl PartialEqSpecImpl for ColorSpec {
    open spec fn obeys_eq_spec() -> bool { true }
    open spec fn eq_spec(&self, other: &Self) -> bool { cid(*self) == cid(*other) }
}
#[verifier::external_body]
pub struct Color { _p: u8 }
impl Copy for Color {}
impl Clone for Color { #[verifier::external_body] fn clone(&self) -> (r: Self) ensures r == *self { unimplemented!() } }
/// termcolor::ColorChoice, by its four variants
#[derive(Clone, Copy)]
pub enum ColorChoice { Always, AlwaysAnsi, Auto, Never }
/// the colour state of a ColorSpec built by ColorSpec::new() / changed by set_fg / set_underline (termcolor, opaque)
pub uninterp spec fn cid_new() -> int;
pub uninterp spec fn cid_fg(c: int, col: Option<Color>) -> int;
pub uninterp spec fn cid_ul(c: int, u: bool) -> int;
impl ColorSpec {
    #[verifier::external_body]
    pub fn new() -> (r: ColorSpec) ensures cid(r) == cid_new() { unimplemented!() }
    // assumed (termcolor): a spec with a foreground colour differs from a fresh one
    #[verifier::external_body]
    pub fn set_fg(&mut self, color: Option<Color>) -> (r: &mut ColorSpec)
        ensures cid(*final(self)) == cid_fg(cid(*old(self)), color), color is Some ==> cid_fg(cid(*old(self)), color) != cid_new()
    { unimplemented!() }
    #[verifier::external_body]
    pub fn set_underline(&mut self, yes: bool) -> (r: &mut ColorSpec)
        ensures cid(*final(self)) == cid_ul(cid(*old(self)), yes)
    { unimplemented!() }
}
/// stand-ins (R9) for `std::io::stdout()` and `option.unwrap_or_default()` on the date format
#[verifier::external_body]
pub fn verif_stdout() -> Stdout { unimplemented!() }
#[verifier::external_body]
pub fn verif_unwrap_or_default(o: Option<DateTimePattern_string>) -> (r: DateTimePattern_string)
    ensures o is Some ==> r == o.unwrap(), o is None ==> r.bytes().len() == 0
{ unimplemented!() }
/// stand-in (R9) for the constant COLOR_DEFAULT (termcolor::Color::White), by value
pub uninterp spec fn color_default() -> Color;
#[verifier::external_body]
pub fn verif_color_default() -> (r: Color) ensures r == color_default() { unimplemented!() }
#[verifier::external_body]
pub struct FixedOffset { _p: u8 }
#[verifier::external_body]
pub struct StandardStream { _p: u8 }
impl WriteStd for StandardStream {
    uninterp spec fn view(&self) -> Seq<u8>;
    uninterp spec fn cview(&self) -> Seq<(u8, int)>;
    uninterp spec fn cur(&self) -> int;
    #[verifier::external_body]
    fn write_all(&mut self, buf: &[u8]) -> (r: Result<()>) { unimplemented!() }
    #[verifier::external_body]
    fn flush(&mut self) -> (r: Result<()>) { unimplemented!() }
}
impl StandardStream {
    // assumed (termcolor): a fresh stream has no colour set, i.e. the state of ColorSpec::new()
    #[verifier::external_body]
    pub fn stdout(choice: ColorChoice) -> (r: StandardStream) ensures r.cur() == cid_new() { unimplemented!() }
    // assumed (termcolor): set_color writes only an escape sequence -- no payload byte -- and makes `spec` the active colour
    #[verifier::external_body]
    pub fn set_color(&mut self, spec: &ColorSpec) -> (r: Result<()>)
        ensures final(self).view() == old(self).view(), final(self).cview() == old(self).cview(),
            r is Ok ==> final(self).cur() == cid(*spec),
    { unimplemented!() }
}
#[verifier::external_body]
pub fn black_box<T>(x: &T) { }

// ---- assumed: a line part is a byte slice of a block; real struct shapes of Line / Sysline cut from /repo
#[verifier::external_body]
pub struct LinePart { _p: u8 }
impl LinePart {
    pub uninterp spec fn bytes(&self) -> Seq<u8>;
    #[verifier::external_body]
    pub fn as_slice(&self) -> (r: &[u8]) ensures r@ == self.bytes() { unimplemented!() }
}
pub type LineParts = Vec<LinePart>;
pub type LineIndex = usize;
//@cut type kind=struct path=src/data/line.rs name=Line derives= pubfields=1
//@end
pub type LineP = Arc<Line>;
pub type Lines = Vec<LineP>;
//@cut type kind=struct path=src/data/sysline.rs name=Sysline derives= pubfields=1
//@end
pub type SyslineP = Arc<Sysline>;
impl Sysline {
    #[verifier::external_body]
    pub fn dt(&self) -> (r: &DateTimeL) ensures *r == self.dt { unimplemented!() }
}

// ---- real: does the message end with a newline?  (decides whether the coordinator supplies one after the file's last message, C02)
//@ifunit PRNX
pub const NLu8_: u8 = 10;
impl Sysline {
    pub fn charsz(&self) -> (r: usize) ensures r == 1 { 1 }
    /// the message's text = its lines' bytes in order
    pub open spec fn text(&self) -> Seq<u8> { lines_payload(Seq::<u8>::empty(), self.lines@) }
//@cut fn path=src/data/sysline.rs impl=Sysline name=last_byte ret=r
//@replace "pub(crate) fn" "pub fn"
//@spec
    requires
        parts_nonempty(self.lines@),
    ensures
        // the last byte of the LAST line's LAST part (None only for a message without lines or a last line without parts)
        self.lines@.len() > 0 && self.lines@.last().lineparts@.len() > 0
            ==> r == Some(self.lines@.last().lineparts@.last().bytes().last()),
        self.lines@.len() == 0 || self.lines@.last().lineparts@.len() == 0 ==> r is None,
//@end
//@cut fn path=src/data/sysline.rs impl=Sysline name=count_lines ret=r
//@spec
    // C19: the number of lines a message adds to the summary is the number of its lines
    ensures r as int == self.lines@.len()
//@end
//@cut fn path=src/data/sysline.rs impl=Sysline name=ends_with_newline ret=r
//@replace "char::try_from(byte_last)" "verif_char_of(byte_last)"
//@replace "NLc == char_" "NLu8_ == char_"
//@spec
    requires parts_nonempty(self.lines@),
    ensures
        self.lines@.len() > 0 && self.lines@.last().lineparts@.len() > 0
            ==> r == (self.lines@.last().lineparts@.last().bytes().last() == 10u8),
//@end
}
/// stand-in: `char::try_from(u8)` never fails and keeps the code point (compared against NLc = '\n' = 10)
pub fn verif_char_of(b: u8) -> (r: core::result::Result<u8, ()>) ensures r == Ok::<u8, ()>(b) { Ok(b) }
//@endif

/// bytes of a line = concatenation of its parts, in order
pub open spec fn parts_bytes(s: Seq<LinePart>) -> Seq<u8>
    decreases s.len()
{
    if s.len() == 0 { Seq::<u8>::empty() } else { parts_bytes(s.drop_last()) + s.last().bytes() }
}
/// C13 / C02: payload of a text message = for each line, in order: prefix ++ bytes of the line
pub open spec fn lines_payload(pre: Seq<u8>, ls: Seq<LineP>) -> Seq<u8>
    decreases ls.len()
{
    if ls.len() == 0 { Seq::<u8>::empty() } else { lines_payload(pre, ls.drop_last()) + pre + parts_bytes(ls.last().lineparts@) }
}
pub open spec fn total_parts(ls: Seq<LineP>) -> int
    decreases ls.len()
{
    if ls.len() == 0 { 0 } else { total_parts(ls.drop_last()) + ls.last().lineparts@.len() + 2 }
}
pub proof fn lemma_parts_prefix(s: Seq<LinePart>, k: int)
    requires 0 <= k < s.len()
    ensures parts_bytes(s.take(k + 1)) == parts_bytes(s.take(k)) + s[k].bytes(),
            parts_bytes(s.take(k + 1)).len() <= parts_bytes(s).len(),
    decreases s.len() - k
{
    assert(s.take(k + 1).drop_last() =~= s.take(k));
    assert(s.take(k + 1).last() == s[k]);
    if k + 1 < s.len() { lemma_parts_prefix(s, k + 1); assert(parts_bytes(s.take(k + 2)).len() >= parts_bytes(s.take(k + 1)).len()); }
    else { assert(s.take(k + 1) =~= s); }
}
pub proof fn lemma_lines_prefix(pre: Seq<u8>, ls: Seq<LineP>, k: int)
    requires 0 <= k < ls.len()
    ensures lines_payload(pre, ls.take(k + 1)) == lines_payload(pre, ls.take(k)) + pre + parts_bytes(ls[k].lineparts@),
            lines_payload(pre, ls.take(k + 1)).len() <= lines_payload(pre, ls).len(),
            total_parts(ls.take(k + 1)) == total_parts(ls.take(k)) + ls[k].lineparts@.len() + 2,
            total_parts(ls.take(k + 1)) <= total_parts(ls),
            total_parts(ls.take(k)) >= 0,
    decreases ls.len() - k
{
    assert(ls.take(k + 1).drop_last() =~= ls.take(k));
    assert(ls.take(k + 1).last() == ls[k]);
    lemma_total_nonneg(ls.take(k));
    if k + 1 < ls.len() { lemma_lines_prefix(pre, ls, k + 1); }
    else { assert(ls.take(k + 1) =~= ls); }
}
pub proof fn lemma_total_nonneg(ls: Seq<LineP>)
    ensures total_parts(ls) >= 0
    decreases ls.len()
{
    if ls.len() > 0 { lemma_total_nonneg(ls.drop_last()); }
}

// ---- assumed: an accounting record renders itself into the caller's buffer; R(m) = buffer[..at]
//@cut type kind=enum path=src/data/fixedstruct.rs name=InfoAsBytes derives=
//@end
#[verifier::external_body]
pub struct FixedStruct { _p: u8 }
impl FixedStruct {
    pub uninterp spec fn dt_spec(&self) -> DateTimeL;
    #[verifier::external_body]
    pub fn dt(&self) -> (r: &DateTimeL) ensures *r == self.dt_spec() { unimplemented!() }
    /// R(m): the text the record renders into a buffer of `buflen` bytes (cut short if it does not fit)
    pub uninterp spec fn render(&self, buflen: int) -> Seq<u8>;
    /// the range of R(m) that holds the record's own datetime text (highlighted in colour output)
    pub uninterp spec fn hl_beg(&self, buflen: int) -> usize;
    pub uninterp spec fn hl_end(&self, buflen: int) -> usize;
    #[verifier::external_body]
    pub fn as_bytes(&self, buffer: &mut [u8]) -> (r: InfoAsBytes)
        ensures
            final(buffer)@.len() == old(buffer)@.len(),
            self.render(old(buffer)@.len() as int).len() <= old(buffer)@.len(),
            r is Ok ==> r->Ok_0 as int == self.render(old(buffer)@.len() as int).len()
                && r->Ok_1 == self.hl_beg(old(buffer)@.len() as int) && r->Ok_2 == self.hl_end(old(buffer)@.len() as int)
                && r->Ok_1 <= r->Ok_2 <= r->Ok_0,
            r is Fail ==> r->Fail_0 as int == self.render(old(buffer)@.len() as int).len(),
            final(buffer)@.subrange(0, self.render(old(buffer)@.len() as int).len() as int) == self.render(old(buffer)@.len() as int),
    { unimplemented!() }
}

//@ifunit PRNX
// ---- assumed (PRNX): event-log and journal messages are a byte string (their rendering, built by the readers) plus an
// optional range holding the datetime text; from_evtxrs / the journal reader end the text with a newline
//@cut type kind=const path=src/common.rs name=NLu8
//@end
//@cut type kind=const path=src/printer/printers.rs name=CHARSZ
//@end
pub type DtBegEndPair = (usize, usize);
pub type DtBegEndPairOpt = Option<DtBegEndPair>;
#[verifier::external_body]
pub struct Evtx { _p: u8 }
impl Evtx {
    pub uninterp spec fn dt_spec(&self) -> DateTimeL;
    #[verifier::external_body]
    pub fn dt(&self) -> (r: &DateTimeL) ensures *r == self.dt_spec() { unimplemented!() }
    pub uninterp spec fn data(&self) -> Seq<u8>;
    pub uninterp spec fn hl(&self) -> DtBegEndPairOpt;
    #[verifier::external_body]
    pub fn as_bytes(&self) -> (r: &[u8]) ensures r@ == self.data(), r@.len() <= usize::MAX { unimplemented!() }
    #[verifier::external_body]
    pub fn dt_beg_end(&self) -> (r: &DtBegEndPairOpt) ensures *r == self.hl() { unimplemented!() }
}
#[verifier::external_body]
pub struct JournalEntry { _p: u8 }
impl JournalEntry {
    pub uninterp spec fn dt_spec(&self) -> DateTimeL;
    #[verifier::external_body]
    pub fn dt(&self) -> (r: &DateTimeL) ensures *r == self.dt_spec() { unimplemented!() }
    pub uninterp spec fn data(&self) -> Seq<u8>;
    pub uninterp spec fn hl(&self) -> DtBegEndPairOpt;
    #[verifier::external_body]
    pub fn as_bytes(&self) -> (r: &[u8]) ensures r@ == self.data(), r@.len() <= usize::MAX { unimplemented!() }
    #[verifier::external_body]
    pub fn dt_beg_end(&self) -> (r: &DtBegEndPairOpt) ensures *r == self.hl() { unimplemented!() }
}
pub open spec fn hl_ok(h: DtBegEndPairOpt, len: int) -> bool { h is Some ==> h.unwrap().0 <= h.unwrap().1 <= len }
pub open spec fn hl_b(h: DtBegEndPairOpt) -> int { if h is Some { h.unwrap().0 as int } else { 0 } }
pub open spec fn hl_e(h: DtBegEndPairOpt) -> int { if h is Some { h.unwrap().1 as int } else { 0 } }
/// index of the first byte x in s, if any (bstr's find_byte: assumed)
pub open spec fn first_at(s: Seq<u8>, x: u8, i: int) -> bool { 0 <= i < s.len() && s[i] == x && forall|j: int| 0 <= j < i ==> s[j] != x }
#[verifier::external_body]
pub fn verif_find_byte(s: &[u8], x: u8) -> (r: Option<usize>)
    ensures r is Some ==> first_at(s@, x, r.unwrap() as int), r is None ==> forall|j: int| 0 <= j < s@.len() ==> s@[j] != x
{ unimplemented!() }
/// C13 (event-log / journal, prepended fields): per newline-terminated line of the text: prefix ++ line; a tail without a
/// newline is not written by the prepend variants (the readers end every text with a newline)
pub open spec fn epayload(pre: Seq<u8>, s: Seq<u8>) -> Seq<u8>
    decreases s.len()
{
    if exists|i: int| first_at(s, 0x0au8, i) {
        let b = choose|i: int| first_at(s, 0x0au8, i);
        pre + s.take(b + 1) + epayload(pre, s.skip(b + 1))
    } else { Seq::<u8>::empty() }
}
pub proof fn lemma_first_unique(s: Seq<u8>, x: u8, i: int, j: int)
    requires first_at(s, x, i), first_at(s, x, j) ensures i == j
{ if i < j { assert(s[i] != x); } if j < i { assert(s[j] != x); } }
pub proof fn lemma_epayload_step(pre: Seq<u8>, s: Seq<u8>, b: int)
    requires first_at(s, 0x0au8, b)
    ensures epayload(pre, s) == pre + s.take(b + 1) + epayload(pre, s.skip(b + 1))
{
    let c = choose|i: int| first_at(s, 0x0au8, i);
    lemma_first_unique(s, 0x0au8, b, c);
}
pub proof fn lemma_epayload_none(pre: Seq<u8>, s: Seq<u8>)
    requires forall|j: int| 0 <= j < s.len() ==> s[j] != 0x0au8
    ensures epayload(pre, s) == Seq::<u8>::empty()
{
    if exists|i: int| first_at(s, 0x0au8, i) { let c = choose|i: int| first_at(s, 0x0au8, i); assert(s[c] == 0x0au8); }
}
/// C13 "deleting the fields leaves exactly the undecorated output": with an empty prefix the payload is the text itself, when
/// the text ends with a newline (or is empty)
pub proof fn lemma_epayload_empty_prefix(s: Seq<u8>)
    requires s.len() == 0 || s.last() == 0x0au8
    ensures epayload(Seq::<u8>::empty(), s) == s
    decreases s.len()
{
    if s.len() == 0 { lemma_epayload_none(Seq::<u8>::empty(), s); }
    else {
        // there is a newline: the last byte; so a first one exists
        lemma_exists_first(s, 0x0au8, s.len() - 1);
        let b = choose|i: int| first_at(s, 0x0au8, i);
        lemma_epayload_step(Seq::<u8>::empty(), s, b);
        let t = s.skip(b + 1);
        if t.len() > 0 { assert(t.last() == s.last()); }
        lemma_epayload_empty_prefix(t);
        assert(Seq::<u8>::empty() + s.take(b + 1) + t =~= s);
    }
}

pub proof fn lemma_len_parts(v0: Seq<u8>, a: Seq<u8>, b: Seq<u8>, c: Seq<u8>, d: Seq<u8>)
    ensures (v0 + (a + b + c + d)).len() == v0.len() + a.len() + b.len() + c.len() + d.len(),
        v0 + (a + b + c + d) == v0 + a + b + c + d,
{ assert(v0 + (a + b + c + d) =~= v0 + a + b + c + d); }
pub proof fn lemma_epayload_tail_none(pre: Seq<u8>, s: Seq<u8>, a: int)
    requires 0 <= a <= s.len(), forall|j: int| 0 <= j < s.skip(a).len() ==> s.skip(a)[j] != 0x0au8
    ensures epayload(pre, s.skip(a)) == Seq::<u8>::empty()
{ lemma_epayload_none(pre, s.skip(a)); }

/// colouring of one line of an event-log / journal message that starts at byte `at` of the text: the datetime range is
/// highlighted when it lies inside this line
pub open spec fn eline_col(line: Seq<u8>, at: int, beg: int, end: int, c_sys: int, c_dt: int) -> Seq<(u8, int)> {
    if at <= beg && end < at + line.len() { paint_hl(line, beg - at, end - at, c_sys, c_dt) } else { paint(line, c_sys) }
}
/// C13 colour (event-log / journal, prepended fields): per line, prefix in the default colour, then the line
pub open spec fn ecolor(pre: Seq<u8>, s: Seq<u8>, at: int, beg: int, end: int, c_def: int, c_sys: int, c_dt: int) -> Seq<(u8, int)>
    decreases s.len()
{
    if exists|i: int| first_at(s, 0x0au8, i) {
        let b = choose|i: int| first_at(s, 0x0au8, i);
        paint(pre, c_def) + eline_col(s.take(b + 1), at, beg, end, c_sys, c_dt) + ecolor(pre, s.skip(b + 1), at + b + 1, beg, end, c_def, c_sys, c_dt)
    } else { Seq::<(u8, int)>::empty() }
}
pub proof fn lemma_ecolor_step(pre: Seq<u8>, s: Seq<u8>, at: int, beg: int, end: int, c_def: int, c_sys: int, c_dt: int, b: int)
    requires first_at(s, 0x0au8, b)
    ensures ecolor(pre, s, at, beg, end, c_def, c_sys, c_dt)
        == paint(pre, c_def) + eline_col(s.take(b + 1), at, beg, end, c_sys, c_dt) + ecolor(pre, s.skip(b + 1), at + b + 1, beg, end, c_def, c_sys, c_dt)
{
    let c = choose|i: int| first_at(s, 0x0au8, i);
    lemma_first_unique(s, 0x0au8, b, c);
}
pub proof fn lemma_ecolor_none(pre: Seq<u8>, s: Seq<u8>, at: int, beg: int, end: int, c_def: int, c_sys: int, c_dt: int)
    requires forall|j: int| 0 <= j < s.len() ==> s[j] != 0x0au8
    ensures ecolor(pre, s, at, beg, end, c_def, c_sys, c_dt) == Seq::<(u8, int)>::empty()
{
    if exists|i: int| first_at(s, 0x0au8, i) { let c = choose|i: int| first_at(s, 0x0au8, i); assert(s[c] == 0x0au8); }
}
/// colour is pure decoration: the bytes of the coloured payload are the payload of the non-colour variant
pub proof fn lemma_ecolor_bytes(pre: Seq<u8>, s: Seq<u8>, at: int, beg: int, end: int, c_def: int, c_sys: int, c_dt: int)
    ensures ecolor(pre, s, at, beg, end, c_def, c_sys, c_dt).len() == epayload(pre, s).len(),
        forall|i: int| 0 <= i < epayload(pre, s).len() ==> (#[trigger] ecolor(pre, s, at, beg, end, c_def, c_sys, c_dt)[i]).0 == epayload(pre, s)[i],
    decreases s.len()
{
    reveal(paint_hl);
    if exists|i: int| first_at(s, 0x0au8, i) {
        let b = choose|i: int| first_at(s, 0x0au8, i);
        lemma_ecolor_bytes(pre, s.skip(b + 1), at + b + 1, beg, end, c_def, c_sys, c_dt);
        let l = s.take(b + 1);
        assert(eline_col(l, at, beg, end, c_sys, c_dt).len() == l.len());
        assert(paint(pre, c_def).len() == pre.len());
    }
}

/// one step of the line loop, all sequence algebra in one place
pub proof fn lemma_eline_step(pre: Seq<u8>, data: Seq<u8>, a0: int, b: int, line: Seq<u8>, beg: int, end: int, c_def: int, c_sys: int, c_dt: int)
    requires 0 <= a0 <= data.len(), first_at(data.subrange(a0, data.len() as int), 0x0au8, b), line == data.subrange(a0, a0 + b + 1)
    ensures
        epayload(pre, data.skip(a0)) == pre + line + epayload(pre, data.skip(a0 + b + 1)),
        ecolor(pre, data.skip(a0), a0, beg, end, c_def, c_sys, c_dt)
            == paint(pre, c_def) + eline_col(line, a0, beg, end, c_sys, c_dt) + ecolor(pre, data.skip(a0 + b + 1), a0 + b + 1, beg, end, c_def, c_sys, c_dt),
{
    let rest = data.skip(a0);
    assert(data.subrange(a0, data.len() as int) =~= rest);
    lemma_epayload_step(pre, rest, b);
    lemma_ecolor_step(pre, rest, a0, beg, end, c_def, c_sys, c_dt, b);
    assert(rest.take(b + 1) =~= line);
    assert(rest.skip(b + 1) =~= data.skip(a0 + b + 1));
}
pub proof fn lemma_done_step<T>(done: Seq<T>, x: Seq<T>, nxt: Seq<T>, total: Seq<T>)
    requires done + (x + nxt) == total
    ensures (done + x) + nxt == total
{ assert((done + x) + nxt =~= done + (x + nxt)); }
pub proof fn lemma_exists_first(s: Seq<u8>, x: u8, k: int)
    requires 0 <= k < s.len(), s[k] == x
    ensures exists|i: int| first_at(s, x, i)
    decreases k
{
    if forall|j: int| 0 <= j < k ==> s[j] != x { assert(first_at(s, x, k)); }
    else { let j = choose|j: int| 0 <= j < k && s[j] == x; lemma_exists_first(s, x, j); }
}
//@endif

// ---- real: the printer's constants and struct (src/printer/printers.rs); fields made visible to specs
//@cut type kind=const path=src/printer/printers.rs name=BUFFER_USE
//@end
//@cut type kind=const path=src/printer/printers.rs name=BUFFER_CAP
//@end
//@cut type kind=type path=src/printer/printers.rs name=PrinterLogMessageResult
//@end
//@cut type kind=struct path=src/printer/printers.rs name=PrinterLogMessage derives= pubfields=1
//@replace "std::io::Stdout" "Stdout"
//@replace "termcolor::StandardStream" "StandardStream"
//@end

// ---- real: the printer macros, each verified ONCE as a function generated from its body (R13) against the
// contract below; invocations in the printers become calls (place arguments by reference)

//@macrofn path=src/printer/printers.rs name=buffer_flush_or_seterr generics="W: WriteStd"
//@params stdout:mut:W buffer:mut:Vec<u8> printed:mut:usize flushed:mut:usize error_ret:mut:Option<Error>
//@spec
    requires
        *old(printed) + old(buffer)@.len() <= usize::MAX, *old(flushed) < usize::MAX,
    ensures
        *final(flushed) <= *old(flushed) + 1, *final(flushed) >= *old(flushed),
        (*old(error_ret)) is Some ==> (*final(error_ret)) is Some,
        final(stdout).cur() == old(stdout).cur(),
        // the buffer content goes out, in order, exactly once, and is counted: the logical streams do not change
        (*final(error_ret)) is None ==> final(buffer)@.len() == 0 && *final(printed) == *old(printed) + old(buffer)@.len()
            && ls(final(stdout), final(buffer)@) == ls(old(stdout), old(buffer)@) && vs(final(stdout), final(buffer)@) == vs(old(stdout), old(buffer)@),
//@at_entry
    proof { reveal(ls); reveal(vs); lemma_paint_concat_auto(); }
//@end

//@macrofn path=src/printer/printers.rs name=buffer_flush_or_return may_return=1 generics="W: WriteStd"
//@params stdout:mut:W buffer:mut:Vec<u8> printed:mut:usize flushed:mut:usize
//@spec
    requires
        *old(printed) + old(buffer)@.len() <= usize::MAX, *old(flushed) < usize::MAX,
    ensures
        *final(flushed) <= *old(flushed) + 1, *final(flushed) >= *old(flushed),
        final(stdout).cur() == old(stdout).cur(),
        r is Ok ==> final(buffer)@.len() == 0 && *final(printed) == *old(printed) + old(buffer)@.len()
            && ls(final(stdout), final(buffer)@) == ls(old(stdout), old(buffer)@) && vs(final(stdout), final(buffer)@) == vs(old(stdout), old(buffer)@),
//@at_entry
    proof { reveal(ls); reveal(vs); lemma_paint_concat_auto(); }
//@end

//@macrofn path=src/printer/printers.rs name=buffer_flush_nostats generics="W: WriteStd"
//@params stdout:mut:W buffer:mut:Vec<u8>
//@spec
    requires old(buffer)@.len() <= usize::MAX
//@end

//@macrofn path=src/printer/printers.rs name=buffer_write_or_return may_return=1 generics="W: WriteStd"
//@params stdout:mut:W buffer:mut:Vec<u8> slice_:val:&[u8] printed:mut:usize flushed:mut:usize
//@spec
    requires
        *old(printed) + old(buffer)@.len() + slice_@.len() <= usize::MAX, *old(flushed) < usize::MAX - 2,
    ensures
        *final(flushed) <= *old(flushed) + 2, *final(flushed) >= *old(flushed),
        final(buffer)@.len() <= usize::MAX,
        final(stdout).cur() == old(stdout).cur(),
        // C02 / C13: the logical output stream (bytes written ++ bytes buffered) grows by exactly the slice, in order,
        // whatever the relation of the slice length to the remaining capacity and to BUFFER_CAP; the same for the
        // coloured stream (buffered bytes go out under the colour that is active now)
        r is Ok ==> vs(final(stdout), final(buffer)@) == vs(old(stdout), old(buffer)@) + slice_@,
        r is Ok ==> ls(final(stdout), final(buffer)@) == ls(old(stdout), old(buffer)@) + paint(slice_@, old(stdout).cur()),
        // C19: `printed` counts exactly the bytes that reached the handle
        r is Ok ==> *final(printed) + final(buffer)@.len() == *old(printed) + old(buffer)@.len() + slice_@.len(),
        r is Ok ==> *final(printed) >= *old(printed),
//@at_entry
    proof { reveal(ls); reveal(vs); lemma_paint_concat_auto(); }
//@mutate "(*printed) += (*buffer).len();" ""
//@mutate "(*buffer).extend_from_slice((slice_));" ""
//@mutate "(*buffer).clear();" ""
//@end

/// the logical output streams: what has reached the handle ++ what is buffered (buffered bytes will go out under the
/// colour that is active now).  Opaque: callers chain equalities, the macro-functions reveal them.
#[verifier::opaque]
pub open spec fn ls<W: WriteStd>(w: &W, buf: Seq<u8>) -> Seq<(u8, int)> { w.cview() + paint(buf, w.cur()) }
#[verifier::opaque]
pub open spec fn vs<W: WriteStd>(w: &W, buf: Seq<u8>) -> Seq<u8> { w.view() + buf }
pub proof fn lemma_streams_empty<W: WriteStd>(w: &W, buf: Seq<u8>)
    requires buf.len() == 0
    ensures ls(w, buf) == w.cview(), vs(w, buf) == w.view()
{
    reveal(ls); reveal(vs); reveal(paint);
    assert(paint(buf, w.cur()) =~= Seq::<(u8, int)>::empty());
    assert(w.cview() + Seq::<(u8, int)>::empty() =~= w.cview());
    assert(w.view() + buf =~= w.view());
}
pub proof fn lemma_paint_concat(a: Seq<u8>, b: Seq<u8>, c: int)
    ensures paint(a + b, c) == paint(a, c) + paint(b, c)
{ assert(paint(a + b, c) =~= paint(a, c) + paint(b, c)); }
pub proof fn lemma_paint_concat_auto()
    ensures forall|a: Seq<u8>, b: Seq<u8>, c: int| #[trigger] paint(a + b, c) == paint(a, c) + paint(b, c),
            forall|c: int| #[trigger] paint(Seq::<u8>::empty(), c) == Seq::<(u8, int)>::empty(),
{
    assert forall|a: Seq<u8>, b: Seq<u8>, c: int| #[trigger] paint(a + b, c) == paint(a, c) + paint(b, c) by { lemma_paint_concat(a, b, c); }
    assert forall|c: int| #[trigger] paint(Seq::<u8>::empty(), c) == Seq::<(u8, int)>::empty() by { assert(paint(Seq::<u8>::empty(), c) =~= Seq::<(u8, int)>::empty()); }
}


// ---- colour: setcolor_or_return! flushes what is buffered under the OLD colour, then switches
//@macrofn path=src/printer/printers.rs name=setcolor_or_return may_return=1
//@params stdout:mut:StandardStream buffer:mut:Vec<u8> color_spec:ref:ColorSpec color_spec_last:mut:ColorSpec printed:mut:usize flushed:mut:usize
//@spec
    requires
        *old(printed) + old(buffer)@.len() <= usize::MAX, *old(flushed) < usize::MAX - 2,
        // printer invariant: color_spec_last mirrors the colour that is active on the stream
        cid(*old(color_spec_last)) == old(stdout).cur(),
    ensures
        *final(flushed) <= *old(flushed) + 2, *final(flushed) >= *old(flushed),
        // what is buffered goes out under the OLD colour, then the colour changes: the logical streams do not change
        r is Ok ==> final(buffer)@.len() == 0 && *final(printed) == *old(printed) + old(buffer)@.len(),
        r is Ok ==> ls(final(stdout), final(buffer)@) == ls(old(stdout), old(buffer)@) && vs(final(stdout), final(buffer)@) == vs(old(stdout), old(buffer)@),
        r is Ok ==> final(stdout).cur() == cid(*color_spec) && cid(*final(color_spec_last)) == final(stdout).cur(),
//@at_entry
    proof { reveal(ls); reveal(vs); lemma_paint_concat_auto(); }
//@mutate "(*color_spec_last) = (*color_spec).clone();" ""
//@end

// ---- colour: print_color_line! writes the parts of a line under the active colour and flushes
//@macrofn path=src/printer/printers.rs name=print_color_line may_return=1 generics="W: WriteStd"
//@params stdout_color:mut:W buffer:mut:Vec<u8> linep:val:&LineP printed:mut:usize flushed:mut:usize
//@desugar_for 1 it
//@spec
    requires
        *old(printed) + old(buffer)@.len() + parts_bytes(linep.lineparts@).len() <= usize::MAX,
        *old(flushed) + linep.lineparts@.len() * 2 + 2 < usize::MAX,
    ensures
        *final(flushed) <= *old(flushed) + linep.lineparts@.len() * 2 + 1, *final(flushed) >= *old(flushed),
        final(stdout_color).cur() == old(stdout_color).cur(),
        r is Ok ==> final(buffer)@.len() == 0,
        r is Ok ==> final(stdout_color).cview() == old(stdout_color).cview() + paint(old(buffer)@ + parts_bytes(linep.lineparts@), old(stdout_color).cur()),
        r is Ok ==> final(stdout_color).view() == old(stdout_color).view() + old(buffer)@ + parts_bytes(linep.lineparts@),
        r is Ok ==> *final(printed) == *old(printed) + old(buffer)@.len() + parts_bytes(linep.lineparts@).len(),
//@at_entry
    proof { reveal(vs); reveal(ls); lemma_paint_concat_auto(); }
    let ghost v0 = stdout_color.view();
    let ghost cv0 = stdout_color.cview();
    let ghost b0 = buffer@;
    let ghost c0 = stdout_color.cur();
    let ghost p0 = *printed;
    let ghost f0 = *flushed;
//@loop 1
        invariant_except_break
            vstd::std_specs::iter::IteratorSpec::decrease(&it.iter) is Some,
        invariant
            it.snapshot@ == it__snap0, it.wf(),
            it.seq().len() == linep.lineparts@.len(),
            forall|i: int| 0 <= i < linep.lineparts@.len() ==> *it.seq()[i] == linep.lineparts@[i],
            0 <= it.index@ <= it.seq().len(),
            p0 + b0.len() + parts_bytes(linep.lineparts@).len() <= usize::MAX, f0 + linep.lineparts@.len() * 2 + 2 < usize::MAX,
            stdout_color.cur() == c0, c0 == old(stdout_color).cur(), f0 == *old(flushed),
            stdout_color.view() + buffer@ == v0 + b0 + parts_bytes(linep.lineparts@.take(it.index@ as int)),
            stdout_color.cview() + paint(buffer@, c0) == cv0 + paint(b0 + parts_bytes(linep.lineparts@.take(it.index@ as int)), c0),
            *printed - p0 == stdout_color.view().len() - v0.len(), stdout_color.view().len() >= v0.len(),
            f0 <= *flushed <= f0 + it.index@ * 2,
            buffer@.len() <= usize::MAX,
        ensures
            it.index@ == it.seq().len(),
        decreases vstd::std_specs::iter::IteratorSpec::decrease(&it.iter).unwrap_or(arbitrary()),
//@after "let slice: &[u8]"
            proof {
                reveal(vs); reveal(ls); lemma_paint_concat_auto();
                let k = it__old.index@ as int;
                lemma_parts_prefix(linep.lineparts@, k);
                assert(slice@ == linep.lineparts@[k].bytes());
                assert((stdout_color.view() + buffer@).len() == stdout_color.view().len() + buffer@.len());
                assert((v0 + b0 + parts_bytes(linep.lineparts@.take(k))).len() == v0.len() + b0.len() + parts_bytes(linep.lineparts@.take(k)).len());
                assert(parts_bytes(linep.lineparts@.take(k + 1)).len() == parts_bytes(linep.lineparts@.take(k)).len() + slice@.len());
                assert(b0 + parts_bytes(linep.lineparts@.take(k + 1)) =~= b0 + parts_bytes(linep.lineparts@.take(k)) + slice@);
                assert(cv0 + paint(b0 + parts_bytes(linep.lineparts@.take(k)), c0) + paint(slice@, c0) =~= cv0 + paint(b0 + parts_bytes(linep.lineparts@.take(k + 1)), c0));
            }
//@after "match buffer_write_or_return__fn("
            proof {
                reveal(ls); reveal(vs); lemma_paint_concat_auto();
                let k = it__old.index@ as int;
                let pk = parts_bytes(linep.lineparts@.take(k));
                let pk1 = parts_bytes(linep.lineparts@.take(k + 1));
                assert(pk1 == pk + slice@);
                assert(stdout_color.cview() + paint(buffer@, c0) == cv0 + paint(b0 + pk, c0) + paint(slice@, c0));
                assert(b0 + pk1 =~= (b0 + pk) + slice@);
                assert(paint((b0 + pk) + slice@, c0) == paint(b0 + pk, c0) + paint(slice@, c0));
                assert(cv0 + paint(b0 + pk, c0) + paint(slice@, c0) =~= cv0 + (paint(b0 + pk, c0) + paint(slice@, c0)));
                assert((stdout_color.view() + buffer@).len() == stdout_color.view().len() + buffer@.len());
                assert((v0 + b0 + pk1).len() == v0.len() + b0.len() + pk1.len());
            }
//@before "match buffer_flush_or_return__fn"
        proof {
            assert(linep.lineparts@.take(linep.lineparts@.len() as int) =~= linep.lineparts@);
            assert((stdout_color.view() + buffer@).len() == stdout_color.view().len() + buffer@.len());
        }
//@end


/// C13 colour: a line's bytes with the datetime range [dt_beg, dt_end) in the datetime colour and the rest in the text
/// colour -- a function of the line alone, NOT of how block boundaries cut it into parts (C12)
pub open spec fn hl_col(i: int, dt_beg: int, dt_end: int, c_sys: int, c_dt: int) -> int { if dt_beg <= i < dt_end { c_dt } else { c_sys } }
#[verifier::opaque]
pub open spec fn paint_hl(b: Seq<u8>, dt_beg: int, dt_end: int, c_sys: int, c_dt: int) -> Seq<(u8, int)> {
    Seq::new(b.len(), |i: int| (b[i], hl_col(i, dt_beg, dt_end, c_sys, c_dt)))
}
pub proof fn lemma_hl_piece(cv0: Seq<(u8, int)>, v0: Seq<u8>, b: Seq<u8>, lo: int, hi: int, c: int, dt_beg: int, dt_end: int, c_sys: int, c_dt: int)
    requires 0 <= lo <= hi <= b.len(), forall|i: int| lo <= i < hi ==> #[trigger] hl_col(i, dt_beg, dt_end, c_sys, c_dt) == c
    ensures
        cv0 + paint_hl(b, dt_beg, dt_end, c_sys, c_dt).take(lo) + paint(b.subrange(lo, hi), c) == cv0 + paint_hl(b, dt_beg, dt_end, c_sys, c_dt).take(hi),
        v0 + b.take(lo) + b.subrange(lo, hi) == v0 + b.take(hi),
{
    reveal(paint_hl);
    assert(cv0 + paint_hl(b, dt_beg, dt_end, c_sys, c_dt).take(lo) + paint(b.subrange(lo, hi), c) =~= cv0 + paint_hl(b, dt_beg, dt_end, c_sys, c_dt).take(hi));
    assert(v0 + b.take(lo) + b.subrange(lo, hi) =~= v0 + b.take(hi));
}
pub proof fn lemma_hl_whole(cv0: Seq<(u8, int)>, v0: Seq<u8>, b: Seq<u8>, dt_beg: int, dt_end: int, c_sys: int, c_dt: int)
    ensures
        cv0 + paint_hl(b, dt_beg, dt_end, c_sys, c_dt).take(b.len() as int) == cv0 + paint_hl(b, dt_beg, dt_end, c_sys, c_dt),
        cv0 + paint_hl(b, dt_beg, dt_end, c_sys, c_dt).take(0) == cv0,
        v0 + b.take(b.len() as int) == v0 + b, v0 + b.take(0) == v0,
{
    reveal(paint_hl);
    assert(paint_hl(b, dt_beg, dt_end, c_sys, c_dt).take(b.len() as int) =~= paint_hl(b, dt_beg, dt_end, c_sys, c_dt));
    assert(b.take(b.len() as int) =~= b);
    assert(cv0 + paint_hl(b, dt_beg, dt_end, c_sys, c_dt).take(0) =~= cv0);
    assert(v0 + b.take(0) =~= v0);
}
/// the bytes of the first k parts are a prefix of the bytes of the line
pub proof fn lemma_parts_is_prefix(s: Seq<LinePart>, k: int)
    requires 0 <= k <= s.len()
    ensures parts_bytes(s.take(k)).len() <= parts_bytes(s).len(), parts_bytes(s.take(k)) == parts_bytes(s).take(parts_bytes(s.take(k)).len() as int)
    decreases s.len() - k
{
    if k == s.len() { assert(s.take(k) =~= s); assert(parts_bytes(s).take(parts_bytes(s).len() as int) =~= parts_bytes(s)); }
    else {
        lemma_parts_is_prefix(s, k + 1);
        lemma_parts_prefix(s, k);
        let a = parts_bytes(s.take(k)); let a1 = parts_bytes(s.take(k + 1)); let b = parts_bytes(s);
        assert(a1 == a + s[k].bytes());
        assert(a =~= b.take(a.len() as int)) by { assert(a1 == b.take(a1.len() as int)); assert(a =~= a1.take(a.len() as int)); }
    }
}
/// part k of a line is the sub-range of the line's bytes that starts after the first k parts
pub proof fn lemma_part_is_subrange(s: Seq<LinePart>, k: int)
    requires 0 <= k < s.len()
    ensures
        parts_bytes(s.take(k)).len() + s[k].bytes().len() == parts_bytes(s.take(k + 1)).len(),
        parts_bytes(s.take(k + 1)).len() <= parts_bytes(s).len(),
        s[k].bytes() == parts_bytes(s).subrange(parts_bytes(s.take(k)).len() as int, parts_bytes(s.take(k + 1)).len() as int),
{
    lemma_parts_prefix(s, k);
    lemma_parts_is_prefix(s, k);
    lemma_parts_is_prefix(s, k + 1);
    let a = parts_bytes(s.take(k)); let a1 = parts_bytes(s.take(k + 1)); let b = parts_bytes(s);
    assert(a1 == a + s[k].bytes());
    assert(a1 == b.take(a1.len() as int));
    assert(s[k].bytes() =~= a1.subrange(a.len() as int, a1.len() as int));
    assert(a1.subrange(a.len() as int, a1.len() as int) =~= b.subrange(a.len() as int, a1.len() as int));
}

/// C13 colour: coloured payload of a text message.  Per line: prefix in the default colour, then the line's bytes --
/// first line with its datetime range highlighted, continuation lines in one colour `c_cont`
pub open spec fn cline(pre: Seq<u8>, c_def: int, b: Seq<u8>, first: bool, dt_beg: int, dt_end: int, c_sys: int, c_dt: int, c_cont: int) -> Seq<(u8, int)> {
    paint(pre, c_def) + (if first { paint_hl(b, dt_beg, dt_end, c_sys, c_dt) } else { paint(b, c_cont) })
}
pub open spec fn clines(pre: Seq<u8>, c_def: int, ls: Seq<LineP>, dt_beg: int, dt_end: int, c_sys: int, c_dt: int, c_cont: int) -> Seq<(u8, int)>
    decreases ls.len()
{
    if ls.len() == 0 { Seq::<(u8, int)>::empty() }
    else { clines(pre, c_def, ls.drop_last(), dt_beg, dt_end, c_sys, c_dt, c_cont) + cline(pre, c_def, parts_bytes(ls.last().lineparts@), ls.len() == 1, dt_beg, dt_end, c_sys, c_dt, c_cont) }
}
pub proof fn lemma_clines_prefix(pre: Seq<u8>, c_def: int, ls: Seq<LineP>, k: int, dt_beg: int, dt_end: int, c_sys: int, c_dt: int, c_cont: int)
    requires 0 <= k < ls.len()
    ensures clines(pre, c_def, ls.take(k + 1), dt_beg, dt_end, c_sys, c_dt, c_cont)
        == clines(pre, c_def, ls.take(k), dt_beg, dt_end, c_sys, c_dt, c_cont) + cline(pre, c_def, parts_bytes(ls[k].lineparts@), k == 0, dt_beg, dt_end, c_sys, c_dt, c_cont)
{
    assert(ls.take(k + 1).drop_last() =~= ls.take(k));
    assert(ls.take(k + 1).last() == ls[k]);
}
/// lines as the readers build them: every part holds at least one byte
pub open spec fn parts_nonempty(ls: Seq<LineP>) -> bool {
    forall|i: int, j: int| 0 <= i < ls.len() && 0 <= j < ls[i].lineparts@.len() ==> (#[trigger] ls[i].lineparts@[j]).bytes().len() > 0
}
impl PrinterLogMessage {
    /// printer invariant for colour output: color_spec_last mirrors the colour active on the stream
    pub open spec fn col_ok(&self) -> bool { cid(self.color_spec_last) == self.stdout_color.cur() }
    pub open spec fn same_colors(&self, o: &Self) -> bool {
        cid(self.color_spec_default) == cid(o.color_spec_default) && cid(self.color_spec_sysline) == cid(o.color_spec_sysline)
        && cid(self.color_spec_datetime) == cid(o.color_spec_datetime)
    }
}

//@macrofn path=src/printer/printers.rs name=print_color_line_highlight_dt may_return=1 rlimit=400
//@params self:fields:stdout_color=mut=StandardStream,color_spec_sysline=ref=ColorSpec,color_spec_datetime=ref=ColorSpec,color_spec_last=mut=ColorSpec buffer:mut:Vec<u8> linep:val:&LineP dt_beg:val:LineIndex dt_end:val:LineIndex printed:mut:usize flushed:mut:usize
//@desugar_for 1 it
//@spec
    requires
        cid(*old(self___color_spec_last)) == old(self___stdout_color).cur(), old(buffer)@.len() == 0,
        dt_beg <= dt_end,
        forall|i: int| 0 <= i < linep.lineparts@.len() ==> (#[trigger] linep.lineparts@[i]).bytes().len() > 0,
        *old(printed) + parts_bytes(linep.lineparts@).len() <= usize::MAX,
        *old(flushed) + linep.lineparts@.len() * 15 + 2 < usize::MAX,
    ensures
        *final(flushed) <= *old(flushed) + linep.lineparts@.len() * 15, *final(flushed) >= *old(flushed),
        r is Ok ==> cid(*final(self___color_spec_last)) == final(self___stdout_color).cur() && final(buffer)@.len() == 0,
        // C13 / C12: payload = the line's bytes; the datetime range, and only it, is highlighted -- whatever the part boundaries
        r is Ok ==> final(self___stdout_color).cview() == old(self___stdout_color).cview()
            + paint_hl(parts_bytes(linep.lineparts@), dt_beg as int, dt_end as int, cid(*self___color_spec_sysline), cid(*self___color_spec_datetime)),
        r is Ok ==> *final(printed) == *old(printed) + parts_bytes(linep.lineparts@).len(),
        // the colour left active is that of the line's last byte
        r is Ok ==> final(self___stdout_color).cur() == (if parts_bytes(linep.lineparts@).len() > 0 { hl_col(parts_bytes(linep.lineparts@).len() - 1, dt_beg as int, dt_end as int, cid(*self___color_spec_sysline), cid(*self___color_spec_datetime)) } else { old(self___stdout_color).cur() }),
//@at_entry
    proof { lemma_paint_concat_auto(); }
    let ghost cv0 = self___stdout_color.cview();
    let ghost v0 = self___stdout_color.view();
    let ghost bb = parts_bytes(linep.lineparts@);
    let ghost c_sys = cid(*self___color_spec_sysline);
    let ghost c_dt = cid(*self___color_spec_datetime);
    let ghost hl = paint_hl(bb, dt_beg as int, dt_end as int, c_sys, c_dt);
    let ghost p0 = *printed;
    let ghost f0 = *flushed;
    let ghost cur0 = self___stdout_color.cur();
//@loop 1
        invariant_except_break
            vstd::std_specs::iter::IteratorSpec::decrease(&it.iter) is Some,
        invariant
            it.snapshot@ == it__snap0, it.wf(),
            it.seq().len() == linep.lineparts@.len(),
            forall|i: int| 0 <= i < linep.lineparts@.len() ==> *it.seq()[i] == linep.lineparts@[i],
            forall|i: int| 0 <= i < linep.lineparts@.len() ==> (#[trigger] linep.lineparts@[i]).bytes().len() > 0,
            0 <= it.index@ <= it.seq().len(),
            f0 == *old(flushed),
            c_sys == cid(*self___color_spec_sysline), c_dt == cid(*self___color_spec_datetime),
            bb == parts_bytes(linep.lineparts@), hl == paint_hl(bb, dt_beg as int, dt_end as int, c_sys, c_dt), dt_beg <= dt_end,
            p0 + bb.len() <= usize::MAX, f0 + linep.lineparts@.len() * 15 + 2 < usize::MAX,
            cid(*self___color_spec_last) == self___stdout_color.cur(), buffer@.len() == 0,
            at as int == parts_bytes(linep.lineparts@.take(it.index@ as int)).len(), at as int <= bb.len(),
            self___stdout_color.cview() == cv0 + hl.take(at as int),
            *printed == p0 + at, at as int <= bb.len(),
            self___stdout_color.cur() == (if at > 0 { hl_col(at as int - 1, dt_beg as int, dt_end as int, c_sys, c_dt) } else { cur0 }), cur0 == old(self___stdout_color).cur(),
            f0 <= *flushed <= f0 + it.index@ * 15,
        ensures
            it.index@ == it.seq().len(),
        decreases vstd::std_specs::iter::IteratorSpec::decrease(&it.iter).unwrap_or(arbitrary()),
//@after "let slice: &[u8]"
            let ghost at_end_g = at as int + slice@.len();
            proof {
                let k = it__old.index@ as int;
                lemma_part_is_subrange(linep.lineparts@, k);
                assert(slice@ == linep.lineparts@[k].bytes());
                assert(at_end_g <= bb.len());
                assert(slice@ == bb.subrange(at as int, at_end_g));
            }
//@before "match setcolor_or_return__fn(" 1
                    proof { lemma_streams_empty(&*self___stdout_color, buffer@); }
//@after "match buffer_flush_or_return__fn(" 1
                    proof {
                        lemma_streams_empty(&*self___stdout_color, buffer@);
                        assert(slice_a@ =~= bb.subrange(at as int, dt_beg as int));
                        lemma_hl_piece(cv0, v0, bb, at as int, dt_beg as int, c_sys, dt_beg as int, dt_end as int, c_sys, c_dt);
                        assert(self___stdout_color.cview() == cv0 + hl.take(dt_beg as int));
                        assert(*printed == p0 + dt_beg as int);
                        assert(self___stdout_color.cur() == hl_col(dt_beg as int - 1, dt_beg as int, dt_end as int, c_sys, c_dt));
                    }
//@before "match setcolor_or_return__fn(" 2
                    proof { lemma_streams_empty(&*self___stdout_color, buffer@); }
//@after "match buffer_flush_or_return__fn(" 2
                    proof {
                        lemma_streams_empty(&*self___stdout_color, buffer@);
                        assert(slice_b_dt@ =~= bb.subrange(dt_beg as int, dt_end as int));
                        lemma_hl_piece(cv0, v0, bb, dt_beg as int, dt_end as int, c_dt, dt_beg as int, dt_end as int, c_sys, c_dt);
                        assert(self___stdout_color.cview() == cv0 + hl.take(dt_end as int));
                        assert(*printed == p0 + dt_end as int);
                        assert(self___stdout_color.cur() == hl_col(dt_end as int - 1, dt_beg as int, dt_end as int, c_sys, c_dt));
                    }
//@before "match setcolor_or_return__fn(" 3
                    proof { lemma_streams_empty(&*self___stdout_color, buffer@); }
//@after "match buffer_flush_or_return__fn(" 3
                    proof {
                        lemma_streams_empty(&*self___stdout_color, buffer@);
                        assert(slice_c@ =~= bb.subrange(dt_end as int, at_end_g));
                        lemma_hl_piece(cv0, v0, bb, dt_end as int, at_end_g, c_sys, dt_beg as int, dt_end as int, c_sys, c_dt);
                        assert(self___stdout_color.cview() == cv0 + hl.take(at_end_g));
                        assert(*printed == p0 + at_end_g);
                        assert(self___stdout_color.cur() == hl_col(at_end_g - 1, dt_beg as int, dt_end as int, c_sys, c_dt));
                    }
//@before "match setcolor_or_return__fn(" 4
                    proof { lemma_streams_empty(&*self___stdout_color, buffer@); }
//@after "match buffer_flush_or_return__fn(" 4
                    proof {
                        lemma_streams_empty(&*self___stdout_color, buffer@);
                        assert(slice_a@ =~= bb.subrange(at as int, dt_beg as int));
                        lemma_hl_piece(cv0, v0, bb, at as int, dt_beg as int, c_sys, dt_beg as int, dt_end as int, c_sys, c_dt);
                        assert(self___stdout_color.cview() == cv0 + hl.take(dt_beg as int));
                        assert(*printed == p0 + dt_beg as int);
                        assert(self___stdout_color.cur() == hl_col(dt_beg as int - 1, dt_beg as int, dt_end as int, c_sys, c_dt));
                    }
//@before "match setcolor_or_return__fn(" 5
                    proof { lemma_streams_empty(&*self___stdout_color, buffer@); }
//@after "match buffer_flush_or_return__fn(" 5
                    proof {
                        lemma_streams_empty(&*self___stdout_color, buffer@);
                        assert(slice_b_dt@ =~= bb.subrange(dt_beg as int, at_end_g));
                        lemma_hl_piece(cv0, v0, bb, dt_beg as int, at_end_g, c_dt, dt_beg as int, dt_end as int, c_sys, c_dt);
                        assert(self___stdout_color.cview() == cv0 + hl.take(at_end_g));
                        assert(*printed == p0 + at_end_g);
                        assert(self___stdout_color.cur() == hl_col(at_end_g - 1, dt_beg as int, dt_end as int, c_sys, c_dt));
                    }
//@before "match setcolor_or_return__fn(" 6
                    proof { lemma_streams_empty(&*self___stdout_color, buffer@); }
//@after "match buffer_flush_or_return__fn(" 6
                    proof {
                        lemma_streams_empty(&*self___stdout_color, buffer@);
                        assert(slice_a_dt@ =~= bb.subrange(at as int, dt_end as int));
                        lemma_hl_piece(cv0, v0, bb, at as int, dt_end as int, c_dt, dt_beg as int, dt_end as int, c_sys, c_dt);
                        assert(self___stdout_color.cview() == cv0 + hl.take(dt_end as int));
                        assert(*printed == p0 + dt_end as int);
                        assert(self___stdout_color.cur() == hl_col(dt_end as int - 1, dt_beg as int, dt_end as int, c_sys, c_dt));
                    }
//@before "match setcolor_or_return__fn(" 7
                    proof { lemma_streams_empty(&*self___stdout_color, buffer@); }
//@after "match buffer_flush_or_return__fn(" 7
                    proof {
                        lemma_streams_empty(&*self___stdout_color, buffer@);
                        assert(slice_b@ =~= bb.subrange(dt_end as int, at_end_g));
                        lemma_hl_piece(cv0, v0, bb, dt_end as int, at_end_g, c_sys, dt_beg as int, dt_end as int, c_sys, c_dt);
                        assert(self___stdout_color.cview() == cv0 + hl.take(at_end_g));
                        assert(*printed == p0 + at_end_g);
                        assert(self___stdout_color.cur() == hl_col(at_end_g - 1, dt_beg as int, dt_end as int, c_sys, c_dt));
                    }
//@before "match setcolor_or_return__fn(" 8
                    proof { lemma_streams_empty(&*self___stdout_color, buffer@); }
//@after "match buffer_flush_or_return__fn(" 8
                    proof {
                        lemma_streams_empty(&*self___stdout_color, buffer@);
                        assert(slice@ =~= bb.subrange(at as int, at_end_g));
                        lemma_hl_piece(cv0, v0, bb, at as int, at_end_g, c_dt, dt_beg as int, dt_end as int, c_sys, c_dt);
                        assert(self___stdout_color.cview() == cv0 + hl.take(at_end_g));
                        assert(*printed == p0 + at_end_g);
                        assert(self___stdout_color.cur() == hl_col(at_end_g - 1, dt_beg as int, dt_end as int, c_sys, c_dt));
                    }
//@before "match setcolor_or_return__fn(" 9
                    proof { lemma_streams_empty(&*self___stdout_color, buffer@); }
//@after "match buffer_flush_or_return__fn(" 9
                    proof {
                        lemma_streams_empty(&*self___stdout_color, buffer@);
                        assert(slice@ =~= bb.subrange(at as int, at_end_g));
                        lemma_hl_piece(cv0, v0, bb, at as int, at_end_g, c_sys, dt_beg as int, dt_end as int, c_sys, c_dt);
                        assert(self___stdout_color.cview() == cv0 + hl.take(at_end_g));
                        assert(*printed == p0 + at_end_g);
                        assert(self___stdout_color.cur() == hl_col(at_end_g - 1, dt_beg as int, dt_end as int, c_sys, c_dt));
                    }
//@before "let mut it = vstd"
    proof { lemma_hl_whole(cv0, v0, bb, dt_beg as int, dt_end as int, c_sys, c_dt); assert(linep.lineparts@.take(0) =~= Seq::<LinePart>::empty()); }
//@before_tail
    proof {
        assert(linep.lineparts@.take(linep.lineparts@.len() as int) =~= linep.lineparts@);
        lemma_hl_whole(cv0, v0, bb, dt_beg as int, dt_end as int, c_sys, c_dt);
    }
//@mutate "at_end <= (dt_end)" "at_end < (dt_end)"
//@end

/// D(m): the datetime field text for a message whose datetime is `dt`, under the printer's format and zone (opaque: chrono)
pub uninterp spec fn chrono_text(fmt: Seq<u8>, tz: FixedOffset, inst: int) -> Seq<u8>;
/// D(m) = chrono's rendering of the message's instant in the zone asked for with --prepend-tz / -u / -l, under --prepend-dt-format
pub open spec fn dt_text(fmt: Seq<u8>, tz: FixedOffset, dt: DateTimeL) -> Seq<u8> { chrono_text(fmt, tz, instant(dt)) }

// ---- assumed: chrono's formatting interface (with_timezone keeps the instant and takes the zone; format renders instant + zone)
pub uninterp spec fn dt_off(dt: DateTimeL) -> FixedOffset;
#[verifier::external_body]
pub struct Str { _p: u8 }
impl Str { pub uninterp spec fn bytes(&self) -> Seq<u8>; }
#[verifier::external_body]
pub struct DelayedFormat { _p: u8 }
#[verifier::external_body]
pub struct FmtError { _p: u8 }
impl DelayedFormat {
    pub uninterp spec fn text(&self) -> Seq<u8>;
    // assumed: formatting cannot fail (the --prepend-dt-format value was validated at startup)
    #[verifier::external_body]
    pub fn write_to(&self, w: &mut String) -> (r: core::result::Result<(), FmtError>)
        ensures r is Ok, final(w).bytes() == old(w).bytes() + self.text()
    { unimplemented!() }
    #[verifier::external_body]
    pub fn to_string(&self) -> (r: String) ensures r.bytes() == self.text() { unimplemented!() }
}
impl String {
    #[verifier::external_body]
    pub fn as_str(&self) -> (r: &Str) ensures r.bytes() == self.bytes() { unimplemented!() }
    #[verifier::external_body]
    pub fn with_capacity(n: usize) -> (r: String) ensures r.bytes() == Seq::<u8>::empty() { unimplemented!() }
}
impl FixedOffset {
    pub uninterp spec fn lmu(&self) -> int;
    #[verifier::external_body]
    pub fn local_minus_utc(&self) -> (r: i32) ensures r as int == self.lmu() { unimplemented!() }
    #[verifier::external_body]
    pub fn utc_minus_local(&self) -> (r: i32) ensures r as int == -self.lmu() { unimplemented!() }
}
impl DateTimeL {
    #[verifier::external_body]
    pub fn with_timezone(&self, tz: &FixedOffset) -> (r: DateTimeL) ensures instant(r) == instant(*self), dt_off(r) == *tz { unimplemented!() }
    #[verifier::external_body]
    pub fn offset(&self) -> (r: &FixedOffset) ensures *r == dt_off(*self) { unimplemented!() }
    #[verifier::external_body]
    pub fn format(&self, fmt: &Str) -> (r: DelayedFormat) ensures r.text() == chrono_text(fmt.bytes(), dt_off(*self), instant(*self)) { unimplemented!() }
}
//@cut type kind=const path=src/printer/printers.rs name=CLI_OPT_PREPEND_FMT_CHARLEN
//@end


impl PrinterLogMessage {
    pub open spec fn pf(&self) -> Seq<u8> { self.prepend_file.unwrap().bytes() }

//@cut fn path=src/printer/printers.rs impl=PrinterLogMessage name=datetime_to_string_fixedstruct ret=r
//@spec
    // C13: the datetime field is the message's own instant rendered in the requested zone under the requested format
    ensures r.bytes() == dt_text(self.prepend_date_format.bytes(), self.prepend_date_offset, fixedstruct.dt_spec())
//@end
//@cut fn path=src/printer/printers.rs impl=PrinterLogMessage name=datetime_to_string_sysline ret=r
//@spec
    ensures r.bytes() == dt_text(self.prepend_date_format.bytes(), self.prepend_date_offset, syslinep.dt)
//@end

//@ifunit PRN
//@cut fn path=src/printer/printers.rs impl=PrinterLogMessage name=print_line ret=r
//@replace "stdout_lock: &mut StdoutLock" "stdout_lock: &mut StdoutLock"
//@desugar_for 1 it
//@spec
    requires
        old(self).buffer@.len() + parts_bytes(linep.lineparts@).len() <= usize::MAX,
        linep.lineparts@.len() * 2 + 2 < usize::MAX,
    ensures
        final(self).same_config(old(self)), final(self).same_color_state(old(self)),
        final(self).buffer@.len() <= usize::MAX,
        // the logical stream grows by exactly the bytes of the line, in part order; the count is what reached the handle
        r is Ok ==> final(stdout_lock).view() + final(self).buffer@ == old(stdout_lock).view() + old(self).buffer@ + parts_bytes(linep.lineparts@),
        r is Ok ==> r->Ok_0.0 as int == final(stdout_lock).view().len() - old(stdout_lock).view().len(),
        r is Ok ==> final(stdout_lock).view().len() >= old(stdout_lock).view().len(),
        r is Ok ==> r->Ok_0.1 as int <= linep.lineparts@.len() * 2,
//@before "let mut it = vstd"
        let ghost v0 = stdout_lock.view();
        let ghost b0 = self.buffer@;
//@loop 1
            invariant_except_break
                vstd::std_specs::iter::IteratorSpec::decrease(&it.iter) is Some,
            invariant
                it.snapshot@ == it__snap0, it.wf(),
                it.seq().len() == linep.lineparts@.len(),
                forall|i: int| 0 <= i < linep.lineparts@.len() ==> *it.seq()[i] == linep.lineparts@[i],
                0 <= it.index@ <= it.seq().len(),
                self.same_config(old(self)), self.same_color_state(old(self)),
                b0.len() + parts_bytes(linep.lineparts@).len() <= usize::MAX, linep.lineparts@.len() * 2 + 2 < usize::MAX,
                stdout_lock.view() + self.buffer@ == v0 + b0 + parts_bytes(linep.lineparts@.take(it.index@ as int)),
                printed as int == stdout_lock.view().len() - v0.len(), stdout_lock.view().len() >= v0.len(),
                flushed as int <= it.index@ * 2,
                self.buffer@.len() <= usize::MAX,
            ensures
                it.index@ == it.seq().len(),
            decreases vstd::std_specs::iter::IteratorSpec::decrease(&it.iter).unwrap_or(arbitrary()),
//@after "let slice: &[u8]"
            proof {
                reveal(vs); reveal(ls);
                let k = it__old.index@ as int;
                lemma_parts_prefix(linep.lineparts@, k);
                assert(slice@ == linep.lineparts@[k].bytes());
                assert((stdout_lock.view() + self.buffer@).len() == stdout_lock.view().len() + self.buffer@.len());
                assert((v0 + b0 + parts_bytes(linep.lineparts@.take(k))).len() == v0.len() + b0.len() + parts_bytes(linep.lineparts@.take(k)).len());
                assert(parts_bytes(linep.lineparts@.take(k + 1)).len() == parts_bytes(linep.lineparts@.take(k)).len() + slice@.len());
            }
//@before_tail
        proof { assert(linep.lineparts@.take(linep.lineparts@.len() as int) =~= linep.lineparts@); }
//@at_entry
    proof { reveal(vs); reveal(ls); }
//@end

    /// C13: per-line prefix of a text message = [file-name field] ++ [datetime field], in that order
    pub open spec fn sys_prefix(&self, m: &SyslineP, with_file: bool, with_date: bool) -> Seq<u8> {
        (if with_file { self.pf() } else { Seq::<u8>::empty() })
        + (if with_date { dt_text(self.prepend_date_format.bytes(), self.prepend_date_offset, m.dt) } else { Seq::<u8>::empty() })
    }

//@cut fn path=src/printer/printers.rs impl=PrinterLogMessage name=print_sysline_ ret=r
//@desugar_for 1 it
//@spec
    requires
        old(self).buffer@.len() == 0,
        lines_payload(old(self).sys_prefix(syslinep, false, false), syslinep.lines@).len() <= usize::MAX,
        total_parts(syslinep.lines@) * 2 + 4 < usize::MAX,
    ensures
        final(self).same_config(old(self)), final(self).same_color_state(old(self)),
        r is Ok ==> final(self).buffer@.len() == 0,
        // C19: the count returned is the number of payload bytes written
        r is Ok ==> r->Ok_0.0 as int == lines_payload(old(self).sys_prefix(syslinep, false, false), syslinep.lines@).len(),
//@loop 1
            invariant_except_break
                vstd::std_specs::iter::IteratorSpec::decrease(&it.iter) is Some,
            invariant
                it.snapshot@ == it__snap0, it.wf(),
                it.seq().len() == syslinep.lines@.len(),
                forall|i: int| 0 <= i < syslinep.lines@.len() ==> *it.seq()[i] == syslinep.lines@[i],
                0 <= it.index@ <= it.seq().len(),
                self.same_config(old(self)), self.same_color_state(old(self)), self.buffer@.len() <= usize::MAX,
                
                lines_payload(self.sys_prefix(syslinep, false, false), syslinep.lines@).len() <= usize::MAX, total_parts(syslinep.lines@) * 2 + 4 < usize::MAX,
                stdout_lock.view() + self.buffer@ == lines_payload(self.sys_prefix(syslinep, false, false), syslinep.lines@.take(it.index@ as int)),
                printed as int == stdout_lock.view().len(),
                flushed as int <= 2 * total_parts(syslinep.lines@.take(it.index@ as int)),
            ensures
                it.index@ == it.seq().len(),
            decreases vstd::std_specs::iter::IteratorSpec::decrease(&it.iter).unwrap_or(arbitrary()),
//@after "let mut it = vstd"
            proof {
                reveal(vs); reveal(ls);
                let k = it__old.index@ as int;
                lemma_lines_prefix(self.sys_prefix(syslinep, false, false), syslinep.lines@, k);
                lemma_total_nonneg(syslinep.lines@.take(k));
                assert((stdout_lock.view() + self.buffer@).len() == stdout_lock.view().len() + self.buffer@.len());
                assert(lines_payload(self.sys_prefix(syslinep, false, false), syslinep.lines@.take(k + 1)).len()
                    == lines_payload(self.sys_prefix(syslinep, false, false), syslinep.lines@.take(k)).len() + self.sys_prefix(syslinep, false, false).len() + parts_bytes(syslinep.lines@[k].lineparts@).len());
            }
            let ghost k = it__old.index@ as int;
            let ghost base = lines_payload(self.sys_prefix(syslinep, false, false), syslinep.lines@.take(k));
//@before_opt "match self.print_line(linep"
            assert(stdout_lock.view() + self.buffer@ == base + self.sys_prefix(syslinep, false, false));
            assert((stdout_lock.view() + self.buffer@).len() == stdout_lock.view().len() + self.buffer@.len());
            let ghost v1 = stdout_lock.view();
//@after_opt "printed += p;"
                    assert(stdout_lock.view() + self.buffer@ == base + self.sys_prefix(syslinep, false, false) + parts_bytes(linep.lineparts@));
//@before "match buffer_flush_or_return__fn"
        proof {
            assert(syslinep.lines@.take(syslinep.lines@.len() as int) =~= syslinep.lines@);
            assert((stdout_lock.view() + self.buffer@).len() == stdout_lock.view().len() + self.buffer@.len());
        }
//@before_tail
        // C13 / C02: exactly the payload was written -- per line: file-name field, datetime field, line bytes -- nothing else
        assert(stdout_lock.view() == lines_payload(self.sys_prefix(syslinep, false, false), syslinep.lines@) && printed == stdout_lock.view().len() && self.buffer@.len() == 0);
//@mutate "printed += p;" "printed += 0;"
//@at_entry
    proof { reveal(vs); reveal(ls); }
//@end

//@cut fn path=src/printer/printers.rs impl=PrinterLogMessage name=print_sysline_prependdate ret=r
//@desugar_for 1 it
//@spec
    requires
        old(self).buffer@.len() == 0,
        old(self).prepend_date_format.bytes().len() > 0,
        lines_payload(old(self).sys_prefix(syslinep, false, true), syslinep.lines@).len() <= usize::MAX,
        total_parts(syslinep.lines@) * 2 + 4 < usize::MAX,
    ensures
        final(self).same_config(old(self)), final(self).same_color_state(old(self)),
        r is Ok ==> final(self).buffer@.len() == 0,
        // C19: the count returned is the number of payload bytes written
        r is Ok ==> r->Ok_0.0 as int == lines_payload(old(self).sys_prefix(syslinep, false, true), syslinep.lines@).len(),
//@loop 1
            invariant_except_break
                vstd::std_specs::iter::IteratorSpec::decrease(&it.iter) is Some,
            invariant
                it.snapshot@ == it__snap0, it.wf(),
                it.seq().len() == syslinep.lines@.len(),
                forall|i: int| 0 <= i < syslinep.lines@.len() ==> *it.seq()[i] == syslinep.lines@[i],
                0 <= it.index@ <= it.seq().len(),
                self.same_config(old(self)), self.same_color_state(old(self)), self.buffer@.len() <= usize::MAX,
                dtb@ == dt_text(self.prepend_date_format.bytes(), self.prepend_date_offset, syslinep.dt),
                lines_payload(self.sys_prefix(syslinep, false, true), syslinep.lines@).len() <= usize::MAX, total_parts(syslinep.lines@) * 2 + 4 < usize::MAX,
                stdout_lock.view() + self.buffer@ == lines_payload(self.sys_prefix(syslinep, false, true), syslinep.lines@.take(it.index@ as int)),
                printed as int == stdout_lock.view().len(),
                flushed as int <= 2 * total_parts(syslinep.lines@.take(it.index@ as int)),
            ensures
                it.index@ == it.seq().len(),
            decreases vstd::std_specs::iter::IteratorSpec::decrease(&it.iter).unwrap_or(arbitrary()),
//@after "let mut it = vstd"
            proof {
                reveal(vs); reveal(ls);
                let k = it__old.index@ as int;
                lemma_lines_prefix(self.sys_prefix(syslinep, false, true), syslinep.lines@, k);
                lemma_total_nonneg(syslinep.lines@.take(k));
                assert((stdout_lock.view() + self.buffer@).len() == stdout_lock.view().len() + self.buffer@.len());
                assert(lines_payload(self.sys_prefix(syslinep, false, true), syslinep.lines@.take(k + 1)).len()
                    == lines_payload(self.sys_prefix(syslinep, false, true), syslinep.lines@.take(k)).len() + self.sys_prefix(syslinep, false, true).len() + parts_bytes(syslinep.lines@[k].lineparts@).len());
            }
            let ghost k = it__old.index@ as int;
            let ghost base = lines_payload(self.sys_prefix(syslinep, false, true), syslinep.lines@.take(k));
//@before_opt "match self.print_line(linep"
            assert(stdout_lock.view() + self.buffer@ == base + self.sys_prefix(syslinep, false, true));
            assert((stdout_lock.view() + self.buffer@).len() == stdout_lock.view().len() + self.buffer@.len());
            let ghost v1 = stdout_lock.view();
//@after_opt "printed += p;"
                    assert(stdout_lock.view() + self.buffer@ == base + self.sys_prefix(syslinep, false, true) + parts_bytes(linep.lineparts@));
//@before "match buffer_flush_or_return__fn"
        proof {
            assert(syslinep.lines@.take(syslinep.lines@.len() as int) =~= syslinep.lines@);
            assert((stdout_lock.view() + self.buffer@).len() == stdout_lock.view().len() + self.buffer@.len());
        }
//@before_tail
        // C13 / C02: exactly the payload was written -- per line: file-name field, datetime field, line bytes -- nothing else
        assert(stdout_lock.view() == lines_payload(self.sys_prefix(syslinep, false, true), syslinep.lines@) && printed == stdout_lock.view().len() && self.buffer@.len() == 0);
//@at_entry
    proof { reveal(vs); reveal(ls); }
//@end

//@cut fn path=src/printer/printers.rs impl=PrinterLogMessage name=print_sysline_prependfile ret=r
//@desugar_for 1 it
//@spec
    requires
        old(self).buffer@.len() == 0,
        old(self).prepend_file is Some,
        lines_payload(old(self).sys_prefix(syslinep, true, false), syslinep.lines@).len() <= usize::MAX,
        total_parts(syslinep.lines@) * 2 + 4 < usize::MAX,
    ensures
        final(self).same_config(old(self)), final(self).same_color_state(old(self)),
        r is Ok ==> final(self).buffer@.len() == 0,
        // C19: the count returned is the number of payload bytes written
        r is Ok ==> r->Ok_0.0 as int == lines_payload(old(self).sys_prefix(syslinep, true, false), syslinep.lines@).len(),
//@loop 1
            invariant_except_break
                vstd::std_specs::iter::IteratorSpec::decrease(&it.iter) is Some,
            invariant
                it.snapshot@ == it__snap0, it.wf(),
                it.seq().len() == syslinep.lines@.len(),
                forall|i: int| 0 <= i < syslinep.lines@.len() ==> *it.seq()[i] == syslinep.lines@[i],
                0 <= it.index@ <= it.seq().len(),
                self.same_config(old(self)), self.same_color_state(old(self)), self.buffer@.len() <= usize::MAX, self.prepend_file is Some,
                
                lines_payload(self.sys_prefix(syslinep, true, false), syslinep.lines@).len() <= usize::MAX, total_parts(syslinep.lines@) * 2 + 4 < usize::MAX,
                stdout_lock.view() + self.buffer@ == lines_payload(self.sys_prefix(syslinep, true, false), syslinep.lines@.take(it.index@ as int)),
                printed as int == stdout_lock.view().len(),
                flushed as int <= 2 * total_parts(syslinep.lines@.take(it.index@ as int)),
            ensures
                it.index@ == it.seq().len(),
            decreases vstd::std_specs::iter::IteratorSpec::decrease(&it.iter).unwrap_or(arbitrary()),
//@after "let mut it = vstd"
            proof {
                reveal(vs); reveal(ls);
                let k = it__old.index@ as int;
                lemma_lines_prefix(self.sys_prefix(syslinep, true, false), syslinep.lines@, k);
                lemma_total_nonneg(syslinep.lines@.take(k));
                assert((stdout_lock.view() + self.buffer@).len() == stdout_lock.view().len() + self.buffer@.len());
                assert(lines_payload(self.sys_prefix(syslinep, true, false), syslinep.lines@.take(k + 1)).len()
                    == lines_payload(self.sys_prefix(syslinep, true, false), syslinep.lines@.take(k)).len() + self.sys_prefix(syslinep, true, false).len() + parts_bytes(syslinep.lines@[k].lineparts@).len());
            }
            let ghost k = it__old.index@ as int;
            let ghost base = lines_payload(self.sys_prefix(syslinep, true, false), syslinep.lines@.take(k));
//@before_opt "match self.print_line(linep"
            assert(stdout_lock.view() + self.buffer@ == base + self.sys_prefix(syslinep, true, false));
            assert((stdout_lock.view() + self.buffer@).len() == stdout_lock.view().len() + self.buffer@.len());
            let ghost v1 = stdout_lock.view();
//@after_opt "printed += p;"
                    assert(stdout_lock.view() + self.buffer@ == base + self.sys_prefix(syslinep, true, false) + parts_bytes(linep.lineparts@));
//@before "match buffer_flush_or_return__fn"
        proof {
            assert(syslinep.lines@.take(syslinep.lines@.len() as int) =~= syslinep.lines@);
            assert((stdout_lock.view() + self.buffer@).len() == stdout_lock.view().len() + self.buffer@.len());
        }
//@before_tail
        // C13 / C02: exactly the payload was written -- per line: file-name field, datetime field, line bytes -- nothing else
        assert(stdout_lock.view() == lines_payload(self.sys_prefix(syslinep, true, false), syslinep.lines@) && printed == stdout_lock.view().len() && self.buffer@.len() == 0);
//@at_entry
    proof { reveal(vs); reveal(ls); }
//@end

//@cut fn path=src/printer/printers.rs impl=PrinterLogMessage name=print_sysline_prependfile_prependdate ret=r
//@desugar_for 1 it
//@spec
    requires
        old(self).buffer@.len() == 0,
        old(self).prepend_file is Some,
        old(self).prepend_date_format.bytes().len() > 0,
        lines_payload(old(self).sys_prefix(syslinep, true, true), syslinep.lines@).len() <= usize::MAX,
        total_parts(syslinep.lines@) * 2 + 4 < usize::MAX,
    ensures
        final(self).same_config(old(self)), final(self).same_color_state(old(self)),
        r is Ok ==> final(self).buffer@.len() == 0,
        // C19: the count returned is the number of payload bytes written
        r is Ok ==> r->Ok_0.0 as int == lines_payload(old(self).sys_prefix(syslinep, true, true), syslinep.lines@).len(),
//@loop 1
            invariant_except_break
                vstd::std_specs::iter::IteratorSpec::decrease(&it.iter) is Some,
            invariant
                it.snapshot@ == it__snap0, it.wf(),
                it.seq().len() == syslinep.lines@.len(),
                forall|i: int| 0 <= i < syslinep.lines@.len() ==> *it.seq()[i] == syslinep.lines@[i],
                0 <= it.index@ <= it.seq().len(),
                self.same_config(old(self)), self.same_color_state(old(self)), self.buffer@.len() <= usize::MAX, self.prepend_file is Some,
                dtb@ == dt_text(self.prepend_date_format.bytes(), self.prepend_date_offset, syslinep.dt),
                lines_payload(self.sys_prefix(syslinep, true, true), syslinep.lines@).len() <= usize::MAX, total_parts(syslinep.lines@) * 2 + 4 < usize::MAX,
                stdout_lock.view() + self.buffer@ == lines_payload(self.sys_prefix(syslinep, true, true), syslinep.lines@.take(it.index@ as int)),
                printed as int == stdout_lock.view().len(),
                flushed as int <= 2 * total_parts(syslinep.lines@.take(it.index@ as int)),
            ensures
                it.index@ == it.seq().len(),
            decreases vstd::std_specs::iter::IteratorSpec::decrease(&it.iter).unwrap_or(arbitrary()),
//@after "let mut it = vstd"
            proof {
                reveal(vs); reveal(ls);
                let k = it__old.index@ as int;
                lemma_lines_prefix(self.sys_prefix(syslinep, true, true), syslinep.lines@, k);
                lemma_total_nonneg(syslinep.lines@.take(k));
                assert((stdout_lock.view() + self.buffer@).len() == stdout_lock.view().len() + self.buffer@.len());
                assert(lines_payload(self.sys_prefix(syslinep, true, true), syslinep.lines@.take(k + 1)).len()
                    == lines_payload(self.sys_prefix(syslinep, true, true), syslinep.lines@.take(k)).len() + self.sys_prefix(syslinep, true, true).len() + parts_bytes(syslinep.lines@[k].lineparts@).len());
            }
            let ghost k = it__old.index@ as int;
            let ghost base = lines_payload(self.sys_prefix(syslinep, true, true), syslinep.lines@.take(k));
//@before "match buffer_write_or_return__fn(&mut stdout_lock, &mut self.buffer, dtb,"
            proof {
                assert(stdout_lock.view() + self.buffer@ == base + self.pf());
                assert((stdout_lock.view() + self.buffer@).len() == stdout_lock.view().len() + self.buffer@.len());
                assert(self.sys_prefix(syslinep, true, true).len() == self.pf().len() + dtb@.len());
            }
//@before_opt "match self.print_line(linep"
            assert(stdout_lock.view() + self.buffer@ == base + self.sys_prefix(syslinep, true, true));
            assert((stdout_lock.view() + self.buffer@).len() == stdout_lock.view().len() + self.buffer@.len());
            let ghost v1 = stdout_lock.view();
//@after_opt "printed += p;"
                    assert(stdout_lock.view() + self.buffer@ == base + self.sys_prefix(syslinep, true, true) + parts_bytes(linep.lineparts@));
//@before "match buffer_flush_or_return__fn"
        proof {
            assert(syslinep.lines@.take(syslinep.lines@.len() as int) =~= syslinep.lines@);
            assert((stdout_lock.view() + self.buffer@).len() == stdout_lock.view().len() + self.buffer@.len());
        }
//@before_tail
        // C13 / C02: exactly the payload was written -- per line: file-name field, datetime field, line bytes -- nothing else
        assert(stdout_lock.view() == lines_payload(self.sys_prefix(syslinep, true, true), syslinep.lines@) && printed == stdout_lock.view().len() && self.buffer@.len() == 0);
//@mutate "self.prepend_file.as_ref().unwrap().as_bytes(), &mut printed" "dtb, &mut printed"
//@at_entry
    proof { reveal(vs); reveal(ls); }
//@end

//@endif
    /// C13: payload of one accounting record = [file-name field] ++ [datetime field] ++ record text, in that order
    pub open spec fn fx_payload(&self, m: &FixedStruct, buflen: int, with_file: bool, with_date: bool) -> Seq<u8> {
        (if with_file { self.pf() } else { Seq::<u8>::empty() })
        + (if with_date { dt_text(self.prepend_date_format.bytes(), self.prepend_date_offset, m.dt_spec()) } else { Seq::<u8>::empty() })
        + m.render(buflen)
    }
    /// the colour state is untouched (non-colour printers)
    pub open spec fn same_color_state(&self, o: &Self) -> bool {
        self.stdout_color == o.stdout_color && self.color_spec_last == o.color_spec_last && self.same_colors(o)
    }
    pub open spec fn same_config(&self, o: &Self) -> bool {
        self.prepend_file == o.prepend_file && self.prepend_date_format == o.prepend_date_format && self.prepend_date_offset == o.prepend_date_offset
        && self.do_color == o.do_color && self.do_prepend_file == o.do_prepend_file && self.do_prepend_date == o.do_prepend_date
    }

//@ifunit PRN
//@cut fn path=src/printer/printers.rs impl=PrinterLogMessage name=print_fixedstruct_ ret=r
//@spec
    requires old(self).buffer@.len() == 0
    ensures
        final(self).same_config(old(self)), final(self).same_color_state(old(self)),
        r is Ok ==> final(self).buffer@.len() == 0,
        // C19: the count returned is the number of payload bytes written
        r is Ok ==> r->Ok_0.0 as int == old(self).fx_payload(fixedstruct, old(buffer)@.len() as int, false, false).len(),
//@before_tail
        // C13 / C02: exactly the payload was written, nothing else; every byte written was counted
        assert(stdout_lock.view() == self.fx_payload(fixedstruct, buffer@.len() as int, false, false) && printed == stdout_lock.view().len() && self.buffer@.len() == 0);
//@at_entry
    proof { reveal(vs); reveal(ls); }
//@end

//@cut fn path=src/printer/printers.rs impl=PrinterLogMessage name=print_fixedstruct_prependdate ret=r
//@spec
    requires
        old(self).buffer@.len() == 0,
        old(self).prepend_date_format.bytes().len() > 0,
        old(self).fx_payload(fixedstruct, old(buffer)@.len() as int, false, true).len() <= usize::MAX,
    ensures
        final(self).same_config(old(self)), final(self).same_color_state(old(self)),
        r is Ok ==> final(self).buffer@.len() == 0,
        r is Ok ==> r->Ok_0.0 as int == old(self).fx_payload(fixedstruct, old(buffer)@.len() as int, false, true).len(),
//@before_tail
        assert(stdout_lock.view() == self.fx_payload(fixedstruct, buffer@.len() as int, false, true) && printed == stdout_lock.view().len() && self.buffer@.len() == 0);
//@at_entry
    proof { reveal(vs); reveal(ls); }
//@end

//@cut fn path=src/printer/printers.rs impl=PrinterLogMessage name=print_fixedstruct_prependfile ret=r
//@spec
    requires
        old(self).buffer@.len() == 0,
        old(self).prepend_file is Some,
        old(self).fx_payload(fixedstruct, old(buffer)@.len() as int, true, false).len() <= usize::MAX,
    ensures
        final(self).same_config(old(self)), final(self).same_color_state(old(self)),
        r is Ok ==> final(self).buffer@.len() == 0,
        r is Ok ==> r->Ok_0.0 as int == old(self).fx_payload(fixedstruct, old(buffer)@.len() as int, true, false).len(),
//@before_tail
        assert(stdout_lock.view() == self.fx_payload(fixedstruct, buffer@.len() as int, true, false) && printed == stdout_lock.view().len() && self.buffer@.len() == 0);
//@at_entry
    proof { reveal(vs); reveal(ls); }
//@end

//@cut fn path=src/printer/printers.rs impl=PrinterLogMessage name=print_fixedstruct_prependfile_prependdate ret=r
//@spec
    requires
        old(self).buffer@.len() == 0,
        old(self).prepend_file is Some,
        old(self).prepend_date_format.bytes().len() > 0,
        old(self).fx_payload(fixedstruct, old(buffer)@.len() as int, true, true).len() <= usize::MAX,
    ensures
        final(self).same_config(old(self)), final(self).same_color_state(old(self)),
        r is Ok ==> final(self).buffer@.len() == 0,
        r is Ok ==> r->Ok_0.0 as int == old(self).fx_payload(fixedstruct, old(buffer)@.len() as int, true, true).len(),
//@before_tail
        // C13: the file-name field comes before the datetime field, as for every other kind of message
        assert(stdout_lock.view() == self.fx_payload(fixedstruct, buffer@.len() as int, true, true) && printed == stdout_lock.view().len() && self.buffer@.len() == 0);
//@mutate "&mut self.buffer, prepend_file," "&mut self.buffer, dtb,"
//@at_entry
    proof { reveal(vs); reveal(ls); }
//@end

//@endif
    /// configuration invariant established by PrinterLogMessage::new (do_prepend_* mirror the option values)
    pub open spec fn config_ok(&self) -> bool {
        &&& self.do_prepend_file == (self.prepend_file is Some)
        &&& self.do_prepend_date == (self.prepend_date_format.bytes().len() > 0)
        &&& self.buffer@.len() == 0
        &&& self.col_ok()
    }

//@ifunit PRN
//@cut fn path=src/printer/printers.rs impl=PrinterLogMessage name=new ret=r
//@replace "std::io::stdout()" "verif_stdout()"
//@replace "termcolor::StandardStream::stdout(color_choice)" "StandardStream::stdout(color_choice)"
//@replace "Some(COLOR_DEFAULT)" "Some(verif_color_default())"
//@replace "prepend_date_format.unwrap_or_default()" "verif_unwrap_or_default(prepend_date_format)"
//@spec
    ensures
        // C13: the printer is set up with exactly what was asked for: the file-name field is on iff a name was given, the datetime
        // field iff a non-empty format was given; the name, format and zone are the ones passed in; nothing is buffered; the colour
        // bookkeeping starts consistent with the stream
        r.config_ok(),
        r.prepend_file == prepend_file, r.prepend_date_offset == prepend_date_offset,
        prepend_date_format is Some ==> r.prepend_date_format == prepend_date_format.unwrap(),
        prepend_date_format is None ==> r.prepend_date_format.bytes().len() == 0,
        r.do_color == !(color_choice is Never),
        cid(r.color_spec_default) == cid_fg(cid_new(), Some(color_default())),
        cid(r.color_spec_sysline) == cid_fg(cid_new(), Some(color_logmessage)),
        cid(r.color_spec_datetime) == cid_ul(cid_fg(cid_new(), Some(color_logmessage)), true),
//@mutate "do_prepend_file: prepend_file.is_some()," "do_prepend_file: prepend_file.is_none(),"
//@end
//@endif
//@ifunit PRN
    // ---- assumed until brought under contract: the colour variants write the same payload (C13 "pure decoration")
    // and return its length; only escape sequences are added.  Listed in the evidence as assumptions.

//@cut fn path=src/printer/printers.rs impl=PrinterLogMessage name=print_sysline_color ret=r rlimit=200
//@desugar_for 1 it
//@spec
    requires
        old(self).buffer@.len() == 0,
        old(self).col_ok(),
        syslinep.dt_beg <= syslinep.dt_end,
        parts_nonempty(syslinep.lines@),
        lines_payload(old(self).sys_prefix(syslinep, false, false), syslinep.lines@).len() <= usize::MAX,
        total_parts(syslinep.lines@) * 15 + 16 < usize::MAX,
    ensures
        final(self).same_config(old(self)), final(self).same_colors(old(self)),
        r is Ok ==> final(self).buffer@.len() == 0 && final(self).col_ok() && final(self).stdout_color.cur() == cid(old(self).color_spec_default),
        // C13: the payload bytes are those of the non-colour variant; per line [file][date] in the default colour, then the
        // line with (first line only) its datetime range highlighted -- a function of the message, not of block boundaries (C12)
        r is Ok ==> final(self).stdout_color.cview() == old(self).stdout_color.cview()
            + clines((Seq::<u8>::empty() + Seq::<u8>::empty()), cid(old(self).color_spec_default), syslinep.lines@, syslinep.dt_beg as int, syslinep.dt_end as int,
                     cid(old(self).color_spec_sysline), cid(old(self).color_spec_datetime), (if syslinep.lines@.len() > 0 && parts_bytes(syslinep.lines@[0].lineparts@).len() > 0 { hl_col(parts_bytes(syslinep.lines@[0].lineparts@).len() - 1, syslinep.dt_beg as int, syslinep.dt_end as int, cid(old(self).color_spec_sysline), cid(old(self).color_spec_datetime)) } else { cid(old(self).color_spec_sysline) })),
        // C19: the count returned is the number of payload bytes written
        r is Ok ==> r->Ok_0.0 as int == lines_payload(old(self).sys_prefix(syslinep, false, false), syslinep.lines@).len(),
//@at_entry
    let ghost cv0 = self.stdout_color.cview();
    let ghost c_def = cid(self.color_spec_default);
    let ghost c_sys = cid(self.color_spec_sysline);
    let ghost c_dt = cid(self.color_spec_datetime);
    let ghost dtb_i = syslinep.dt_beg as int;
    let ghost dte_i = syslinep.dt_end as int;
    let ghost self0 = *self;
    proof { lemma_streams_empty(&self.stdout_color, self.buffer@); }
    let ghost c_cont = (if syslinep.lines@.len() > 0 && parts_bytes(syslinep.lines@[0].lineparts@).len() > 0 { hl_col(parts_bytes(syslinep.lines@[0].lineparts@).len() - 1, dtb_i, dte_i, c_sys, c_dt) } else { c_sys });
//@before "let mut it = vstd"
    let ghost pre = (Seq::<u8>::empty() + Seq::<u8>::empty());
    proof { lemma_streams_empty(&self.stdout_color, self.buffer@); assert(syslinep.lines@.take(0) =~= Seq::<LineP>::empty()); assert(cv0 + Seq::<(u8, int)>::empty() =~= cv0); }
//@loop 1
            invariant_except_break
                vstd::std_specs::iter::IteratorSpec::decrease(&it.iter) is Some,
            invariant
                it.snapshot@ == it__snap0, it.wf(),
                it.seq().len() == syslinep.lines@.len(),
                forall|i: int| 0 <= i < syslinep.lines@.len() ==> *it.seq()[i] == syslinep.lines@[i],
                0 <= it.index@ <= it.seq().len(),
                parts_nonempty(syslinep.lines@), syslinep.dt_beg <= syslinep.dt_end, dtb_i == syslinep.dt_beg as int, dte_i == syslinep.dt_end as int,
                self.same_config(&self0), self.same_colors(&self0), self0 == *old(self),
                c_def == cid(self.color_spec_default), c_sys == cid(self.color_spec_sysline), c_dt == cid(self.color_spec_datetime),
                c_cont == (if syslinep.lines@.len() > 0 && parts_bytes(syslinep.lines@[0].lineparts@).len() > 0 { hl_col(parts_bytes(syslinep.lines@[0].lineparts@).len() - 1, dtb_i, dte_i, c_sys, c_dt) } else { c_sys }),
                pre == (Seq::<u8>::empty() + Seq::<u8>::empty()),
                lines_payload(self.sys_prefix(syslinep, false, false), syslinep.lines@).len() <= usize::MAX, total_parts(syslinep.lines@) * 15 + 16 < usize::MAX,
                self.col_ok(), self.buffer@.len() == 0,
                line_first == (it.index@ == 0),
                self.stdout_color.cur() == (if it.index@ == 0 { c_sys } else { c_cont }),
                self.stdout_color.cview() == cv0 + clines(pre, c_def, syslinep.lines@.take(it.index@ as int), dtb_i, dte_i, c_sys, c_dt, c_cont),
                printed as int == lines_payload(self.sys_prefix(syslinep, false, false), syslinep.lines@.take(it.index@ as int)).len(),
                flushed as int <= 15 * total_parts(syslinep.lines@.take(it.index@ as int)) + 2,
            ensures
                it.index@ == it.seq().len(),
            decreases vstd::std_specs::iter::IteratorSpec::decrease(&it.iter).unwrap_or(arbitrary()),
//@after "let mut it = vstd"
            let ghost k = it__old.index@ as int;
            let ghost base = clines(pre, c_def, syslinep.lines@.take(k), dtb_i, dte_i, c_sys, c_dt, c_cont);
            proof {
                lemma_clines_prefix(pre, c_def, syslinep.lines@, k, dtb_i, dte_i, c_sys, c_dt, c_cont);
                lemma_lines_prefix(self.sys_prefix(syslinep, false, false), syslinep.lines@, k);
                lemma_total_nonneg(syslinep.lines@.take(k));
                lemma_streams_empty(&self.stdout_color, self.buffer@); lemma_paint_concat_auto();
                assert(self.sys_prefix(syslinep, false, false) =~= pre);
                assert(pre =~= Seq::<u8>::empty());
            }
//@before "match setcolor_or_return__fn(&mut self.stdout_color, &mut self.buffer, &self.color_spec_default" 1
    proof {
        assert(syslinep.lines@.take(syslinep.lines@.len() as int) =~= syslinep.lines@);
        lemma_streams_empty(&self.stdout_color, self.buffer@);
    }
//@before "black_box(&stdout_lock);"
    proof { lemma_streams_empty(&self.stdout_color, self.buffer@); }
//@end

//@cut fn path=src/printer/printers.rs impl=PrinterLogMessage name=print_sysline_prependdate_color ret=r rlimit=200
//@desugar_for 1 it
//@spec
    requires
        old(self).buffer@.len() == 0,
        old(self).col_ok(),
        syslinep.dt_beg <= syslinep.dt_end,
        parts_nonempty(syslinep.lines@),
        lines_payload(old(self).sys_prefix(syslinep, false, true), syslinep.lines@).len() <= usize::MAX,
        total_parts(syslinep.lines@) * 15 + 16 < usize::MAX,
    ensures
        final(self).same_config(old(self)), final(self).same_colors(old(self)),
        r is Ok ==> final(self).buffer@.len() == 0 && final(self).col_ok() && final(self).stdout_color.cur() == cid(old(self).color_spec_default),
        // C13: the payload bytes are those of the non-colour variant; per line [file][date] in the default colour, then the
        // line with (first line only) its datetime range highlighted -- a function of the message, not of block boundaries (C12)
        r is Ok ==> final(self).stdout_color.cview() == old(self).stdout_color.cview()
            + clines((Seq::<u8>::empty() + dt_text(old(self).prepend_date_format.bytes(), old(self).prepend_date_offset, syslinep.dt)), cid(old(self).color_spec_default), syslinep.lines@, syslinep.dt_beg as int, syslinep.dt_end as int,
                     cid(old(self).color_spec_sysline), cid(old(self).color_spec_datetime), cid(old(self).color_spec_sysline)),
        // C19: the count returned is the number of payload bytes written
        r is Ok ==> r->Ok_0.0 as int == lines_payload(old(self).sys_prefix(syslinep, false, true), syslinep.lines@).len(),
//@at_entry
    let ghost cv0 = self.stdout_color.cview();
    let ghost c_def = cid(self.color_spec_default);
    let ghost c_sys = cid(self.color_spec_sysline);
    let ghost c_dt = cid(self.color_spec_datetime);
    let ghost dtb_i = syslinep.dt_beg as int;
    let ghost dte_i = syslinep.dt_end as int;
    let ghost self0 = *self;
    proof { lemma_streams_empty(&self.stdout_color, self.buffer@); }
    let ghost c_cont = c_sys;
//@before "let mut it = vstd"
    let ghost pre = (Seq::<u8>::empty() + dt_text(self.prepend_date_format.bytes(), self.prepend_date_offset, syslinep.dt));
    proof { lemma_streams_empty(&self.stdout_color, self.buffer@); assert(syslinep.lines@.take(0) =~= Seq::<LineP>::empty()); assert(cv0 + Seq::<(u8, int)>::empty() =~= cv0); }
//@loop 1
            invariant_except_break
                vstd::std_specs::iter::IteratorSpec::decrease(&it.iter) is Some,
            invariant
                it.snapshot@ == it__snap0, it.wf(),
                it.seq().len() == syslinep.lines@.len(),
                forall|i: int| 0 <= i < syslinep.lines@.len() ==> *it.seq()[i] == syslinep.lines@[i],
                0 <= it.index@ <= it.seq().len(),
                parts_nonempty(syslinep.lines@), syslinep.dt_beg <= syslinep.dt_end, dtb_i == syslinep.dt_beg as int, dte_i == syslinep.dt_end as int,
                self.same_config(&self0), self.same_colors(&self0), self0 == *old(self),
                c_def == cid(self.color_spec_default), c_sys == cid(self.color_spec_sysline), c_dt == cid(self.color_spec_datetime),
                c_cont == c_sys,
                pre == (Seq::<u8>::empty() + dt_text(self.prepend_date_format.bytes(), self.prepend_date_offset, syslinep.dt)),
                dtb@ == dt_text(self.prepend_date_format.bytes(), self.prepend_date_offset, syslinep.dt),
                lines_payload(self.sys_prefix(syslinep, false, true), syslinep.lines@).len() <= usize::MAX, total_parts(syslinep.lines@) * 15 + 16 < usize::MAX,
                self.col_ok(), self.buffer@.len() == 0,
                line_first == (it.index@ == 0),
                
                self.stdout_color.cview() == cv0 + clines(pre, c_def, syslinep.lines@.take(it.index@ as int), dtb_i, dte_i, c_sys, c_dt, c_cont),
                printed as int == lines_payload(self.sys_prefix(syslinep, false, true), syslinep.lines@.take(it.index@ as int)).len(),
                flushed as int <= 15 * total_parts(syslinep.lines@.take(it.index@ as int)) + 2,
            ensures
                it.index@ == it.seq().len(),
            decreases vstd::std_specs::iter::IteratorSpec::decrease(&it.iter).unwrap_or(arbitrary()),
//@after "let mut it = vstd"
            let ghost k = it__old.index@ as int;
            let ghost base = clines(pre, c_def, syslinep.lines@.take(k), dtb_i, dte_i, c_sys, c_dt, c_cont);
            proof {
                lemma_clines_prefix(pre, c_def, syslinep.lines@, k, dtb_i, dte_i, c_sys, c_dt, c_cont);
                lemma_lines_prefix(self.sys_prefix(syslinep, false, true), syslinep.lines@, k);
                lemma_total_nonneg(syslinep.lines@.take(k));
                lemma_streams_empty(&self.stdout_color, self.buffer@); lemma_paint_concat_auto();
                assert(self.sys_prefix(syslinep, false, true) =~= pre);
            }
//@after "match buffer_flush_or_return__fn(" 1
            proof {
                lemma_streams_empty(&self.stdout_color, self.buffer@);
                assert(self.stdout_color.cview() == cv0 + base + paint(pre, c_def));
            }
//@before "if line_first"
            proof { lemma_streams_empty(&self.stdout_color, self.buffer@); assert(self.stdout_color.cur() == c_sys); }
//@before "match setcolor_or_return__fn(&mut self.stdout_color, &mut self.buffer, &self.color_spec_default" 2
    proof {
        assert(syslinep.lines@.take(syslinep.lines@.len() as int) =~= syslinep.lines@);
        lemma_streams_empty(&self.stdout_color, self.buffer@);
    }
//@before "black_box(&stdout_lock);"
    proof { lemma_streams_empty(&self.stdout_color, self.buffer@); }
//@end

//@cut fn path=src/printer/printers.rs impl=PrinterLogMessage name=print_sysline_prependfile_color ret=r rlimit=200
//@desugar_for 1 it
//@spec
    requires
        old(self).buffer@.len() == 0,
        old(self).col_ok(),
        syslinep.dt_beg <= syslinep.dt_end,
        parts_nonempty(syslinep.lines@),
        old(self).prepend_file is Some,
        lines_payload(old(self).sys_prefix(syslinep, true, false), syslinep.lines@).len() <= usize::MAX,
        total_parts(syslinep.lines@) * 15 + 16 < usize::MAX,
    ensures
        final(self).same_config(old(self)), final(self).same_colors(old(self)),
        r is Ok ==> final(self).buffer@.len() == 0 && final(self).col_ok() && final(self).stdout_color.cur() == cid(old(self).color_spec_default),
        // C13: the payload bytes are those of the non-colour variant; per line [file][date] in the default colour, then the
        // line with (first line only) its datetime range highlighted -- a function of the message, not of block boundaries (C12)
        r is Ok ==> final(self).stdout_color.cview() == old(self).stdout_color.cview()
            + clines((old(self).pf() + Seq::<u8>::empty()), cid(old(self).color_spec_default), syslinep.lines@, syslinep.dt_beg as int, syslinep.dt_end as int,
                     cid(old(self).color_spec_sysline), cid(old(self).color_spec_datetime), cid(old(self).color_spec_sysline)),
        // C19: the count returned is the number of payload bytes written
        r is Ok ==> r->Ok_0.0 as int == lines_payload(old(self).sys_prefix(syslinep, true, false), syslinep.lines@).len(),
//@at_entry
    let ghost cv0 = self.stdout_color.cview();
    let ghost c_def = cid(self.color_spec_default);
    let ghost c_sys = cid(self.color_spec_sysline);
    let ghost c_dt = cid(self.color_spec_datetime);
    let ghost dtb_i = syslinep.dt_beg as int;
    let ghost dte_i = syslinep.dt_end as int;
    let ghost self0 = *self;
    proof { lemma_streams_empty(&self.stdout_color, self.buffer@); }
    let ghost c_cont = c_sys;
//@before "let mut it = vstd"
    let ghost pre = (self.pf() + Seq::<u8>::empty());
    proof { lemma_streams_empty(&self.stdout_color, self.buffer@); assert(syslinep.lines@.take(0) =~= Seq::<LineP>::empty()); assert(cv0 + Seq::<(u8, int)>::empty() =~= cv0); }
//@loop 1
            invariant_except_break
                vstd::std_specs::iter::IteratorSpec::decrease(&it.iter) is Some,
            invariant
                it.snapshot@ == it__snap0, it.wf(),
                it.seq().len() == syslinep.lines@.len(),
                forall|i: int| 0 <= i < syslinep.lines@.len() ==> *it.seq()[i] == syslinep.lines@[i],
                0 <= it.index@ <= it.seq().len(),
                parts_nonempty(syslinep.lines@), syslinep.dt_beg <= syslinep.dt_end, dtb_i == syslinep.dt_beg as int, dte_i == syslinep.dt_end as int,
                self.same_config(&self0), self.same_colors(&self0), self0 == *old(self),
                c_def == cid(self.color_spec_default), c_sys == cid(self.color_spec_sysline), c_dt == cid(self.color_spec_datetime),
                c_cont == c_sys,
                pre == (self.pf() + Seq::<u8>::empty()),
                prepend_file@ == self.pf(), self.prepend_file is Some,
                lines_payload(self.sys_prefix(syslinep, true, false), syslinep.lines@).len() <= usize::MAX, total_parts(syslinep.lines@) * 15 + 16 < usize::MAX,
                self.col_ok(), self.buffer@.len() == 0,
                line_first == (it.index@ == 0),
                
                self.stdout_color.cview() == cv0 + clines(pre, c_def, syslinep.lines@.take(it.index@ as int), dtb_i, dte_i, c_sys, c_dt, c_cont),
                printed as int == lines_payload(self.sys_prefix(syslinep, true, false), syslinep.lines@.take(it.index@ as int)).len(),
                flushed as int <= 15 * total_parts(syslinep.lines@.take(it.index@ as int)) + 2,
            ensures
                it.index@ == it.seq().len(),
            decreases vstd::std_specs::iter::IteratorSpec::decrease(&it.iter).unwrap_or(arbitrary()),
//@after "let mut it = vstd"
            let ghost k = it__old.index@ as int;
            let ghost base = clines(pre, c_def, syslinep.lines@.take(k), dtb_i, dte_i, c_sys, c_dt, c_cont);
            proof {
                lemma_clines_prefix(pre, c_def, syslinep.lines@, k, dtb_i, dte_i, c_sys, c_dt, c_cont);
                lemma_lines_prefix(self.sys_prefix(syslinep, true, false), syslinep.lines@, k);
                lemma_total_nonneg(syslinep.lines@.take(k));
                lemma_streams_empty(&self.stdout_color, self.buffer@); lemma_paint_concat_auto();
                assert(self.sys_prefix(syslinep, true, false) =~= pre);
            }
//@after "match buffer_flush_or_return__fn(" 1
            proof {
                lemma_streams_empty(&self.stdout_color, self.buffer@);
                assert(self.stdout_color.cview() == cv0 + base + paint(pre, c_def));
            }
//@before "if line_first"
            proof { lemma_streams_empty(&self.stdout_color, self.buffer@); assert(self.stdout_color.cur() == c_sys); }
//@before "match setcolor_or_return__fn(&mut self.stdout_color, &mut self.buffer, &self.color_spec_default" 2
    proof {
        assert(syslinep.lines@.take(syslinep.lines@.len() as int) =~= syslinep.lines@);
        lemma_streams_empty(&self.stdout_color, self.buffer@);
    }
//@before "black_box(&stdout_lock);"
    proof { lemma_streams_empty(&self.stdout_color, self.buffer@); }
//@end

//@cut fn path=src/printer/printers.rs impl=PrinterLogMessage name=print_sysline_prependfile_prependdate_color ret=r rlimit=200
//@desugar_for 1 it
//@spec
    requires
        old(self).buffer@.len() == 0,
        old(self).col_ok(),
        syslinep.dt_beg <= syslinep.dt_end,
        parts_nonempty(syslinep.lines@),
        old(self).prepend_file is Some,
        lines_payload(old(self).sys_prefix(syslinep, true, true), syslinep.lines@).len() <= usize::MAX,
        total_parts(syslinep.lines@) * 15 + 16 < usize::MAX,
    ensures
        final(self).same_config(old(self)), final(self).same_colors(old(self)),
        r is Ok ==> final(self).buffer@.len() == 0 && final(self).col_ok() && final(self).stdout_color.cur() == cid(old(self).color_spec_default),
        // C13: the payload bytes are those of the non-colour variant; per line [file][date] in the default colour, then the
        // line with (first line only) its datetime range highlighted -- a function of the message, not of block boundaries (C12)
        r is Ok ==> final(self).stdout_color.cview() == old(self).stdout_color.cview()
            + clines((old(self).pf() + dt_text(old(self).prepend_date_format.bytes(), old(self).prepend_date_offset, syslinep.dt)), cid(old(self).color_spec_default), syslinep.lines@, syslinep.dt_beg as int, syslinep.dt_end as int,
                     cid(old(self).color_spec_sysline), cid(old(self).color_spec_datetime), cid(old(self).color_spec_sysline)),
        // C19: the count returned is the number of payload bytes written
        r is Ok ==> r->Ok_0.0 as int == lines_payload(old(self).sys_prefix(syslinep, true, true), syslinep.lines@).len(),
//@at_entry
    let ghost cv0 = self.stdout_color.cview();
    let ghost c_def = cid(self.color_spec_default);
    let ghost c_sys = cid(self.color_spec_sysline);
    let ghost c_dt = cid(self.color_spec_datetime);
    let ghost dtb_i = syslinep.dt_beg as int;
    let ghost dte_i = syslinep.dt_end as int;
    let ghost self0 = *self;
    proof { lemma_streams_empty(&self.stdout_color, self.buffer@); }
    let ghost c_cont = c_sys;
//@before "let mut it = vstd"
    let ghost pre = (self.pf() + dt_text(self.prepend_date_format.bytes(), self.prepend_date_offset, syslinep.dt));
    proof { lemma_streams_empty(&self.stdout_color, self.buffer@); assert(syslinep.lines@.take(0) =~= Seq::<LineP>::empty()); assert(cv0 + Seq::<(u8, int)>::empty() =~= cv0); }
//@loop 1
            invariant_except_break
                vstd::std_specs::iter::IteratorSpec::decrease(&it.iter) is Some,
            invariant
                it.snapshot@ == it__snap0, it.wf(),
                it.seq().len() == syslinep.lines@.len(),
                forall|i: int| 0 <= i < syslinep.lines@.len() ==> *it.seq()[i] == syslinep.lines@[i],
                0 <= it.index@ <= it.seq().len(),
                parts_nonempty(syslinep.lines@), syslinep.dt_beg <= syslinep.dt_end, dtb_i == syslinep.dt_beg as int, dte_i == syslinep.dt_end as int,
                self.same_config(&self0), self.same_colors(&self0), self0 == *old(self),
                c_def == cid(self.color_spec_default), c_sys == cid(self.color_spec_sysline), c_dt == cid(self.color_spec_datetime),
                c_cont == c_sys,
                pre == (self.pf() + dt_text(self.prepend_date_format.bytes(), self.prepend_date_offset, syslinep.dt)),
                dtb@ == dt_text(self.prepend_date_format.bytes(), self.prepend_date_offset, syslinep.dt),
                prepend_file@ == self.pf(), self.prepend_file is Some,
                lines_payload(self.sys_prefix(syslinep, true, true), syslinep.lines@).len() <= usize::MAX, total_parts(syslinep.lines@) * 15 + 16 < usize::MAX,
                self.col_ok(), self.buffer@.len() == 0,
                line_first == (it.index@ == 0),
                
                self.stdout_color.cview() == cv0 + clines(pre, c_def, syslinep.lines@.take(it.index@ as int), dtb_i, dte_i, c_sys, c_dt, c_cont),
                printed as int == lines_payload(self.sys_prefix(syslinep, true, true), syslinep.lines@.take(it.index@ as int)).len(),
                flushed as int <= 15 * total_parts(syslinep.lines@.take(it.index@ as int)) + 2,
            ensures
                it.index@ == it.seq().len(),
            decreases vstd::std_specs::iter::IteratorSpec::decrease(&it.iter).unwrap_or(arbitrary()),
//@after "let mut it = vstd"
            let ghost k = it__old.index@ as int;
            let ghost base = clines(pre, c_def, syslinep.lines@.take(k), dtb_i, dte_i, c_sys, c_dt, c_cont);
            proof {
                lemma_clines_prefix(pre, c_def, syslinep.lines@, k, dtb_i, dte_i, c_sys, c_dt, c_cont);
                lemma_lines_prefix(self.sys_prefix(syslinep, true, true), syslinep.lines@, k);
                lemma_total_nonneg(syslinep.lines@.take(k));
                lemma_streams_empty(&self.stdout_color, self.buffer@); lemma_paint_concat_auto();
                assert(self.sys_prefix(syslinep, true, true) =~= pre);
            }
//@after "match buffer_flush_or_return__fn(" 1
            proof {
                lemma_streams_empty(&self.stdout_color, self.buffer@);
                assert(self.stdout_color.cview() == cv0 + base + paint(pre, c_def));
            }
//@before "if line_first"
            proof { lemma_streams_empty(&self.stdout_color, self.buffer@); assert(self.stdout_color.cur() == c_sys); }
//@before "match setcolor_or_return__fn(&mut self.stdout_color, &mut self.buffer, &self.color_spec_default" 2
    proof {
        assert(syslinep.lines@.take(syslinep.lines@.len() as int) =~= syslinep.lines@);
        lemma_streams_empty(&self.stdout_color, self.buffer@);
    }
//@before "black_box(&stdout_lock);"
    proof { lemma_streams_empty(&self.stdout_color, self.buffer@); }
//@mutate "&mut self.buffer, prepend_file," "&mut self.buffer, dtb,"
//@end

//@cut fn path=src/printer/printers.rs impl=PrinterLogMessage name=print_fixedstruct_color ret=r rlimit=200
//@spec
    requires
        old(self).buffer@.len() == 0,
        old(self).col_ok(),
        old(self).fx_payload(fixedstruct, old(buffer)@.len() as int, false, false).len() <= usize::MAX,
    ensures
        final(self).same_config(old(self)), final(self).same_colors(old(self)),
        r is Ok ==> final(self).buffer@.len() == 0 && final(self).col_ok() && final(self).stdout_color.cur() == cid(old(self).color_spec_default),
        // C13: colour is pure decoration -- the payload bytes are those of the non-colour variant: [file][date] in the
        // default colour, then the record text with its own datetime range highlighted
        r is Ok ==> final(self).stdout_color.cview() == old(self).stdout_color.cview() + paint((Seq::<u8>::empty() + Seq::<u8>::empty()), cid(old(self).color_spec_default))
            + paint_hl(fixedstruct.render(old(buffer)@.len() as int), fixedstruct.hl_beg(old(buffer)@.len() as int) as int, fixedstruct.hl_end(old(buffer)@.len() as int) as int,
                       cid(old(self).color_spec_sysline), cid(old(self).color_spec_datetime)),
        // C19: the count returned is the number of payload bytes written
        r is Ok ==> r->Ok_0.0 as int == old(self).fx_payload(fixedstruct, old(buffer)@.len() as int, false, false).len(),
//@at_entry
    let ghost cv0 = self.stdout_color.cview();
    let ghost c_def = cid(self.color_spec_default);
    let ghost c_sys = cid(self.color_spec_sysline);
    let ghost c_dt = cid(self.color_spec_datetime);
    let ghost buflen = buffer@.len() as int;
//@before "let stdout_lock = self.stdout.lock();"
    let ghost pre = (Seq::<u8>::empty() + Seq::<u8>::empty());
    let ghost rr = fixedstruct.render(buflen);
    let ghost hl = paint_hl(rr, beg as int, end as int, c_sys, c_dt);
    let ghost cv1 = cv0 + paint(pre, c_def);
    proof {
        lemma_streams_empty(&self.stdout_color, self.buffer@); lemma_paint_concat_auto();
        lemma_hl_whole(cv1, Seq::<u8>::empty(), rr, beg as int, end as int, c_sys, c_dt);
        assert(rr == buffer@.subrange(0, at as int));
        assert(pre =~= Seq::<u8>::empty()); assert(cv1 =~= cv0);
    }
//@after "match buffer_flush_or_return__fn(" 1
        proof {
            lemma_streams_empty(&self.stdout_color, self.buffer@);
            assert(buffer@.subrange(0, beg as int) =~= rr.subrange(0, beg as int));
            lemma_hl_piece(cv1, Seq::<u8>::empty(), rr, 0, beg as int, c_sys, beg as int, end as int, c_sys, c_dt);
            assert(self.stdout_color.cview() == cv1 + hl.take(beg as int));
            assert(printed == pre.len() + beg as int);
        }
//@after "match buffer_flush_or_return__fn(" 2
        proof {
            lemma_streams_empty(&self.stdout_color, self.buffer@);
            assert(buffer@.subrange(beg as int, end as int) =~= rr.subrange(beg as int, end as int));
            lemma_hl_piece(cv1, Seq::<u8>::empty(), rr, beg as int, end as int, c_dt, beg as int, end as int, c_sys, c_dt);
            assert(self.stdout_color.cview() == cv1 + hl.take(end as int));
            assert(printed == pre.len() + end as int);
        }
//@after "match buffer_flush_or_return__fn(" 3
        proof {
            lemma_streams_empty(&self.stdout_color, self.buffer@);
            assert(buffer@.subrange(end as int, at as int) =~= rr.subrange(end as int, at as int));
            lemma_hl_piece(cv1, Seq::<u8>::empty(), rr, end as int, at as int, c_sys, beg as int, end as int, c_sys, c_dt);
            assert(self.stdout_color.cview() == cv1 + hl.take(at as int));
            assert(printed == pre.len() + at as int);
        }
//@before "black_box(&stdout_lock);"
    proof {
        lemma_streams_empty(&self.stdout_color, self.buffer@);
        assert(self.stdout_color.cview() == cv1 + hl);
    }
//@end

//@cut fn path=src/printer/printers.rs impl=PrinterLogMessage name=print_fixedstruct_prependdate_color ret=r rlimit=100
//@spec
    requires
        old(self).buffer@.len() == 0,
        old(self).col_ok(),
        old(self).fx_payload(fixedstruct, old(buffer)@.len() as int, false, true).len() <= usize::MAX,
    ensures
        final(self).same_config(old(self)), final(self).same_colors(old(self)),
        r is Ok ==> final(self).buffer@.len() == 0 && final(self).col_ok() && final(self).stdout_color.cur() == cid(old(self).color_spec_default),
        // C13: colour is pure decoration -- the payload bytes are those of the non-colour variant: [file][date] in the
        // default colour, then the record text with its own datetime range highlighted
        r is Ok ==> final(self).stdout_color.cview() == old(self).stdout_color.cview() + paint((Seq::<u8>::empty() + dt_text(old(self).prepend_date_format.bytes(), old(self).prepend_date_offset, fixedstruct.dt_spec())), cid(old(self).color_spec_default))
            + paint_hl(fixedstruct.render(old(buffer)@.len() as int), fixedstruct.hl_beg(old(buffer)@.len() as int) as int, fixedstruct.hl_end(old(buffer)@.len() as int) as int,
                       cid(old(self).color_spec_sysline), cid(old(self).color_spec_datetime)),
        // C19: the count returned is the number of payload bytes written
        r is Ok ==> r->Ok_0.0 as int == old(self).fx_payload(fixedstruct, old(buffer)@.len() as int, false, true).len(),
//@at_entry
    let ghost cv0 = self.stdout_color.cview();
    let ghost c_def = cid(self.color_spec_default);
    let ghost c_sys = cid(self.color_spec_sysline);
    let ghost c_dt = cid(self.color_spec_datetime);
    let ghost buflen = buffer@.len() as int;
//@before "let stdout_lock = self.stdout.lock();"
    let ghost pre = (Seq::<u8>::empty() + dt_text(self.prepend_date_format.bytes(), self.prepend_date_offset, fixedstruct.dt_spec()));
    let ghost rr = fixedstruct.render(buflen);
    let ghost hl = paint_hl(rr, beg as int, end as int, c_sys, c_dt);
    let ghost cv1 = cv0 + paint(pre, c_def);
    proof {
        lemma_streams_empty(&self.stdout_color, self.buffer@); lemma_paint_concat_auto();
        lemma_hl_whole(cv1, Seq::<u8>::empty(), rr, beg as int, end as int, c_sys, c_dt);
        assert(rr == buffer@.subrange(0, at as int));
        
    }
//@after "match buffer_flush_or_return__fn(" 1
        proof {
            lemma_streams_empty(&self.stdout_color, self.buffer@); lemma_paint_concat_auto();
            assert(self.stdout_color.cview() == cv0 + paint(pre, c_def));
            assert(printed == pre.len());
        }
//@after "match buffer_flush_or_return__fn(" 2
        proof {
            lemma_streams_empty(&self.stdout_color, self.buffer@);
            assert(buffer@.subrange(0, beg as int) =~= rr.subrange(0, beg as int));
            lemma_hl_piece(cv1, Seq::<u8>::empty(), rr, 0, beg as int, c_sys, beg as int, end as int, c_sys, c_dt);
            assert(self.stdout_color.cview() == cv1 + hl.take(beg as int));
            assert(printed == pre.len() + beg as int);
        }
//@after "match buffer_flush_or_return__fn(" 3
        proof {
            lemma_streams_empty(&self.stdout_color, self.buffer@);
            assert(buffer@.subrange(beg as int, end as int) =~= rr.subrange(beg as int, end as int));
            lemma_hl_piece(cv1, Seq::<u8>::empty(), rr, beg as int, end as int, c_dt, beg as int, end as int, c_sys, c_dt);
            assert(self.stdout_color.cview() == cv1 + hl.take(end as int));
            assert(printed == pre.len() + end as int);
        }
//@after "match buffer_flush_or_return__fn(" 4
        proof {
            lemma_streams_empty(&self.stdout_color, self.buffer@);
            assert(buffer@.subrange(end as int, at as int) =~= rr.subrange(end as int, at as int));
            lemma_hl_piece(cv1, Seq::<u8>::empty(), rr, end as int, at as int, c_sys, beg as int, end as int, c_sys, c_dt);
            assert(self.stdout_color.cview() == cv1 + hl.take(at as int));
            assert(printed == pre.len() + at as int);
        }
//@before "black_box(&stdout_lock);"
    proof {
        lemma_streams_empty(&self.stdout_color, self.buffer@);
        assert(self.stdout_color.cview() == cv1 + hl);
    }
//@end

//@cut fn path=src/printer/printers.rs impl=PrinterLogMessage name=print_fixedstruct_prependfile_color ret=r rlimit=100
//@spec
    requires
        old(self).buffer@.len() == 0,
        old(self).col_ok(),
        old(self).prepend_file is Some,
        old(self).fx_payload(fixedstruct, old(buffer)@.len() as int, true, false).len() <= usize::MAX,
    ensures
        final(self).same_config(old(self)), final(self).same_colors(old(self)),
        r is Ok ==> final(self).buffer@.len() == 0 && final(self).col_ok() && final(self).stdout_color.cur() == cid(old(self).color_spec_default),
        // C13: colour is pure decoration -- the payload bytes are those of the non-colour variant: [file][date] in the
        // default colour, then the record text with its own datetime range highlighted
        r is Ok ==> final(self).stdout_color.cview() == old(self).stdout_color.cview() + paint((old(self).pf() + Seq::<u8>::empty()), cid(old(self).color_spec_default))
            + paint_hl(fixedstruct.render(old(buffer)@.len() as int), fixedstruct.hl_beg(old(buffer)@.len() as int) as int, fixedstruct.hl_end(old(buffer)@.len() as int) as int,
                       cid(old(self).color_spec_sysline), cid(old(self).color_spec_datetime)),
        // C19: the count returned is the number of payload bytes written
        r is Ok ==> r->Ok_0.0 as int == old(self).fx_payload(fixedstruct, old(buffer)@.len() as int, true, false).len(),
//@at_entry
    let ghost cv0 = self.stdout_color.cview();
    let ghost c_def = cid(self.color_spec_default);
    let ghost c_sys = cid(self.color_spec_sysline);
    let ghost c_dt = cid(self.color_spec_datetime);
    let ghost buflen = buffer@.len() as int;
//@before "let stdout_lock = self.stdout.lock();"
    let ghost pre = (self.pf() + Seq::<u8>::empty());
    let ghost rr = fixedstruct.render(buflen);
    let ghost hl = paint_hl(rr, beg as int, end as int, c_sys, c_dt);
    let ghost cv1 = cv0 + paint(pre, c_def);
    proof {
        lemma_streams_empty(&self.stdout_color, self.buffer@); lemma_paint_concat_auto();
        lemma_hl_whole(cv1, Seq::<u8>::empty(), rr, beg as int, end as int, c_sys, c_dt);
        assert(rr == buffer@.subrange(0, at as int));
        
    }
//@after "match buffer_flush_or_return__fn(" 1
        proof {
            lemma_streams_empty(&self.stdout_color, self.buffer@); lemma_paint_concat_auto();
            assert(self.stdout_color.cview() == cv0 + paint(pre, c_def));
            assert(printed == pre.len());
        }
//@after "match buffer_flush_or_return__fn(" 2
        proof {
            lemma_streams_empty(&self.stdout_color, self.buffer@);
            assert(buffer@.subrange(0, beg as int) =~= rr.subrange(0, beg as int));
            lemma_hl_piece(cv1, Seq::<u8>::empty(), rr, 0, beg as int, c_sys, beg as int, end as int, c_sys, c_dt);
            assert(self.stdout_color.cview() == cv1 + hl.take(beg as int));
            assert(printed == pre.len() + beg as int);
        }
//@after "match buffer_flush_or_return__fn(" 3
        proof {
            lemma_streams_empty(&self.stdout_color, self.buffer@);
            assert(buffer@.subrange(beg as int, end as int) =~= rr.subrange(beg as int, end as int));
            lemma_hl_piece(cv1, Seq::<u8>::empty(), rr, beg as int, end as int, c_dt, beg as int, end as int, c_sys, c_dt);
            assert(self.stdout_color.cview() == cv1 + hl.take(end as int));
            assert(printed == pre.len() + end as int);
        }
//@after "match buffer_flush_or_return__fn(" 4
        proof {
            lemma_streams_empty(&self.stdout_color, self.buffer@);
            assert(buffer@.subrange(end as int, at as int) =~= rr.subrange(end as int, at as int));
            lemma_hl_piece(cv1, Seq::<u8>::empty(), rr, end as int, at as int, c_sys, beg as int, end as int, c_sys, c_dt);
            assert(self.stdout_color.cview() == cv1 + hl.take(at as int));
            assert(printed == pre.len() + at as int);
        }
//@before "black_box(&stdout_lock);"
    proof {
        lemma_streams_empty(&self.stdout_color, self.buffer@);
        assert(self.stdout_color.cview() == cv1 + hl);
    }
//@end

//@cut fn path=src/printer/printers.rs impl=PrinterLogMessage name=print_fixedstruct_prependfile_prependdate_color ret=r rlimit=100
//@spec
    requires
        old(self).buffer@.len() == 0,
        old(self).col_ok(),
        old(self).prepend_file is Some,
        old(self).fx_payload(fixedstruct, old(buffer)@.len() as int, true, true).len() <= usize::MAX,
    ensures
        final(self).same_config(old(self)), final(self).same_colors(old(self)),
        r is Ok ==> final(self).buffer@.len() == 0 && final(self).col_ok() && final(self).stdout_color.cur() == cid(old(self).color_spec_default),
        // C13: colour is pure decoration -- the payload bytes are those of the non-colour variant: [file][date] in the
        // default colour, then the record text with its own datetime range highlighted
        r is Ok ==> final(self).stdout_color.cview() == old(self).stdout_color.cview() + paint((old(self).pf() + dt_text(old(self).prepend_date_format.bytes(), old(self).prepend_date_offset, fixedstruct.dt_spec())), cid(old(self).color_spec_default))
            + paint_hl(fixedstruct.render(old(buffer)@.len() as int), fixedstruct.hl_beg(old(buffer)@.len() as int) as int, fixedstruct.hl_end(old(buffer)@.len() as int) as int,
                       cid(old(self).color_spec_sysline), cid(old(self).color_spec_datetime)),
        // C19: the count returned is the number of payload bytes written
        r is Ok ==> r->Ok_0.0 as int == old(self).fx_payload(fixedstruct, old(buffer)@.len() as int, true, true).len(),
//@at_entry
    let ghost cv0 = self.stdout_color.cview();
    let ghost c_def = cid(self.color_spec_default);
    let ghost c_sys = cid(self.color_spec_sysline);
    let ghost c_dt = cid(self.color_spec_datetime);
    let ghost buflen = buffer@.len() as int;
//@before "let stdout_lock = self.stdout.lock();"
    let ghost pre = (self.pf() + dt_text(self.prepend_date_format.bytes(), self.prepend_date_offset, fixedstruct.dt_spec()));
    let ghost rr = fixedstruct.render(buflen);
    let ghost hl = paint_hl(rr, beg as int, end as int, c_sys, c_dt);
    let ghost cv1 = cv0 + paint(pre, c_def);
    proof {
        lemma_streams_empty(&self.stdout_color, self.buffer@); lemma_paint_concat_auto();
        lemma_hl_whole(cv1, Seq::<u8>::empty(), rr, beg as int, end as int, c_sys, c_dt);
        assert(rr == buffer@.subrange(0, at as int));
        
    }
//@after "match buffer_flush_or_return__fn(" 1
        proof {
            lemma_streams_empty(&self.stdout_color, self.buffer@); lemma_paint_concat_auto();
            assert(self.stdout_color.cview() == cv0 + paint(pre, c_def));
            assert(printed == pre.len());
        }
//@after "match buffer_flush_or_return__fn(" 2
        proof {
            lemma_streams_empty(&self.stdout_color, self.buffer@);
            assert(buffer@.subrange(0, beg as int) =~= rr.subrange(0, beg as int));
            lemma_hl_piece(cv1, Seq::<u8>::empty(), rr, 0, beg as int, c_sys, beg as int, end as int, c_sys, c_dt);
            assert(self.stdout_color.cview() == cv1 + hl.take(beg as int));
            assert(printed == pre.len() + beg as int);
        }
//@after "match buffer_flush_or_return__fn(" 3
        proof {
            lemma_streams_empty(&self.stdout_color, self.buffer@);
            assert(buffer@.subrange(beg as int, end as int) =~= rr.subrange(beg as int, end as int));
            lemma_hl_piece(cv1, Seq::<u8>::empty(), rr, beg as int, end as int, c_dt, beg as int, end as int, c_sys, c_dt);
            assert(self.stdout_color.cview() == cv1 + hl.take(end as int));
            assert(printed == pre.len() + end as int);
        }
//@after "match buffer_flush_or_return__fn(" 4
        proof {
            lemma_streams_empty(&self.stdout_color, self.buffer@);
            assert(buffer@.subrange(end as int, at as int) =~= rr.subrange(end as int, at as int));
            lemma_hl_piece(cv1, Seq::<u8>::empty(), rr, end as int, at as int, c_sys, beg as int, end as int, c_sys, c_dt);
            assert(self.stdout_color.cview() == cv1 + hl.take(at as int));
            assert(printed == pre.len() + at as int);
        }
//@before "black_box(&stdout_lock);"
    proof {
        lemma_streams_empty(&self.stdout_color, self.buffer@);
        assert(self.stdout_color.cview() == cv1 + hl);
    }
//@end

//@cut fn path=src/printer/printers.rs impl=PrinterLogMessage name=print_sysline ret=r
//@spec
    requires
        old(self).config_ok(),
        lines_payload(old(self).sys_prefix(syslinep, old(self).do_prepend_file, old(self).do_prepend_date), syslinep.lines@).len() <= usize::MAX,
        total_parts(syslinep.lines@) * 15 + 16 < usize::MAX,
        syslinep.dt_beg <= syslinep.dt_end, parts_nonempty(syslinep.lines@),
    ensures
        final(self).same_config(old(self)),
        r is Ok ==> final(self).config_ok(),
        // C13: every colour setting and every prepend combination yields [file][date][line] per line; C19: count = payload length
        r is Ok ==> r->Ok_0.0 as int == lines_payload(old(self).sys_prefix(syslinep, old(self).do_prepend_file, old(self).do_prepend_date), syslinep.lines@).len(),
//@end

//@cut fn path=src/printer/printers.rs impl=PrinterLogMessage name=print_fixedstruct ret=r
//@spec
    requires
        old(self).config_ok(),
        old(self).fx_payload(fixedstruct, old(buffer)@.len() as int, old(self).do_prepend_file, old(self).do_prepend_date).len() <= usize::MAX,
    ensures
        final(self).same_config(old(self)),
        r is Ok ==> final(self).config_ok(),
        r is Ok ==> r->Ok_0.0 as int == old(self).fx_payload(fixedstruct, old(buffer)@.len() as int, old(self).do_prepend_file, old(self).do_prepend_date).len(),
//@mutate "(false, true, false) => self.print_fixedstruct_prependfile(fixedstruct, buffer)" "(false, true, false) => self.print_fixedstruct_prependdate(fixedstruct, buffer)"
//@end
//@endif
//@ifunit PRNX
//@cut fn path=src/printer/printers.rs impl=PrinterLogMessage name=datetime_to_string_evtx ret=r
//@spec
    ensures r.bytes() == dt_text(self.prepend_date_format.bytes(), self.prepend_date_offset, evtx.dt_spec())
//@end
//@cut fn path=src/printer/printers.rs impl=PrinterLogMessage name=datetime_to_string_journalentry ret=r
//@spec
    ensures r.bytes() == dt_text(self.prepend_date_format.bytes(), self.prepend_date_offset, journalentry.dt_spec())
//@end
    /// the prefix of every line of an event-log / journal message
    pub open spec fn x_prefix(&self, dt: DateTimeL, with_file: bool, with_date: bool) -> Seq<u8> {
        (if with_file { self.pf() } else { Seq::<u8>::empty() }) + (if with_date { dt_text(self.prepend_date_format.bytes(), self.prepend_date_offset, dt) } else { Seq::<u8>::empty() })
    }

//@cut fn path=src/printer/printers.rs impl=PrinterLogMessage name=print_evtx_ ret=r
//@spec
    requires old(self).buffer@.len() == 0
    ensures
        final(self).same_config(old(self)), final(self).same_color_state(old(self)),
        r is Ok ==> final(self).buffer@.len() == 0,
        r is Ok ==> r->Ok_0.0 as int == evtx.data().len(),
//@before_tail
        // C13 / C10: exactly the message's bytes were written, nothing else; every byte written was counted
        assert(stdout_lock.view() == evtx.data() && printed == stdout_lock.view().len() && self.buffer@.len() == 0);
//@at_entry
    proof { reveal(vs); reveal(ls); }
//@end

//@cut fn path=src/printer/printers.rs impl=PrinterLogMessage name=print_journalentry_ ret=r
//@spec
    requires old(self).buffer@.len() == 0
    ensures
        final(self).same_config(old(self)), final(self).same_color_state(old(self)),
        r is Ok ==> final(self).buffer@.len() == 0,
        r is Ok ==> r->Ok_0.0 as int == journalentry.data().len(),
//@before_tail
        assert(stdout_lock.view() == journalentry.data() && printed == stdout_lock.view().len() && self.buffer@.len() == 0);
//@at_entry
    proof { reveal(vs); reveal(ls); }
//@end

//@cut fn path=src/printer/printers.rs impl=PrinterLogMessage name=print_evtx_prepend ret=r rlimit=150
//@replace "data[a..].find_byte(NLu8)" "verif_find_byte(&data[a..], NLu8)"
//@desugar_while_let 1 exit="assert(data@.subrange(a as int, data@.len() as int) =~= data@.skip(a as int)); lemma_epayload_tail_none(pre, data@, a as int);"
//@spec
    requires
        old(self).buffer@.len() == 0,
        do_prependfile ==> old(self).prepend_file is Some,
        do_prependdate ==> old(self).prepend_date_format.bytes().len() > 0,
        epayload(old(self).x_prefix(evtx.dt_spec(), do_prependfile, do_prependdate), evtx.data()).len() <= usize::MAX,
        evtx.data().len() * 6 + 4 < usize::MAX,
    ensures
        final(self).same_config(old(self)), final(self).same_color_state(old(self)),
        r is Ok ==> final(self).buffer@.len() == 0,
        // C19: the count returned is the number of payload bytes written
        r is Ok ==> r->Ok_0.0 as int == epayload(old(self).x_prefix(evtx.dt_spec(), do_prependfile, do_prependdate), evtx.data()).len(),
//@at_entry
    proof { reveal(vs); reveal(ls); }
    let ghost pre = self.x_prefix(evtx.dt_spec(), do_prependfile, do_prependdate);
    let ghost total = epayload(pre, evtx.data());
//@loop 1
        invariant
            self.same_config(old(self)), self.same_color_state(old(self)),
            data@ == evtx.data(), data@.len() <= usize::MAX, 0 <= a <= data@.len(),
            pre == self.x_prefix(evtx.dt_spec(), do_prependfile, do_prependdate), total == epayload(pre, data@),
            prepend_file@ == (if do_prependfile { self.pf() } else { Seq::<u8>::empty() }),
            prepend_date@ == (if do_prependdate { dt_text(self.prepend_date_format.bytes(), self.prepend_date_offset, evtx.dt_spec()) } else { Seq::<u8>::empty() }),
            // what has gone out so far ++ what the remaining text will contribute = the payload
            vs(&stdout_lock, self.buffer@) + epayload(pre, data@.skip(a as int)) == total,
            printed + self.buffer@.len() == vs(&stdout_lock, self.buffer@).len(), vs(&stdout_lock, self.buffer@).len() <= total.len(),
            flushed <= a * 6, total.len() <= usize::MAX, data@.len() * 6 + 4 < usize::MAX,
        ensures
            epayload(pre, data@.skip(a as int)) == Seq::<u8>::empty(),
        decreases data@.len() - a,
//@after "let line = &data[a..a + b + CHARSZ];"
            let ghost a0 = a;
            let ghost v0 = vs(&stdout_lock, self.buffer@);
            proof {
                let rest = data@.skip(a0 as int);
                lemma_epayload_step(pre, rest, b as int);
                assert(rest.take(b as int + 1) =~= line@);
                assert(rest.skip(b as int + 1) =~= data@.skip(a0 as int + b as int + 1));
                assert(pre =~= prepend_file@ + prepend_date@);
                assert(total == v0 + (prepend_file@ + prepend_date@ + line@ + epayload(pre, data@.skip(a0 as int + b as int + 1)))) by {
                    assert(v0 + (pre + line@ + epayload(pre, data@.skip(a0 as int + b as int + 1))) =~= v0 + (prepend_file@ + prepend_date@ + line@ + epayload(pre, data@.skip(a0 as int + b as int + 1))));
                }
                lemma_len_parts(v0, prepend_file@, prepend_date@, line@, epayload(pre, data@.skip(a0 as int + b as int + 1)));
            }
//@after "let mut stdout_lock = self.stdout.lock();"
        proof { lemma_streams_empty(&stdout_lock, self.buffer@); assert(data@.skip(0) =~= data@); }
//@before_tail
        // C13: per line: file-name field, datetime field, line -- in that order, nothing else
        assert(stdout_lock.view() == total && printed == stdout_lock.view().len() && self.buffer@.len() == 0);
//@end
//@cut fn path=src/printer/printers.rs impl=PrinterLogMessage name=print_journalentry_prepend ret=r rlimit=150
//@replace "data[a..].find_byte(NLu8)" "verif_find_byte(&data[a..], NLu8)"
//@desugar_while_let 1 exit="assert(data@.subrange(a as int, data@.len() as int) =~= data@.skip(a as int)); lemma_epayload_tail_none(pre, data@, a as int);"
//@spec
    requires
        old(self).buffer@.len() == 0,
        do_prependfile ==> old(self).prepend_file is Some,
        do_prependdate ==> old(self).prepend_date_format.bytes().len() > 0,
        epayload(old(self).x_prefix(journalentry.dt_spec(), do_prependfile, do_prependdate), journalentry.data()).len() <= usize::MAX,
        journalentry.data().len() * 6 + 4 < usize::MAX,
    ensures
        final(self).same_config(old(self)), final(self).same_color_state(old(self)),
        r is Ok ==> final(self).buffer@.len() == 0,
        // C19: the count returned is the number of payload bytes written
        r is Ok ==> r->Ok_0.0 as int == epayload(old(self).x_prefix(journalentry.dt_spec(), do_prependfile, do_prependdate), journalentry.data()).len(),
//@at_entry
    proof { reveal(vs); reveal(ls); }
    let ghost pre = self.x_prefix(journalentry.dt_spec(), do_prependfile, do_prependdate);
    let ghost total = epayload(pre, journalentry.data());
//@loop 1
        invariant
            self.same_config(old(self)), self.same_color_state(old(self)),
            data@ == journalentry.data(), data@.len() <= usize::MAX, 0 <= a <= data@.len(),
            pre == self.x_prefix(journalentry.dt_spec(), do_prependfile, do_prependdate), total == epayload(pre, data@),
            prepend_file@ == (if do_prependfile { self.pf() } else { Seq::<u8>::empty() }),
            prepend_date@ == (if do_prependdate { dt_text(self.prepend_date_format.bytes(), self.prepend_date_offset, journalentry.dt_spec()) } else { Seq::<u8>::empty() }),
            // what has gone out so far ++ what the remaining text will contribute = the payload
            vs(&stdout_lock, self.buffer@) + epayload(pre, data@.skip(a as int)) == total,
            printed + self.buffer@.len() == vs(&stdout_lock, self.buffer@).len(), vs(&stdout_lock, self.buffer@).len() <= total.len(),
            flushed <= a * 6, total.len() <= usize::MAX, data@.len() * 6 + 4 < usize::MAX,
        ensures
            epayload(pre, data@.skip(a as int)) == Seq::<u8>::empty(),
        decreases data@.len() - a,
//@after "let line = &data[a..a + b + CHARSZ];"
            let ghost a0 = a;
            let ghost v0 = vs(&stdout_lock, self.buffer@);
            proof {
                let rest = data@.skip(a0 as int);
                lemma_epayload_step(pre, rest, b as int);
                assert(rest.take(b as int + 1) =~= line@);
                assert(rest.skip(b as int + 1) =~= data@.skip(a0 as int + b as int + 1));
                assert(pre =~= prepend_file@ + prepend_date@);
                assert(total == v0 + (prepend_file@ + prepend_date@ + line@ + epayload(pre, data@.skip(a0 as int + b as int + 1)))) by {
                    assert(v0 + (pre + line@ + epayload(pre, data@.skip(a0 as int + b as int + 1))) =~= v0 + (prepend_file@ + prepend_date@ + line@ + epayload(pre, data@.skip(a0 as int + b as int + 1))));
                }
                lemma_len_parts(v0, prepend_file@, prepend_date@, line@, epayload(pre, data@.skip(a0 as int + b as int + 1)));
            }
//@after "let mut stdout_lock = self.stdout.lock();"
        proof { lemma_streams_empty(&stdout_lock, self.buffer@); assert(data@.skip(0) =~= data@); }
//@before_tail
        // C13: per line: file-name field, datetime field, line -- in that order, nothing else
        assert(stdout_lock.view() == total && printed == stdout_lock.view().len() && self.buffer@.len() == 0);
//@end

//@cut fn path=src/printer/printers.rs impl=PrinterLogMessage name=print_evtx_color ret=r
//@spec
    requires
        old(self).buffer@.len() == 0,
        old(self).col_ok(),
        hl_ok(evtx.hl(), evtx.data().len() as int),
    ensures
        final(self).same_config(old(self)), final(self).same_colors(old(self)),
        r is Ok ==> final(self).buffer@.len() == 0 && final(self).col_ok() && final(self).stdout_color.cur() == cid(old(self).color_spec_default),
        // C13: colour is pure decoration -- the payload is the message's bytes, its datetime range highlighted
        r is Ok ==> final(self).stdout_color.cview() == old(self).stdout_color.cview()
            + paint_hl(evtx.data(), hl_b(evtx.hl()), hl_e(evtx.hl()), cid(old(self).color_spec_sysline), cid(old(self).color_spec_datetime)),
        r is Ok ==> r->Ok_0.0 as int == evtx.data().len(),
//@at_entry
    let ghost cv0 = self.stdout_color.cview();
    let ghost c_def = cid(self.color_spec_default);
    let ghost c_sys = cid(self.color_spec_sysline);
    let ghost c_dt = cid(self.color_spec_datetime);
    let ghost rr = evtx.data();
//@before "let stdout_lock = self.stdout.lock();"
    let ghost hl = paint_hl(rr, beg as int, end as int, c_sys, c_dt);
    proof {
        lemma_streams_empty(&self.stdout_color, self.buffer@); lemma_paint_concat_auto();
        lemma_hl_whole(cv0, Seq::<u8>::empty(), rr, beg as int, end as int, c_sys, c_dt);
    }
//@after "match buffer_flush_or_return__fn(" 1
        proof {
            lemma_streams_empty(&self.stdout_color, self.buffer@);
            assert(data@.subrange(0, beg as int) =~= rr.subrange(0, beg as int));
            lemma_hl_piece(cv0, Seq::<u8>::empty(), rr, 0, beg as int, c_sys, beg as int, end as int, c_sys, c_dt);
            assert(self.stdout_color.cview() == cv0 + hl.take(beg as int));
            assert(printed == beg as int);
        }
//@after "match buffer_flush_or_return__fn(" 2
        proof {
            lemma_streams_empty(&self.stdout_color, self.buffer@);
            assert(data@.subrange(beg as int, end as int) =~= rr.subrange(beg as int, end as int));
            lemma_hl_piece(cv0, Seq::<u8>::empty(), rr, beg as int, end as int, c_dt, beg as int, end as int, c_sys, c_dt);
            assert(self.stdout_color.cview() == cv0 + hl.take(end as int));
            assert(printed == end as int);
        }
//@after "match buffer_flush_or_return__fn(" 3
        proof {
            lemma_streams_empty(&self.stdout_color, self.buffer@);
            assert(data@.subrange(end as int, data@.len() as int) =~= rr.subrange(end as int, rr.len() as int));
            lemma_hl_piece(cv0, Seq::<u8>::empty(), rr, end as int, rr.len() as int, c_sys, beg as int, end as int, c_sys, c_dt);
            assert(self.stdout_color.cview() == cv0 + hl.take(rr.len() as int));
            assert(printed == rr.len() as int);
        }
//@before "black_box(&stdout_lock);"
    proof {
        lemma_streams_empty(&self.stdout_color, self.buffer@);
        assert(self.stdout_color.cview() == cv0 + hl);
    }
//@end

//@cut fn path=src/printer/printers.rs impl=PrinterLogMessage name=print_journalentry_color ret=r
//@spec
    requires
        old(self).buffer@.len() == 0,
        old(self).col_ok(),
        hl_ok(journalentry.hl(), journalentry.data().len() as int),
    ensures
        final(self).same_config(old(self)), final(self).same_colors(old(self)),
        r is Ok ==> final(self).buffer@.len() == 0 && final(self).col_ok() && final(self).stdout_color.cur() == cid(old(self).color_spec_default),
        // C13: colour is pure decoration -- the payload is the message's bytes, its datetime range highlighted
        r is Ok ==> final(self).stdout_color.cview() == old(self).stdout_color.cview()
            + paint_hl(journalentry.data(), hl_b(journalentry.hl()), hl_e(journalentry.hl()), cid(old(self).color_spec_sysline), cid(old(self).color_spec_datetime)),
        r is Ok ==> r->Ok_0.0 as int == journalentry.data().len(),
//@at_entry
    let ghost cv0 = self.stdout_color.cview();
    let ghost c_def = cid(self.color_spec_default);
    let ghost c_sys = cid(self.color_spec_sysline);
    let ghost c_dt = cid(self.color_spec_datetime);
    let ghost rr = journalentry.data();
//@before "let stdout_lock = self.stdout.lock();"
    let ghost hl = paint_hl(rr, beg as int, end as int, c_sys, c_dt);
    proof {
        lemma_streams_empty(&self.stdout_color, self.buffer@); lemma_paint_concat_auto();
        lemma_hl_whole(cv0, Seq::<u8>::empty(), rr, beg as int, end as int, c_sys, c_dt);
    }
//@after "match buffer_flush_or_return__fn(" 1
        proof {
            lemma_streams_empty(&self.stdout_color, self.buffer@);
            assert(data@.subrange(0, beg as int) =~= rr.subrange(0, beg as int));
            lemma_hl_piece(cv0, Seq::<u8>::empty(), rr, 0, beg as int, c_sys, beg as int, end as int, c_sys, c_dt);
            assert(self.stdout_color.cview() == cv0 + hl.take(beg as int));
            assert(printed == beg as int);
        }
//@after "match buffer_flush_or_return__fn(" 2
        proof {
            lemma_streams_empty(&self.stdout_color, self.buffer@);
            assert(data@.subrange(beg as int, end as int) =~= rr.subrange(beg as int, end as int));
            lemma_hl_piece(cv0, Seq::<u8>::empty(), rr, beg as int, end as int, c_dt, beg as int, end as int, c_sys, c_dt);
            assert(self.stdout_color.cview() == cv0 + hl.take(end as int));
            assert(printed == end as int);
        }
//@after "match buffer_flush_or_return__fn(" 3
        proof {
            lemma_streams_empty(&self.stdout_color, self.buffer@);
            assert(data@.subrange(end as int, data@.len() as int) =~= rr.subrange(end as int, rr.len() as int));
            lemma_hl_piece(cv0, Seq::<u8>::empty(), rr, end as int, rr.len() as int, c_sys, beg as int, end as int, c_sys, c_dt);
            assert(self.stdout_color.cview() == cv0 + hl.take(rr.len() as int));
            assert(printed == rr.len() as int);
        }
//@before "black_box(&stdout_lock);"
    proof {
        lemma_streams_empty(&self.stdout_color, self.buffer@);
        assert(self.stdout_color.cview() == cv0 + hl);
    }
//@end


    // ---- print_evtx_prepend_color in three pieces (its loop body as a whole exceeds every resource limit): the prefix part and the
    // line part of the loop body are cut as slices into the two wrapper functions below and verified on their own; the function
    // itself is verified with those two parts replaced by calls of the wrappers (R16), so the composition rests on their contracts
    pub fn pec_prefix(stdout_color: &mut StandardStream, buffer: &mut Vec<u8>, color_spec_default: &ColorSpec, color_spec_last: &mut ColorSpec, prepend_file: &[u8], prepend_date: &[u8], do_prependfile: bool, do_prependdate: bool, printed_in: usize, flushed_in: usize) -> (r: PrinterLogMessageResult)
        requires
            cid(*old(color_spec_last)) == old(stdout_color).cur(), printed_in + old(buffer)@.len() + prepend_file@.len() + prepend_date@.len() <= usize::MAX, flushed_in < usize::MAX - 10,
        ensures
            // C13: first the file-name field, then the datetime field (those asked for), nothing else
            r is Ok ==> final(buffer)@.len() == 0 && cid(*final(color_spec_last)) == final(stdout_color).cur()
                && vs(final(stdout_color), final(buffer)@) == vs(old(stdout_color), old(buffer)@)
                    + (if do_prependfile { prepend_file@ } else { Seq::<u8>::empty() }) + (if do_prependdate { prepend_date@ } else { Seq::<u8>::empty() })
                && r->Ok_0.0 as int == printed_in + old(buffer)@.len() + (if do_prependfile { prepend_file@.len() } else { 0 }) + (if do_prependdate { prepend_date@.len() } else { 0 })
                && r->Ok_0.1 <= flushed_in + 7,
    {
        let mut printed: usize = printed_in;
        let mut flushed: usize = flushed_in;
//@cut slice path=src/printer/printers.rs impl=PrinterLogMessage fn=print_evtx_prepend_color anchor="setcolor_or_return!(self.stdout_color, self.buffer, self.color_spec_default, self.color_spec_last, printed, flushed);" k=1 take=range end_anchor="buffer_flush_or_return!(self.stdout_color, self.buffer, printed, flushed);" label=pec-PREFIX
//@replace "self.stdout_color" "(*stdout_color)" count=*
//@replace "self.buffer" "(*buffer)" count=*
//@replace "self.color_spec_default" "(*color_spec_default)" count=*
//@replace "self.color_spec_last" "(*color_spec_last)" count=*
//@end
        PrinterLogMessageResult::Ok((printed, flushed))
    }
    pub fn pec_mid(stdout_color: &mut StandardStream, buffer: &mut Vec<u8>, color_spec_sysline: &ColorSpec, color_spec_datetime: &ColorSpec, color_spec_last: &mut ColorSpec, line: &[u8], at: usize, beg: usize, end: usize, len: usize, printed_in: usize, flushed_in: usize) -> (r: PrinterLogMessageResult)
        requires
            cid(*old(color_spec_last)) == old(stdout_color).cur(), old(buffer)@.len() == 0, beg <= end, len == line@.len(), at + len <= usize::MAX,
            printed_in + line@.len() <= usize::MAX, flushed_in < usize::MAX - 20,
        ensures
            // C13: the line itself, whole and once, wherever its datetime range lies (colour changes add no payload byte)
            r is Ok ==> final(buffer)@.len() == 0 && cid(*final(color_spec_last)) == final(stdout_color).cur()
                && vs(final(stdout_color), final(buffer)@) == vs(old(stdout_color), old(buffer)@) + line@
                && r->Ok_0.0 as int == printed_in + line@.len() && r->Ok_0.1 <= flushed_in + 15,
    {
        let mut printed: usize = printed_in;
        let mut flushed: usize = flushed_in;
        proof {
            if at <= beg && end < at + len {
                assert(line@.subrange(0, beg - at) + line@.subrange(beg - at, end - at) + line@.subrange(end - at, line@.len() as int) =~= line@);
            }
        }
//@cut slice path=src/printer/printers.rs impl=PrinterLogMessage fn=print_evtx_prepend_color anchor="match (at <= beg, end < at + len) {" take=block label=pec-MID
//@replace "self.stdout_color" "(*stdout_color)" count=*
//@replace "self.buffer" "(*buffer)" count=*
//@replace "self.color_spec_sysline" "(*color_spec_sysline)" count=*
//@replace "self.color_spec_datetime" "(*color_spec_datetime)" count=*
//@replace "self.color_spec_last" "(*color_spec_last)" count=*
//@end
        PrinterLogMessageResult::Ok((printed, flushed))
    }

//@cut fn path=src/printer/printers.rs impl=PrinterLogMessage name=print_evtx_prepend_color ret=r rlimit=200
//@subst_slice anchor="setcolor_or_return!(self.stdout_color, self.buffer, self.color_spec_default, self.color_spec_last, printed, flushed);" k=1 take=range end_anchor="buffer_flush_or_return!(self.stdout_color, self.buffer, printed, flushed);" label=pec-PREFIX with="match PrinterLogMessage::pec_prefix(&mut self.stdout_color, &mut self.buffer, &self.color_spec_default, &mut self.color_spec_last, prepend_file, prepend_date, do_prependfile, do_prependdate, printed, flushed) { PrinterLogMessageResult::Ok(v__) => { printed = v__.0; flushed = v__.1; } PrinterLogMessageResult::Err(e__) => { return PrinterLogMessageResult::Err(e__); } }"
//@subst_slice anchor="match (at <= beg, end < at + len) {" take=block label=pec-MID with="match PrinterLogMessage::pec_mid(&mut self.stdout_color, &mut self.buffer, &self.color_spec_sysline, &self.color_spec_datetime, &mut self.color_spec_last, line, at, beg, end, len, printed, flushed) { PrinterLogMessageResult::Ok(v__) => { printed = v__.0; flushed = v__.1; } PrinterLogMessageResult::Err(e__) => { return PrinterLogMessageResult::Err(e__); } }"
//@replace "data[a..].find_byte(NLu8)" "verif_find_byte(&data[a..], NLu8)"
//@desugar_while_let 1 exit="assert(data@.subrange(a as int, data@.len() as int) =~= data@.skip(a as int)); lemma_epayload_tail_none(pre, data@, a as int);"
//@spec
    requires
        old(self).buffer@.len() == 0, old(self).col_ok(),
        do_prependfile ==> old(self).prepend_file is Some,
        do_prependdate ==> old(self).prepend_date_format.bytes().len() > 0,
        hl_ok(evtx.hl(), evtx.data().len() as int),
        epayload(old(self).x_prefix(evtx.dt_spec(), do_prependfile, do_prependdate), evtx.data()).len() <= usize::MAX,
        evtx.data().len() * 30 + 4 < usize::MAX,
    ensures
        final(self).same_config(old(self)), final(self).same_colors(old(self)),
        r is Ok ==> final(self).buffer@.len() == 0 && final(self).col_ok(),
        // C13: with colour too, the payload written is per line: file-name field, datetime field, line -- nothing else
        // (which bytes are highlighted is not part of this contract)
        r is Ok ==> final(self).stdout_color.view() == old(self).stdout_color.view() + epayload(old(self).x_prefix(evtx.dt_spec(), do_prependfile, do_prependdate), evtx.data()),
        // C19: the count returned is the number of payload bytes written
        r is Ok ==> r->Ok_0.0 as int == epayload(old(self).x_prefix(evtx.dt_spec(), do_prependfile, do_prependdate), evtx.data()).len(),
//@at_entry
    proof { reveal(vs); }
    let ghost pre = self.x_prefix(evtx.dt_spec(), do_prependfile, do_prependdate);
    let ghost total = epayload(pre, evtx.data());
    let ghost v00 = self.stdout_color.view();
//@after "let stdout_lock = self.stdout.lock();"
    proof { assert(data@.skip(0) =~= data@); assert(vs(&self.stdout_color, self.buffer@) =~= v00); }
//@loop 1
        invariant
            self.same_config(old(self)), self.same_colors(old(self)), self.col_ok(), self.buffer@.len() == 0,
            data@ == evtx.data(), data@.len() <= usize::MAX, 0 <= a <= data@.len(), at == a, beg <= end, do_prependfile || do_prependdate || true,
            pre == self.x_prefix(evtx.dt_spec(), do_prependfile, do_prependdate), total == epayload(pre, data@),
            prepend_file@ == (if do_prependfile { self.pf() } else { Seq::<u8>::empty() }),
            prepend_date@ == (if do_prependdate { dt_text(self.prepend_date_format.bytes(), self.prepend_date_offset, evtx.dt_spec()) } else { Seq::<u8>::empty() }),
            // what has gone out so far ++ what the remaining text will contribute = the payload
            vs(&self.stdout_color, self.buffer@) + epayload(pre, data@.skip(a as int)) == v00 + total,
            printed + v00.len() == vs(&self.stdout_color, self.buffer@).len(), vs(&self.stdout_color, self.buffer@).len() <= v00.len() + total.len(),
            flushed <= a * 30, total.len() <= usize::MAX, data@.len() * 30 + 4 < usize::MAX,
        ensures
            epayload(pre, data@.skip(a as int)) == Seq::<u8>::empty(),
        decreases data@.len() - a,
//@after "let line = &data[a..a + b + CHARSZ];"
            let ghost a0 = a;
            let ghost v0 = vs(&self.stdout_color, self.buffer@);
            let ghost nxt = epayload(pre, data@.skip(a0 as int + b as int + 1));
            proof {
                let rest = data@.skip(a0 as int);
                lemma_epayload_step(pre, rest, b as int);
                assert(rest.take(b as int + 1) =~= line@);
                assert(rest.skip(b as int + 1) =~= data@.skip(a0 as int + b as int + 1));
                assert(pre =~= prepend_file@ + prepend_date@);
                assert(v00 + total == v0 + (prepend_file@ + prepend_date@ + line@ + nxt)) by {
                    assert(v0 + (pre + line@ + nxt) =~= v0 + (prepend_file@ + prepend_date@ + line@ + nxt));
                }
                lemma_len_parts(v0, prepend_file@, prepend_date@, line@, nxt);
            }
//@before "at += line.len();"
            proof {
                assert(vs(&self.stdout_color, self.buffer@) =~= v0 + prepend_file@ + prepend_date@ + line@);
                assert(v0 + prepend_file@ + prepend_date@ + line@ + nxt =~= v0 + (prepend_file@ + prepend_date@ + line@ + nxt));
            }
//@before "black_box(&stdout_lock);"
    proof {
        assert(v00 + total =~= vs(&self.stdout_color, self.buffer@) + Seq::<u8>::empty());
        assert(vs(&self.stdout_color, self.buffer@) =~= self.stdout_color.view());
    }
//@end

//@cut fn path=src/printer/printers.rs impl=PrinterLogMessage name=print_evtx ret=r
//@spec
    requires
        old(self).config_ok(),
        hl_ok(evtx.hl(), evtx.data().len() as int),
        epayload(old(self).x_prefix(evtx.dt_spec(), old(self).do_prepend_file, old(self).do_prepend_date), evtx.data()).len() <= usize::MAX,
        evtx.data().len() * 30 + 4 < usize::MAX,
    ensures
        final(self).same_config(old(self)),
        r is Ok ==> final(self).config_ok(),
        // C13: whatever the colour setting, the payload is the text itself without prepend options, else per line prefix ++ line
        r is Ok ==> r->Ok_0.0 as int == (if !old(self).do_prepend_file && !old(self).do_prepend_date { evtx.data().len() as int }
            else { epayload(old(self).x_prefix(evtx.dt_spec(), old(self).do_prepend_file, old(self).do_prepend_date), evtx.data()).len() as int }),
//@end

    // ---- print_journalentry_prepend_color in three pieces (its loop body as a whole exceeds every resource limit): the prefix part and the
    // line part of the loop body are cut as slices into the two wrapper functions below and verified on their own; the function
    // itself is verified with those two parts replaced by calls of the wrappers (R16), so the composition rests on their contracts
    pub fn pjc_prefix(stdout_color: &mut StandardStream, buffer: &mut Vec<u8>, color_spec_default: &ColorSpec, color_spec_last: &mut ColorSpec, prepend_file: &[u8], prepend_date: &[u8], do_prependfile: bool, do_prependdate: bool, printed_in: usize, flushed_in: usize) -> (r: PrinterLogMessageResult)
        requires
            do_prependfile || do_prependdate,
            cid(*old(color_spec_last)) == old(stdout_color).cur(), printed_in + old(buffer)@.len() + prepend_file@.len() + prepend_date@.len() <= usize::MAX, flushed_in < usize::MAX - 10,
        ensures
            // C13: first the file-name field, then the datetime field (those asked for), nothing else
            r is Ok ==> final(buffer)@.len() == 0 && cid(*final(color_spec_last)) == final(stdout_color).cur()
                && vs(final(stdout_color), final(buffer)@) == vs(old(stdout_color), old(buffer)@)
                    + (if do_prependfile { prepend_file@ } else { Seq::<u8>::empty() }) + (if do_prependdate { prepend_date@ } else { Seq::<u8>::empty() })
                && r->Ok_0.0 as int == printed_in + old(buffer)@.len() + (if do_prependfile { prepend_file@.len() } else { 0 }) + (if do_prependdate { prepend_date@.len() } else { 0 })
                && r->Ok_0.1 <= flushed_in + 7,
    {
        let mut printed: usize = printed_in;
        let mut flushed: usize = flushed_in;
//@cut slice path=src/printer/printers.rs impl=PrinterLogMessage fn=print_journalentry_prepend_color anchor="match (do_prependfile, do_prependdate) {" k=1 take=range end_anchor="buffer_flush_or_return!(self.stdout_color, self.buffer, printed, flushed);" label=pjc-PREFIX
//@replace "self.stdout_color" "(*stdout_color)" count=*
//@replace "self.buffer" "(*buffer)" count=*
//@replace "self.color_spec_default" "(*color_spec_default)" count=*
//@replace "self.color_spec_last" "(*color_spec_last)" count=*
//@end
        PrinterLogMessageResult::Ok((printed, flushed))
    }
    pub fn pjc_mid(stdout_color: &mut StandardStream, buffer: &mut Vec<u8>, color_spec_sysline: &ColorSpec, color_spec_datetime: &ColorSpec, color_spec_last: &mut ColorSpec, line: &[u8], at: usize, beg: usize, end: usize, len: usize, printed_in: usize, flushed_in: usize) -> (r: PrinterLogMessageResult)
        requires
            cid(*old(color_spec_last)) == old(stdout_color).cur(), old(buffer)@.len() == 0, beg <= end, len == line@.len(), at + len <= usize::MAX,
            printed_in + line@.len() <= usize::MAX, flushed_in < usize::MAX - 20,
        ensures
            // C13: the line itself, whole and once, wherever its datetime range lies (colour changes add no payload byte)
            r is Ok ==> final(buffer)@.len() == 0 && cid(*final(color_spec_last)) == final(stdout_color).cur()
                && vs(final(stdout_color), final(buffer)@) == vs(old(stdout_color), old(buffer)@) + line@
                && r->Ok_0.0 as int == printed_in + line@.len() && r->Ok_0.1 <= flushed_in + 15,
    {
        let mut printed: usize = printed_in;
        let mut flushed: usize = flushed_in;
        proof {
            if at <= beg && end < at + len {
                assert(line@.subrange(0, beg - at) + line@.subrange(beg - at, end - at) + line@.subrange(end - at, line@.len() as int) =~= line@);
            }
        }
//@cut slice path=src/printer/printers.rs impl=PrinterLogMessage fn=print_journalentry_prepend_color anchor="match (at <= beg, end < at + len) {" take=block label=pjc-MID
//@replace "self.stdout_color" "(*stdout_color)" count=*
//@replace "self.buffer" "(*buffer)" count=*
//@replace "self.color_spec_sysline" "(*color_spec_sysline)" count=*
//@replace "self.color_spec_datetime" "(*color_spec_datetime)" count=*
//@replace "self.color_spec_last" "(*color_spec_last)" count=*
//@end
        PrinterLogMessageResult::Ok((printed, flushed))
    }

//@cut fn path=src/printer/printers.rs impl=PrinterLogMessage name=print_journalentry_prepend_color ret=r rlimit=200
//@subst_slice anchor="match (do_prependfile, do_prependdate) {" k=1 take=range end_anchor="buffer_flush_or_return!(self.stdout_color, self.buffer, printed, flushed);" label=pjc-PREFIX with="match PrinterLogMessage::pjc_prefix(&mut self.stdout_color, &mut self.buffer, &self.color_spec_default, &mut self.color_spec_last, prepend_file, prepend_date, do_prependfile, do_prependdate, printed, flushed) { PrinterLogMessageResult::Ok(v__) => { printed = v__.0; flushed = v__.1; } PrinterLogMessageResult::Err(e__) => { return PrinterLogMessageResult::Err(e__); } }"
//@subst_slice anchor="match (at <= beg, end < at + len) {" take=block label=pjc-MID with="match PrinterLogMessage::pjc_mid(&mut self.stdout_color, &mut self.buffer, &self.color_spec_sysline, &self.color_spec_datetime, &mut self.color_spec_last, line, at, beg, end, len, printed, flushed) { PrinterLogMessageResult::Ok(v__) => { printed = v__.0; flushed = v__.1; } PrinterLogMessageResult::Err(e__) => { return PrinterLogMessageResult::Err(e__); } }"
//@replace "data[a..].find_byte(NLu8)" "verif_find_byte(&data[a..], NLu8)"
//@desugar_while_let 1 exit="assert(data@.subrange(a as int, data@.len() as int) =~= data@.skip(a as int)); lemma_epayload_tail_none(pre, data@, a as int);"
//@spec
    requires
        old(self).buffer@.len() == 0, old(self).col_ok(),
        do_prependfile || do_prependdate,
        do_prependfile ==> old(self).prepend_file is Some,
        do_prependdate ==> old(self).prepend_date_format.bytes().len() > 0,
        hl_ok(journalentry.hl(), journalentry.data().len() as int),
        epayload(old(self).x_prefix(journalentry.dt_spec(), do_prependfile, do_prependdate), journalentry.data()).len() <= usize::MAX,
        journalentry.data().len() * 30 + 4 < usize::MAX,
    ensures
        final(self).same_config(old(self)), final(self).same_colors(old(self)),
        r is Ok ==> final(self).buffer@.len() == 0 && final(self).col_ok(),
        // C13: with colour too, the payload written is per line: file-name field, datetime field, line -- nothing else
        // (which bytes are highlighted is not part of this contract)
        r is Ok ==> final(self).stdout_color.view() == old(self).stdout_color.view() + epayload(old(self).x_prefix(journalentry.dt_spec(), do_prependfile, do_prependdate), journalentry.data()),
        // C19: the count returned is the number of payload bytes written
        r is Ok ==> r->Ok_0.0 as int == epayload(old(self).x_prefix(journalentry.dt_spec(), do_prependfile, do_prependdate), journalentry.data()).len(),
//@at_entry
    proof { reveal(vs); }
    let ghost pre = self.x_prefix(journalentry.dt_spec(), do_prependfile, do_prependdate);
    let ghost total = epayload(pre, journalentry.data());
    let ghost v00 = self.stdout_color.view();
//@after "let stdout_lock = self.stdout.lock();"
    proof { assert(data@.skip(0) =~= data@); assert(vs(&self.stdout_color, self.buffer@) =~= v00); }
//@loop 1
        invariant
            self.same_config(old(self)), self.same_colors(old(self)), self.col_ok(), self.buffer@.len() == 0,
            data@ == journalentry.data(), data@.len() <= usize::MAX, 0 <= a <= data@.len(), at == a, beg <= end, do_prependfile || do_prependdate || false,
            pre == self.x_prefix(journalentry.dt_spec(), do_prependfile, do_prependdate), total == epayload(pre, data@),
            prepend_file@ == (if do_prependfile { self.pf() } else { Seq::<u8>::empty() }),
            prepend_date@ == (if do_prependdate { dt_text(self.prepend_date_format.bytes(), self.prepend_date_offset, journalentry.dt_spec()) } else { Seq::<u8>::empty() }),
            // what has gone out so far ++ what the remaining text will contribute = the payload
            vs(&self.stdout_color, self.buffer@) + epayload(pre, data@.skip(a as int)) == v00 + total,
            printed + v00.len() == vs(&self.stdout_color, self.buffer@).len(), vs(&self.stdout_color, self.buffer@).len() <= v00.len() + total.len(),
            flushed <= a * 30, total.len() <= usize::MAX, data@.len() * 30 + 4 < usize::MAX,
        ensures
            epayload(pre, data@.skip(a as int)) == Seq::<u8>::empty(),
        decreases data@.len() - a,
//@after "let line = &data[a..a + b + CHARSZ];"
            let ghost a0 = a;
            let ghost v0 = vs(&self.stdout_color, self.buffer@);
            let ghost nxt = epayload(pre, data@.skip(a0 as int + b as int + 1));
            proof {
                let rest = data@.skip(a0 as int);
                lemma_epayload_step(pre, rest, b as int);
                assert(rest.take(b as int + 1) =~= line@);
                assert(rest.skip(b as int + 1) =~= data@.skip(a0 as int + b as int + 1));
                assert(pre =~= prepend_file@ + prepend_date@);
                assert(v00 + total == v0 + (prepend_file@ + prepend_date@ + line@ + nxt)) by {
                    assert(v0 + (pre + line@ + nxt) =~= v0 + (prepend_file@ + prepend_date@ + line@ + nxt));
                }
                lemma_len_parts(v0, prepend_file@, prepend_date@, line@, nxt);
            }
//@before "at += line.len();"
            proof {
                assert(vs(&self.stdout_color, self.buffer@) =~= v0 + prepend_file@ + prepend_date@ + line@);
                assert(v0 + prepend_file@ + prepend_date@ + line@ + nxt =~= v0 + (prepend_file@ + prepend_date@ + line@ + nxt));
            }
//@before "black_box(&stdout_lock);"
    proof {
        assert(v00 + total =~= vs(&self.stdout_color, self.buffer@) + Seq::<u8>::empty());
        assert(vs(&self.stdout_color, self.buffer@) =~= self.stdout_color.view());
    }
//@end

//@cut fn path=src/printer/printers.rs impl=PrinterLogMessage name=print_journalentry ret=r
//@spec
    requires
        old(self).config_ok(),
        hl_ok(journalentry.hl(), journalentry.data().len() as int),
        epayload(old(self).x_prefix(journalentry.dt_spec(), old(self).do_prepend_file, old(self).do_prepend_date), journalentry.data()).len() <= usize::MAX,
        journalentry.data().len() * 30 + 4 < usize::MAX,
    ensures
        final(self).same_config(old(self)),
        r is Ok ==> final(self).config_ok(),
        // C13: whatever the colour setting, the payload is the text itself without prepend options, else per line prefix ++ line
        r is Ok ==> r->Ok_0.0 as int == (if !old(self).do_prepend_file && !old(self).do_prepend_date { journalentry.data().len() as int }
            else { epayload(old(self).x_prefix(journalentry.dt_spec(), old(self).do_prepend_file, old(self).do_prepend_date), journalentry.data()).len() as int }),
//@end
//PRNX-REGION
//@endif
}

} // verus!
fn main() {}
