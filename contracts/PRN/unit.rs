// UNIT PRN — what the printers write (C13 field order, C02/C19 bytes written = bytes counted).  DESIGN.md 4.PRN
#![feature(allocator_api)]
#![allow(unused_imports, non_camel_case_types, dead_code, unused_variables, unused_parens, unused_mut, unused_assignments, non_upper_case_globals)]
use vstd::prelude::*;
use vstd::std_specs::cmp::*;
use core::cmp::Ordering;
use std::sync::Arc;
verus! {

global size_of usize == 8;

pub type BufIndex = usize;
pub type Count = u64;

//@include ../common/datetime.rs

// ---- assumed: Vec::capacity >= len (vstd has no spec for it)
pub assume_specification<T, A: std::alloc::Allocator> [Vec::<T, A>::capacity] (v: &Vec<T, A>) -> (r: usize)
    ensures r >= v@.len();

// ---- assumed: io::Error opaque; String is used only as a byte string
#[verifier::external_body]
pub struct Error { _p: u8 }
pub type Result<T> = core::result::Result<T, Error>;
#[verifier::external_body]
pub struct String { _p: u8 }
impl String {
    pub uninterp spec fn bytes(&self) -> Seq<u8>;
    #[verifier::external_body]
    pub fn as_bytes(&self) -> (r: &[u8]) ensures r@ == self.bytes() { unimplemented!() }
    #[verifier::external_body]
    pub fn is_empty(&self) -> (r: bool) ensures r == (self.bytes().len() == 0) { unimplemented!() }
}
pub type DateTimePattern_string = String;

// ---- assumed: the standard-output handles.  `view()` = payload bytes written through the handle so far;
// write_all appends on Ok, flush does not change the view; colour escapes are counted apart from payload
#[verifier::external_body]
pub struct StdoutLock { _p: u8 }
impl StdoutLock {
    pub uninterp spec fn view(&self) -> Seq<u8>;
    #[verifier::external_body]
    pub fn write_all(&mut self, buf: &[u8]) -> (r: Result<()>)
        ensures r is Ok ==> final(self)@ == old(self)@ + buf@
    { unimplemented!() }
    #[verifier::external_body]
    pub fn flush(&mut self) -> (r: Result<()>) ensures final(self)@ == old(self)@ { unimplemented!() }
}
#[verifier::external_body]
pub struct Stdout { _p: u8 }
impl Stdout {
    #[verifier::external_body]
    pub fn lock(&self) -> (r: StdoutLock) ensures r@ == Seq::<u8>::empty() { unimplemented!() }
}
#[verifier::external_body]
pub struct ColorSpec { _p: u8 }
#[verifier::external_body]
pub struct Color { _p: u8 }
#[verifier::external_body]
pub struct ColorChoice { _p: u8 }
#[verifier::external_body]
pub struct FixedOffset { _p: u8 }
#[verifier::external_body]
pub struct StandardStream { _p: u8 }

// ---- assumed: an accounting record renders itself into the caller's buffer; R(m) = buffer[..at]
//@cut type kind=enum path=src/data/fixedstruct.rs name=InfoAsBytes derives=
//@end
#[verifier::external_body]
pub struct FixedStruct { _p: u8 }
impl FixedStruct {
    pub uninterp spec fn dt_spec(&self) -> DateTimeL;
    /// R(m): the text the record renders into a buffer of `buflen` bytes (cut short if it does not fit)
    pub uninterp spec fn render(&self, buflen: int) -> Seq<u8>;
    #[verifier::external_body]
    pub fn as_bytes(&self, buffer: &mut [u8]) -> (r: InfoAsBytes)
        ensures
            final(buffer)@.len() == old(buffer)@.len(),
            self.render(old(buffer)@.len() as int).len() <= old(buffer)@.len(),
            r is Ok ==> r->Ok_0 as int == self.render(old(buffer)@.len() as int).len(),
            r is Fail ==> r->Fail_0 as int == self.render(old(buffer)@.len() as int).len(),
            final(buffer)@.subrange(0, self.render(old(buffer)@.len() as int).len() as int) == self.render(old(buffer)@.len() as int),
    { unimplemented!() }
}

// ---- real: the printer's constants and struct (src/printer/printers.rs); fields made visible to specs
//@cut type kind=const path=src/printer/printers.rs name=BUFFER_USE
//@end
//@cut type kind=const path=src/printer/printers.rs name=BUFFER_CAP
//@end
//@cut type kind=type path=src/printer/printers.rs name=PrinterLogMessageResult
//@end
//@cut type kind=struct path=src/printer/printers.rs name=PrinterLogMessage derives= pubfields=1
//@replace "std::io::Stdout" "Stdout"
//@replace "termcolor::StandardStream" "StandardStream"
//@end

//@macros path=src/printer/printers.rs names=buffer_flush_or_seterr,buffer_flush_or_return,buffer_flush_nostats,buffer_write_or_return

/// D(m): the datetime field text for a message whose datetime is `dt`, under the printer's format and zone (opaque: chrono)
pub uninterp spec fn dt_text(fmt: Seq<u8>, dt: DateTimeL) -> Seq<u8>;

impl PrinterLogMessage {
    pub open spec fn pf(&self) -> Seq<u8> { self.prepend_file.unwrap().bytes() }

    #[verifier::external_body]
    fn datetime_to_string_fixedstruct(&self, fixedstruct: &FixedStruct) -> (r: String)
        ensures r.bytes() == dt_text(self.prepend_date_format.bytes(), fixedstruct.dt_spec())
    { unimplemented!() }

    /// C13: payload of one accounting record = [file-name field] ++ [datetime field] ++ record text, in that order
    pub open spec fn fx_payload(&self, m: &FixedStruct, buflen: int, with_file: bool, with_date: bool) -> Seq<u8> {
        (if with_file { self.pf() } else { Seq::<u8>::empty() })
        + (if with_date { dt_text(self.prepend_date_format.bytes(), m.dt_spec()) } else { Seq::<u8>::empty() })
        + m.render(buflen)
    }
    pub open spec fn same_config(&self, o: &Self) -> bool {
        self.prepend_file == o.prepend_file && self.prepend_date_format == o.prepend_date_format
        && self.do_color == o.do_color && self.do_prepend_file == o.do_prepend_file && self.do_prepend_date == o.do_prepend_date
    }

//@cut fn path=src/printer/printers.rs impl=PrinterLogMessage name=print_fixedstruct_ ret=r
//@spec
    requires old(self).buffer@.len() == 0
    ensures
        final(self).same_config(old(self)),
        r is Ok ==> final(self).buffer@.len() == 0,
        // C19: the count returned is the number of payload bytes written
        r is Ok ==> r->Ok_0.0 as int == old(self).fx_payload(fixedstruct, old(buffer)@.len() as int, false, false).len(),
//@before "PrinterLogMessageResult::Ok((printed, flushed))"
        // C13 / C02: exactly the payload was written, nothing else; every byte written was counted
        assert(stdout_lock@ == self.fx_payload(fixedstruct, buffer@.len() as int, false, false) && printed == stdout_lock@.len() && self.buffer@.len() == 0);
//@end

//@cut fn path=src/printer/printers.rs impl=PrinterLogMessage name=print_fixedstruct_prependdate ret=r
//@spec
    requires
        old(self).buffer@.len() == 0,
        old(self).prepend_date_format.bytes().len() > 0,
        old(self).fx_payload(fixedstruct, old(buffer)@.len() as int, false, true).len() <= usize::MAX,
    ensures
        final(self).same_config(old(self)),
        r is Ok ==> final(self).buffer@.len() == 0,
        r is Ok ==> r->Ok_0.0 as int == old(self).fx_payload(fixedstruct, old(buffer)@.len() as int, false, true).len(),
//@before "PrinterLogMessageResult::Ok((printed, flushed))"
        assert(stdout_lock@ == self.fx_payload(fixedstruct, buffer@.len() as int, false, true) && printed == stdout_lock@.len() && self.buffer@.len() == 0);
//@end

//@cut fn path=src/printer/printers.rs impl=PrinterLogMessage name=print_fixedstruct_prependfile ret=r
//@spec
    requires
        old(self).buffer@.len() == 0,
        old(self).prepend_file is Some,
        old(self).fx_payload(fixedstruct, old(buffer)@.len() as int, true, false).len() <= usize::MAX,
    ensures
        final(self).same_config(old(self)),
        r is Ok ==> final(self).buffer@.len() == 0,
        r is Ok ==> r->Ok_0.0 as int == old(self).fx_payload(fixedstruct, old(buffer)@.len() as int, true, false).len(),
//@before "PrinterLogMessageResult::Ok((printed, flushed))"
        assert(stdout_lock@ == self.fx_payload(fixedstruct, buffer@.len() as int, true, false) && printed == stdout_lock@.len() && self.buffer@.len() == 0);
//@end

//@cut fn path=src/printer/printers.rs impl=PrinterLogMessage name=print_fixedstruct_prependfile_prependdate ret=r
//@spec
    requires
        old(self).buffer@.len() == 0,
        old(self).prepend_file is Some,
        old(self).prepend_date_format.bytes().len() > 0,
        old(self).fx_payload(fixedstruct, old(buffer)@.len() as int, true, true).len() <= usize::MAX,
    ensures
        final(self).same_config(old(self)),
        r is Ok ==> final(self).buffer@.len() == 0,
        r is Ok ==> r->Ok_0.0 as int == old(self).fx_payload(fixedstruct, old(buffer)@.len() as int, true, true).len(),
//@before "let mut error_ret: Option<Error> = None;" 2
        assert(stdout_lock@ + self.buffer@ == self.pf() && printed == stdout_lock@.len());
//@before "let mut error_ret: Option<Error> = None;" 3
        assert(stdout_lock@ + self.buffer@ == self.pf() + dt_text(self.prepend_date_format.bytes(), fixedstruct.dt_spec()) && printed == stdout_lock@.len());
//@before "let mut error_ret: Option<Error> = None;" 4
        assert(stdout_lock@ + self.buffer@ == self.fx_payload(fixedstruct, buffer@.len() as int, true, true) && printed == stdout_lock@.len());
//@before "PrinterLogMessageResult::Ok((printed, flushed))"
        // C13: the file-name field comes before the datetime field, as for every other kind of message
        assert(stdout_lock@ == self.fx_payload(fixedstruct, buffer@.len() as int, true, true) && printed == stdout_lock@.len() && self.buffer@.len() == 0);
//@end
}

} // verus!
fn main() {}
