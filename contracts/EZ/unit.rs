// UNIT EZ — the pre-checks that may skip the regular expression are sound (C04, narrow).  DESIGN.md section 4.EZ
#![allow(unused_imports, non_camel_case_types, dead_code, unused_variables, unused_parens, unused_mut, unused_assignments, non_snake_case)]
use vstd::prelude::*;
verus! {

global size_of usize == 8;
pub type LineIndex = usize;
pub type CharSz = usize;
pub type Count = u64;

pub open spec fn is_digit(b: u8) -> bool { 0x30 <= b <= 0x39 }
pub open spec fn is_12(b: u8) -> bool { b == 0x31 || b == 0x32 }
/// the slice holds two adjacent ASCII digits
pub open spec fn pair_d2(s: Seq<u8>) -> bool { exists|i: int| 0 <= i && i + 1 < s.len() && is_digit(#[trigger] s[i]) && is_digit(s[i + 1]) }
/// the slice holds a '1' or a '2'
pub open spec fn has_12(s: Seq<u8>) -> bool { exists|i: int| 0 <= i < s.len() && is_12(#[trigger] s[i]) }
pub open spec fn has_either(s: Seq<u8>, a: u8, b: u8) -> bool { exists|i: int| 0 <= i < s.len() && (#[trigger] s[i] == a || s[i] == b) }

// ---- assumed: memchr::memchr2 finds either byte iff present
#[verifier::external_body]
pub fn verif_memchr2(a: u8, b: u8, s: &[u8]) -> (r: Option<usize>)
    ensures r is Some <==> has_either(s@, a, b)
{ unimplemented!() }

//@cut fn path=src/data/datetime.rs name=slice_contains_X_2_memchr ret=r
//@replace "memchr::memchr2(" "verif_memchr2("
//@spec
    ensures r == has_either(slice_@, search[0], search[1])
//@end
//@cut fn path=src/data/datetime.rs name=slice_contains_X_2 ret=r
//@spec
    ensures r == has_either(slice_@, search[0], search[1])
//@end

//@cut fn path=src/data/datetime.rs name=slice_contains_D2_custom ret=r
//@desugar_for 1 it
//@spec
    ensures r == pair_d2(slice_@)
//@loop 1
        invariant_except_break
            vstd::std_specs::iter::IteratorSpec::decrease(&it.iter) is Some,
        invariant
            it.snapshot@ == it__snap0, it.wf(),
            it.seq().len() == slice_@.len(),
            forall|i: int| 0 <= i < slice_@.len() ==> *it.seq()[i] == slice_@[i],
            0 <= it.index@ <= it.seq().len(),
            // no adjacent digit pair ends before the cursor; byte_last_d tells whether the byte before it is a digit
            forall|i: int| 0 <= i && i + 1 < it.index@ ==> !(is_digit(#[trigger] slice_@[i]) && is_digit(slice_@[i + 1])),
            byte_last_d == (it.index@ > 0 && is_digit(slice_@[it.index@ - 1])),
        ensures
            it.index@ == it.seq().len(),
        decreases vstd::std_specs::iter::IteratorSpec::decrease(&it.iter).unwrap_or(arbitrary()),
//@before "return true;"
                    proof { let k = it__old.index@ as int; assert(is_digit(slice_@[k - 1]) && is_digit(slice_@[(k - 1) + 1])); }
//@mutate "_ => byte_last_d = false," "_ => {},"
//@end
//@cut fn path=src/data/datetime.rs name=slice_contains_D2 ret=r
//@spec
    ensures r == pair_d2(slice_@)
//@end

//@cut fn path=src/data/datetime.rs name=slice_contains_12_D2 ret=r
//@replace "pub (crate) fn" "pub fn"
//@desugar_for 1 it
//@spec
    ensures r == (has_12(slice_@) || pair_d2(slice_@))
//@loop 1
        invariant_except_break
            vstd::std_specs::iter::IteratorSpec::decrease(&it.iter) is Some,
        invariant
            it.snapshot@ == it__snap0, it.wf(),
            it.seq().len() == slice_@.len(),
            forall|i: int| 0 <= i < slice_@.len() ==> *it.seq()[i] == slice_@[i],
            0 <= it.index@ <= it.seq().len(),
            forall|i: int| 0 <= i < it.index@ ==> !is_12(#[trigger] slice_@[i]),
            forall|i: int| 0 <= i && i + 1 < it.index@ ==> !(is_digit(#[trigger] slice_@[i]) && is_digit(slice_@[i + 1])),
            byte_last_d == (it.index@ > 0 && is_digit(slice_@[it.index@ - 1])),
        ensures
            it.index@ == it.seq().len(),
        decreases vstd::std_specs::iter::IteratorSpec::decrease(&it.iter).unwrap_or(arbitrary()),
//@before "return true;" 1
                proof { let k = it__old.index@ as int; assert(is_12(slice_@[k])); }
//@before "return true;" 2
                    proof { let k = it__old.index@ as int; assert(is_digit(slice_@[k - 1]) && is_digit(slice_@[(k - 1) + 1])); }
//@end


// ---- the pattern descriptors the pre-check reads
//@cut type kind=enum path=src/data/datetime.rs name=DTFS_Year derives=
//@end
//@cut type kind=enum path=src/data/datetime.rs name=DTFS_Month derives=
//@end
//@cut type kind=enum path=src/data/datetime.rs name=DTFS_Day derives=
//@end
//@cut type kind=enum path=src/data/datetime.rs name=DTFS_Hour derives=
//@end
//@cut type kind=enum path=src/data/datetime.rs name=DTFS_Minute derives=
//@end
//@cut type kind=enum path=src/data/datetime.rs name=DTFS_Second derives=
//@end
//@cut type kind=enum path=src/data/datetime.rs name=DTFS_Fractional derives=
//@end
//@cut type kind=enum path=src/data/datetime.rs name=DTFS_Tz derives=
//@end
//@cut type kind=enum path=src/data/datetime.rs name=DTFS_Epoch derives=
//@end
pub type DateTimePattern_str = str;
pub type DateTimeRegex_str = str;
pub type CaptureGroupName = str;
pub type RangeLineIndex = std::ops::Range<LineIndex>;
//@cut type kind=struct path=src/data/datetime.rs name=DTFSSet derives=
//@end
//@cut type kind=struct path=src/data/datetime.rs name=DateTimeParseInstr derives=
//@end

/// the pattern has a `%Y` field: its text carries a four-digit year (regex CGP_YEAR: 1969|19[789]d|20dd)
pub open spec fn needs_year4(d: DTFSSet) -> bool { d.year is Y }
/// the pattern has at least one field that is written with two adjacent digits
pub open spec fn needs_d2(d: DTFSSet) -> bool {
    d.year is Y || d.month is m || d.hour is H || d.hour is I || d.minute is M || d.second is S
    || d.tz is z || d.tz is zc || d.tz is zp || d.epoch is s
}

impl DTFSSet<'_> {
//@cut fn path=src/data/datetime.rs impl=DTFSSet name=has_year4 ret=r
//@replace "pub const fn" "pub fn"
//@spec
    ensures r == needs_year4(*self)
//@end
//@cut fn path=src/data/datetime.rs impl=DTFSSet name=has_d2 ret=r
//@replace "pub const fn" "pub fn"
//@spec
    ensures r == needs_d2(*self)
//@end
}

// ---- ghost invariant of the per-line offsets ("bytes before *min were already shown free")
/// no '1'/'2' among the first m bytes of l
pub open spec fn free12(l: Seq<u8>, m: int) -> bool { forall|i: int| 0 <= i < m && i < l.len() ==> !is_12(#[trigger] l[i]) }
/// no adjacent digit pair that begins before byte m of l
pub open spec fn freed2(l: Seq<u8>, m: int) -> bool { forall|i: int| 0 <= i < m && i + 1 < l.len() ==> !(is_digit(#[trigger] l[i]) && is_digit(l[i + 1])) }

/// what the scan of l[min(m0, len)..] adds to the carried-over knowledge about l[..m0]
pub proof fn lemma_join_d2(l: Seq<u8>, m0: int)
    requires m0 >= 0, freed2(l, m0), !pair_d2(l.subrange(if m0 <= l.len() { m0 } else { l.len() as int }, l.len() as int))
    ensures !pair_d2(l)
{
    let m = if m0 <= l.len() { m0 } else { l.len() as int };
    let sub = l.subrange(m, l.len() as int);
    assert forall|i: int| 0 <= i && i + 1 < l.len() implies !(is_digit(#[trigger] l[i]) && is_digit(l[i + 1])) by {
        if i >= m && is_digit(l[i]) && is_digit(l[i + 1]) {
            assert(is_digit(sub[i - m]) && is_digit(sub[(i - m) + 1]));
        }
    }
}
pub proof fn lemma_join_12(l: Seq<u8>, m0: int)
    requires m0 >= 0, free12(l, m0), !has_12(l.subrange(if m0 <= l.len() { m0 } else { l.len() as int }, l.len() as int))
    ensures !has_12(l)
{
    let m = if m0 <= l.len() { m0 } else { l.len() as int };
    let sub = l.subrange(m, l.len() as int);
    assert forall|i: int| 0 <= i < l.len() implies !is_12(#[trigger] l[i]) by {
        if i >= m && is_12(l[i]) { assert(is_12(sub[i - m])); }
    }
}

pub fn min(a: usize, b: usize) -> (r: usize) ensures r == (if a <= b { a } else { b }) { if a <= b { a } else { b } }  // stand-in for std::cmp::min
pub fn max(a: usize, b: usize) -> (r: usize) ensures r == (if a >= b { a } else { b }) { if a >= b { a } else { b } }  // stand-in for std::cmp::max

pub struct SyslineReader {}
impl SyslineReader {
//@cut fn path=src/readers/syslinereader.rs impl=SyslineReader name=ezcheck_slice ret=r
//@replace "pub(crate) fn" "pub fn"
//@replace "const EZCHECK12: &[u8; 2]" "const EZCHECK12: &'static [u8; 2]"
//@spec
    requires
        charsz == 1,
        dtpd.range_regex.start == 0,
        free12(slice_@, *old(ezcheck12_min) as int),
        freed2(slice_@, *old(ezcheckd2_min) as int),
        free12(slice_@, *old(ezcheck12d2_min) as int), freed2(slice_@, *old(ezcheck12d2_min) as int),
        *old(ezcheck12_hit) < u64::MAX, *old(ezcheck12_miss) < u64::MAX, *old(ezcheckd2_hit) < u64::MAX,
        *old(ezcheckd2_miss) < u64::MAX, *old(ezcheck12d2_hit) < u64::MAX, *old(ezcheck12d2_miss) < u64::MAX,
    ensures
        // a skip (true) is taken only if the slice cannot hold what the pattern needs
        r && needs_year4(dtpd.dtfs) ==> !has_12(slice_@),
        r && needs_d2(dtpd.dtfs) ==> !pair_d2(slice_@),
        r ==> needs_year4(dtpd.dtfs) || needs_d2(dtpd.dtfs),
        // an offset moves only after the whole slice was shown free, and stays inside it
        *final(ezcheck12_min) == *old(ezcheck12_min) || (*final(ezcheck12_min) <= slice_@.len() && !has_12(slice_@)),
        *final(ezcheckd2_min) == *old(ezcheckd2_min) || (*final(ezcheckd2_min) < slice_@.len() && !pair_d2(slice_@)),
        *final(ezcheck12d2_min) == *old(ezcheck12d2_min) || (*final(ezcheck12d2_min) < slice_@.len() && !has_12(slice_@) && !pair_d2(slice_@)),
//@before "*ezcheck12_hit += 1;"
                    proof { lemma_join_12(slice_@, *old(ezcheck12_min) as int); }
//@before "*ezcheckd2_hit += 1;"
                    proof { lemma_join_d2(slice_@, *old(ezcheckd2_min) as int); }
//@before "*ezcheck12d2_hit += 1;"
                    proof { lemma_join_12(slice_@, *old(ezcheck12d2_min) as int); lemma_join_d2(slice_@, *old(ezcheck12d2_min) as int); }
//@mutate "&slice_[min(*ezcheckd2_min, slice_.len())..]" "&slice_[min(*ezcheckd2_min + 1, slice_.len())..]"
//@end
}


// =====================================================================================================
// The call site in SyslineReader::find_datetime_in_line: one line `l`, many patterns; every built-in pattern has
// range_regex.start == 0 (table fact below), so every slice_ is a prefix of `l`, and the three offsets are carried over.

/// find_datetime_in_line starts each line with all three offsets at 0
pub fn ez_init(Ghost(l): Ghost<Seq<u8>>) -> (r: (LineIndex, LineIndex, LineIndex))
    ensures free12(l, r.0 as int), freed2(l, r.1 as int), free12(l, r.2 as int), freed2(l, r.2 as int),
{
//@cut slice path=src/readers/syslinereader.rs impl=SyslineReader fn=find_datetime_in_line anchor="let mut ezcheck12_min" take=stmt label=EZ-INIT-12
//@end
//@cut slice path=src/readers/syslinereader.rs impl=SyslineReader fn=find_datetime_in_line anchor="let mut ezcheckd2_min" take=stmt label=EZ-INIT-D2
//@end
//@cut slice path=src/readers/syslinereader.rs impl=SyslineReader fn=find_datetime_in_line anchor="let mut ezcheck12d2_min" take=stmt label=EZ-INIT-12D2
//@end
    (ezcheck12_min, ezcheckd2_min, ezcheck12d2_min)
}

pub open spec fn is_prefix(s: Seq<u8>, l: Seq<u8>) -> bool { s.len() <= l.len() && forall|i: int| 0 <= i < s.len() ==> s[i] == l[i] }

pub proof fn lemma_prefix_free(s: Seq<u8>, l: Seq<u8>, m: int)
    requires is_prefix(s, l)
    ensures free12(l, m) ==> free12(s, m), freed2(l, m) ==> freed2(s, m)
{
    if free12(l, m) { assert forall|i: int| 0 <= i < m && i < s.len() implies !is_12(#[trigger] s[i]) by { assert(s[i] == l[i]); } }
    if freed2(l, m) { assert forall|i: int| 0 <= i < m && i + 1 < s.len() implies !(is_digit(#[trigger] s[i]) && is_digit(s[i + 1])) by { assert(s[i] == l[i]); assert(s[i + 1] == l[i + 1]); } }
}
pub proof fn lemma_carry_12(s: Seq<u8>, l: Seq<u8>, m0: int, m1: int)
    requires is_prefix(s, l), free12(l, m0), m1 == m0 || (m1 <= s.len() && !has_12(s))
    ensures free12(l, m1)
{
    if m1 != m0 { assert forall|i: int| 0 <= i < m1 && i < l.len() implies !is_12(#[trigger] l[i]) by { assert(s[i] == l[i]); } }
}
pub proof fn lemma_carry_d2(s: Seq<u8>, l: Seq<u8>, m0: int, m1: int)
    requires is_prefix(s, l), freed2(l, m0), m1 == m0 || (m1 < s.len() && !pair_d2(s))
    ensures freed2(l, m1)
{
    if m1 != m0 { assert forall|i: int| 0 <= i < m1 && i + 1 < l.len() implies !(is_digit(#[trigger] l[i]) && is_digit(l[i + 1])) by { assert(s[i] == l[i]); assert(s[i + 1] == l[i + 1]); } }
}

/// the `if charsz == 1 && SyslineReader::ezcheck_slice(...) { continue; }` of find_datetime_in_line, for one pattern
pub fn ez_callsite(
    Ghost(l): Ghost<Seq<u8>>,
    dtpd: &DateTimeParseInstr,
    slice_: &[u8],
    charsz: CharSz,
    ezcheck12_min0: LineIndex,
    ezcheckd2_min0: LineIndex,
    ezcheck12d2_min0: LineIndex,
    ezcheck12_hit: &mut Count,
    ezcheck12_miss: &mut Count,
    ezcheck12_hit_max: &mut LineIndex,
    ezcheckd2_hit: &mut Count,
    ezcheckd2_miss: &mut Count,
    ezcheckd2_hit_max: &mut LineIndex,
    ezcheck12d2_hit: &mut Count,
    ezcheck12d2_miss: &mut Count,
    ezcheck12d2_hit_max: &mut LineIndex,
) -> (r: (bool, LineIndex, LineIndex, LineIndex))
    requires
        dtpd.range_regex.start == 0,
        is_prefix(slice_@, l),
        free12(l, ezcheck12_min0 as int), freed2(l, ezcheckd2_min0 as int), free12(l, ezcheck12d2_min0 as int), freed2(l, ezcheck12d2_min0 as int),
        *old(ezcheck12_hit) < u64::MAX, *old(ezcheck12_miss) < u64::MAX, *old(ezcheckd2_hit) < u64::MAX,
        *old(ezcheckd2_miss) < u64::MAX, *old(ezcheck12d2_hit) < u64::MAX, *old(ezcheck12d2_miss) < u64::MAX,
    ensures
        // C04 (pre-check part): the regex is skipped for this pattern only if its slice holds no 4-digit year of 1970..2099
        // (pattern with %Y) resp. no two-digit field (pattern with a two-digit field)
        r.0 && needs_year4(dtpd.dtfs) ==> forall|y: int| 1970 <= y <= 2099 ==> !occurs(slice_@, #[trigger] digits4(y)),
        r.0 && needs_d2(dtpd.dtfs) ==> forall|a: u8, b: u8| is_digit(a) && is_digit(b) ==> !occurs(slice_@, #[trigger] seq![a, b]),
        // and what is carried to the next pattern is still true of the line
        free12(l, r.1 as int), freed2(l, r.2 as int), free12(l, r.3 as int), freed2(l, r.3 as int),
{
    let mut ezcheck12_min = ezcheck12_min0;
    let mut ezcheckd2_min = ezcheckd2_min0;
    let mut ezcheck12d2_min = ezcheck12d2_min0;
    proof {
        lemma_prefix_free(slice_@, l, ezcheck12_min0 as int); lemma_prefix_free(slice_@, l, ezcheckd2_min0 as int);
        lemma_prefix_free(slice_@, l, ezcheck12d2_min0 as int);
    }
    let skip =
//@cut slice path=src/readers/syslinereader.rs impl=SyslineReader fn=find_datetime_in_line anchor="if charsz == 1" take=cond label=EZ-CALL
//@end
    ;
    proof {
        lemma_carry_12(slice_@, l, ezcheck12_min0 as int, ezcheck12_min as int);
        lemma_carry_d2(slice_@, l, ezcheckd2_min0 as int, ezcheckd2_min as int);
        lemma_carry_12(slice_@, l, ezcheck12d2_min0 as int, ezcheck12d2_min as int);
        lemma_carry_d2(slice_@, l, ezcheck12d2_min0 as int, ezcheck12d2_min as int);
        if skip && needs_year4(dtpd.dtfs) { lemma_no12_no_year(slice_@); }
        if skip && needs_d2(dtpd.dtfs) { lemma_nod2_no_field(slice_@); }
    }
    (skip, ezcheck12_min, ezcheckd2_min, ezcheck12d2_min)
}

// ---- what "holds a timestamp" means for the pre-check: the digits of the year / of a two-digit field occur in the slice
pub open spec fn occurs(s: Seq<u8>, t: Seq<u8>) -> bool { exists|o: int| 0 <= o && o + t.len() <= s.len() && #[trigger] s.subrange(o, o + t.len()) == t }
pub open spec fn dig(d: int) -> u8 { (0x30 + d) as u8 }
/// a year written with four decimal digits
pub open spec fn digits4(y: int) -> Seq<u8> { seq![dig(y / 1000), dig((y / 100) % 10), dig((y / 10) % 10), dig(y % 10)] }

/// every year of C04's range starts with '1' or '2': a slice without '1'/'2' holds none of them
pub proof fn lemma_no12_no_year(s: Seq<u8>)
    requires !has_12(s)
    ensures forall|y: int| 1970 <= y <= 2099 ==> !occurs(s, #[trigger] digits4(y))
{
    assert forall|y: int| 1970 <= y <= 2099 implies !occurs(s, #[trigger] digits4(y)) by {
        let t = digits4(y);
        assert(t.len() == 4);
        assert(y / 1000 == 1 || y / 1000 == 2);
        assert(is_12(t[0]));
        if occurs(s, t) {
            let o = choose|o: int| 0 <= o && o + t.len() <= s.len() && #[trigger] s.subrange(o, o + t.len()) == t;
            assert(s.subrange(o, o + 4)[0] == s[o]);
            assert(is_12(s[o]));
        }
    }
}
/// a two-digit field is two adjacent digits
pub proof fn lemma_nod2_no_field(s: Seq<u8>)
    requires !pair_d2(s)
    ensures forall|a: u8, b: u8| is_digit(a) && is_digit(b) ==> !occurs(s, #[trigger] seq![a, b])
{
    assert forall|a: u8, b: u8| is_digit(a) && is_digit(b) implies !occurs(s, #[trigger] seq![a, b]) by {
        let t = seq![a, b];
        if occurs(s, t) {
            let o = choose|o: int| 0 <= o && o + t.len() <= s.len() && #[trigger] s.subrange(o, o + t.len()) == t;
            assert(s.subrange(o, o + 2)[0] == s[o] && s.subrange(o, o + 2)[1] == s[o + 1]);
            assert(is_digit(s[o]) && is_digit(s[o + 1]));
        }
    }
}
/// the year digits are four adjacent digits as well (a %Y pattern is covered by the D2 pre-check too)
pub proof fn lemma_year_has_d2(s: Seq<u8>, y: int)
    requires 1970 <= y <= 2099, occurs(s, digits4(y))
    ensures pair_d2(s), has_12(s)
{
    let t = digits4(y);
    let o = choose|o: int| 0 <= o && o + t.len() <= s.len() && #[trigger] s.subrange(o, o + t.len()) == t;
    assert(s.subrange(o, o + 4)[0] == s[o] && s.subrange(o, o + 4)[1] == s[o + 1]);
    assert(y / 1000 == 1 || y / 1000 == 2);
    assert(is_digit(s[o]) && is_digit(s[o + 1]));
    assert(is_12(s[o]));
}
pub proof fn ez__canary(l: Seq<u8>)
    requires free12(l, 3), freed2(l, 3), l.len() >= 5, !has_12(l.subrange(0, 4)), is_prefix(l.subrange(0, 4), l)
    ensures false
{}

// ---- the table fact ezcheck_slice relies on: every built-in pattern's slice starts at the beginning of the line
//@table path=src/data/datetime.rs macro=DTPD arg=2 name=dtpd_range_starts
pub proof fn table_starts_are_zero()
    ensures forall|i: int| 0 <= i < dtpd_range_starts().len() ==> #[trigger] dtpd_range_starts()[i] == 0
{
    assert(forall|i: int| 0 <= i < dtpd_range_starts().len() ==> #[trigger] dtpd_range_starts()[i] == 0) by (compute);
}

} // verus!
fn main() {}
