// UNIT WRK — worker protocol and per-source FIFO (C06, C01, C02).  DESIGN.md section 4.WRK
#![feature(allocator_api)]
#![allow(unused_imports, non_camel_case_types, dead_code, unused_variables, unused_parens, unused_mut, unused_assignments, non_snake_case, unused_labels)]
use vstd::prelude::*;
use vstd::std_specs::cmp::*;
use core::cmp::Ordering;
use std::sync::Arc;
verus! {

global size_of usize == 8;
pub type Count = u64;
pub type PathId = usize;
pub type FileOffset = u64;
pub type BlockSz = u64;

//@include ../common/datetime.rs

// ---- assumed: opaque value types that the drivers only pass around
#[verifier::external_body]
pub struct Error { _p: u8 }
#[verifier::external_body]
pub struct String { _p: u8 }
impl Clone for String { #[verifier::external_body] fn clone(&self) -> (r: Self) ensures r == *self { unimplemented!() } }
impl Error { #[verifier::external_body] pub fn to_string(&self) -> String { unimplemented!() } }
pub type FPath = String;
#[verifier::external_body]
pub struct FixedOffset { _p: u8 }
impl Copy for FixedOffset {}
impl Clone for FixedOffset { #[verifier::external_body] fn clone(&self) -> (r: Self) ensures r == *self { unimplemented!() } }
#[verifier::external_body]
pub struct SystemTime { _p: u8 }
#[verifier::external_body]
pub struct ThreadId { _p: u8 }
#[verifier::external_body]
pub struct SummaryRest { _p: u8 }
pub struct Summary { pub error: Option<String>, pub rest: SummaryRest }
pub type SummaryOpt = Option<Summary>;
#[verifier::external_body]
pub struct JournalOutput { _p: u8 }
#[verifier::external_body]
pub fn systemtime_to_datetime(tz: &FixedOffset, st: &SystemTime) -> DateTimeL { unimplemented!() }

// ---- real: enums and aliases the drivers match on / construct (src/common.rs, src/bin/s4.rs)
//@cut type kind=enum path=src/common.rs name=FileTypeArchive derives=Clone,Copy
//@end
//@cut type kind=enum path=src/common.rs name=FileTypeFixedStruct derives=Clone,Copy
//@end
//@cut type kind=enum path=src/common.rs name=FileTypeTextEncoding derives=Clone,Copy
//@end
//@cut type kind=enum path=src/common.rs name=FileType derives=Clone,Copy
//@end
//@cut type kind=enum path=src/common.rs name=LogMessageType derives=Clone,Copy
//@replace "#[default]" ""
//@end
//@cut type kind=enum path=src/common.rs name=FileProcessingResult derives=
//@end
pub type FileProcessingResultBlockZero = FileProcessingResult<Error>;
impl<E> FileProcessingResult<E> {
//@cut fn path=src/common.rs impl=FileProcessingResult name=is_ok ret=r
//@spec
    ensures r == (*self is FileOk)
//@end
//@cut fn path=src/common.rs impl=FileProcessingResult name=is_stub ret=r
//@spec
    ensures r == (*self is FileErrStub)
//@end
//@cut fn path=src/common.rs impl=FileProcessingResult name=has_err ret=r
//@spec
    ensures r == (*self is FileErrIo || *self is FileErrIoPath)
//@end
}
//@cut type kind=enum path=src/common.rs name=ResultS3 derives=
//@end
//@cut type kind=const path=src/bin/s4.rs name=FILEERRSTUB
//@end
//@cut type kind=const path=src/bin/s4.rs name=FILEOK
//@end
//@cut type kind=enum path=src/bin/s4.rs name=LogMessageSpecificData derives=
//@end
//@cut type kind=type path=src/bin/s4.rs name=ThreadInitData
//@replace "type ThreadInitData" "pub type ThreadInitData"
//@end
//@cut type kind=type path=src/bin/s4.rs name=IsLastLogMessage
//@replace "type IsLastLogMessage" "pub type IsLastLogMessage"
//@end

// ---- assumed: the message kinds; a text message knows which message of its file it is (ghost index)
#[verifier::external_body]
pub struct Sysline { _p: u8 }
pub type SyslineP = Arc<Sysline>;
impl Sysline { pub uninterp spec fn idx(&self) -> int; }
#[verifier::external_body]
pub struct FixedStruct { _p: u8 }
#[verifier::external_body]
pub struct Evtx { _p: u8 }
#[verifier::external_body]
pub struct JournalEntry { _p: u8 }
//@cut type kind=enum path=src/data/common.rs name=LogMessage derives=
//@end
//@cut type kind=enum path=src/bin/s4.rs name=ChanDatum derives=
//@replace "enum ChanDatum" "pub enum ChanDatum"
//@end

// ---- assumed (DESIGN 7.5): the worker's end of a crossbeam bounded channel appends, in order, to the FIFO that
// the coordinator reads; R10 exposes that effect by passing the sender as `&mut`
#[verifier::external_body]
pub struct ChanSendDatum { _p: u8 }
impl ChanSendDatum {
    pub uninterp spec fn log(&self) -> Seq<ChanDatum>;
    #[verifier::external_body]
    pub fn send(&mut self, d: ChanDatum) -> (r: core::result::Result<(), Error>)
        ensures final(self).log() == old(self).log().push(d)
    { unimplemented!() }
    // the channel's other send methods give up instead of blocking: the datum is then NOT delivered (assumed: crossbeam's semantics)
    #[verifier::external_body]
    pub fn send_timeout<T>(&mut self, d: ChanDatum, timeout: T) -> (r: core::result::Result<(), Error>)
        ensures r is Ok ==> final(self).log() == old(self).log().push(d), r is Err ==> final(self).log() == old(self).log()
    { unimplemented!() }
    #[verifier::external_body]
    pub fn try_send(&mut self, d: ChanDatum) -> (r: core::result::Result<(), Error>)
        ensures r is Ok ==> final(self).log() == old(self).log().push(d), r is Err ==> final(self).log() == old(self).log()
    { unimplemented!() }
}
//@opaque_consts_here

// ---- spec: the protocol every worker must follow on every path (C06: the coordinator's wait condition depends on it)
pub open spec fn open_ok(l: Seq<ChanDatum>) -> bool {
    l.len() >= 1 && l[0] is FileInfo && forall|i: int| 0 < i < l.len() ==> #[trigger] l[i] is NewMessage
}
pub open spec fn closed_ok(l: Seq<ChanDatum>) -> bool {
    l.len() >= 2 && l[0] is FileInfo && l.last() is FileSummary && forall|i: int| 0 < i < l.len() - 1 ==> #[trigger] l[i] is NewMessage
}

//@cut fn path=src/bin/s4.rs name=chan_send
//@replace "chan_send_dt: &ChanSendDatum" "chan_send_dt: &mut ChanSendDatum"
//@spec
    ensures final(chan_send_dt).log() == old(chan_send_dt).log().push(chan_datum)
//@end

// =====================================================================================================
// text logs: exec_syslogprocessor
// ghost model (assumed contract of the reader, unit SRCH proves it for the search functions):
//   model  = the file's messages in file order, SL{beg,end,t}; consecutive, dts non-decreasing (C03's premise)
//   find_sysline_between_datetime_filters(fo) = the first message that ends at or after `fo` whose instant is >= A,
//   Found with the offset one past its end iff its instant is <= B
pub struct SL { pub beg: int, pub end: int, pub t: int }
pub open spec fn model_wf(m: Seq<SL>, filesz: int) -> bool {
    &&& forall|i: int| 0 <= i < m.len() ==> 0 <= (#[trigger] m[i]).beg <= m[i].end < filesz
    &&& forall|i: int| 0 <= i < m.len() - 1 ==> (#[trigger] m[i + 1]).beg == m[i].end + 1
    &&& forall|i: int, j: int| 0 <= i <= j < m.len() ==> (#[trigger] m[i]).t <= (#[trigger] m[j]).t
    &&& (m.len() > 0 ==> m.last().end == filesz - 1)
}
pub open spec fn ge_a(t: int, a: Option<int>) -> bool { a is None || a.unwrap() <= t }
pub open spec fn le_b(t: int, b: Option<int>) -> bool { b is None || t <= b.unwrap() }
/// first index j >= i with m[j].end >= fo and t_j >= A; m.len() if none
pub open spec fn first_from(m: Seq<SL>, a: Option<int>, fo: int, i: int) -> int
    decreases m.len() - i
{
    if i < 0 || i >= m.len() { m.len() as int }
    else if m[i].end >= fo && ge_a(m[i].t, a) { i }
    else { first_from(m, a, fo, i + 1) }
}
pub open spec fn oi(d: DateTimeLOpt) -> Option<int> { match d { Some(x) => Some(instant(x)), None => None } }

/// the messages of the text log at `path` (what the reader would find), its size, as ghost functions of the path
pub uninterp spec fn file_model(path: FPath) -> Seq<SL>;
pub uninterp spec fn file_size(path: FPath) -> int;
#[verifier::external_body]
pub struct SyslogProcessor { _p: u8 }
impl SyslogProcessor {
    pub uninterp spec fn model(&self) -> Seq<SL>;
    pub uninterp spec fn filesz(&self) -> int;
    pub uninterp spec fn a(&self) -> Option<int>;
    pub uninterp spec fn b(&self) -> Option<int>;
    pub open spec fn same(&self, o: &Self) -> bool { self.model() == o.model() && self.filesz() == o.filesz() && self.a() == o.a() && self.b() == o.b() }
    #[verifier::external_body]
    pub fn new(path: FPath, filetype: FileType, blocksz: BlockSz, tz_offset: FixedOffset, filter_dt_after_opt: DateTimeLOpt, filter_dt_before_opt: DateTimeLOpt) -> (r: core::result::Result<SyslogProcessor, Error>)
        ensures r is Ok ==> model_wf(r->Ok_0.model(), r->Ok_0.filesz()) && r->Ok_0.a() == oi(filter_dt_after_opt) && r->Ok_0.b() == oi(filter_dt_before_opt)
            && r->Ok_0.model() == file_model(path) && r->Ok_0.filesz() == file_size(path)
    { unimplemented!() }
    #[verifier::external_body]
    pub fn process_stage0_valid_file_check(&mut self) -> (r: FileProcessingResultBlockZero) ensures final(self).same(old(self)) { unimplemented!() }
    #[verifier::external_body]
    pub fn mtime(&self) -> SystemTime { unimplemented!() }
    #[verifier::external_body]
    pub fn process_stage1_blockzero_analysis(&mut self) -> (r: FileProcessingResultBlockZero) ensures final(self).same(old(self)) { unimplemented!() }
    #[verifier::external_body]
    pub fn process_stage2_find_dt(&mut self, filter_dt_after_opt: &DateTimeLOpt) -> (r: FileProcessingResultBlockZero) ensures final(self).same(old(self)) { unimplemented!() }
    #[verifier::external_body]
    pub fn process_stage3_stream_syslines(&mut self) -> (r: FileProcessingResultBlockZero) ensures final(self).same(old(self)) { unimplemented!() }
    #[verifier::external_body]
    pub fn process_stage4_summary(&mut self) -> (r: Summary) ensures final(self).same(old(self)) { unimplemented!() }
    #[verifier::external_body]
    pub fn summary_complete(&self) -> Summary { unimplemented!() }
    #[verifier::external_body]
    pub fn drop_data_try(&mut self, syslinep: &SyslineP) -> (r: bool) ensures final(self).same(old(self)) { unimplemented!() }
    #[verifier::external_body]
    pub fn is_sysline_last(&self, syslinep: &SyslineP) -> (r: bool)
        ensures r == (syslinep.idx() == self.model().len() - 1)
    { unimplemented!() }
    #[verifier::external_body]
    pub fn find_sysline_between_datetime_filters(&mut self, fileoffset: FileOffset) -> (r: ResultS3<(FileOffset, SyslineP), Error>)
        ensures
            final(self).same(old(self)),
            r is Found ==> ({
                let j = first_from(old(self).model(), old(self).a(), fileoffset as int, 0);
                j < old(self).model().len() && le_b(old(self).model()[j].t, old(self).b())
                    && r->Found_0.1.idx() == j && r->Found_0.0 as int == old(self).model()[j].end + 1
            }),
            r is Done ==> ({
                let j = first_from(old(self).model(), old(self).a(), fileoffset as int, 0);
                j == old(self).model().len() || !le_b(old(self).model()[j].t, old(self).b())
            }),
    { unimplemented!() }
}
impl Summary {
    #[verifier::external_body]
    pub fn new_failed(path: FPath, filetype: FileType, logmessagetype: LogMessageType, blocksz: BlockSz, error: Option<String>) -> Summary { unimplemented!() }
}
pub type ResultS3SyslineFind = ResultS3<(FileOffset, SyslineP), Error>;

/// index of the text message carried by a datum (only meaningful for NewMessage(Sysline))
pub open spec fn msg_idx(d: ChanDatum) -> int {
    match d { ChanDatum::NewMessage(LogMessage::Sysline(s), _) => s.idx(), _ => -1 }
}
pub open spec fn in_win(m: Seq<SL>, a: Option<int>, b: Option<int>, i: int) -> bool { 0 <= i < m.len() && ge_a(m[i].t, a) && le_b(m[i].t, b) }
/// the NewMessages sent so far are the in-window messages with index < cursor, in file order, each once
pub open spec fn sent_ok(l: Seq<ChanDatum>, m: Seq<SL>, a: Option<int>, b: Option<int>, cursor: int) -> bool {
    &&& forall|i: int| 0 < i < l.len() ==> (#[trigger] l[i]) is NewMessage && in_win(m, a, b, msg_idx(l[i])) && msg_idx(l[i]) < cursor
    &&& forall|i: int, j: int| 0 < i < j < l.len() ==> msg_idx(#[trigger] l[i]) < msg_idx(#[trigger] l[j])
    &&& forall|k: int| 0 <= k < cursor && in_win(m, a, b, k) ==> exists|i: int| 0 < i < l.len() && msg_idx(#[trigger] l[i]) == k
}

/// the "last message of its file" flag a datum carries
pub open spec fn msg_flag(d: ChanDatum) -> bool { match d { ChanDatum::NewMessage(_, f) => f, _ => false } }
/// C02: the flag is set exactly on the file's last message (the coordinator supplies a missing final newline after a flagged message)
pub open spec fn flags_ok(l: Seq<ChanDatum>, m: Seq<SL>) -> bool {
    forall|i: int| 0 < i < l.len() ==> msg_flag(#[trigger] l[i]) == (msg_idx(l[i]) == m.len() - 1)
}
pub proof fn lemma_flags_push(l: Seq<ChanDatum>, d: ChanDatum, m: Seq<SL>)
    requires flags_ok(l, m), msg_flag(d) == (msg_idx(d) == m.len() - 1)
    ensures flags_ok(l.push(d), m)
{
    assert forall|i: int| 0 < i < l.push(d).len() implies msg_flag(#[trigger] l.push(d)[i]) == (msg_idx(l.push(d)[i]) == m.len() - 1) by {
        if i < l.len() { assert(l.push(d)[i] == l[i]); }
    }
}
/// every in-window message of the file has been sent
pub open spec fn model_done(l: Seq<ChanDatum>, m: Seq<SL>, a: Option<int>, b: Option<int>) -> bool {
    forall|k: int| in_win(m, a, b, k) ==> exists|i: int| 0 < i < l.len() && msg_idx(#[trigger] l[i]) == k
}

//@cut fn path=src/bin/s4.rs name=exec_syslogprocessor
//@replace "chan_send_dt: ChanSendDatum," "chan_send_dt: &mut ChanSendDatum,"
//@replace "&chan_send_dt" "chan_send_dt" count=*
//@replace "_tid: thread::ThreadId," "_tid: ThreadId,"
//@replace "is_sysline_last(&syslinep) as IsLastLogMessage;" "is_sysline_last(&syslinep);"
//@spec
    requires
        old(chan_send_dt).log().len() == 0,
        thread_init_data.3 is None,
    ensures
        // C06: on EVERY path exactly FileInfo · NewMessage* · FileSummary is sent, in that order
        closed_ok(final(chan_send_dt).log()),
        // C02 / C03 / C01: the messages sent are in-window messages of the file, in file order, each at most once, none
        // skipped before the last one sent; and when the worker reports FileOk, none after it either
        sent_ok(final(chan_send_dt).log().drop_last(), file_model(thread_init_data.0), oi(thread_init_data.5), oi(thread_init_data.6),
                cursor_of(final(chan_send_dt).log().drop_last())),
        flags_ok(final(chan_send_dt).log().drop_last(), file_model(thread_init_data.0)),
        (final(chan_send_dt).log().last()->FileSummary_1 is FileOk)
            ==> model_done(final(chan_send_dt).log().drop_last(), file_model(thread_init_data.0), oi(thread_init_data.5), oi(thread_init_data.6)),
//@before "let result = syslogproc.process_stage0_valid_file_check();"
    let ghost m = syslogproc.model();
    let ghost a = syslogproc.a();
    let ghost b = syslogproc.b();
    let ghost sp0 = syslogproc;
    proof { assert(m == file_model(tid0.0) && a == oi(tid0.5) && b == oi(tid0.6)); }
//@at_entry
    let ghost tid0 = thread_init_data;
    let ghost mut cursor: int = 0;
    let ghost mut log_prev: Seq<ChanDatum> = Seq::empty();
//@before "return;" *
            proof {
                // one hint for every early return: either nothing but FileInfo was sent before the closing FileSummary, or the
                // log before the FileSummary is the one recorded in `log_prev`
                let m_ = file_model(tid0.0); let a_ = oi(tid0.5); let b_ = oi(tid0.6);
                if chan_send_dt.log().len() == 2 {
                    lemma_no_msgs(chan_send_dt.log().drop_last(), m_, a_, b_); assert(chan_send_dt.log().drop_last() =~= chan_send_dt.log().take(1));
                } else if chan_send_dt.log().len() > 2 {
                    assert(chan_send_dt.log().drop_last() =~= log_prev); lemma_cursor(log_prev, m_, a_, b_, cursor);
                }
            }
//@before "let result: ResultS3SyslineFind = syslogproc.find_sysline_between_datetime_filters(0);"
    let ghost log1 = chan_send_dt.log();
    proof { lemma_no_msgs(log1, m, a, b); lemma_first_from(m, a, 0, 0); }
//@before "if is_last {" 1
            proof {
                let j = first_from(m, a, 0, 0);
                assert forall|k: int| 0 <= k < j implies !in_win(m, a, b, k) by { assert(m[k].end >= 0); }
                lemma_sent_push(log1, chan_send_dt.log().last(), m, a, b, 0, j);
                assert(chan_send_dt.log() == log1.push(chan_send_dt.log().last()));
                lemma_flags_push(log1, chan_send_dt.log().last(), m);
                cursor = j + 1;
            }
//@before "if !search_more"
    proof {
        if !search_more && file_err is None {
            // either the first message was the file's last, or the reader said Done
            if cursor == 0 {
                let j = first_from(m, a, 0, 0);
                assert forall|k: int| in_win(m, a, b, k) implies exists|i: int| 0 < i < chan_send_dt.log().len() && msg_idx(#[trigger] chan_send_dt.log()[i]) == k by {
                    if k < j { assert(m[k].end >= 0); } else { assert(m[j].t <= m[k].t); }
                }
            } else {
                assert(cursor == m.len());
            }
        }
    }
//@before "let summary_opt: SummaryOpt"
        proof { log_prev = chan_send_dt.log(); }
//@loop 1
        invariant_except_break
            !sent_is_last, file_err is None,
        invariant
            syslogproc.same(&sp0), model_wf(m, sp0.filesz()),
            m == sp0.model(), a == sp0.a(), b == sp0.b(),
            open_ok(chan_send_dt.log()), chan_send_dt.log().len() >= 2,
            sent_ok(chan_send_dt.log(), m, a, b, cursor), flags_ok(chan_send_dt.log(), m),
            1 <= cursor <= m.len(), cursor == msg_idx(chan_send_dt.log().last()) + 1,
            fo1 as int == m[cursor - 1].end + 1,
        ensures
            open_ok(chan_send_dt.log()), chan_send_dt.log().len() >= 2,
            sent_ok(chan_send_dt.log(), m, a, b, cursor), cursor == msg_idx(chan_send_dt.log().last()) + 1, flags_ok(chan_send_dt.log(), m),
            file_err is None ==> model_done(chan_send_dt.log(), m, a, b),
            file_err is Some ==> file_err.unwrap() is FileErrIoPath,
            syslogproc.same(&sp0),
        decreases m.len() - cursor,
//@after "loop {" 1
        let ghost log_top = chan_send_dt.log();
        let ghost j = first_from(m, a, fo1 as int, 0);
        proof {
            lemma_first_from(m, a, fo1 as int, 0);
            lemma_skip(m, a, sp0.filesz(), fo1 as int, cursor);
        }
//@after "fo1 = fo;" 2
                proof {
                    assert forall|k: int| cursor <= k < j implies !in_win(m, a, b, k) by { lemma_ends(m, sp0.filesz(), cursor, k); }
                    lemma_sent_push(log_top, chan_send_dt.log().last(), m, a, b, cursor, j);
                    assert(chan_send_dt.log() == log_top.push(chan_send_dt.log().last()));
                    lemma_flags_push(log_top, chan_send_dt.log().last(), m);
                    cursor = j + 1;
                    if is_last {
                        assert forall|k: int| in_win(m, a, b, k) implies exists|i: int| 0 < i < chan_send_dt.log().len() && msg_idx(#[trigger] chan_send_dt.log()[i]) == k by { }
                    }
                }
//@before "break;" 2
                proof {
                    assert forall|k: int| in_win(m, a, b, k) implies exists|i: int| 0 < i < chan_send_dt.log().len() && msg_idx(#[trigger] chan_send_dt.log()[i]) == k by {
                        if k >= cursor {
                            if k < j { lemma_ends(m, sp0.filesz(), cursor, k); } else { assert(m[j].t <= m[k].t); }
                        }
                    }
                }
//@before "let summary = syslogproc.summary_complete();"
    let ghost log_prev2 = chan_send_dt.log();
//@at_end
    proof { assert(chan_send_dt.log().drop_last() =~= log_prev2); lemma_cursor(log_prev2, m, a, b, cursor); }
//@mutate "search_more = true;" "search_more = false;"
//@mutate "file_err.unwrap_or(FILEOK)" "FILEOK"
//@end

pub open spec fn cursor_of(l: Seq<ChanDatum>) -> int { if l.len() <= 1 { 0 } else { msg_idx(l.last()) + 1 } }
pub proof fn lemma_no_msgs(l: Seq<ChanDatum>, m: Seq<SL>, a: Option<int>, b: Option<int>)
    requires l.len() <= 1
    ensures sent_ok(l, m, a, b, 0), cursor_of(l) == 0
{}
pub proof fn lemma_cursor(l: Seq<ChanDatum>, m: Seq<SL>, a: Option<int>, b: Option<int>, cursor: int)
    requires sent_ok(l, m, a, b, cursor), l.len() >= 2 ==> cursor == msg_idx(l.last()) + 1, l.len() <= 1 ==> cursor == 0
    ensures sent_ok(l, m, a, b, cursor_of(l))
{}
/// ends are strictly increasing; a message at or after index c ends at or after the begin of message c
pub proof fn lemma_ends(m: Seq<SL>, filesz: int, c: int, k: int)
    requires model_wf(m, filesz), 0 <= c <= k < m.len()
    ensures m[k].end >= m[c].beg, c < k ==> m[k].end > m[c].end
    decreases k - c
{
    if c < k { lemma_ends(m, filesz, c, k - 1); assert(m[(k - 1) + 1].beg == m[k - 1].end + 1); }
}
/// the search from offset end(c-1)+1 cannot return an index below c
pub proof fn lemma_skip(m: Seq<SL>, a: Option<int>, filesz: int, fo: int, c: int)
    requires model_wf(m, filesz), 1 <= c <= m.len(), fo == m[c - 1].end + 1
    ensures first_from(m, a, fo, 0) >= c, first_from(m, a, fo, 0) == first_from(m, a, fo, c)
{
    lemma_skip_rec(m, a, filesz, fo, c, 0);
}
pub proof fn lemma_skip_rec(m: Seq<SL>, a: Option<int>, filesz: int, fo: int, c: int, i: int)
    requires model_wf(m, filesz), 1 <= c <= m.len(), fo == m[c - 1].end + 1, 0 <= i <= c
    ensures first_from(m, a, fo, i) == first_from(m, a, fo, c), first_from(m, a, fo, c) >= c
    decreases c - i
{
    lemma_first_from(m, a, fo, c);
    if i < c {
        lemma_ends(m, filesz, i, c - 1);
        assert(m[i].end <= m[c - 1].end);
        lemma_skip_rec(m, a, filesz, fo, c, i + 1);
    }
}
pub proof fn lemma_sent_push(l: Seq<ChanDatum>, d: ChanDatum, m: Seq<SL>, a: Option<int>, b: Option<int>, cursor: int, j: int)
    requires
        sent_ok(l, m, a, b, cursor), l.len() >= 1, d is NewMessage, msg_idx(d) == j, cursor <= j, in_win(m, a, b, j),
        forall|k: int| cursor <= k < j ==> !in_win(m, a, b, k),
    ensures sent_ok(l.push(d), m, a, b, j + 1)
{
    let l2 = l.push(d);
    assert forall|k: int| 0 <= k < j + 1 && in_win(m, a, b, k) implies exists|i: int| 0 < i < l2.len() && msg_idx(#[trigger] l2[i]) == k by {
        if k < cursor {
            let i = choose|i: int| 0 < i < l.len() && msg_idx(#[trigger] l[i]) == k;
            assert(l2[i] == l[i]);
        } else {
            assert(k == j);
            assert(l2[l2.len() - 1] == d);
        }
    }
    assert forall|i: int, i2: int| 0 < i < i2 < l2.len() implies msg_idx(#[trigger] l2[i]) < msg_idx(#[trigger] l2[i2]) by {
        if i2 < l.len() { assert(l2[i] == l[i] && l2[i2] == l[i2]); } else { assert(l2[i] == l[i]); }
    }
}

// =====================================================================================================
// event logs and journals: protocol on every path (readers are opaque: evtx crate / libsystemd)
impl FileType {
    #[verifier::external_body]
    pub fn is_evtx(&self) -> (r: bool) ensures r == (*self is Evtx) { unimplemented!() }
    #[verifier::external_body]
    pub fn is_journal(&self) -> (r: bool) ensures r == (*self is Journal) { unimplemented!() }
}
#[verifier::external_body]
pub struct EvtxReader { _p: u8 }
impl EvtxReader {
    #[verifier::external_body]
    pub fn new(path: FPath, filetype: FileType) -> (r: core::result::Result<EvtxReader, Error>) { unimplemented!() }
    #[verifier::external_body]
    pub fn mtime(&self) -> SystemTime { unimplemented!() }
    #[verifier::external_body]
    pub fn analyze(&mut self, a: &DateTimeLOpt, b: &DateTimeLOpt) { unimplemented!() }
    #[verifier::external_body]
    pub fn next(&mut self) -> (r: Option<Evtx>) { unimplemented!() }
    #[verifier::external_body]
    pub fn summary_complete(&self) -> Summary { unimplemented!() }
}
//@cut fn path=src/bin/s4.rs name=exec_evtxprocessor
//@replace "fn exec_evtxprocessor(" "#[verifier::exec_allows_no_decreases_clause] fn exec_evtxprocessor("
//@replace "chan_send_dt: ChanSendDatum," "chan_send_dt: &mut ChanSendDatum,"
//@replace "&chan_send_dt" "chan_send_dt" count=*
//@replace "_tid: thread::ThreadId," "_tid: ThreadId,"
//@spec
    requires
        old(chan_send_dt).log().len() == 0,
        thread_init_data.2 is Evtx, thread_init_data.3 is None,
    ensures
        closed_ok(final(chan_send_dt).log()),
//@loop 1
        invariant open_ok(chan_send_dt.log())
//@mutate "ChanDatum::FileSummary(Some(summary), FILEERRSTUB)" "ChanDatum::FileInfo(DateTimeLOpt::None, FILEERRSTUB)"
//@end

pub type EpochMicrosecondsOpt = Option<u64>;
#[verifier::external_body]
pub fn datetimelopt_to_realtime_timestamp_opt(datetime_opt: &DateTimeLOpt) -> EpochMicrosecondsOpt { unimplemented!() }
//@cut type kind=enum path=src/common.rs name=ResultFind4 derives=
//@end
pub type ResultNext = ResultFind4<JournalEntry, Error>;
#[verifier::external_body]
pub struct JournalReader { _p: u8 }
impl JournalReader {
    #[verifier::external_body]
    pub fn new(path: FPath, journal_output: JournalOutput, tz_offset: FixedOffset, filetype: FileType) -> (r: core::result::Result<JournalReader, Error>) { unimplemented!() }
    #[verifier::external_body]
    pub fn mtime(&self) -> SystemTime { unimplemented!() }
    #[verifier::external_body]
    pub fn analyze(&mut self, ts_filter_after: &EpochMicrosecondsOpt) -> (r: core::result::Result<(), Error>) { unimplemented!() }
    #[verifier::external_body]
    pub fn next(&mut self, rts_filter_before: &EpochMicrosecondsOpt) -> (r: ResultNext) { unimplemented!() }
    #[verifier::external_body]
    pub fn summary_complete(&self) -> Summary { unimplemented!() }
}
//@cut fn path=src/bin/s4.rs name=exec_journalprocessor
//@replace "fn exec_journalprocessor(" "#[verifier::exec_allows_no_decreases_clause] fn exec_journalprocessor("
//@replace "chan_send_dt: ChanSendDatum," "chan_send_dt: &mut ChanSendDatum,"
//@replace "&chan_send_dt" "chan_send_dt" count=*
//@replace "_tid: thread::ThreadId," "_tid: ThreadId,"
//@spec
    requires
        old(chan_send_dt).log().len() == 0,
        // call-site precondition (dispatch + ThreadInitData construction): without it the defensive arm returns
        // without sending even FileInfo, on which the coordinator's wait condition depends
        thread_init_data.2 is Journal, thread_init_data.3 is Journal,
    ensures
        closed_ok(final(chan_send_dt).log()),
//@loop 1
        invariant open_ok(chan_send_dt.log())
//@end

// =====================================================================================================
// dispatch (slice of exec_fileprocessor_thread): each file type goes to the driver whose precondition it meets
// accounting records: contract of exec_fixedstructprocessor as proved in unit FXS (same text)
#[verifier::external_body]
fn exec_fixedstructprocessor(chan_send_dt: &mut ChanSendDatum, thread_init_data: ThreadInitData, _tname: &str, _tid: ThreadId)
    requires old(chan_send_dt).log().len() == 0, thread_init_data.2 is FixedStruct, thread_init_data.3 is None,
    ensures closed_ok(final(chan_send_dt).log())
{ unimplemented!() }

pub fn dispatch(chan_send_dt: &mut ChanSendDatum, thread_init_data: ThreadInitData, tname: &str, tid: ThreadId)
    requires
        old(chan_send_dt).log().len() == 0,
        // call-site preconditions from processing_loop's construction of ThreadInitData
        thread_init_data.2 is Journal <==> thread_init_data.3 is Journal,
        !(thread_init_data.2 is Journal) ==> thread_init_data.3 is None,
        !(thread_init_data.2 is Unparsable),
    ensures
        // C06: whatever the file type, the worker sends FileInfo · NewMessage* · FileSummary
        closed_ok(final(chan_send_dt).log()),
{
//@cut slice path=src/bin/s4.rs fn=exec_fileprocessor_thread anchor="match thread_init_data.2" take=block label=DISPATCH
//@end
}

pub proof fn lemma_first_from(m: Seq<SL>, a: Option<int>, fo: int, i: int)
    requires 0 <= i <= m.len()
    ensures
        i <= first_from(m, a, fo, i) <= m.len(),
        first_from(m, a, fo, i) < m.len() ==> m[first_from(m, a, fo, i)].end >= fo && ge_a(m[first_from(m, a, fo, i)].t, a),
        forall|k: int| i <= k < first_from(m, a, fo, i) ==> !(#[trigger] m[k].end >= fo && ge_a(m[k].t, a)),
    decreases m.len() - i
{
    if i < m.len() && !(m[i].end >= fo && ge_a(m[i].t, a)) { lemma_first_from(m, a, fo, i + 1); }
}

} // verus!
fn main() {}
