// UNIT FXS, VARIANT selected when the collection is keyed by the time value alone (BTreeMap<tv_pair_type, FileOffset>).
// The same statement of C08 (every selected record occurs, under its own offset) is required of that map.
// UNIT FXS — accounting records: every non-null in-window record once, ordered by (time, file offset)
// (C08; the record prefilter is also C03).  DESIGN.md section 4.FXS
#![allow(unused_imports, non_camel_case_types, dead_code, unused_variables, unused_parens, unused_mut, unused_assignments)]
use vstd::prelude::*;
use vstd::std_specs::cmp::*;
use vstd::std_specs::btree::*;
use vstd::std_specs::iter::IteratorSpec;
use vstd::arithmetic::div_mod::*;
use vstd::arithmetic::mul::*;
use core::cmp::Ordering;
use std::collections::BTreeMap;
verus! {

global size_of usize == 8;   // assumption: 64-bit target

pub type FileOffset = u64;
pub type FileSz = u64;
pub type Count = u64;

//@include ../common/datetime.rs

// ---- assumed: std::io::Error is opaque
#[verifier::external_body]
pub struct Error { _p: u8 }
pub type Result<T> = core::result::Result<T, Error>;

// ---- real: ResultS3 (src/common.rs), tv_pair_type (src/data/fixedstruct.rs)
//@cut type kind=enum path=src/common.rs name=ResultS3 derives=
//@end
pub type tv_sec_type = i64;
pub type tv_usec_type = i64;
//@cut type kind=struct path=src/data/fixedstruct.rs name=tv_pair_type derives=Clone,Copy,PartialEq,Eq,PartialOrd,Ord
//@end

// ---- assumed (DESIGN 7.3): #[derive(PartialEq, PartialOrd, Ord)] on a tuple struct of two i64 is
// field-wise equality and lexicographic order
pub open spec fn tv_lt(a: tv_pair_type, b: tv_pair_type) -> bool { a.0 < b.0 || (a.0 == b.0 && a.1 < b.1) }
impl PartialEqSpecImpl for tv_pair_type {
    open spec fn obeys_eq_spec() -> bool { true }
    open spec fn eq_spec(&self, other: &Self) -> bool { self.0 == other.0 && self.1 == other.1 }
}
impl PartialOrdSpecImpl for tv_pair_type {
    open spec fn obeys_partial_cmp_spec() -> bool { true }
    open spec fn partial_cmp_spec(&self, other: &Self) -> Option<Ordering> {
        if tv_lt(*self, *other) { Some(Ordering::Less) } else if *self == *other { Some(Ordering::Equal) } else { Some(Ordering::Greater) }
    }
}
impl OrdSpecImpl for tv_pair_type {
    open spec fn obeys_cmp_spec() -> bool { true }
    open spec fn cmp_spec(&self, other: &Self) -> Ordering {
        if tv_lt(*self, *other) { Ordering::Less } else if *self == *other { Ordering::Equal } else { Ordering::Greater }
    }
}

// ---- real: the collection type (src/readers/fixedstructreader.rs)
//@cut type kind=type path=src/readers/fixedstructreader.rs name=MapTvPairToFo
//@end
//@cut type kind=type path=src/readers/fixedstructreader.rs name=ResultTvFo
//@end
pub type ResultReadDataToBuffer = ResultS3<usize, Error>;
pub type Key = tv_pair_type;
pub open spec fn key_lt(a: Key, b: Key) -> bool { tv_lt(a, b) }

// assumed: the derived / tuple orders above are lawful total orders (vstd needs this to give BTreeMap a view)
#[verifier::external_body]
pub proof fn axiom_key_obeys_cmp()
    ensures vstd::laws_cmp::obeys_cmp::<tv_pair_type>()
{}

// ---- assumed: the record layout (sizes are those of the chosen platform struct) and the decoder of a time value
#[verifier::external_body]
pub struct FixedStructType { _p: u8 }
impl Copy for FixedStructType {}
impl Clone for FixedStructType {
    #[verifier::external_body]
    fn clone(&self) -> (r: Self) ensures r == *self { FixedStructType{_p: self._p} }
}
pub uninterp spec fn tv_of(ft: FixedStructType, bytes: Seq<u8>) -> Option<tv_pair_type>;
pub const TIMEVAL_SZ_MAX: usize = 16;
pub const ENTRY_SZ_MAX: usize = 1024;
impl FixedStructType {
    pub uninterp spec fn esz(&self) -> int;
    pub uninterp spec fn tvsz(&self) -> int;
    pub uninterp spec fn tvoff(&self) -> int;
    pub open spec fn layout_ok(&self) -> bool {
        1 <= self.tvsz() <= TIMEVAL_SZ_MAX && 0 <= self.tvoff() && self.tvoff() + self.tvsz() <= self.esz() <= ENTRY_SZ_MAX
    }
    #[verifier::external_body]
    pub fn size(&self) -> (r: usize) ensures r as int == self.esz() { unimplemented!() }
    #[verifier::external_body]
    pub fn size_tv(&self) -> (r: usize) ensures r as int == self.tvsz() { unimplemented!() }
    #[verifier::external_body]
    pub fn offset_tv(&self) -> (r: usize) ensures r as int == self.tvoff() { unimplemented!() }
    #[verifier::external_body]
    pub fn tv_pair_from_buffer(&self, buffer: &[u8]) -> (r: Option<tv_pair_type>) ensures r == tv_of(*self, buffer@) { unimplemented!() }
}
pub uninterp spec fn tvp(dt: DateTimeL) -> tv_pair_type;
#[verifier::external_body]
pub fn convert_datetime_tvpair(dt: &DateTimeL) -> (r: tv_pair_type) ensures r == tvp(*dt) { unimplemented!() }

// ---- assumed: the block reader delivers the file's bytes (contract derived from BlockReader::read_data:
// `end' = min(end, filesz)`, `beg >= end'` is Done, otherwise the bytes [beg, end') are copied)
#[verifier::external_body]
pub struct BlockReader { _p: u8 }
impl BlockReader {
    pub uninterp spec fn file(&self) -> Seq<u8>;
    #[verifier::external_body]
    pub fn filesz(&self) -> (r: FileSz) ensures r as int == self.file().len() { unimplemented!() }
    #[verifier::external_body]
    pub fn read_data_to_buffer(&mut self, fileoffset_beg: FileOffset, fileoffset_end: FileOffset, oneblock: bool, buffer: &mut [u8]) -> (r: ResultReadDataToBuffer)
        requires fileoffset_beg <= fileoffset_end
        ensures
            final(self).file() == old(self).file(),
            final(buffer)@.len() == old(buffer)@.len(),
            r is Found ==> fileoffset_beg < old(self).file().len()
                && r->Found_0 as int == (if (fileoffset_end as int) < old(self).file().len() { fileoffset_end as int } else { old(self).file().len() as int }) - fileoffset_beg
                && r->Found_0 <= final(buffer)@.len()
                && final(buffer)@.subrange(0, r->Found_0 as int) == old(self).file().subrange(fileoffset_beg as int, fileoffset_beg as int + r->Found_0 as int),
            (r is Done && !oneblock) ==> fileoffset_beg as int >= (if (fileoffset_end as int) < old(self).file().len() { fileoffset_end as int } else { old(self).file().len() as int }),
    { unimplemented!() }
}

// ---- spec: which records are selected (the property's own statement: non-null, inside the window)
pub open spec fn rec_tv(file: Seq<u8>, ft: FixedStructType, k: int) -> Option<tv_pair_type> {
    tv_of(ft, file.subrange(k * ft.esz() + ft.tvoff(), k * ft.esz() + ft.tvoff() + ft.tvsz()))
}
pub open spec fn passes(t: tv_pair_type, a: Option<tv_pair_type>, b: Option<tv_pair_type>) -> bool {
    (a is None || !tv_lt(t, a.unwrap())) && (b is None || !tv_lt(b.unwrap(), t))
}
pub open spec fn in_s(file: Seq<u8>, ft: FixedStructType, a: Option<tv_pair_type>, b: Option<tv_pair_type>, k: int) -> bool {
    rec_tv(file, ft, k) is Some && rec_tv(file, ft, k).unwrap() != tv_pair_type(0, 0) && passes(rec_tv(file, ft, k).unwrap(), a, b)
}
/// every selected record among the first `j` occurs in the collection, under its own file offset (C08: "each
/// non-null record is printed exactly once")
pub open spec fn represents(m: Map<Key, FileOffset>, file: Seq<u8>, ft: FixedStructType, a: Option<tv_pair_type>, b: Option<tv_pair_type>, j: int) -> bool {
    forall|k: int| 0 <= k < j && #[trigger] in_s(file, ft, a, b, k) ==> m.contains_key(rec_tv(file, ft, k).unwrap()) && m[rec_tv(file, ft, k).unwrap()] as int == k * ft.esz()
}
pub open spec fn otv(d: DateTimeLOpt) -> Option<tv_pair_type> { match d { Some(x) => Some(tvp(x)), None => None } }

pub proof fn lemma_step(fo: int, esz: int)
    requires esz >= 1, fo >= 0, fo == (fo / esz) * esz
    ensures (fo + esz) / esz == fo / esz + 1, fo + esz == ((fo + esz) / esz) * esz, fo / esz >= 0
{
    let j = fo / esz;
    lemma_div_pos_is_pos(fo, esz);
    assert((j + 1) * esz == j * esz + esz) by (nonlinear_arith);
    lemma_fundamental_div_mod_converse(fo + esz, esz, j + 1, 0);
}
pub proof fn lemma_below(fo: int, esz: int, filesz: int)
    requires esz >= 1, fo >= 0, fo == (fo / esz) * esz, filesz == (filesz / esz) * esz, filesz >= 0
    ensures fo < filesz ==> fo + esz <= filesz && fo / esz < filesz / esz, fo >= filesz ==> fo / esz >= filesz / esz
{
    let j = fo / esz; let n = filesz / esz;
    if fo < filesz {
        assert(j < n) by (nonlinear_arith) requires j * esz < n * esz, esz >= 1;
        assert((j + 1) * esz <= n * esz) by (nonlinear_arith) requires j + 1 <= n, esz >= 1;
        assert((j + 1) * esz == j * esz + esz) by (nonlinear_arith);
    } else {
        assert(j >= n) by (nonlinear_arith) requires j * esz >= n * esz, esz >= 1;
    }
}

pub struct FixedStructReader { _p: u8 }
impl FixedStructReader {
//@cut fn path=src/readers/fixedstructreader.rs impl=FixedStructReader name=preprocess_timevalues ret=r
//@replace "pub(crate) fn" "pub fn"
//@spec
    requires
        fixedstruct_type.layout_ok(),
        old(blockreader).file().len() + ENTRY_SZ_MAX <= u64::MAX,
        old(blockreader).file().len() == (old(blockreader).file().len() as int / fixedstruct_type.esz()) * fixedstruct_type.esz(),
    ensures
        final(blockreader).file() == old(blockreader).file(),
        // C08 / C03: the collection is exactly the set of non-null records inside the window, each once,
        // keyed (time, file offset) -- so BTreeMap order is time order with ties in file order
        r is Ok ==> represents(r->Ok_0.4@, old(blockreader).file(), fixedstruct_type, otv(*dt_filter_after), otv(*dt_filter_before),
                               old(blockreader).file().len() as int / fixedstruct_type.esz()),
//@before "let mut buffer"
        proof { axiom_key_obeys_cmp(); }
        let ghost file0 = blockreader.file();
        let ghost ft = fixedstruct_type;
//@after "let entry_sz: FileOffset"
        proof {
            assert(ft.esz() >= 1);
            lemma_fundamental_div_mod(file0.len() as int, ft.esz());
            lemma_mod_multiples_basic(file0.len() as int / ft.esz(), ft.esz());
        }
//@before "loop {"
        proof { assert(0int / ft.esz() == 0) by (nonlinear_arith) requires ft.esz() >= 1; }
//@loop 1
            invariant
                ft == fixedstruct_type, ft.layout_ok(), entry_sz as int == ft.esz(), tv_sz as int == ft.tvsz(), tv_offset as int == ft.tvoff(),
                vstd::laws_cmp::obeys_cmp::<Key>(),
                blockreader.file() == file0, file0 == old(blockreader).file(), file0.len() + ENTRY_SZ_MAX <= u64::MAX,
                file0.len() == (file0.len() as int / ft.esz()) * ft.esz(),
                fo as int == (fo as int / ft.esz()) * ft.esz(),
                fo <= file0.len(),
                slice_@.len() == tv_sz,
                tv_filter_after == otv(*dt_filter_after), tv_filter_before == otv(*dt_filter_before),
                represents(map_tv_pair_fo@, file0, ft, tv_filter_after, tv_filter_before, fo as int / ft.esz()),
                out_of_order <= fo as int / ft.esz(), valid_no_pass_filter <= fo as int / ft.esz(),
                invalid <= fo as int / ft.esz(), total_entries <= fo as int / ft.esz(),
            ensures fo as int == file0.len(),
            decreases file0.len() - fo,
//@after "loop {" 1
            proof {
                lemma_step(fo as int, ft.esz());
                lemma_below(fo as int, ft.esz(), file0.len() as int);
            }
            let ghost j = fo as int / ft.esz();
            let ghost map0 = map_tv_pair_fo@;
//@before "let tv_pair: tv_pair_type = match"
            assert(fo < file0.len());
            assert(slice_@ == file0.subrange(j * ft.esz() + ft.tvoff(), j * ft.esz() + ft.tvoff() + ft.tvsz())) by {
                assert(slice_@.subrange(0, tv_sz as int) =~= slice_@);
            }
            assert(tv_of(ft, slice_@) == rec_tv(file0, ft, j));
//@end
}

} // verus!
fn main() {}
