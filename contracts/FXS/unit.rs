// UNIT FXS — accounting records: every non-null in-window record once, ordered by (time, file offset)
// (C08; the record prefilter is also C03).  DESIGN.md section 4.FXS
#![allow(unused_imports, non_camel_case_types, dead_code, unused_variables, unused_parens, unused_mut, unused_assignments)]
use vstd::prelude::*;
use vstd::std_specs::cmp::*;
use vstd::std_specs::btree::*;
use vstd::std_specs::iter::IteratorSpec;
use vstd::arithmetic::div_mod::*;
use vstd::arithmetic::mul::*;
use core::cmp::Ordering;
use std::collections::BTreeMap;
verus! {

global size_of usize == 8;   // assumption: 64-bit target

pub type FileOffset = u64;
pub type FileSz = u64;
pub type Count = u64;

//@include ../common/datetime.rs

// ---- assumed: std::io::Error is opaque
#[verifier::external_body]
pub struct Error { _p: u8 }
pub type Result<T> = core::result::Result<T, Error>;

// ---- real: ResultS3 (src/common.rs), tv_pair_type (src/data/fixedstruct.rs)
//@cut type kind=enum path=src/common.rs name=ResultS3 derives=
//@end
pub type tv_sec_type = i64;
pub type tv_usec_type = i64;
//@cut type kind=struct path=src/data/fixedstruct.rs name=tv_pair_type derives=Clone,Copy,PartialEq,Eq,PartialOrd,Ord
//@end

// ---- assumed (DESIGN 7.3): #[derive(PartialEq, PartialOrd, Ord)] on a tuple struct of two i64 is
// field-wise equality and lexicographic order
pub open spec fn tv_lt(a: tv_pair_type, b: tv_pair_type) -> bool { a.0 < b.0 || (a.0 == b.0 && a.1 < b.1) }
impl PartialEqSpecImpl for tv_pair_type {
    open spec fn obeys_eq_spec() -> bool { true }
    open spec fn eq_spec(&self, other: &Self) -> bool { self.0 == other.0 && self.1 == other.1 }
}
impl PartialOrdSpecImpl for tv_pair_type {
    open spec fn obeys_partial_cmp_spec() -> bool { true }
    open spec fn partial_cmp_spec(&self, other: &Self) -> Option<Ordering> {
        if tv_lt(*self, *other) { Some(Ordering::Less) } else if *self == *other { Some(Ordering::Equal) } else { Some(Ordering::Greater) }
    }
}
impl OrdSpecImpl for tv_pair_type {
    open spec fn obeys_cmp_spec() -> bool { true }
    open spec fn cmp_spec(&self, other: &Self) -> Ordering {
        if tv_lt(*self, *other) { Ordering::Less } else if *self == *other { Ordering::Equal } else { Ordering::Greater }
    }
}

// ---- real: the collection type (src/readers/fixedstructreader.rs)
//@cut type kind=type path=src/readers/fixedstructreader.rs name=MapTvPairToFo
//@end
//@cut type kind=type path=src/readers/fixedstructreader.rs name=ResultTvFo
//@end
pub type ResultReadDataToBuffer = ResultS3<usize, Error>;
pub type Key = (tv_pair_type, FileOffset);
pub open spec fn key_lt(a: Key, b: Key) -> bool { tv_lt(a.0, b.0) || (a.0 == b.0 && a.1 < b.1) }

// assumed: the derived / tuple orders above are lawful total orders (vstd needs this to give BTreeMap a view)
#[verifier::external_body]
pub proof fn axiom_key_obeys_cmp()
    ensures vstd::laws_cmp::obeys_cmp::<Key>(), vstd::laws_cmp::obeys_cmp::<tv_pair_type>()
{}

// ---- assumed: the record layout (sizes are those of the chosen platform struct) and the decoder of a time value
#[verifier::external_body]
pub struct FixedStructType { _p: u8 }
impl Copy for FixedStructType {}
impl Clone for FixedStructType {
    #[verifier::external_body]
    fn clone(&self) -> (r: Self) ensures r == *self { FixedStructType{_p: self._p} }
}
pub uninterp spec fn tv_of(ft: FixedStructType, bytes: Seq<u8>) -> Option<tv_pair_type>;
pub const TIMEVAL_SZ_MAX: usize = 16;
pub const ENTRY_SZ_MAX: usize = 1024;
impl FixedStructType {
    pub uninterp spec fn esz(&self) -> int;
    pub uninterp spec fn tvsz(&self) -> int;
    pub uninterp spec fn tvoff(&self) -> int;
    pub open spec fn layout_ok(&self) -> bool {
        1 <= self.tvsz() <= TIMEVAL_SZ_MAX && 0 <= self.tvoff() && self.tvoff() + self.tvsz() <= self.esz() <= ENTRY_SZ_MAX
    }
    #[verifier::external_body]
    pub fn size(&self) -> (r: usize) ensures r as int == self.esz() { unimplemented!() }
    #[verifier::external_body]
    pub fn size_tv(&self) -> (r: usize) ensures r as int == self.tvsz() { unimplemented!() }
    #[verifier::external_body]
    pub fn offset_tv(&self) -> (r: usize) ensures r as int == self.tvoff() { unimplemented!() }
    #[verifier::external_body]
    pub fn tv_pair_from_buffer(&self, buffer: &[u8]) -> (r: Option<tv_pair_type>) ensures r == tv_of(*self, buffer@) { unimplemented!() }
}
pub uninterp spec fn tvp(dt: DateTimeL) -> tv_pair_type;
#[verifier::external_body]
pub fn convert_datetime_tvpair(dt: &DateTimeL) -> (r: tv_pair_type) ensures r == tvp(*dt) { unimplemented!() }

// ---- assumed: the block reader delivers the file's bytes (contract derived from BlockReader::read_data:
// `end' = min(end, filesz)`, `beg >= end'` is Done, otherwise the bytes [beg, end') are copied)
#[verifier::external_body]
pub struct BlockReader { _p: u8 }
impl BlockReader {
    pub uninterp spec fn file(&self) -> Seq<u8>;
    /// ghost: reading this file never fails with an I/O error (a property of the run, not of the code)
    pub uninterp spec fn reliable(&self) -> bool;
    #[verifier::external_body]
    pub fn filesz(&self) -> (r: FileSz) ensures r as int == self.file().len() { unimplemented!() }
    #[verifier::external_body]
    pub fn read_data_to_buffer(&mut self, fileoffset_beg: FileOffset, fileoffset_end: FileOffset, oneblock: bool, buffer: &mut [u8]) -> (r: ResultReadDataToBuffer)
        requires fileoffset_beg <= fileoffset_end
        ensures
            final(self).file() == old(self).file(), final(self).reliable() == old(self).reliable(),
            old(self).reliable() ==> !(r is Err),
            final(buffer)@.len() == old(buffer)@.len(),
            r is Found ==> fileoffset_beg < old(self).file().len()
                && r->Found_0 as int == (if (fileoffset_end as int) < old(self).file().len() { fileoffset_end as int } else { old(self).file().len() as int }) - fileoffset_beg
                && r->Found_0 <= final(buffer)@.len()
                && final(buffer)@.subrange(0, r->Found_0 as int) == old(self).file().subrange(fileoffset_beg as int, fileoffset_beg as int + r->Found_0 as int),
            (r is Done && !oneblock) ==> fileoffset_beg as int >= (if (fileoffset_end as int) < old(self).file().len() { fileoffset_end as int } else { old(self).file().len() as int }),
    { unimplemented!() }
}

// ---- spec: which records are selected (the property's own statement: non-null, inside the window)
pub open spec fn rec_tv(file: Seq<u8>, ft: FixedStructType, k: int) -> Option<tv_pair_type> {
    tv_of(ft, file.subrange(k * ft.esz() + ft.tvoff(), k * ft.esz() + ft.tvoff() + ft.tvsz()))
}
pub open spec fn passes(t: tv_pair_type, a: Option<tv_pair_type>, b: Option<tv_pair_type>) -> bool {
    (a is None || !tv_lt(t, a.unwrap())) && (b is None || !tv_lt(b.unwrap(), t))
}
pub open spec fn in_s(file: Seq<u8>, ft: FixedStructType, a: Option<tv_pair_type>, b: Option<tv_pair_type>, k: int) -> bool {
    rec_tv(file, ft, k) is Some && rec_tv(file, ft, k).unwrap() != tv_pair_type(0, 0) && passes(rec_tv(file, ft, k).unwrap(), a, b)
}
pub open spec fn key_of(file: Seq<u8>, ft: FixedStructType, k: int) -> Key {
    (rec_tv(file, ft, k).unwrap(), (k * ft.esz()) as u64)
}
/// the collection represents exactly the selected records among the first `j`:
/// every selected record k < j occurs under key (tv(k), offset(k)); every key is such a record; value = offset
pub open spec fn represents(m: Map<Key, FileOffset>, file: Seq<u8>, ft: FixedStructType, a: Option<tv_pair_type>, b: Option<tv_pair_type>, j: int) -> bool {
    &&& forall|k: int| 0 <= k < j && #[trigger] in_s(file, ft, a, b, k) ==> m.contains_key(key_of(file, ft, k))
    &&& forall|key: Key| #[trigger] m.contains_key(key) ==> {
            let k = key.1 as int / ft.esz();
            &&& 0 <= k < j
            &&& key.1 as int == k * ft.esz()
            &&& in_s(file, ft, a, b, k)
            &&& key == key_of(file, ft, k)
            &&& m[key] == key.1
        }
}
pub open spec fn otv(d: DateTimeLOpt) -> Option<tv_pair_type> { match d { Some(x) => Some(tvp(x)), None => None } }

pub proof fn lemma_step(fo: int, esz: int)
    requires esz >= 1, fo >= 0, fo == (fo / esz) * esz
    ensures (fo + esz) / esz == fo / esz + 1, fo + esz == ((fo + esz) / esz) * esz, fo / esz >= 0
{
    let j = fo / esz;
    lemma_div_pos_is_pos(fo, esz);
    assert((j + 1) * esz == j * esz + esz) by (nonlinear_arith);
    lemma_fundamental_div_mod_converse(fo + esz, esz, j + 1, 0);
}
pub proof fn lemma_below(fo: int, esz: int, filesz: int)
    requires esz >= 1, fo >= 0, fo == (fo / esz) * esz, filesz == (filesz / esz) * esz, filesz >= 0
    ensures fo < filesz ==> fo + esz <= filesz && fo / esz < filesz / esz, fo >= filesz ==> fo / esz >= filesz / esz
{
    let j = fo / esz; let n = filesz / esz;
    if fo < filesz {
        assert(j < n) by (nonlinear_arith) requires j * esz < n * esz, esz >= 1;
        assert((j + 1) * esz <= n * esz) by (nonlinear_arith) requires j + 1 <= n, esz >= 1;
        assert((j + 1) * esz == j * esz + esz) by (nonlinear_arith);
    } else {
        assert(j >= n) by (nonlinear_arith) requires j * esz >= n * esz, esz >= 1;
    }
}

// ---- assumed: a decoded record knows the file offset and bytes it was built from; FixedOffset opaque
#[verifier::external_body]
pub struct FixedOffset { _p: u8 }
#[verifier::external_body]
pub struct FixedStruct { _p: u8 }
impl FixedStruct {
    pub uninterp spec fn fo_spec(&self) -> FileOffset;
    pub uninterp spec fn bytes_spec(&self) -> Seq<u8>;
    pub uninterp spec fn dt_spec(&self) -> DateTimeL;
    pub uninterp spec fn len_spec(&self) -> int;
    #[verifier::external_body]
    pub fn new(fileoffset: FileOffset, tz_offset: &FixedOffset, buffer: &[u8], fixedstruct_type: FixedStructType) -> (r: core::result::Result<FixedStruct, Error>)
        ensures r is Ok ==> r->Ok_0.fo_spec() == fileoffset && r->Ok_0.bytes_spec() == buffer@ && r->Ok_0.len_spec() == fixedstruct_type.esz(),
            r is Ok <==> buildable(fixedstruct_type, buffer@),
    { unimplemented!() }
    #[verifier::external_body]
    pub fn dt(&self) -> (r: &DateTimeL) ensures *r == self.dt_spec() { unimplemented!() }
    #[verifier::external_body]
    pub fn fileoffset_end(&self) -> (r: FileOffset)
        requires self.fo_spec() + self.len_spec() <= u64::MAX
        ensures r as int == self.fo_spec() + self.len_spec()
    { unimplemented!() }
}

// ---- assumed: a raw record pointer keeps the bytes and the type it was made from (buffer_to_fixedstructptr copies
// `buffer[..size]` with read_unaligned); FixedStruct::from_fixedstructptr builds the entry from that copy
#[verifier::external_body]
pub struct FixedStructDynPtr { _p: u8 }
impl FixedStructDynPtr {
    pub uninterp spec fn bytes_spec(&self) -> Seq<u8>;
    pub uninterp spec fn ft_spec(&self) -> FixedStructType;
    #[verifier::external_body]
    pub fn fixedstruct_type(&self) -> (r: FixedStructType) ensures r == self.ft_spec() { unimplemented!() }
}
#[verifier::external_body]
pub fn buffer_to_fixedstructptr(buffer: &[u8], fixedstructtype: FixedStructType) -> (r: Option<FixedStructDynPtr>)
    ensures r is Some ==> buffer@.len() >= fixedstructtype.esz() && r.unwrap().bytes_spec() == buffer@.subrange(0, fixedstructtype.esz()) && r.unwrap().ft_spec() == fixedstructtype
{ unimplemented!() }
pub type Score = i32;
impl FixedStruct {
    #[verifier::external_body]
    pub fn from_fixedstructptr(fileoffset: FileOffset, tz_offset: &FixedOffset, fixedstructptr: FixedStructDynPtr) -> (r: core::result::Result<FixedStruct, Error>)
        ensures r is Ok ==> r->Ok_0.fo_spec() == fileoffset && r->Ok_0.bytes_spec() == fixedstructptr.bytes_spec() && r->Ok_0.len_spec() == fixedstructptr.ft_spec().esz(),
    { unimplemented!() }
    #[verifier::external_body]
    pub fn score_fixedstruct(fixedstructptr: &FixedStructDynPtr, bonus: Score) -> Score { unimplemented!() }
    #[verifier::external_body]
    pub fn fileoffset_begin(&self) -> (r: FileOffset) ensures r == self.fo_spec() { unimplemented!() }
}
/// stand-in for LinkedList<(FileOffset, FixedStructDynPtr)>: a sequence with push_back and by-value iteration
#[verifier::external_body]
pub struct ListFileOffsetFixedStructPtr { _p: u8 }
#[verifier::external_body]
pub struct ListIntoIter { _p: u8 }
impl ListFileOffsetFixedStructPtr {
    pub uninterp spec fn view(&self) -> Seq<(FileOffset, FixedStructDynPtr)>;
    #[verifier::external_body]
    pub fn push_back(&mut self, v: (FileOffset, FixedStructDynPtr)) ensures final(self)@ == old(self)@.push(v) { unimplemented!() }
    #[verifier::external_body]
    pub fn len(&self) -> (r: usize) ensures r == self@.len() { unimplemented!() }
}
impl ListIntoIter {
    pub uninterp spec fn rest(&self) -> Seq<(FileOffset, FixedStructDynPtr)>;
    #[verifier::external_body]
    pub fn next(&mut self) -> (r: Option<(FileOffset, FixedStructDynPtr)>)
        ensures old(self).rest().len() == 0 ==> r is None && final(self).rest() == old(self).rest(),
            old(self).rest().len() > 0 ==> r == Some(old(self).rest()[0]) && final(self).rest() == old(self).rest().subrange(1, old(self).rest().len() as int),
    { unimplemented!() }
}
impl core::iter::IntoIterator for ListFileOffsetFixedStructPtr {
    type Item = (FileOffset, FixedStructDynPtr);
    type IntoIter = ListIntoIter;
    #[verifier::external_body]
    fn into_iter(self) -> (r: ListIntoIter) ensures r.rest() == self@ { unimplemented!() }
}
impl core::iter::Iterator for ListIntoIter {
    type Item = (FileOffset, FixedStructDynPtr);
    #[verifier::external_body]
    fn next(&mut self) -> Option<(FileOffset, FixedStructDynPtr)> { unimplemented!() }
}
/// C08: the entry is the file's own record at its own offset
pub open spec fn rec_true(e: FixedStruct, file: Seq<u8>, ft: FixedStructType) -> bool {
    e.len_spec() == ft.esz() && e.fo_spec() + ft.esz() <= file.len()
        && e.bytes_spec() == file.subrange(e.fo_spec() as int, e.fo_spec() + ft.esz())
}
/// C08: every pre-parsed entry is stored under its own offset and is the file's record there
pub open spec fn cache_ok(c: Map<FileOffset, FixedStruct>, file: Seq<u8>, ft: FixedStructType) -> bool {
    forall|fo: FileOffset| #[trigger] c.contains_key(fo) ==> c[fo].fo_spec() == fo && rec_true(c[fo], file, ft)
}
/// C08: a (file offset, raw record) pair found while scoring the file is the file's record at that offset
pub open spec fn pair_true(p: (FileOffset, FixedStructDynPtr), file: Seq<u8>, ft: FixedStructType) -> bool {
    p.1.ft_spec() == ft && p.0 + ft.esz() <= file.len() && p.1.bytes_spec() == file.subrange(p.0 as int, p.0 + ft.esz())
}
pub open spec fn pairs_true(l: Seq<(FileOffset, FixedStructDynPtr)>, file: Seq<u8>, ft: FixedStructType) -> bool {
    forall|i: int| 0 <= i < l.len() ==> pair_true(#[trigger] l[i], file, ft)
}
#[verifier::external_body]
pub fn verif_max_usize(a: usize, b: usize) -> (r: usize) ensures r == (if a >= b { a } else { b }) { unimplemented!() }
/// stand-in for `map.iter().find(|(_k, v)| &fo == *v).is_some()`
#[verifier::external_body]
pub fn verif_map_has_value(m: &MapTvPairToFo, fo: &FileOffset) -> (r: bool)
    ensures r == (exists|k: Key| #[trigger] m@.contains_key(k) && m@[k] == *fo)
{ unimplemented!() }

// ---- buffer_to_fixedstructptr (src/data/fixedstruct.rs), the part before the unsafe copy: which buffers are NOT a record
/// stand-ins (R9) for `slice.iter().all(|&x| x == v)` / `.any(..)`
#[verifier::external_body]
pub fn verif_all_eq(s: &[u8], v: u8) -> (r: bool) ensures r == (forall|i: int| 0 <= i < s@.len() ==> s@[i] == v) { unimplemented!() }
#[verifier::external_body]
pub fn verif_any_eq(s: &[u8], v: u8) -> (r: bool) ensures r == (exists|i: int| 0 <= i < s@.len() && s@[i] == v) { unimplemented!() }
#[verifier::external_body]
pub fn verif_cfg_debug_not_test() -> bool { unimplemented!() }
#[verifier::external_body]
pub fn verif_some_ptr(buffer: &[u8], fixedstructtype: FixedStructType) -> (r: Option<FixedStructDynPtr>) ensures r is Some { unimplemented!() }

/// C08: a slot is skipped as "no record" only if it is too short, all 0x00 or all 0xFF -- a record with SOME zero or 0xFF bytes is kept
pub fn buffer_to_fixedstructptr_checks(buffer: &[u8], fixedstructtype: FixedStructType) -> (r: Option<FixedStructDynPtr>)
    requires fixedstructtype.layout_ok()
    ensures
        r is None ==> buffer@.len() < fixedstructtype.esz()
            || (forall|i: int| 0 <= i < fixedstructtype.esz() ==> buffer@[i] == 0u8)
            || (forall|i: int| 0 <= i < fixedstructtype.esz() ==> buffer@[i] == 0xFFu8),
{
//@cut slice path=src/data/fixedstruct.rs fn=buffer_to_fixedstructptr anchor="let sz: usize = fixedstructtype.size();" take=range end_anchor="if slice_.iter().all(|&x| x == 0xFF) {" label=BFP-CHECKS
//@replace "cfg!(debug_assertions) && ! cfg!(test)" "verif_cfg_debug_not_test() && false"
//@replace "slice_.iter().all(|&x| x == 0)" "verif_all_eq(slice_, 0)" count=0+
//@replace "slice_.iter().any(|&x| x == 0)" "verif_any_eq(slice_, 0)" count=0+
//@replace "slice_.iter().all(|&x| x == 0xFF)" "verif_all_eq(slice_, 0xFF)" count=0+
//@replace "slice_.iter().any(|&x| x == 0xFF)" "verif_any_eq(slice_, 0xFF)" count=0+
//@after "let slice_ = &buffer[..sz];"
    proof { assert(slice_@ =~= buffer@.subrange(0, sz as int)); assert(forall|i: int| 0 <= i < sz ==> slice_@[i] == buffer@[i]); }
//@end
    verif_some_ptr(buffer, fixedstructtype)
}

pub type ResultS3FixedStructFind = ResultS3<(FileOffset, FixedStruct), (Option<FileOffset>, Error)>;
/// whether a message can be built from a record's bytes (FixedStruct::new succeeds): a function of the layout and the bytes
pub uninterp spec fn buildable(ft: FixedStructType, bytes: Seq<u8>) -> bool;
pub open spec fn buildable_at(file: Seq<u8>, ft: FixedStructType, fo: int) -> bool { buildable(ft, file.subrange(fo, fo + ft.esz())) }
#[verifier::external_body]
pub fn verif_error() -> Error { unimplemented!() }
/// stand-in (R9) for `counter += 1` on a u64 statistics counter: assumed not to overflow (2^64 records)
#[verifier::external_body]
pub fn verif_count_inc(c: &mut Count) { unimplemented!() }
/// stand-in (R9) for `slice_.iter_mut().for_each(|m| *m = 0)`
#[verifier::external_body]
pub fn verif_zero(s: &mut [u8])
    ensures final(s)@.len() == old(s)@.len(), forall|i: int| 0 <= i < final(s)@.len() ==> final(s)@[i] == 0u8
{ unimplemented!() }

/// stand-in (R9) for `map.iter().min_by_key(|(k, v)| (*k, *v))`.  assumed: Iterator::min_by_key returns an
/// element whose key-function value is minimal (the paired Kani harness runs the real adapter, bounded)
#[verifier::external_body]
pub fn verif_min_by_key_pair<'a>(m: &'a MapTvPairToFo) -> (r: Option<(&'a Key, &'a FileOffset)>)
    ensures
        r is None <==> m@.dom() =~= Set::<Key>::empty(),
        r is Some ==> m@.contains_key(*r.unwrap().0) && m@[*r.unwrap().0] == *r.unwrap().1
            && (forall|k2: Key| #[trigger] m@.contains_key(k2) ==> !(key_lt(k2, *r.unwrap().0) || (k2 == *r.unwrap().0 && m@[k2] < *r.unwrap().1))),
{ unimplemented!() }

/// stand-in for a selection expression that is NOT the expected one: assumed only what its type gives -- some entry
#[verifier::external_body]
pub fn verif_select_some_pair<'a>(m: &'a MapTvPairToFo) -> (r: Option<(&'a Key, &'a FileOffset)>)
    ensures
        r is None <==> m@.dom() =~= Set::<Key>::empty(),
        r is Some ==> m@.contains_key(*r.unwrap().0) && m@[*r.unwrap().0] == *r.unwrap().1,
{ unimplemented!() }

/// every key is a genuine selected record, stored under (time, offset) with value = offset
pub open spec fn keys_ok(m: Map<Key, FileOffset>, file: Seq<u8>, ft: FixedStructType, n: int) -> bool {
    forall|key: Key| #[trigger] m.contains_key(key) ==> {
        let k = key.1 as int / ft.esz();
        &&& 0 <= k < n
        &&& key.1 as int == k * ft.esz()
        &&& rec_tv(file, ft, k) is Some
        &&& key == key_of(file, ft, k)
        &&& m[key] == key.1
    }
}
pub open spec fn none_greater(m: Map<Key, FileOffset>, kk: Key) -> bool {
    forall|k2: Key| #[trigger] m.contains_key(k2) ==> !key_lt(kk, k2)
}
pub open spec fn none_between(m: Map<Key, FileOffset>, kk: Key, nxt: Key) -> bool {
    forall|k2: Key| #[trigger] m.contains_key(k2) && key_lt(kk, k2) ==> !key_lt(k2, nxt)
}
/// x is the offset of the record that follows key kk in (time, offset) order, or filesz if kk is the greatest
pub open spec fn next_after(m: Map<Key, FileOffset>, file: Seq<u8>, ft: FixedStructType, kk: Key, x: FileOffset) -> bool {
    ||| (x as int == file.len() && none_greater(m, kk))
    ||| ({ let nxt = key_of(file, ft, x as int / ft.esz());
           m.contains_key(nxt) && m[nxt] == x && key_lt(kk, nxt) && none_between(m, kk, nxt) })
}

//@cut type kind=type path=src/readers/fixedstructreader.rs name=FoToEntry
//@end
pub struct FixedStructReader {
    pub blockreader: BlockReader,
    pub map_tvpair_fo: MapTvPairToFo,
    pub fixedstruct_size: usize,
    pub fixedstruct_type: FixedStructType,
    pub tz_offset: FixedOffset,
    pub entries_processed: Count,
    pub cache_entries: FoToEntry,
    pub entries_hits: Count,
    pub entries_miss: Count,
    pub entries_stored_highest: usize,
}
impl FixedStructReader {
    pub open spec fn n(&self) -> int { self.blockreader.file().len() as int / self.fixedstruct_type.esz() }
    pub open spec fn wf(&self) -> bool {
        &&& self.fixedstruct_type.layout_ok()
        &&& self.fixedstruct_size as int == self.fixedstruct_type.esz()
        &&& self.blockreader.file().len() + ENTRY_SZ_MAX <= u64::MAX
        &&& self.blockreader.file().len() == self.n() * self.fixedstruct_type.esz()
        &&& keys_ok(self.map_tvpair_fo@, self.blockreader.file(), self.fixedstruct_type, self.n())
        &&& cache_ok(self.cache_entries@, self.blockreader.file(), self.fixedstruct_type)
    }
    pub open spec fn same_except_map(&self, o: &Self) -> bool {
        &&& self.blockreader.file() == o.blockreader.file()
        &&& self.blockreader.reliable() == o.blockreader.reliable()
        &&& self.fixedstruct_size == o.fixedstruct_size
        &&& self.fixedstruct_type == o.fixedstruct_type
    }
    // assumed: caches, statistics and block dropping do not touch the time->offset map or the file content
    #[verifier::external_body]
    fn dt_first_last_update(&mut self, datetime: &DateTimeL)
        ensures final(self).same_except_map(old(self)), final(self).map_tvpair_fo == old(self).map_tvpair_fo, final(self).cache_entries == old(self).cache_entries
    { unimplemented!() }
    #[verifier::external_body]
    fn drop_entry(&mut self, fixedstruct: &FixedStruct) -> (r: usize)
        ensures final(self).same_except_map(old(self)), final(self).map_tvpair_fo == old(self).map_tvpair_fo, final(self).cache_entries == old(self).cache_entries
    { unimplemented!() }
    #[verifier::external_body]
    fn set_error(&mut self, error: &Error)
        ensures final(self).same_except_map(old(self)), final(self).map_tvpair_fo == old(self).map_tvpair_fo, final(self).cache_entries == old(self).cache_entries
    { unimplemented!() }

//@cut fn path=src/readers/fixedstructreader.rs impl=FixedStructReader name=filesz ret=r
//@spec
    ensures r as int == self.blockreader.file().len()
//@end
//@cut fn path=src/readers/fixedstructreader.rs impl=FixedStructReader name=fixedstruct_size ret=r
//@spec
    ensures r == self.fixedstruct_size
//@end
//@cut fn path=src/readers/fixedstructreader.rs impl=FixedStructReader name=fixedstruct_size_fo ret=r
//@spec
    ensures r as int == self.fixedstruct_size
//@end
//@cut fn path=src/readers/fixedstructreader.rs impl=FixedStructReader name=fixedstruct_type ret=r
//@spec
    ensures r == self.fixedstruct_type
//@end

//@cut fn path=src/readers/fixedstructreader.rs impl=FixedStructReader name=fileoffset_first ret=r
//@replace_chain "self.map_tvpair_fo.iter()" when="self.map_tvpair_fo.iter().min_by_key(|(tv_pair, fo)| (*tv_pair, *fo))" then="verif_min_by_key_pair(&self.map_tvpair_fo)" else="verif_select_some_pair(&self.map_tvpair_fo)"
//@spec
    requires self.wf()
    ensures
        r is None <==> self.map_tvpair_fo@.dom() =~= Set::<Key>::empty(),
        // C08: the first record handed out is the least in (time, file offset) order
        r is Some ==> ({
            let k0 = key_of(self.blockreader.file(), self.fixedstruct_type, r.unwrap() as int / self.fixedstruct_type.esz());
            self.map_tvpair_fo@.contains_key(k0) && self.map_tvpair_fo@[k0] == r.unwrap()
                && (forall|k2: Key| #[trigger] self.map_tvpair_fo@.contains_key(k2) ==> !key_lt(k2, k0))
        }),
//@end

//@cut fn path=src/readers/fixedstructreader.rs impl=FixedStructReader name=fileoffset_to_fixedstructoffset ret=r
//@spec
    requires self.wf()
    ensures r as int == (fileoffset as int / self.fixedstruct_type.esz()) * self.fixedstruct_type.esz()
//@at_entry
        proof {
            lemma_fundamental_div_mod(fileoffset as int, self.fixedstruct_type.esz());
            lemma_mod_bound(fileoffset as int, self.fixedstruct_type.esz());
            lemma_div_pos_is_pos(fileoffset as int, self.fixedstruct_type.esz());
            lemma_mul_is_commutative(self.fixedstruct_type.esz(), fileoffset as int / self.fixedstruct_type.esz());
        }
//@end

//@cut fn path=src/readers/fixedstructreader.rs impl=FixedStructReader name=remove_cache_entry ret=r
//@replace "self.entries_hits += 1;" "verif_count_inc(&mut self.entries_hits);"
//@replace "self.entries_miss += 1;" "verif_count_inc(&mut self.entries_miss);"
//@spec
    requires vstd::laws_cmp::obeys_cmp::<FileOffset>()
    ensures
        final(self).same_except_map(old(self)), final(self).map_tvpair_fo == old(self).map_tvpair_fo,
        // C08: the pre-parsed entry handed back is the one stored under exactly this offset; only it leaves the cache
        r == (if old(self).cache_entries@.contains_key(fileoffset) { Some(old(self).cache_entries@[fileoffset]) } else { None::<FixedStruct> }),
        final(self).cache_entries@ == old(self).cache_entries@.remove(fileoffset),
//@at_entry
        proof { broadcast use group_btree_axioms; }
//@end
//@cut fn path=src/readers/fixedstructreader.rs impl=FixedStructReader name=insert_cache_entry
//@replace "self.entries_processed += 1;" "verif_count_inc(&mut self.entries_processed);"
//@replace "std::cmp::max(" "verif_max_usize("
//@spec
    requires old(self).wf(), rec_true(entry, old(self).blockreader.file(), old(self).fixedstruct_type), vstd::laws_cmp::obeys_cmp::<FileOffset>(),
        !old(self).cache_entries@.contains_key(entry.fo_spec()), // the function's own debug assertion
    ensures
        final(self).same_except_map(old(self)), final(self).map_tvpair_fo == old(self).map_tvpair_fo, final(self).wf(),
        // C08: a pre-parsed entry is stored under its own offset
        final(self).cache_entries@ == old(self).cache_entries@.insert(entry.fo_spec(), entry),
//@at_entry
        proof { broadcast use group_btree_axioms; }
//@end
//@cut fn path=src/readers/fixedstructreader.rs impl=FixedStructReader name=process_entry_at ret=r
//@replace "slice_.iter_mut().for_each(|m| *m = 0);" "verif_zero(slice_);"
//@replace "&slice_," "slice_,"
//@replace "self.entries_processed += 1;" "verif_count_inc(&mut self.entries_processed);"
//@desugar_for 1 it
//@spec
    requires
        old(self).wf(),
        fo as int == (fo as int / old(self).fixedstruct_type.esz()) * old(self).fixedstruct_type.esz(),
    ensures
        final(self).same_except_map(old(self)), final(self).wf(),
        keys_ok(final(self).map_tvpair_fo@, old(self).blockreader.file(), old(self).fixedstruct_type, old(self).n()),
        fo as int >= old(self).blockreader.file().len() ==> r is Done && final(self).map_tvpair_fo@ == old(self).map_tvpair_fo@,
        // C08: exactly the record at `fo` leaves the collection; the returned next offset is its successor
        // in (time, file offset) order, or filesz when it was the last
        (fo as int) < old(self).blockreader.file().len() ==> ({
            let kk = key_of(old(self).blockreader.file(), old(self).fixedstruct_type, fo as int / old(self).fixedstruct_type.esz());
            &&& final(self).map_tvpair_fo@ == (if old(self).map_tvpair_fo@.contains_key(kk) { old(self).map_tvpair_fo@.remove(kk) } else { old(self).map_tvpair_fo@ })
            &&& !(r is Done)
            &&& r is Found ==> r->Found_0.1.fo_spec() == fo
            // C08: the record handed to the caller is the file's own record at `fo`, from the cache or freshly read
            &&& r is Found ==> rec_true(r->Found_0.1, old(self).blockreader.file(), old(self).fixedstruct_type)
            &&& (r is Found && old(self).map_tvpair_fo@.contains_key(kk)) ==>
                    next_after(old(self).map_tvpair_fo@, old(self).blockreader.file(), old(self).fixedstruct_type, kk, r->Found_0.0)
            &&& (r is Err && r->Err_0.0 is Some && old(self).map_tvpair_fo@.contains_key(kk)) ==>
                    next_after(old(self).map_tvpair_fo@, old(self).blockreader.file(), old(self).fixedstruct_type, kk, r->Err_0.0.unwrap())
            // C08: the search goes on past a record that cannot be built (recoverable: Some(next)); it is abandoned (None) only
            // after an I/O error, for an offset that is not in the collection, or for a buffer shorter than a record
            &&& (r is Err && r->Err_0.0 is None && old(self).map_tvpair_fo@.contains_key(kk) && old(buffer)@.len() >= old(self).fixedstruct_type.esz())
                    ==> !old(self).blockreader.reliable()
            &&& (r is Err && r->Err_0.0 is Some) ==> !buildable_at(old(self).blockreader.file(), old(self).fixedstruct_type, fo as int)
        }),
//@before "let sz: FileOffset"
        proof { axiom_key_obeys_cmp(); broadcast use group_btree_axioms; }
        let ghost file0 = self.blockreader.file();
        let ghost ft = self.fixedstruct_type;
        let ghost m0 = self.map_tvpair_fo@;
        let ghost nrec = self.n();
//@after "let sz: FileOffset"
        proof {
            lemma_fundamental_div_mod(fo as int, ft.esz());
            lemma_mod_multiples_basic(fo as int / ft.esz(), ft.esz());
            lemma_fundamental_div_mod_converse(file0.len() as int, ft.esz(), nrec, 0);
            lemma_below(fo as int, ft.esz(), file0.len() as int);
        }
//@before "let mut it = vstd"
            let ghost kk = key_of(file0, ft, fo as int / ft.esz());
//@loop 1
                invariant_except_break
                    vstd::std_specs::iter::IteratorSpec::decrease(&it.iter) is Some,
                    fo_next_ as int == file0.len(),
                    !next_pair ==> tv_pair_at_opt is None && (forall|i: int| 0 <= i < it.index@ ==> *(#[trigger] it.seq()[i]).1 != fileoffset),
                    next_pair ==> it.index@ >= 1 && tv_pair_at_opt == Some(*it.seq()[it.index@ - 1].0) && *it.seq()[it.index@ - 1].1 == fileoffset,
                invariant
                    it.snapshot@ == it__snap0, it.wf(),
                    self.map_tvpair_fo@ == m0, self.blockreader.file() == file0, self.fixedstruct_type == ft, self.wf(), nrec == self.n(),
                    fileoffset == fo, (fo as int) < file0.len(),
                    increasing_seq(it.seq().map_values(|kv: (&Key, &FileOffset)| *kv.0)),
                    forall|i: int| 0 <= i < it.seq().len() ==> m0.contains_key(*(#[trigger] it.seq()[i]).0) && m0[*it.seq()[i].0] == *it.seq()[i].1,
                    forall|k: Key| m0.contains_key(k) ==> exists|i: int| 0 <= i < it.seq().len() && *(#[trigger] it.seq()[i]).0 == k,
                ensures
                    tv_pair_at_opt is None ==> (forall|i: int| 0 <= i < it.seq().len() ==> *(#[trigger] it.seq()[i]).1 != fileoffset),
                    tv_pair_at_opt is Some ==> exists|p: int| 0 <= p < it.seq().len() && tv_pair_at_opt == Some(*(#[trigger] it.seq()[p]).0) && *it.seq()[p].1 == fileoffset
                        && ((p == it.seq().len() - 1 && fo_next_ as int == file0.len()) || (p + 1 < it.seq().len() && fo_next_ == *it.seq()[p + 1].1)),
                decreases vstd::std_specs::iter::IteratorSpec::decrease(&it.iter).unwrap_or(arbitrary()),
//@before "let fs: FixedStruct = match FixedStruct::new("
        proof { assert(slice_@ =~= file0.subrange(fo as int, fo as int + ft.esz())); }
//@before "match tv_pair_at_opt"
            proof {
                let ks = it.seq().map_values(|kv: (&Key, &FileOffset)| *kv.0);
                let vs = it.seq().map_values(|kv: (&Key, &FileOffset)| *kv.1);
                assert forall|i: int, j: int| 0 <= i < j < ks.len() implies key_lt(#[trigger] ks[i], #[trigger] ks[j]) by {
                    assert(vstd::std_specs::cmp::OrdSpec::cmp_spec(&ks[i], &ks[j]) == Ordering::Less);
                }
                assert forall|k: Key| m0.contains_key(k) implies exists|i: int| 0 <= i < ks.len() && #[trigger] ks[i] == k by {
                    let i = choose|i: int| 0 <= i < it.seq().len() && *(#[trigger] it.seq()[i]).0 == k;
                    assert(ks[i] == k);
                }
                assert forall|i: int| 0 <= i < ks.len() implies m0.contains_key(#[trigger] ks[i]) && m0[ks[i]] == vs[i] by {
                    assert(m0.contains_key(*it.seq()[i].0));
                }
                if tv_pair_at_opt is Some {
                    let p = choose|p: int| 0 <= p < it.seq().len() && tv_pair_at_opt == Some(*(#[trigger] it.seq()[p]).0) && *it.seq()[p].1 == fileoffset
                        && ((p == it.seq().len() - 1 && fo_next_ as int == file0.len()) || (p + 1 < it.seq().len() && fo_next_ == *it.seq()[p + 1].1));
                    assert(ks[p] == tv_pair_at_opt.unwrap() && vs[p] == fileoffset);
                    if p + 1 < ks.len() { assert(vs[p + 1] == fo_next_); }
                    lemma_next_after(m0, file0, ft, nrec, ks, vs, p, fo_next_);
                    assert(tv_pair_at_opt.unwrap() == kk);
                } else {
                    if m0.contains_key(kk) {
                        let i = choose|i: int| 0 <= i < ks.len() && #[trigger] ks[i] == kk;
                        assert(vs[i] == m0[kk]);
                        assert(*it.seq()[i].1 == fileoffset);
                        assert(false);
                    }
                }
            }
//@mutate "fo_next_ = *fo_at;" "fo_next_ = fileoffset;"
//@mutate "if &fileoffset == fo_at" "if &fileoffset != fo_at"
//@mutate "self.map_tvpair_fo.remove(&tv_pair_at);" ""
//@mutate "let mut fo_next_: FileOffset = self.filesz();" "let mut fo_next_: FileOffset = 0;"
//@end
//@cut fn path=src/readers/fixedstructreader.rs impl=FixedStructReader name=preprocess_timevalues ret=r
//@replace "pub(crate) fn" "pub fn"
//@spec
    requires
        fixedstruct_type.layout_ok(),
        old(blockreader).file().len() + ENTRY_SZ_MAX <= u64::MAX,
        old(blockreader).file().len() == (old(blockreader).file().len() as int / fixedstruct_type.esz()) * fixedstruct_type.esz(),
    ensures
        final(blockreader).file() == old(blockreader).file(),
        // C08 / C03: the collection is exactly the set of non-null records inside the window, each once,
        // keyed (time, file offset) -- so BTreeMap order is time order with ties in file order
        r is Ok ==> represents(r->Ok_0.4@, old(blockreader).file(), fixedstruct_type, otv(*dt_filter_after), otv(*dt_filter_before),
                               old(blockreader).file().len() as int / fixedstruct_type.esz()),
//@before "let mut buffer"
        proof { axiom_key_obeys_cmp(); }
        let ghost file0 = blockreader.file();
        let ghost ft = fixedstruct_type;
//@after "let entry_sz: FileOffset"
        proof {
            assert(ft.esz() >= 1);
            lemma_fundamental_div_mod(file0.len() as int, ft.esz());
            lemma_mod_multiples_basic(file0.len() as int / ft.esz(), ft.esz());
        }
//@before "loop {"
        proof { assert(0int / ft.esz() == 0) by (nonlinear_arith) requires ft.esz() >= 1; }
//@loop 1
            invariant
                ft == fixedstruct_type, ft.layout_ok(), entry_sz as int == ft.esz(), tv_sz as int == ft.tvsz(), tv_offset as int == ft.tvoff(),
                vstd::laws_cmp::obeys_cmp::<Key>(),
                blockreader.file() == file0, file0 == old(blockreader).file(), file0.len() + ENTRY_SZ_MAX <= u64::MAX,
                file0.len() == (file0.len() as int / ft.esz()) * ft.esz(),
                fo as int == (fo as int / ft.esz()) * ft.esz(),
                fo <= file0.len(),
                slice_@.len() == tv_sz,
                tv_filter_after == otv(*dt_filter_after), tv_filter_before == otv(*dt_filter_before),
                represents(map_tv_pair_fo@, file0, ft, tv_filter_after, tv_filter_before, fo as int / ft.esz()),
                out_of_order <= fo as int / ft.esz(), valid_no_pass_filter <= fo as int / ft.esz(),
                invalid <= fo as int / ft.esz(), total_entries <= fo as int / ft.esz(),
            ensures fo as int == file0.len(),
            decreases file0.len() - fo,
//@after "loop {" 1
            proof {
                lemma_step(fo as int, ft.esz());
                lemma_below(fo as int, ft.esz(), file0.len() as int);
            }
            let ghost j = fo as int / ft.esz();
            let ghost map0 = map_tv_pair_fo@;
//@before "let tv_pair: tv_pair_type = match"
            assert(fo < file0.len());
            assert(slice_@ == file0.subrange(j * ft.esz() + ft.tvoff(), j * ft.esz() + ft.tvoff() + ft.tvsz())) by {
                assert(slice_@.subrange(0, tv_sz as int) =~= slice_@);
            }
            assert(tv_of(ft, slice_@) == rec_tv(file0, ft, j));
//@after "map_tv_pair_fo.insert("
            proof {
                assert(in_s(file0, ft, tv_filter_after, tv_filter_before, j));
                assert(key_of(file0, ft, j) == (tv_pair, fo));
                assert(map_tv_pair_fo@ == map0.insert((tv_pair, fo), fo));
                lemma_represents_insert(map0, file0, ft, tv_filter_after, tv_filter_before, j);
            }
//@mutate "tv_pair > tv_filter" "tv_pair >= tv_filter"
//@mutate "map_tv_pair_fo.insert((tv_pair, fo), fo)" "map_tv_pair_fo.insert((tv_pair, 0), fo)"
//@end
}

pub proof fn lemma_next_after(m: Map<Key, FileOffset>, file: Seq<u8>, ft: FixedStructType, n: int, ks: Seq<Key>, vs: Seq<FileOffset>, p: int, x: FileOffset)
    requires
        ft.esz() >= 1, keys_ok(m, file, ft, n), ks.len() == vs.len(), 0 <= p < ks.len(),
        forall|i: int, j: int| 0 <= i < j < ks.len() ==> key_lt(#[trigger] ks[i], #[trigger] ks[j]),
        forall|k: Key| m.contains_key(k) ==> exists|i: int| 0 <= i < ks.len() && #[trigger] ks[i] == k,
        forall|i: int| 0 <= i < ks.len() ==> m.contains_key(#[trigger] ks[i]) && m[ks[i]] == vs[i],
        (p == ks.len() - 1 && x as int == file.len()) || (p + 1 < ks.len() && x == vs[p + 1]),
    ensures
        ks[p] == key_of(file, ft, vs[p] as int / ft.esz()),
        next_after(m, file, ft, ks[p], x),
{
    let kk = ks[p];
    assert(m.contains_key(kk));
    if p == ks.len() - 1 {
        assert forall|k2: Key| #[trigger] m.contains_key(k2) implies !key_lt(kk, k2) by {
            let i = choose|i: int| 0 <= i < ks.len() && #[trigger] ks[i] == k2;
            if i < p { assert(key_lt(ks[i], ks[p])); }
        }
    } else {
        let nxt = ks[p + 1];
        assert(m.contains_key(nxt));
        assert(key_lt(ks[p], ks[p + 1]));
        assert forall|k2: Key| #[trigger] m.contains_key(k2) && key_lt(kk, k2) implies !key_lt(k2, nxt) by {
            let i = choose|i: int| 0 <= i < ks.len() && #[trigger] ks[i] == k2;
            if i < p { assert(key_lt(ks[i], ks[p])); }
            else if i > p + 1 { assert(key_lt(ks[p + 1], ks[i])); }
        }
    }
}

pub proof fn lemma_represents_insert(m: Map<Key, FileOffset>, file: Seq<u8>, ft: FixedStructType, a: Option<tv_pair_type>, b: Option<tv_pair_type>, j: int)
    requires represents(m, file, ft, a, b, j), in_s(file, ft, a, b, j), ft.esz() >= 1, j >= 0, j * ft.esz() <= u64::MAX
    ensures represents(m.insert(key_of(file, ft, j), (j * ft.esz()) as u64), file, ft, a, b, j + 1)
{
    let m2 = m.insert(key_of(file, ft, j), (j * ft.esz()) as u64);
    assert((j * ft.esz()) / ft.esz() == j) by { lemma_fundamental_div_mod_converse(j * ft.esz(), ft.esz(), j, 0); }
    assert forall|k: int| 0 <= k < j + 1 && #[trigger] in_s(file, ft, a, b, k) implies m2.contains_key(key_of(file, ft, k)) by {
        if k < j { assert(m.contains_key(key_of(file, ft, k))); }
    }
    assert forall|key: Key| #[trigger] m2.contains_key(key) implies ({
            let k = key.1 as int / ft.esz();
            &&& 0 <= k < j + 1
            &&& key.1 as int == k * ft.esz()
            &&& in_s(file, ft, a, b, k)
            &&& key == key_of(file, ft, k)
            &&& m2[key] == key.1
        }) by {
        if key == key_of(file, ft, j) { } else { assert(m.contains_key(key)); }
    }
}
pub proof fn lemma_represents_skip(m: Map<Key, FileOffset>, file: Seq<u8>, ft: FixedStructType, a: Option<tv_pair_type>, b: Option<tv_pair_type>, j: int)
    requires represents(m, file, ft, a, b, j), !in_s(file, ft, a, b, j)
    ensures represents(m, file, ft, a, b, j + 1)
{
    assert forall|k: int| 0 <= k < j + 1 && #[trigger] in_s(file, ft, a, b, k) implies m.contains_key(key_of(file, ft, k)) by {
        if k < j { }
    }
}


// =====================================================================================================

// ---- slices: where pre-parsed entries come from (score_file's scan loop) and how they reach the cache (new's last loop).
// Between the two the list only moves (`highest_score_entries = found_entries`, the FileOk return, the match in `new`):
// that hand-over and the empty cache of the struct literal are assumed.
//@cut type kind=enum path=src/readers/fixedstructreader.rs name=ResultFixedStructReaderScoreFile derives=
//@end
//@cut type kind=type path=src/readers/fixedstructreader.rs name=ResultFixedStructReaderScoreFileError
//@end
pub open spec fn offs_increasing(l: Seq<(FileOffset, FixedStructDynPtr)>) -> bool {
    forall|i: int, j: int| 0 <= i < j < l.len() ==> (#[trigger] l[i]).0 < (#[trigger] l[j]).0
}
#[verifier::external_body]
pub fn verif_inc_usize(c: &mut usize) { unimplemented!() }

#[verifier::exec_allows_no_decreases_clause]
pub fn score_file_scan(
    blockreader: &mut BlockReader,
    oneblock: bool,
    fixedstructtype: FixedStructType,
    bonus: Score,
    buffer: &mut [u8],
    _count_total: &mut usize,
    found_entries: &mut ListFileOffsetFixedStructPtr,
    fo_in: FileOffset,
) -> (r: ResultFixedStructReaderScoreFileError)
    requires
        fixedstructtype.layout_ok(), old(buffer)@.len() == ENTRY_SZ_MAX,
        old(blockreader).file().len() + ENTRY_SZ_MAX <= u64::MAX, fo_in as int <= old(blockreader).file().len(),
        pairs_true(old(found_entries)@, old(blockreader).file(), fixedstructtype), offs_increasing(old(found_entries)@),
        forall|i: int| 0 <= i < old(found_entries)@.len() ==> (#[trigger] old(found_entries)@[i]).0 < fo_in,
    ensures
        final(blockreader).file() == old(blockreader).file(),
        // C08: every (offset, raw record) pair collected while scoring is the file's own record at that offset,
        // in increasing offset order
        pairs_true(final(found_entries)@, old(blockreader).file(), fixedstructtype), offs_increasing(final(found_entries)@),
{
//@cut slice path=src/readers/fixedstructreader.rs fn=score_file impl=FixedStructReader anchor="const COUNT_FOUND_ENTRIES_MAX: usize" take=stmt label=SCORE-MAX
//@end
    let mut _count_loop: usize = 0;
    let mut count_found_entries: usize = 0;
    let mut high_score: Score = 0;
    let mut fo: FileOffset = fo_in;
    let ghost file0 = blockreader.file();
//@cut slice path=src/readers/fixedstructreader.rs fn=score_file impl=FixedStructReader anchor="loop {" take=block label=SCORE-LOOP
//@replace "buffer.iter_mut().for_each(|m| *m = 0);" "verif_zero(buffer);"
//@replace "&mut buffer," "buffer,"
//@replace "_count_total += 1;" "verif_inc_usize(_count_total);"
//@replace "_count_loop += 1;" "verif_inc_usize(&mut _count_loop);"
//@loop 1
                invariant
                    blockreader.file() == file0, file0 == old(blockreader).file(), fixedstructtype.layout_ok(), buffer@.len() == ENTRY_SZ_MAX,
                    file0.len() + ENTRY_SZ_MAX <= u64::MAX, fo as int <= file0.len(),
                    pairs_true(found_entries@, file0, fixedstructtype), offs_increasing(found_entries@),
                    forall|i: int| 0 <= i < found_entries@.len() ==> (#[trigger] found_entries@[i]).0 < fo,
//@before "let fixedstructptr: FixedStructDynPtr = match buffer_to_fixedstructptr("
                proof { assert(slice_@.subrange(0, fixedstructtype.esz()) =~= file0.subrange(fo2 as int, fo2 + fixedstructtype.esz())); }
//@end
    ResultFixedStructReaderScoreFileError::FileErrEmpty
}

#[verifier::exec_allows_no_decreases_clause]
pub fn new_fill_cache(
    fixedstructreader: &mut FixedStructReader,
    list_entries: ListFileOffsetFixedStructPtr,
    tz_offset: FixedOffset,
)
    requires
        old(fixedstructreader).wf(), vstd::laws_cmp::obeys_cmp::<FileOffset>(),
        old(fixedstructreader).cache_entries@ =~= Map::<FileOffset, FixedStruct>::empty(),
        pairs_true(list_entries@, old(fixedstructreader).blockreader.file(), old(fixedstructreader).fixedstruct_type), offs_increasing(list_entries@),
    ensures
        // C08: after construction every pre-parsed entry in the cache sits under its own offset and is the file's
        // record there (wf includes cache_ok); the time -> offset collection is untouched
        final(fixedstructreader).wf(), final(fixedstructreader).same_except_map(old(fixedstructreader)),
        final(fixedstructreader).map_tvpair_fo == old(fixedstructreader).map_tvpair_fo,
{
    let ghost r0 = *fixedstructreader;
//@cut slice path=src/readers/fixedstructreader.rs fn=new impl=FixedStructReader anchor="for (fo, fixedstructptr) in list_entries.into_iter()" take=block label=NEW-CACHE
//@replace "fixedstructreader.map_tvpair_fo.iter().find(|(_tv_pair, fo2)| &fo == *fo2).is_some()" "verif_map_has_value(&fixedstructreader.map_tvpair_fo, &fo)"
//@desugar_for 1 it plain
//@loop 1
            invariant
                fixedstructreader.wf(), fixedstructreader.same_except_map(&r0), fixedstructreader.map_tvpair_fo == r0.map_tvpair_fo,
                vstd::laws_cmp::obeys_cmp::<FileOffset>(),
                pairs_true(it.rest(), r0.blockreader.file(), r0.fixedstruct_type), offs_increasing(it.rest()),
                forall|c: FileOffset, i: int| #[trigger] fixedstructreader.cache_entries@.contains_key(c) && 0 <= i < it.rest().len() ==> c < (#[trigger] it.rest()[i]).0,
//@end
}

// the worker that drives the reader: exec_fixedstructprocessor (src/bin/s4.rs).  Here process_entry_at and
// fileoffset_first are the functions verified above (not stubs).
#[verifier::external_body]
pub struct String { _p: u8 }
impl Clone for String { #[verifier::external_body] fn clone(&self) -> (r: Self) ensures r == *self { unimplemented!() } }
impl Error { #[verifier::external_body] pub fn to_string(&self) -> String { unimplemented!() } }
pub type FPath = String;
pub type PathId = usize;
pub type BlockSz = u64;
impl Copy for FixedOffset {}
impl Clone for FixedOffset { #[verifier::external_body] fn clone(&self) -> (r: Self) ensures r == *self { unimplemented!() } }
#[verifier::external_body]
pub struct SystemTime { _p: u8 }
#[verifier::external_body]
pub struct ThreadId { _p: u8 }
#[verifier::external_body]
pub struct Summary { _p: u8 }
pub type SummaryOpt = Option<Summary>;
#[verifier::external_body]
pub struct JournalOutput { _p: u8 }
#[verifier::external_body]
pub fn systemtime_to_datetime(tz: &FixedOffset, st: &SystemTime) -> DateTimeL { unimplemented!() }
#[verifier::external_body]
pub struct Sysline { _p: u8 }
pub type SyslineP = std::sync::Arc<Sysline>;
#[verifier::external_body]
pub struct Evtx { _p: u8 }
#[verifier::external_body]
pub struct JournalEntry { _p: u8 }
//@cut type kind=enum path=src/common.rs name=FileTypeArchive derives=Clone,Copy
//@end
//@cut type kind=enum path=src/common.rs name=FileTypeFixedStruct derives=Clone,Copy
//@end
//@cut type kind=enum path=src/common.rs name=FileTypeTextEncoding derives=Clone,Copy
//@end
//@cut type kind=enum path=src/common.rs name=FileType derives=Clone,Copy
//@end
//@cut type kind=enum path=src/common.rs name=LogMessageType derives=Clone,Copy
//@replace "#[default]" ""
//@end
//@cut type kind=enum path=src/common.rs name=FileProcessingResult derives=
//@end
pub type FileProcessingResultBlockZero = FileProcessingResult<Error>;
//@cut type kind=const path=src/bin/s4.rs name=FILEERRSTUB
//@end
//@cut type kind=const path=src/bin/s4.rs name=FILEOK
//@end
//@cut type kind=enum path=src/bin/s4.rs name=LogMessageSpecificData derives=
//@end
//@cut type kind=type path=src/bin/s4.rs name=ThreadInitData
//@replace "type ThreadInitData" "pub type ThreadInitData"
//@end
//@cut type kind=type path=src/bin/s4.rs name=IsLastLogMessage
//@replace "type IsLastLogMessage" "pub type IsLastLogMessage"
//@end
//@cut type kind=enum path=src/data/common.rs name=LogMessage derives=
//@end
//@cut type kind=enum path=src/bin/s4.rs name=ChanDatum derives=
//@replace "enum ChanDatum" "pub enum ChanDatum"
//@end
//@cut type kind=enum path=src/readers/fixedstructreader.rs name=ResultFixedStructReaderNew derives=
//@end
#[verifier::external_body]
pub struct ChanSendDatum { _p: u8 }
impl ChanSendDatum {
    pub uninterp spec fn log(&self) -> Seq<ChanDatum>;
    #[verifier::external_body]
    pub fn send(&mut self, d: ChanDatum) -> (r: core::result::Result<(), Error>)
        ensures final(self).log() == old(self).log().push(d)
    { unimplemented!() }
    // the channel's other send methods give up instead of blocking: the datum is then NOT delivered (assumed: crossbeam's semantics)
    #[verifier::external_body]
    pub fn send_timeout<T>(&mut self, d: ChanDatum, timeout: T) -> (r: core::result::Result<(), Error>)
        ensures r is Ok ==> final(self).log() == old(self).log().push(d), r is Err ==> final(self).log() == old(self).log()
    { unimplemented!() }
    #[verifier::external_body]
    pub fn try_send(&mut self, d: ChanDatum) -> (r: core::result::Result<(), Error>)
        ensures r is Ok ==> final(self).log() == old(self).log().push(d), r is Err ==> final(self).log() == old(self).log()
    { unimplemented!() }
}
//@opaque_consts_here
pub open spec fn open_ok(l: Seq<ChanDatum>) -> bool {
    l.len() >= 1 && l[0] is FileInfo && forall|i: int| 0 < i < l.len() ==> #[trigger] l[i] is NewMessage
}
pub open spec fn closed_ok(l: Seq<ChanDatum>) -> bool {
    l.len() >= 2 && l[0] is FileInfo && l.last() is FileSummary && forall|i: int| 0 < i < l.len() - 1 ==> #[trigger] l[i] is NewMessage
}
//@cut fn path=src/bin/s4.rs name=chan_send
//@replace "chan_send_dt: &ChanSendDatum" "chan_send_dt: &mut ChanSendDatum"
//@spec
    ensures final(chan_send_dt).log() == old(chan_send_dt).log().push(chan_datum)
//@end
impl Summary {
    #[verifier::external_body]
    pub fn new_failed(path: FPath, filetype: FileType, logmessagetype: LogMessageType, blocksz: BlockSz, error: Option<String>) -> Summary { unimplemented!() }
}
/// ghost: the record file behind `path`, its layout and window, as functions of the worker's arguments
pub uninterp spec fn fx_file(path: FPath) -> Seq<u8>;
pub uninterp spec fn fx_type(path: FPath) -> FixedStructType;
pub uninterp spec fn fx_reliable(path: FPath) -> bool;
impl FixedStructReader {
    // assumed: `new` stores what preprocess_timevalues returned (contract proved above) and the file/layout it probed
    #[verifier::external_body]
    pub fn new(path: FPath, filetype: FileType, blocksz: BlockSz, tz_offset: FixedOffset, dt_filter_after: DateTimeLOpt, dt_filter_before: DateTimeLOpt) -> (r: ResultFixedStructReaderNew<Error>)
        ensures r is FileOk ==> r->FileOk_0.wf() && r->FileOk_0.blockreader.file() == fx_file(path) && r->FileOk_0.blockreader.reliable() == fx_reliable(path) && r->FileOk_0.fixedstruct_type == fx_type(path)
            && represents(r->FileOk_0.map_tvpair_fo@, fx_file(path), fx_type(path), otv(dt_filter_after), otv(dt_filter_before), r->FileOk_0.n())
    { unimplemented!() }
    #[verifier::external_body]
    pub fn mtime(&self) -> SystemTime { unimplemented!() }
    #[verifier::external_body]
    pub fn summary_complete(&self) -> Summary { unimplemented!() }
    #[verifier::external_body]
    pub fn is_last(&self, fixedstruct: &FixedStruct) -> (r: bool) { unimplemented!() }
}
/// file offset of the record carried by a datum
pub open spec fn rec_fo(d: ChanDatum) -> int {
    match d { ChanDatum::NewMessage(LogMessage::FixedStruct(fs), _) => fs.fo_spec() as int, _ => -1 }
}
/// C08: the records sent so far are records of the initial selection `m0`, in strictly increasing (time, file offset)
/// order, and each of them is smaller than every record still to come (`rem`)
pub open spec fn fx_sent_ok(l: Seq<ChanDatum>, m0: Map<Key, FileOffset>, rem: Map<Key, FileOffset>, file: Seq<u8>, ft: FixedStructType) -> bool {
    &&& forall|i: int| 0 < i < l.len() ==> (#[trigger] l[i]) is NewMessage && rec_fo(l[i]) >= 0
            && m0.contains_key(key_of(file, ft, rec_fo(l[i]) / ft.esz())) && m0[key_of(file, ft, rec_fo(l[i]) / ft.esz())] as int == rec_fo(l[i])
            && !rem.contains_key(key_of(file, ft, rec_fo(l[i]) / ft.esz()))
    &&& forall|i: int, j: int| 0 < i < j < l.len() ==> key_lt(key_of(file, ft, rec_fo(#[trigger] l[i]) / ft.esz()), key_of(file, ft, rec_fo(#[trigger] l[j]) / ft.esz()))
    &&& forall|i: int, k: Key| 0 < i < l.len() && #[trigger] rem.contains_key(k) ==> key_lt(key_of(file, ft, rec_fo(#[trigger] l[i]) / ft.esz()), k)
    &&& forall|k: Key| #[trigger] rem.contains_key(k) ==> m0.contains_key(k) && m0[k] == rem[k]
}
/// every selected record from which a message can be built has been sent
pub open spec fn fx_complete_buildable(l: Seq<ChanDatum>, m0: Map<Key, FileOffset>, file: Seq<u8>, ft: FixedStructType) -> bool {
    forall|k: Key| #[trigger] m0.contains_key(k) && buildable_at(file, ft, m0[k] as int) ==> exists|i: int| 0 < i < l.len() && rec_fo(#[trigger] l[i]) == m0[k] as int
}
/// every selected record has been sent (each exactly once, by fx_sent_ok's strict order)
pub open spec fn fx_complete(l: Seq<ChanDatum>, m0: Map<Key, FileOffset>) -> bool {
    forall|k: Key| #[trigger] m0.contains_key(k) ==> exists|i: int| 0 < i < l.len() && rec_fo(#[trigger] l[i]) == m0[k] as int
}
pub open spec fn is_least(m: Map<Key, FileOffset>, k0: Key) -> bool {
    m.contains_key(k0) && forall|k2: Key| #[trigger] m.contains_key(k2) ==> !key_lt(k2, k0)
}
pub proof fn lemma_key_total(a: Key, b: Key)
    ensures key_lt(a, b) || a == b || key_lt(b, a), !(key_lt(a, b) && key_lt(b, a)), !key_lt(a, a)
{}
pub proof fn lemma_key_trans(a: Key, b: Key, c: Key)
    requires key_lt(a, b), key_lt(b, c) ensures key_lt(a, c)
{}


/// a key of a well-formed collection sits at a valid record offset
pub proof fn lemma_key_offset(m: Map<Key, FileOffset>, file: Seq<u8>, ft: FixedStructType, n: int, k: Key)
    requires keys_ok(m, file, ft, n), m.contains_key(k), ft.esz() >= 1, file.len() == n * ft.esz()
    ensures
        m[k] == k.1, k.1 as int == (k.1 as int / ft.esz()) * ft.esz(), (k.1 as int) < file.len(),
        k == key_of(file, ft, k.1 as int / ft.esz()),
{
    let j = k.1 as int / ft.esz();
    assert(j * ft.esz() < n * ft.esz()) by (nonlinear_arith) requires 0 <= j < n, ft.esz() >= 1;
}
/// after removing the least key kk, the offset x that process_entry_at returned is the least remaining record
/// (or the end of the file when nothing remains)
pub proof fn lemma_after_entry(rem: Map<Key, FileOffset>, file: Seq<u8>, ft: FixedStructType, n: int, kk: Key, x: FileOffset)
    requires
        keys_ok(rem, file, ft, n), ft.esz() >= 1, file.len() == n * ft.esz(),
        is_least(rem, kk), next_after(rem, file, ft, kk, x),
    ensures
        ((x as int) < file.len() && is_least(rem.remove(kk), key_of(file, ft, x as int / ft.esz())) && x as int == (x as int / ft.esz()) * ft.esz())
            || (x as int == file.len() && rem.remove(kk).dom() =~= Set::<Key>::empty() && x as int == (x as int / ft.esz()) * ft.esz()),
{
    let r2 = rem.remove(kk);
    if x as int == file.len() && none_greater(rem, kk) {
        assert forall|k: Key| !r2.contains_key(k) by {
            if rem.contains_key(k) && k != kk { lemma_key_total(kk, k); }
        }
        assert(r2.dom() =~= Set::<Key>::empty());
        lemma_fundamental_div_mod_converse(file.len() as int, ft.esz(), n, 0);
    } else {
        let nxt = key_of(file, ft, x as int / ft.esz());
        assert(rem.contains_key(nxt) && rem[nxt] == x && key_lt(kk, nxt) && none_between(rem, kk, nxt));
        lemma_key_offset(rem, file, ft, n, nxt);
        assert forall|k2: Key| #[trigger] r2.contains_key(k2) implies !key_lt(k2, nxt) by {
            lemma_key_total(kk, k2);
        }
    }
}
/// sending the least remaining record keeps the order invariant
pub proof fn lemma_fx_push(l: Seq<ChanDatum>, d: ChanDatum, m0: Map<Key, FileOffset>, rem: Map<Key, FileOffset>, file: Seq<u8>, ft: FixedStructType, kk: Key)
    requires
        fx_sent_ok(l, m0, rem, file, ft), l.len() >= 1, d is NewMessage, rec_fo(d) >= 0,
        kk == key_of(file, ft, rec_fo(d) / ft.esz()), is_least(rem, kk), rem[kk] as int == rec_fo(d),
    ensures fx_sent_ok(l.push(d), m0, rem.remove(kk), file, ft)
{
    let l2 = l.push(d);
    let r2 = rem.remove(kk);
    assert forall|i: int| 0 < i < l2.len() implies (#[trigger] l2[i]) is NewMessage && rec_fo(l2[i]) >= 0
            && m0.contains_key(key_of(file, ft, rec_fo(l2[i]) / ft.esz())) && m0[key_of(file, ft, rec_fo(l2[i]) / ft.esz())] as int == rec_fo(l2[i])
            && !r2.contains_key(key_of(file, ft, rec_fo(l2[i]) / ft.esz())) by {
        if i < l.len() { assert(l2[i] == l[i]); }
    }
    assert forall|i: int, j: int| 0 < i < j < l2.len() implies key_lt(key_of(file, ft, rec_fo(#[trigger] l2[i]) / ft.esz()), key_of(file, ft, rec_fo(#[trigger] l2[j]) / ft.esz())) by {
        assert(l2[i] == l[i]);
        if j < l.len() { assert(l2[j] == l[j]); }
    }
    assert forall|i: int, k: Key| 0 < i < l2.len() && #[trigger] r2.contains_key(k) implies key_lt(key_of(file, ft, rec_fo(#[trigger] l2[i]) / ft.esz()), k) by {
        if i < l.len() { assert(l2[i] == l[i]); } else { lemma_key_total(kk, k); }
    }
}
/// dropping the least remaining record without sending it (recoverable read error) keeps the order invariant
pub proof fn lemma_fx_drop(l: Seq<ChanDatum>, m0: Map<Key, FileOffset>, rem: Map<Key, FileOffset>, file: Seq<u8>, ft: FixedStructType, kk: Key)
    requires fx_sent_ok(l, m0, rem, file, ft)
    ensures fx_sent_ok(l, m0, rem.remove(kk), file, ft)
{}

//@cut fn path=src/bin/s4.rs name=exec_fixedstructprocessor
//@replace "fn exec_fixedstructprocessor(" "#[verifier::exec_allows_no_decreases_clause] fn exec_fixedstructprocessor("
//@replace "chan_send_dt: ChanSendDatum," "chan_send_dt: &mut ChanSendDatum,"
//@replace "&chan_send_dt" "chan_send_dt" count=*
//@replace "_tid: thread::ThreadId," "_tid: ThreadId,"
//@spec
    requires
        old(chan_send_dt).log().len() == 0,
        // call-site preconditions (dispatch slice in unit WRK): without them the defensive arm returns without FileInfo
        thread_init_data.2 is FixedStruct, thread_init_data.3 is None,
    ensures
        // C06: FileInfo · NewMessage* · FileSummary on every path
        closed_ok(final(chan_send_dt).log()),
        // C08: when the worker reports FileOk, the records sent are exactly the selected records (non-null, in window),
        // each once, in order of (embedded time, file offset)
        final(chan_send_dt).log().last()->FileSummary_1 is FileOk && final(chan_send_dt).log()[0]->FileInfo_0 is Some ==>
            exists|m0: Map<Key, FileOffset>, n: int|
                #[trigger] represents(m0, fx_file(thread_init_data.0), fx_type(thread_init_data.0), otv(thread_init_data.5), otv(thread_init_data.6), n)
                && fx_sent_ok(final(chan_send_dt).log().drop_last(), m0, Map::<Key, FileOffset>::empty(), fx_file(thread_init_data.0), fx_type(thread_init_data.0))
                && fx_complete(final(chan_send_dt).log().drop_last(), m0),
        // C08 (files with damaged records): whatever status is reported, unless reading the file itself failed, every selected
        // record a message can be built from was sent
        fx_reliable(thread_init_data.0) && final(chan_send_dt).log()[0]->FileInfo_0 is Some ==>
            exists|m0: Map<Key, FileOffset>, n: int|
                #[trigger] represents(m0, fx_file(thread_init_data.0), fx_type(thread_init_data.0), otv(thread_init_data.5), otv(thread_init_data.6), n)
                && fx_complete_buildable(final(chan_send_dt).log().drop_last(), m0, fx_file(thread_init_data.0), fx_type(thread_init_data.0)),
//@before "return;" 7
            proof {
                assert(m0.dom() =~= Set::<Key>::empty());
                assert(chan_send_dt.log().drop_last() =~= chan_send_dt.log().take(1));
                assert(represents(m0, fx_file(thread_init_data.0), fx_type(thread_init_data.0), otv(thread_init_data.5), otv(thread_init_data.6), n0));
            }
//@before "let mtime = fixedstructreader.mtime();"
    let ghost m0 = fixedstructreader.map_tvpair_fo@;
    let ghost file0 = fixedstructreader.blockreader.file();
    let ghost ft = fixedstructreader.fixedstruct_type;
    let ghost n0 = fixedstructreader.n();
    proof { assert(file0 == fx_file(thread_init_data.0) && ft == fx_type(thread_init_data.0)); }
//@before "let mut buffer: [u8; ENTRY_SZ_MAX]"
    proof {
        // the first record handed out is the least of the selection, at a valid record offset
        let k0 = key_of(file0, ft, fo as int / ft.esz());
        assert(m0.contains_key(k0) && m0[k0] == fo);
        lemma_key_offset(m0, file0, ft, n0, k0);
    }
//@loop 1
        invariant_except_break
            ((fo as int) < file0.len() && is_least(fixedstructreader.map_tvpair_fo@, key_of(file0, ft, fo as int / ft.esz())))
                || (fo as int == file0.len() && fixedstructreader.map_tvpair_fo@.dom() =~= Set::<Key>::empty()),
            fo as int == (fo as int / ft.esz()) * ft.esz(),
        invariant
            fixedstructreader.wf(), fixedstructreader.blockreader.file() == file0, fixedstructreader.fixedstruct_type == ft, fixedstructreader.n() == n0,
            keys_ok(m0, file0, ft, n0),
            open_ok(chan_send_dt.log()),
            fx_sent_ok(chan_send_dt.log(), m0, fixedstructreader.map_tvpair_fo@, file0, ft),
            file_err is None ==> (forall|k: Key| #[trigger] m0.contains_key(k) ==> fixedstructreader.map_tvpair_fo@.contains_key(k)
                                    || exists|i: int| 0 < i < chan_send_dt.log().len() && rec_fo(#[trigger] chan_send_dt.log()[i]) == m0[k] as int),
            file_err is Some ==> file_err.unwrap() is FileErrIoPath,
            fixedstructreader.blockreader.reliable() == fx_reliable(thread_init_data.0),
            fx_reliable(thread_init_data.0) ==> forall|k: Key| #[trigger] m0.contains_key(k) ==> fixedstructreader.map_tvpair_fo@.contains_key(k) || !buildable_at(file0, ft, m0[k] as int)
                                    || exists|i: int| 0 < i < chan_send_dt.log().len() && rec_fo(#[trigger] chan_send_dt.log()[i]) == m0[k] as int,
            buffer@.len() == ENTRY_SZ_MAX,
        ensures
            fx_reliable(thread_init_data.0) ==> fx_complete_buildable(chan_send_dt.log(), m0, file0, ft),
            open_ok(chan_send_dt.log()),
            file_err is None ==> fx_sent_ok(chan_send_dt.log(), m0, Map::<Key, FileOffset>::empty(), file0, ft),
            file_err is None ==> fx_complete(chan_send_dt.log(), m0),
            file_err is Some ==> file_err.unwrap() is FileErrIoPath,
//@before "let fo_next = match fixedstructreader.process_entry_at"
        let ghost log_top = chan_send_dt.log();
        let ghost rem_top = fixedstructreader.map_tvpair_fo@;
        let ghost kk = key_of(file0, ft, fo as int / ft.esz());
//@after "let is_last = fixedstructreader.is_last(&fixedstruct);"
                let ghost rem2 = fixedstructreader.map_tvpair_fo@;
                proof {
                    assert(rem2 == rem_top.remove(kk));
                    lemma_after_entry(rem_top, file0, ft, n0, kk, fo_);
                }
//@before "re:\\bfo_\\s*\\n\\s*\\}" 1
                proof {
                    let l2 = chan_send_dt.log();
                    assert(l2 == log_top.push(l2.last()));
                    assert(rec_fo(l2.last()) == fo as int);
                    lemma_fx_push(log_top, l2.last(), m0, rem_top, file0, ft, kk);
                    if file_err is None {
                        assert forall|k: Key| #[trigger] m0.contains_key(k) implies rem2.contains_key(k) || exists|i: int| 0 < i < l2.len() && rec_fo(#[trigger] l2[i]) == m0[k] as int by {
                            if k == kk { assert(rec_fo(l2[l2.len() - 1]) == m0[kk] as int); }
                            else if rem_top.contains_key(k) { }
                            else {
                                let i = choose|i: int| 0 < i < log_top.len() && rec_fo(#[trigger] log_top[i]) == m0[k] as int;
                                assert(l2[i] == log_top[i]);
                            }
                        }
                    }
                    if fx_reliable(thread_init_data.0) {
                        assert forall|k: Key| #[trigger] m0.contains_key(k) implies rem2.contains_key(k) || !buildable_at(file0, ft, m0[k] as int)
                                || exists|i: int| 0 < i < l2.len() && rec_fo(#[trigger] l2[i]) == m0[k] as int by {
                            if k == kk { assert(rec_fo(l2[l2.len() - 1]) == m0[kk] as int); }
                            else if rem_top.contains_key(k) { }
                            else if buildable_at(file0, ft, m0[k] as int) {
                                let i = choose|i: int| 0 < i < log_top.len() && rec_fo(#[trigger] log_top[i]) == m0[k] as int;
                                assert(l2[i] == log_top[i]);
                            }
                        }
                    }
                }
//@before "break;" 1
                proof {
                    // Done is returned only at or past the end of the file: nothing remains
                    assert(fo as int >= file0.len());
                    assert(fixedstructreader.map_tvpair_fo@ =~= Map::<Key, FileOffset>::empty());
                }
//@before "match fo_opt"
                proof {
                    let rem2 = fixedstructreader.map_tvpair_fo@;
                    assert(rem2 == rem_top.remove(kk));
                    if fo_opt is Some { lemma_after_entry(rem_top, file0, ft, n0, kk, fo_opt.unwrap()); }
                    lemma_fx_drop(log_top, m0, rem_top, file0, ft, kk);
                    if fx_reliable(thread_init_data.0) {
                        // a reliable file never yields the unrecoverable error; the record skipped could not be built
                        assert(fo_opt is Some);
                        assert(m0[kk] == fo);
                        assert forall|k: Key| #[trigger] m0.contains_key(k) implies rem2.contains_key(k) || !buildable_at(file0, ft, m0[k] as int)
                                || exists|i: int| 0 < i < chan_send_dt.log().len() && rec_fo(#[trigger] chan_send_dt.log()[i]) == m0[k] as int by {
                            if k != kk && !rem_top.contains_key(k) { }
                        }
                    }
                }
//@before "let summary = fixedstructreader.summary_complete();" 2
    let ghost log_prev = chan_send_dt.log();
//@at_end
    proof {
        assert(chan_send_dt.log().drop_last() =~= log_prev);
        if file_err is None {
            assert(represents(m0, fx_file(thread_init_data.0), fx_type(thread_init_data.0), otv(thread_init_data.5), otv(thread_init_data.6), n0));
        }
    }
//@mutate "fo = fo_next;" "fo = fo + 0;"
//@mutate "None => break," "None => fo,"
//@end

// ---- vacuity guards
pub proof fn reader_wf__canary(r: FixedStructReader, fo: u64)
    requires r.wf(), fo as int == (fo as int / r.fixedstruct_type.esz()) * r.fixedstruct_type.esz(), (fo as int) < r.blockreader.file().len(),
             r.map_tvpair_fo@.contains_key(key_of(r.blockreader.file(), r.fixedstruct_type, fo as int / r.fixedstruct_type.esz()))
    ensures false
{}
pub proof fn represents__canary(m: Map<Key, FileOffset>, file: Seq<u8>, ft: FixedStructType, j: int)
    requires represents(m, file, ft, None, None, j), j >= 2, m.dom().len() >= 1, ft.layout_ok()
    ensures false
{}

} // verus!
fn main() {}
