// UNIT STO — the sysline reader's stores: after clear_syslines nothing that was stored can be handed out again (C02: the block-zero
// analysis re-parses the file after a pattern change or a year change; a message served from a stale store would be printed in
// addition to, or instead of, the re-parsed one).  The three stores are modelled by their key sets.
#![allow(unused_imports, non_camel_case_types, dead_code, unused_variables, unused_parens, unused_mut, unused_assignments, non_snake_case)]
use vstd::prelude::*;
verus! {

global size_of usize == 8;
pub type FileOffset = u64;
pub type Count = u64;
#[verifier::external_body]
pub struct DateTimeLOpt { _p: u8 }

// ---- assumed: the lru crate's cache and the rangemap crate's map, by the set of keys they hold
#[verifier::external_body]
pub struct NonZeroUsize { _p: u8 }
#[verifier::external_body]
pub fn verif_nonzero(n: usize) -> NonZeroUsize { unimplemented!() }
#[verifier::external_body]
pub struct LruStub { _p: u8 }
impl LruStub {
    pub uninterp spec fn keys(&self) -> Set<FileOffset>;
    #[verifier::external_body]
    pub fn clear(&mut self) ensures final(self).keys() =~= Set::<FileOffset>::empty() { unimplemented!() }
    /// assumed: resizing may evict entries, never adds any
    #[verifier::external_body]
    pub fn resize(&mut self, cap: NonZeroUsize) ensures final(self).keys().subset_of(old(self).keys()) { unimplemented!() }
}
#[verifier::external_body]
pub struct LineParsedCache { _p: u8 }
impl LineParsedCache {
    pub uninterp spec fn n(&self) -> nat;
    #[verifier::external_body]
    pub fn clear(&mut self) ensures final(self).n() == 0 { unimplemented!() }
    #[verifier::external_body]
    pub fn resize(&mut self, cap: NonZeroUsize) ensures final(self).n() <= old(self).n() { unimplemented!() }
}
#[verifier::external_body]
pub struct SyslinesRangeMap { _p: u8 }
impl SyslinesRangeMap {
    pub uninterp spec fn covered(&self) -> Set<FileOffset>;
    #[verifier::external_body]
    pub fn new() -> (r: SyslinesRangeMap) ensures r.covered() =~= Set::<FileOffset>::empty() { unimplemented!() }
}
#[verifier::external_body]
pub struct Syslines { _p: u8 }
impl Syslines {
    pub uninterp spec fn keys(&self) -> Set<FileOffset>;
    #[verifier::external_body]
    pub fn clear(&mut self) ensures final(self).keys() =~= Set::<FileOffset>::empty() { unimplemented!() }
}

pub struct SyslineReader {
    pub syslines: Syslines,
    pub syslines_by_range: SyslinesRangeMap,
    pub dt_first: Option<DateTimeLOpt>,
    pub dt_first_prev: Option<DateTimeLOpt>,
    pub dt_last: Option<DateTimeLOpt>,
    pub dt_last_prev: Option<DateTimeLOpt>,
    pub find_sysline_lru_cache_enabled: bool,
    pub find_sysline_lru_cache: LruStub,
    pub parse_datetime_in_line_lru_cache_enabled: bool,
    pub parse_datetime_in_line_lru_cache: LineParsedCache,
}
impl SyslineReader {
    pub const FIND_SYSLINE_LRU_CACHE_SZ: usize = 4;
    pub const PARSE_DATETIME_IN_LINE_LRU_CACHE_SZ: usize = 8;
    /// something is stored for offset fo in one of the three stores check_store consults
    pub open spec fn stored(&self, fo: FileOffset) -> bool {
        self.find_sysline_lru_cache.keys().contains(fo) || self.syslines_by_range.covered().contains(fo) || self.syslines.keys().contains(fo)
    }

//@cut fn path=src/readers/syslinereader.rs impl=SyslineReader name=LRU_cache_disable ret=r
//@spec
    requires old(self).find_sysline_lru_cache_enabled == old(self).parse_datetime_in_line_lru_cache_enabled
    ensures
        r == old(self).find_sysline_lru_cache_enabled,
        !final(self).find_sysline_lru_cache_enabled, !final(self).parse_datetime_in_line_lru_cache_enabled,
        final(self).find_sysline_lru_cache.keys() =~= Set::<FileOffset>::empty(), final(self).parse_datetime_in_line_lru_cache.n() == 0,
        final(self).syslines == old(self).syslines, final(self).syslines_by_range == old(self).syslines_by_range,
//@end

//@cut fn path=src/readers/syslinereader.rs impl=SyslineReader name=LRU_cache_enable ret=r
//@replace "std::num::NonZeroUsize::new(" "verif_nonzero(" count=*
//@replace ").unwrap()" ")" count=*
//@spec
    requires old(self).find_sysline_lru_cache_enabled == old(self).parse_datetime_in_line_lru_cache_enabled
    ensures
        r == old(self).find_sysline_lru_cache_enabled,
        final(self).find_sysline_lru_cache_enabled, final(self).parse_datetime_in_line_lru_cache_enabled,
        // enabling never makes the cache hold more than it did
        final(self).find_sysline_lru_cache.keys().subset_of(old(self).find_sysline_lru_cache.keys()),
        final(self).parse_datetime_in_line_lru_cache.n() <= old(self).parse_datetime_in_line_lru_cache.n(),
        final(self).syslines == old(self).syslines, final(self).syslines_by_range == old(self).syslines_by_range,
//@end

//@cut fn path=src/readers/syslinereader.rs impl=SyslineReader name=clear_syslines
//@replace "pub(crate) fn" "pub fn"
//@spec
    requires old(self).find_sysline_lru_cache_enabled == old(self).parse_datetime_in_line_lru_cache_enabled
    ensures
        // C02: nothing stored before the call can be served after it -- all three stores and both caches are empty
        forall|fo: FileOffset| !final(self).stored(fo),
        final(self).parse_datetime_in_line_lru_cache.n() == 0,
        final(self).find_sysline_lru_cache_enabled == old(self).find_sysline_lru_cache_enabled,
        final(self).parse_datetime_in_line_lru_cache_enabled == old(self).parse_datetime_in_line_lru_cache_enabled,
//@mutate "self.syslines.clear();" ""
//@end
}

pub proof fn sto__canary(r: SyslineReader)
    requires forall|fo: FileOffset| !r.stored(fo), r.syslines.keys().contains(7)
    ensures false
{}

} // verus!
fn main() {}
