// UNIT RELO — relative datetime filters (C03: "-a/-b ... custom relative offsets"): string_wdhms_to_duration and
// string_to_rel_offset_datetime (src/bin/s4.rs).  "+1w2d3h4m5s" / "-..." is an offset from now, "@+..." / "@-..." from the other
// bound; the duration is sign x (weeks*604800 + days*86400 + hours*3600 + minutes*60 + seconds), each number read from the
// capture group of that very unit.
// Assumed by contract (stand-ins): the regex and its named groups (each group's text = a decimal count followed by its unit
// letter), `str::replace(unit, "")` + `i64::from_str_radix` (the count), chrono::Duration::try_* (n units = n*K seconds, None on
// overflow) and the sum of five durations, chrono's checked_add_signed, with_ymd_and_hms / the field accessors, naive_utc / naive_local, from_utc_datetime / from_local_datetime, process::exit diverges.
#![allow(unused_imports, non_camel_case_types, dead_code, unused_variables, unused_parens, unused_mut, unused_assignments, non_snake_case)]
use vstd::prelude::*;
use core::cmp::Ordering;
use vstd::std_specs::cmp::*;
verus! {

//@include ../common/datetime.rs
#[verifier::external_body]
pub struct FixedOffset { _p: u8 }
//@cut type kind=enum path=src/bin/s4.rs name=DUR_OFFSET_TYPE derives=
//@end
//@cut type kind=enum path=src/bin/s4.rs name=DUR_OFFSET_ADDSUB derives=
//@end
/// which named group
pub enum DG { Type, AddSub, Seconds, Minutes, Hours, Days, Weeks, Other }
pub uninterp spec fn dgid(n: &str) -> DG;
//@cutall kind=const path=src/bin/s4.rs re=^CGN_DUR_OFFSET_(TYPE|ADDSUB|SECONDS|MINUTES|HOURS|DAYS|WEEKS)$ staticrefs=1
#[verifier::external_body]
proof fn axiom_dgids()
    ensures dgid(CGN_DUR_OFFSET_TYPE) == DG::Type, dgid(CGN_DUR_OFFSET_ADDSUB) == DG::AddSub, dgid(CGN_DUR_OFFSET_SECONDS) == DG::Seconds,
        dgid(CGN_DUR_OFFSET_MINUTES) == DG::Minutes, dgid(CGN_DUR_OFFSET_HOURS) == DG::Hours, dgid(CGN_DUR_OFFSET_DAYS) == DG::Days, dgid(CGN_DUR_OFFSET_WEEKS) == DG::Weeks
{}
/// text of a captured group, by what it denotes: a decimal count (for the five unit groups), or its first character
#[verifier::external_body]
pub struct StrD { _p: u8 }
impl StrD {
    pub uninterp spec fn num(&self) -> int;
    pub uninterp spec fn first(&self) -> Option<char>;
    /// stand-in (R9) for `str::replace(unit_letter, "")`: the count without its unit letter
    #[verifier::external_body]
    pub fn replace(&self, unit: char, with: &str) -> (r: StringD) ensures r.num() == self.num() { unimplemented!() }
}
#[verifier::external_body]
pub struct StringD { _p: u8 }
impl StringD {
    pub uninterp spec fn num(&self) -> int;
    pub uninterp spec fn empty(&self) -> bool;
    /// the value is written relative to the other bound (its type group starts with '@')
    pub uninterp spec fn at_rel(&self) -> bool;
    #[verifier::external_body]
    pub fn as_str(&self) -> (r: &StrD) ensures r.num() == self.num() { unimplemented!() }
    #[verifier::external_body]
    pub fn is_empty(&self) -> (r: bool) ensures r == self.empty() { unimplemented!() }
}
pub struct MatchD<'h> { pub s: &'h StrD }
impl<'h> MatchD<'h> { pub fn as_str(&self) -> (r: &'h StrD) ensures r == self.s { self.s } }
#[verifier::external_body]
pub struct CapturesD<'h> { _p: &'h u8 }
impl<'h> CapturesD<'h> {
    pub uninterp spec fn grp(&self, g: DG) -> Option<&'h StrD>;
    #[verifier::external_body]
    pub fn name(&self, n: &str) -> (r: Option<MatchD<'h>>) ensures r is Some <==> self.grp(dgid(n)) is Some, r is Some ==> r.unwrap().s == self.grp(dgid(n)).unwrap() { unimplemented!() }
}
/// stand-in (R9) for `REGEX_DUR_OFFSET.with(|re| re.captures(val.as_str()))`
pub uninterp spec fn caps_of(val: &StringD) -> Option<CapturesD<'static>>;
#[verifier::external_body]
pub fn verif_dur_captures<'h>(val: &'h StringD) -> (r: Option<CapturesD<'h>>)
    ensures r is Some ==> (val.at_rel() <==> (r.unwrap().grp(DG::Type) is Some && r.unwrap().grp(DG::Type).unwrap().first() == Some('@')))
{ unimplemented!() }
/// stand-in (R9) for `i64::from_str_radix(s, 10)`: the count, non-negative; Err on overflow
#[verifier::external_body]
pub struct ParseIntError { _p: u8 }
#[verifier::external_body]
pub fn verif_from_str_radix(s: &StrD, radix: u32) -> (r: core::result::Result<i64, ParseIntError>) ensures r is Ok ==> r->Ok_0 as int == s.num() && r->Ok_0 >= 0 { unimplemented!() }
#[verifier::external_body]
pub fn verif_exit() -> ! { unimplemented!() }
// assumed (the two helpers look at the first character: '@' -> Other; '+' -> Add, '-' -> Sub)
#[verifier::external_body]
pub fn offset_match_to_offset_duration_type(offset_str: &StrD) -> (r: DUR_OFFSET_TYPE) ensures r is Other <==> offset_str.first() == Some('@') { unimplemented!() }
#[verifier::external_body]
pub fn offset_match_to_offset_addsub(offset_str: &StrD) -> (r: DUR_OFFSET_ADDSUB) ensures r is Sub <==> offset_str.first() == Some('-') { unimplemented!() }
// ---- assumed: chrono::Duration by its length in seconds
#[verifier::external_body]
pub struct Duration { _p: u8 }
impl Copy for Duration {}
impl Clone for Duration { #[verifier::external_body] fn clone(&self) -> (r: Self) ensures r == *self { unimplemented!() } }
impl Duration {
    pub uninterp spec fn secs(&self) -> int;
    #[verifier::external_body]
    pub fn try_seconds(n: i64) -> (r: Option<Duration>) ensures r is Some ==> r.unwrap().secs() == n { unimplemented!() }
    #[verifier::external_body]
    pub fn try_minutes(n: i64) -> (r: Option<Duration>) ensures r is Some ==> r.unwrap().secs() == n * 60 { unimplemented!() }
    #[verifier::external_body]
    pub fn try_hours(n: i64) -> (r: Option<Duration>) ensures r is Some ==> r.unwrap().secs() == n * 3600 { unimplemented!() }
    #[verifier::external_body]
    pub fn try_days(n: i64) -> (r: Option<Duration>) ensures r is Some ==> r.unwrap().secs() == n * 86400 { unimplemented!() }
    #[verifier::external_body]
    pub fn try_weeks(n: i64) -> (r: Option<Duration>) ensures r is Some ==> r.unwrap().secs() == n * 604800 { unimplemented!() }
}
/// stand-in (R9) for `s + m + h + d + w`
#[verifier::external_body]
pub fn verif_dur_sum5(s: Duration, m: Duration, h: Duration, d: Duration, w: Duration) -> (r: Duration)
    ensures r.secs() == s.secs() + m.secs() + h.secs() + d.secs() + w.secs()
{ unimplemented!() }
/// the count captured for a unit, 0 when the unit is absent
pub open spec fn cnt(c: CapturesD, g: DG) -> int { if c.grp(g) is Some { c.grp(g).unwrap().num() } else { 0 } }
pub open spec fn sign_of(c: CapturesD) -> int { if c.grp(DG::AddSub) is Some && c.grp(DG::AddSub).unwrap().first() == Some('-') { -1 } else { 1 } }

//@cut fn path=src/bin/s4.rs name=string_wdhms_to_duration ret=r
//@replace "val: &String" "val: &StringD"
//@replace "let captures: regex::Captures = match REGEX_DUR_OFFSET.with(|re| re.captures(val.as_str()) )" "let captures: CapturesD = match verif_dur_captures(val)" ws=1
//@replace "i64::from_str_radix(" "verif_from_str_radix(" count=5
//@replace "std::process::exit(EXIT_ERR);" "verif_exit();" count=5
//@replace "s + m + h + d + w" "verif_dur_sum5(s, m, h, d, w)"
//@spec
    ensures
        // C03: the offset is sign x (weeks, days, hours, minutes, seconds), each count from the group of that very unit; '@' selects
        // "relative to the other bound"
        r is Some ==> exists|c: CapturesD| #[trigger] sign_of(c) != 0 && r.unwrap().0.secs() == sign_of(c) * (cnt(c, DG::Weeks) * 604800 + cnt(c, DG::Days) * 86400 + cnt(c, DG::Hours) * 3600 + cnt(c, DG::Minutes) * 60 + cnt(c, DG::Seconds))
            && (r.unwrap().1 is Other <==> (c.grp(DG::Type) is Some && c.grp(DG::Type).unwrap().first() == Some('@'))),
        r is Some ==> (r.unwrap().1 is Other <==> val.at_rel()),
//@at_entry
    proof { axiom_dgids(); }
//@after "let addsub: i64 = duration_addsub as i64;"
    proof { assert(addsub == 1 || addsub == -1); assert(addsub as int == sign_of(captures)); }
//@before "re:= val \\* addsub;" *
                    proof { assert(val * addsub == val || val * addsub == -val) by (nonlinear_arith) requires addsub == 1 || addsub == -1; }
//@before_tail
    proof {
        let c = captures;
        assert(seconds as int == sign_of(c) * cnt(c, DG::Seconds)) by (nonlinear_arith) requires seconds as int == cnt(c, DG::Seconds) * (addsub as int), addsub as int == sign_of(c);
        assert(minutes as int == sign_of(c) * cnt(c, DG::Minutes)) by (nonlinear_arith) requires minutes as int == cnt(c, DG::Minutes) * (addsub as int), addsub as int == sign_of(c);
        assert(hours as int == sign_of(c) * cnt(c, DG::Hours)) by (nonlinear_arith) requires hours as int == cnt(c, DG::Hours) * (addsub as int), addsub as int == sign_of(c);
        assert(days as int == sign_of(c) * cnt(c, DG::Days)) by (nonlinear_arith) requires days as int == cnt(c, DG::Days) * (addsub as int), addsub as int == sign_of(c);
        assert(weeks as int == sign_of(c) * cnt(c, DG::Weeks)) by (nonlinear_arith) requires weeks as int == cnt(c, DG::Weeks) * (addsub as int), addsub as int == sign_of(c);
        let sg = sign_of(c);
        assert(sg * (cnt(c, DG::Weeks) * 604800 + cnt(c, DG::Days) * 86400 + cnt(c, DG::Hours) * 3600 + cnt(c, DG::Minutes) * 60 + cnt(c, DG::Seconds))
            == (sg * cnt(c, DG::Weeks)) * 604800 + (sg * cnt(c, DG::Days)) * 86400 + (sg * cnt(c, DG::Hours)) * 3600 + (sg * cnt(c, DG::Minutes)) * 60 + sg * cnt(c, DG::Seconds)) by (nonlinear_arith);
        assert(sign_of(c) != 0);
    }
//@mutate "Duration::try_hours(hours)," "Duration::try_hours(minutes),"
//@end


// ---- assumed: chrono's arithmetic on datetimes, by instants
/// the instant `secs` seconds after instant `i`
pub uninterp spec fn add_secs(i: int, secs: int) -> int;
impl DateTimeL {
    #[verifier::external_body]
    pub fn checked_add_signed(&self, d: Duration) -> (r: Option<DateTimeL>) ensures r is Some ==> instant(r.unwrap()) == add_secs(instant(*self), d.secs()) { unimplemented!() }
}
/// the instant of a UTC calendar date and time of day (chrono, opaque)
pub uninterp spec fn ymdhms_instant(y: i32, mo: u32, d: u32, h: u32, mi: u32, s: u32) -> int;
pub uninterp spec fn f_year(ts: Timestamp) -> i32;
pub uninterp spec fn f_month(ts: Timestamp) -> u32;
pub uninterp spec fn f_day(ts: Timestamp) -> u32;
pub uninterp spec fn f_hour(ts: Timestamp) -> u32;
pub uninterp spec fn f_minute(ts: Timestamp) -> u32;
pub uninterp spec fn f_second(ts: Timestamp) -> u32;
/// "now" cut to whole seconds: the instant of its own calendar fields
pub open spec fn now_secs(now: Timestamp) -> int { ymdhms_instant(f_year(now), f_month(now), f_day(now), f_hour(now), f_minute(now), f_second(now)) }
/// a zone-less wall-clock value (chrono NaiveDateTime), by the instant it denotes when read as UTC
#[verifier::external_body]
pub struct NaiveDT { _p: u8 }
impl NaiveDT { pub uninterp spec fn wall(&self) -> int; }
#[verifier::external_body]
pub struct LocalResultTs { _p: u8 }
impl LocalResultTs {
    pub uninterp spec fn val(&self) -> Timestamp;
    #[verifier::external_body]
    pub fn unwrap(self) -> (r: Timestamp) ensures r == self.val() { unimplemented!() }
}
#[verifier::external_body]
pub struct LocalResultDt { _p: u8 }
impl LocalResultDt {
    pub uninterp spec fn val(&self) -> DateTimeL;
    #[verifier::external_body]
    pub fn unwrap(self) -> (r: DateTimeL) ensures r == self.val() { unimplemented!() }
}
pub struct UtcStub;
pub const Utc: UtcStub = UtcStub;
impl UtcStub {
    #[verifier::external_body]
    pub fn with_ymd_and_hms(&self, y: i32, mo: u32, d: u32, h: u32, mi: u32, s: u32) -> (r: LocalResultTs) ensures ts_instant(r.val()) == ymdhms_instant(y, mo, d, h, mi, s) { unimplemented!() }
}
impl Timestamp {
    #[verifier::external_body]
    pub fn year(&self) -> (r: i32) ensures r == f_year(*self) { unimplemented!() }
    #[verifier::external_body]
    pub fn month(&self) -> (r: u32) ensures r == f_month(*self) { unimplemented!() }
    #[verifier::external_body]
    pub fn day(&self) -> (r: u32) ensures r == f_day(*self) { unimplemented!() }
    #[verifier::external_body]
    pub fn hour(&self) -> (r: u32) ensures r == f_hour(*self) { unimplemented!() }
    #[verifier::external_body]
    pub fn minute(&self) -> (r: u32) ensures r == f_minute(*self) { unimplemented!() }
    #[verifier::external_body]
    pub fn second(&self) -> (r: u32) ensures r == f_second(*self) { unimplemented!() }
    // a UTC datetime's wall clock, read as UTC, is its own instant (naive_local == naive_utc for the UTC zone)
    #[verifier::external_body]
    pub fn naive_utc(&self) -> (r: NaiveDT) ensures r.wall() == ts_instant(*self) { unimplemented!() }
    #[verifier::external_body]
    pub fn naive_local(&self) -> (r: NaiveDT) ensures r.wall() == ts_instant(*self) { unimplemented!() }
}
/// the instant of a wall clock read in a zone: the wall clock read as UTC, moved back by the zone's offset
pub uninterp spec fn local_instant(tz: FixedOffset, wall: int) -> int;
impl FixedOffset {
    // assumed (chrono TimeZone): from_utc_datetime keeps the instant; from_local_datetime reads the wall clock in this zone
    #[verifier::external_body]
    pub fn from_utc_datetime(&self, n: &NaiveDT) -> (r: DateTimeL) ensures instant(r) == n.wall() { unimplemented!() }
    #[verifier::external_body]
    pub fn from_local_datetime(&self, n: &NaiveDT) -> (r: LocalResultDt) ensures instant(r.val()) == local_instant(*self, n.wall()) { unimplemented!() }
    // assumed (chrono TimeZone): calendar fields given to a zone are read as that zone's wall clock
    #[verifier::external_body]
    pub fn with_ymd_and_hms(&self, y: i32, mo: u32, d: u32, h: u32, mi: u32, s: u32) -> (r: LocalResultDt) ensures instant(r.val()) == local_instant(*self, ymdhms_instant(y, mo, d, h, mi, s)) { unimplemented!() }
}

//@cut fn path=src/bin/s4.rs name=string_to_rel_offset_datetime ret=r
//@replace "val: &String" "val: &StringD"
//@replace "now_utc: &DateTime<Utc>" "now_utc: &Timestamp"
//@replace "std::process::exit(EXIT_ERR);" "verif_exit();"
//@spec
    ensures
        // C03: "@+..." is an offset from the OTHER bound, "+..." / "-..." from now (whole seconds); the size is the parsed duration
        r is Some ==> exists|c: CapturesD| #[trigger] sign_of(c) != 0 && ({
            let secs = sign_of(c) * (cnt(c, DG::Weeks) * 604800 + cnt(c, DG::Days) * 86400 + cnt(c, DG::Hours) * 3600 + cnt(c, DG::Minutes) * 60 + cnt(c, DG::Seconds));
            let other = c.grp(DG::Type) is Some && c.grp(DG::Type).unwrap().first() == Some('@');
            (other ==> dt_other_opt is Some && instant(r.unwrap()) == add_secs(instant(dt_other_opt.unwrap()), secs))
            && (!other ==> instant(r.unwrap()) == add_secs(now_secs(*now_utc), secs))
        }),
//@mutate "let other_off = dt_other.checked_add_signed(duration);" "let other_off = Some(*dt_other);"
//@end

// =====================================================================================================
// CLI-WINDOW — how the two bounds are taken from the command line (cli_process_args, src/bin/s4.rs): the lower bound from the -a
// text, the upper from the -b text, both read in the --tz-offset zone; the one written relative to the other ("@+1d") is read
// second and is given the other as its reference; and the run does not start with a lower bound after the upper one (the
// precondition unit SRCH states for find_sysline_between_datetime_filters).  The statements from the first `match` up to the next
// declaration (the colour choice), cut from the function, so that the order check is inside the slice wherever it is placed.
// ---- assumed: process_dt_exit (src/bin/s4.rs; string handling outside Verus' reach) as an opaque function of the text, the zone and
// the reference bound
pub uninterp spec fn parsed(dts: Option<StringD>, tz: FixedOffset, other: DateTimeLOpt) -> DateTimeLOpt;
#[verifier::external_body]
pub fn process_dt_exit(dts_opt: &Option<StringD>, tz_offset: &FixedOffset, dt_other: &DateTimeLOpt, now_utc: &Timestamp) -> (r: DateTimeLOpt)
    ensures r == parsed(*dts_opt, *tz_offset, *dt_other)
{ unimplemented!() }
//@cut type kind=enum path=src/bin/s4.rs name=CLI_Color_Choice derives=Clone,Copy
//@end
pub enum ColorChoice { Always, AlwaysAnsi, Auto, Never }   // termcolor's, for the statement that ends the slice
pub struct CLI_ArgsW { pub dt_after: Option<StringD>, pub dt_before: Option<StringD>, pub color_choice: CLI_Color_Choice }
pub open spec fn window_normal(args: &CLI_ArgsW, tz: FixedOffset, r: (DateTimeLOpt, DateTimeLOpt)) -> bool {
    r.0 == parsed(args.dt_after, tz, None) && r.1 == parsed(args.dt_before, tz, r.0)
}
pub open spec fn window_a_relative(args: &CLI_ArgsW, tz: FixedOffset, r: (DateTimeLOpt, DateTimeLOpt)) -> bool {
    r.1 == parsed(args.dt_before, tz, None) && r.0 == parsed(args.dt_after, tz, r.1)
}
pub fn cli_window(args: &CLI_ArgsW, args_dt_after_s: &StringD, args_dt_before_s: &StringD, tz_offset: FixedOffset, utc_now: Timestamp) -> (r: (DateTimeLOpt, DateTimeLOpt))
    ensures
        window_normal(args, tz_offset, r) || (args_dt_after_s.at_rel() && window_a_relative(args, tz_offset, r)),
        // the run goes on only with ordered bounds
        r.0 is Some && r.1 is Some ==> instant(r.0.unwrap()) <= instant(r.1.unwrap()),
{
    let filter_dt_after: DateTimeLOpt;
    let filter_dt_before: DateTimeLOpt;
//@cut slice path=src/bin/s4.rs fn=cli_process_args anchor="match (string_wdhms_to_duration(args_dt_after_s), string_wdhms_to_duration(args_dt_before_s))" take=range end_anchor="let color_choice: ColorChoice = match args.color_choice {" label=CLI-WINDOW
//@replace "std::process::exit(EXIT_ERR);" "verif_exit();" count=*
//@before "verif_exit();" 2
                proof { assert(instant(dta) > instant(dtb)); }   // C03: the window is closed, A == B is a valid window; only A > B is refused
//@end
    (filter_dt_after, filter_dt_before)
}

} // verus!
fn main() {}
