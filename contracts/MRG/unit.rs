// UNIT MRG — the coordinator (processing_loop): slices cut from it + the merge lemma over their contracts
// (C01, C06 safety half; PL6 also C02, C19).  DESIGN.md section 4.SEL+MRG
#![feature(allocator_api)]
#![allow(unused_imports, non_camel_case_types, dead_code, unused_variables, unused_parens, unused_mut, unused_assignments, non_snake_case, unused_labels)]
use vstd::prelude::*;
use vstd::std_specs::cmp::*;
use vstd::std_specs::btree::*;
use vstd::std_specs::hash::*;
use vstd::std_specs::iter::IteratorSpec;
use core::cmp::Ordering;
use std::sync::Arc;
use std::collections::{BTreeMap, HashMap, HashSet};
verus! {

global size_of usize == 8;
pub type Count = u64;
pub type PathId = usize;
pub type SetPathId = HashSet<PathId>;

//@include ../common/datetime.rs
//@include ../common/messages.rs

// ---- real: LogMessage (src/data/common.rs) and the coordinator's own types (src/bin/s4.rs)
//@cut type kind=enum path=src/data/common.rs name=LogMessage derives=
//@end
//@cut type kind=type path=src/bin/s4.rs name=IsLastLogMessage
//@end
//@cut type kind=type path=src/bin/s4.rs name=MapPathIdDatum
//@end
pub type MapIndexToPathId = HashMap<usize, PathId>;

impl LogMessage {
    pub open spec fn dt_spec(&self) -> DateTimeL {
        match self {
            LogMessage::Sysline(m) => m.dt_spec(),
            LogMessage::FixedStruct(m) => m.dt_spec(),
            LogMessage::Evtx(m) => m.dt_spec(),
            LogMessage::Journal(m) => m.dt_spec(),
        }
    }
}

// ---- assumed: a worker's receiving channel is opaque; the global RwLock around the channel map is modelled
// by passing the guarded map itself (stand-ins below are exact-match, counted)
#[verifier::external_body]
pub struct ChanRecvDatum { _p: u8 }
pub type MapPathIdChanRecvDatum = BTreeMap<PathId, ChanRecvDatum>;

// =====================================================================================================
// PL2 — the wait condition.  False only if the two lengths are equal and no FileInfo is outstanding.
pub fn pl2_wait_condition(
    MAP_PATHID_CHANRECVDATUM_len: usize,
    map_pathid_datum: &MapPathIdDatum,
    map_pathid_received_fileinfo: &HashMap<PathId, bool>,
) -> (r: bool)
    ensures
        r == !(MAP_PATHID_CHANRECVDATUM_len == map_pathid_datum@.len() && map_pathid_received_fileinfo@.len() == 0),
{
    proof { broadcast use group_btree_axioms; broadcast use vstd::std_specs::hash::group_hash_axioms; }
    let r =
//@cut slice path=src/bin/s4.rs fn=processing_loop anchor="if MAP_PATHID_CHANRECVDATUM.read().unwrap().len()" take=cond label=PL2
//@replace "MAP_PATHID_CHANRECVDATUM.read().unwrap().len()" "MAP_PATHID_CHANRECVDATUM_len"
//@end
    ;
    r
}

// ---- colours (C06: the bytes on stdout, colour escapes included, do not depend on scheduling): a source's colour is chosen in the
// set-up loop, in PathId order, before any worker is started; nothing that happens on the arrival of a datum may choose or change a
// colour, because arrival order is scheduling.  Every arrival arm gets the colour map and must leave it as it was.
// stand-ins: termcolor::Color by two values, color_rand() (a global round-robin) opaque
#[derive(Clone, Copy, PartialEq, Eq)]
pub enum Color { White, Other }
pub const COLOR_DEFAULT: Color = Color::White;
#[verifier::external_body]
pub fn color_rand() -> Color { unimplemented!() }
pub type MapPathIdToColor = HashMap<PathId, Color>;

// =====================================================================================================
// PL3 — a NewMessage is stored as the pending message of its source; nothing else changes
pub fn pl3_new_message(
    pathid: PathId,
    log_message: LogMessage,
    is_last_message: IsLastLogMessage,
    map_pathid_datum: &mut MapPathIdDatum,
    set_pathid: &mut SetPathId,
    disconnect: &mut Vec<PathId>,
    map_pathid_color: &mut MapPathIdToColor,
)
    ensures
        final(map_pathid_color)@ == old(map_pathid_color)@,   // C06: arrival never chooses or changes a colour
        final(map_pathid_datum)@ == old(map_pathid_datum)@.insert(pathid, (log_message, is_last_message)),
        final(set_pathid)@ == old(set_pathid)@.insert(pathid),
        final(disconnect)@ == old(disconnect)@,
{
    proof { broadcast use group_btree_axioms; broadcast use vstd::std_specs::hash::group_hash_axioms; }
//@cut slice path=src/bin/s4.rs fn=processing_loop anchor="ChanDatum::NewMessage(log_message, is_last_message) =>" take=arm label=PL3
//@end
}

// PL3c — a FileInfo marks its source as "FileInfo received" (true), whatever the result it carries; pending messages untouched.
// (The wait condition PL2 keeps waiting while the tracking map is non-empty; the map is cleared once every entry is true, PL3e.)
#[verifier::external_body]
pub struct FileProcessingResultBlockZero { _p: u8 }
impl FileProcessingResultBlockZero {
    #[verifier::external_body]
    pub fn is_ok(&self) -> bool { unimplemented!() }
    #[verifier::external_body]
    pub fn is_stub(&self) -> bool { unimplemented!() }
}
pub fn pl3c_file_info(
    pathid: PathId,
    dt_opt: DateTimeLOpt,
    file_processing_result: FileProcessingResultBlockZero,
    map_pathid_modified_time: &mut HashMap<PathId, DateTimeLOpt>,
    map_pathid_file_processing_result: &mut HashMap<PathId, FileProcessingResultBlockZero>,
    map_pathid_received_fileinfo: &mut HashMap<PathId, bool>,
    map_pathid_datum: &mut MapPathIdDatum,
    set_pathid: &mut SetPathId,
    disconnect: &mut Vec<PathId>,
    map_pathid_color: &mut MapPathIdToColor,
    fileprocessing_not_okay_in: usize,
    count_since_in: usize,
) -> (r: (usize, usize))
    requires fileprocessing_not_okay_in < usize::MAX
    ensures
        final(map_pathid_color)@ == old(map_pathid_color)@,   // C06: arrival never chooses or changes a colour
        // C06: the source counts as "FileInfo received" -- also when the file could not be processed
        final(map_pathid_received_fileinfo)@ == old(map_pathid_received_fileinfo)@.insert(pathid, true),
        final(map_pathid_datum)@ == old(map_pathid_datum)@,
        final(set_pathid)@ == old(set_pathid)@,
        final(disconnect)@ == old(disconnect)@,
{
    proof { broadcast use group_btree_axioms; broadcast use vstd::std_specs::hash::group_hash_axioms; }
    let mut _fileprocessing_not_okay: usize = fileprocessing_not_okay_in;
    let mut _count_since_received_fileinfo: usize = count_since_in;
//@cut slice path=src/bin/s4.rs fn=processing_loop anchor="ChanDatum::FileInfo(dt_opt, file_processing_result) =>" take=arm label=PL3c
//@end
    (_fileprocessing_not_okay, _count_since_received_fileinfo)
}

// PL3d — a FileSummary (the last datum of a worker) marks its source for disconnection; pending messages untouched
#[verifier::external_body]
pub struct Summary { _p: u8 }
#[verifier::external_body]
pub struct MapPathIdSummary { _p: u8 }
#[verifier::external_body]
pub fn summary_update(pathid: &PathId, summary: Summary, map_pathid_summary: &mut MapPathIdSummary) { unimplemented!() }
#[verifier::external_body]
pub fn verif_fileok() -> (r: &'static FileProcessingResultBlockZero) { unimplemented!() }
pub fn pl3d_file_summary(
    pathid: PathId,
    summary_opt: Option<Summary>,
    file_processing_result: FileProcessingResultBlockZero,
    mut map_pathid_summary: MapPathIdSummary,
    map_pathid_file_processing_result: &mut HashMap<PathId, FileProcessingResultBlockZero>,
    map_pathid_received_fileinfo: &mut HashMap<PathId, bool>,
    map_pathid_datum: &mut MapPathIdDatum,
    set_pathid: &mut SetPathId,
    disconnect: &mut Vec<PathId>,
    map_pathid_color: &mut MapPathIdToColor,
    fileprocessing_not_okay_in: usize,
) -> (r: usize)
    requires fileprocessing_not_okay_in < usize::MAX
    ensures
        final(map_pathid_color)@ == old(map_pathid_color)@,   // C06: arrival never chooses or changes a colour
        final(disconnect)@ == old(disconnect)@.push(pathid),
        final(map_pathid_datum)@ == old(map_pathid_datum)@,
        final(set_pathid)@ == old(set_pathid)@,
        final(map_pathid_received_fileinfo)@ == old(map_pathid_received_fileinfo)@,
{
    proof { broadcast use group_btree_axioms; broadcast use vstd::std_specs::hash::group_hash_axioms; }
    let mut _fileprocessing_not_okay: usize = fileprocessing_not_okay_in;
//@cut slice path=src/bin/s4.rs fn=processing_loop anchor="ChanDatum::FileSummary(summary_opt, file_processing_result) =>" take=arm label=PL3d
//@replace "&FILEOK" "verif_fileok()"
//@end
    _fileprocessing_not_okay
}

// PL3e — the tracking map is cleared exactly when it is non-empty and every entry is true
#[verifier::external_body]
pub fn verif_all_true(m: &HashMap<PathId, bool>) -> (r: bool)
    ensures r == (forall|k: PathId| #[trigger] m@.contains_key(k) ==> m@[k] == true)
{ unimplemented!() }
#[verifier::external_body]
pub fn verif_any(m: &HashMap<PathId, bool>) -> (r: bool) { unimplemented!() }
pub fn pl3e_gate(map_pathid_received_fileinfo: &HashMap<PathId, bool>) -> (r: bool)
    ensures r == (map_pathid_received_fileinfo@.len() != 0 && forall|k: PathId| #[trigger] map_pathid_received_fileinfo@.contains_key(k) ==> map_pathid_received_fileinfo@[k] == true)
{
    proof { broadcast use vstd::std_specs::hash::group_hash_axioms; }
    let r =
//@cut slice path=src/bin/s4.rs fn=processing_loop anchor="if !map_pathid_received_fileinfo.is_empty()" k=2 take=cond label=PL3e
//@replace_chain "map_pathid_received_fileinfo.iter()" when="map_pathid_received_fileinfo.iter().all(|(_, v)| v == &true)" then="verif_all_true(&map_pathid_received_fileinfo)" else="verif_any(&map_pathid_received_fileinfo)"
//@end
    ;
    r
}

// PL3b — a closed channel (RecvError) only marks the source for disconnection; pending messages are untouched
pub fn pl3b_recv_error(
    pathid: PathId,
    map_pathid_datum: &mut MapPathIdDatum,
    set_pathid: &mut SetPathId,
    disconnect: &mut Vec<PathId>,
    map_pathid_color: &mut MapPathIdToColor,
    chan_recv_err_in: Count,
) -> (chan_recv_err_out: Count)
    requires chan_recv_err_in < u64::MAX
    ensures
        final(map_pathid_color)@ == old(map_pathid_color)@,   // C06: arrival never chooses or changes a colour
        final(map_pathid_datum)@ == old(map_pathid_datum)@,
        final(set_pathid)@ == old(set_pathid)@,
        final(disconnect)@ == old(disconnect)@.push(pathid),
{
    let mut chan_recv_err = chan_recv_err_in;
//@cut slice path=src/bin/s4.rs fn=processing_loop anchor="Err(crossbeam_channel::RecvError) =>" take=arm label=PL3b
//@end
    chan_recv_err
}

// =====================================================================================================
// PL4 — after printing: exactly the printed source's pending message leaves `pending` and `set_pathid`
pub fn pl4_after_print(
    pathid: &PathId,
    map_pathid_datum: &mut MapPathIdDatum,
    set_pathid: &mut SetPathId,
    // the rest of what is in scope at this point of processing_loop and could be touched (frame)
    is_last: IsLastLogMessage,
    cli_opt_summary: bool,
    disconnect: &mut Vec<PathId>,
)
    ensures
        final(map_pathid_datum)@ == old(map_pathid_datum)@.remove(*pathid),
        final(set_pathid)@ == old(set_pathid)@.remove(*pathid),
        // C06: having printed a message -- even the one flagged as its file's last -- is no reason to stop listening to the source:
        // a source is disconnected only when its FileSummary arrives, its channel fails, or printing fails (PL3d, PL3b, PL6)
        final(disconnect)@ == old(disconnect)@,
{
    proof { broadcast use group_btree_axioms; broadcast use vstd::std_specs::hash::group_hash_axioms; }
//@cut slice path=src/bin/s4.rs fn=processing_loop anchor="let pathid_: PathId = *pathid;" take=rest_of_block label=PL4
//@end
}

// =====================================================================================================
// PL5 — end of an iteration: the sources marked in `disconnect` (and only those) leave `live`;
// the loop ends iff no live source remains
#[verifier::external_body]
pub struct String { _p: u8 }
#[verifier::external_body]
pub struct PrinterLogMessage { _p: u8 }
pub open spec fn live_after(old_live: Map<PathId, ChanRecvDatum>, disc: Seq<PathId>, new_live: Map<PathId, ChanRecvDatum>) -> bool {
    &&& forall|k: PathId| #[trigger] new_live.contains_key(k) <==> old_live.contains_key(k) && !disc.contains(k)
    &&& forall|k: PathId| new_live.contains_key(k) ==> new_live[k] == old_live[k]
}
#[verifier::exec_allows_no_decreases_clause]
pub fn pl5_disconnect_and_exit_test(
    map_pathid_chanrecvdatum: &mut MapPathIdChanRecvDatum,
    disconnect: &Vec<PathId>,
    pathid_to_prependname: &mut HashMap<PathId, String>,
    map_pathid_printer: &mut HashMap<PathId, PrinterLogMessage>,
) -> (exit: bool)
    ensures
        live_after(old(map_pathid_chanrecvdatum)@, disconnect@, final(map_pathid_chanrecvdatum)@),
        // C06: the coordinator stops only when every source has been disconnected
        exit <==> final(map_pathid_chanrecvdatum)@.dom() =~= Set::<PathId>::empty(),
{
    proof { broadcast use group_btree_axioms; broadcast use vstd::std_specs::hash::group_hash_axioms; }
    let mut exit = true;
    let ghost live0 = map_pathid_chanrecvdatum@;
    loop
        invariant_except_break map_pathid_chanrecvdatum@ == live0, exit
        ensures
            live_after(live0, disconnect@, map_pathid_chanrecvdatum@),
            exit <==> map_pathid_chanrecvdatum@.dom() =~= Set::<PathId>::empty(),
    {
//@cut slice path=src/bin/s4.rs fn=processing_loop anchor="let mut map_pathid_chanrecvdatum = MAP_PATHID_CHANRECVDATUM.write().unwrap();" take=rest_of_block label=PL5
//@replace "let mut map_pathid_chanrecvdatum = MAP_PATHID_CHANRECVDATUM.write().unwrap();" ""
//@desugar_for 1 it
//@loop 1
            invariant_except_break
                vstd::std_specs::iter::IteratorSpec::decrease(&it.iter) is Some,
            invariant
                it.snapshot@ == it__snap0, it.wf(),
                it.seq().len() == disconnect@.len(),
                forall|i: int| 0 <= i < disconnect@.len() ==> *it.seq()[i] == disconnect@[i],
                0 <= it.index@ <= it.seq().len(),
                exit,
                live_after(live0, disconnect@.take(it.index@ as int), map_pathid_chanrecvdatum@),
            ensures
                it.index@ == it.seq().len(),
            decreases vstd::std_specs::iter::IteratorSpec::decrease(&it.iter).unwrap_or(arbitrary()),
//@after "let mut it = vstd"
            proof {
                let k = it__old.index@ as int;
                let s0 = disconnect@.take(k);
                let s1 = disconnect@.take(k + 1);
                assert(s1 =~= s0.push(disconnect@[k]));
                assert forall|x: PathId| s1.contains(x) <==> s0.contains(x) || x == disconnect@[k] by {
                    if s0.contains(x) {
                        let j = choose|j: int| 0 <= j < s0.len() && s0[j] == x;
                        assert(s1[j] == x);
                    }
                    if x == disconnect@[k] { assert(s1[k] == x); }
                    if s1.contains(x) {
                        let j = choose|j: int| 0 <= j < s1.len() && s1[j] == x;
                        if j < k { assert(s0[j] == x); }
                    }
                }
            }
//@before "if map_pathid_chanrecvdatum"
        proof { assert(disconnect@.take(disconnect@.len() as int) =~= disconnect@); }
//@end
        exit = false;
        break;
    }
    exit
}

// =====================================================================================================
// RECV-FILTER — in recv_many_chan only sources WITHOUT a pending message are offered to `select`
// (so a FileSummary, the last datum of its FIFO, cannot be received while its source still has a pending message)
pub struct Select { pub ghost n: int }
impl Select {
    // assumed: crossbeam Select::recv registers one more operation; operations are indexed in call order
    #[verifier::external_body]
    pub fn recv(&mut self, r: &ChanRecvDatum) -> (i: usize)
        ensures final(self).n == old(self).n + 1
    { unimplemented!() }
}
pub open spec fn offered_ok(live: Map<PathId, ChanRecvDatum>, filt: Set<PathId>, m: Map<usize, PathId>, n: int) -> bool {
    &&& forall|i: usize| #[trigger] m.contains_key(i) <==> 0 <= i < n
    &&& forall|i: usize| m.contains_key(i) ==> live.contains_key(#[trigger] m[i]) && !filt.contains(m[i])
}
pub fn recv_filter(
    pathid_chans: &MapPathIdChanRecvDatum,
    map_index_pathid: &mut MapIndexToPathId,
    filter_: &SetPathId,
    select: &mut Select,
) -> (index_out: usize)
    requires
        old(map_index_pathid)@.len() == 0, old(select).n == 0, pathid_chans@.len() < usize::MAX,
        old(map_index_pathid)@.dom() =~= Set::<usize>::empty(),
    ensures
        // every operation offered to select belongs to a live source that has no pending message, and
        // operation number i is mapped back to its source
        offered_ok(pathid_chans@, filter_@, final(map_index_pathid)@, index_out as int),
        final(select).n == index_out,
        // and every live source without a pending message IS offered (no source is starved)
        forall|k: PathId| pathid_chans@.contains_key(k) && !filter_@.contains(k) ==> exists|i: usize| #[trigger] final(map_index_pathid)@.contains_key(i) && final(map_index_pathid)@[i] == k,
{
    proof { broadcast use group_btree_axioms; broadcast use vstd::std_specs::hash::group_hash_axioms; }
    let mut index: usize = 0;
//@cut slice path=src/bin/s4.rs fn=processing_loop anchor="for pathid_chan in pathid_chans.iter()" take=range end_anchor="for pathid_chan in pathid_chans.iter()" label=RECVFILTER
//@desugar_for 1 it
//@loop 1
        invariant_except_break
            vstd::std_specs::iter::IteratorSpec::decrease(&it.iter) is Some,
        invariant
            it.snapshot@ == it__snap0, it.wf(),
            0 <= it.index@ <= it.seq().len(),
            forall|i: int| 0 <= i < it.seq().len() ==> pathid_chans@.contains_key(*(#[trigger] it.seq()[i]).0),
            forall|k: PathId| pathid_chans@.contains_key(k) ==> exists|i: int| 0 <= i < it.seq().len() && *(#[trigger] it.seq()[i]).0 == k,
            index as int <= it.index@, select.n == index, it.seq().len() == pathid_chans@.len(), pathid_chans@.len() < usize::MAX,
            offered_ok(pathid_chans@, filter_@, map_index_pathid@, index as int),
            forall|j: int| 0 <= j < it.index@ && !filter_@.contains(*(#[trigger] it.seq()[j]).0) ==> exists|i: usize| #[trigger] map_index_pathid@.contains_key(i) && map_index_pathid@[i] == *it.seq()[j].0,
        ensures
            it.index@ == it.seq().len(),
        decreases vstd::std_specs::iter::IteratorSpec::decrease(&it.iter).unwrap_or(arbitrary()),
//@before "map_index_pathid.insert(index"
            let ghost m0 = map_index_pathid@;
            let ghost idx0 = index;
//@after "index += 1;"
            proof {
                let k = it__old.index@ as int;
                assert(map_index_pathid@ == m0.insert(idx0, *it.seq()[k].0));
                assert forall|j: int| 0 <= j < k + 1 && !filter_@.contains(*(#[trigger] it.seq()[j]).0) implies
                    exists|i: usize| #[trigger] map_index_pathid@.contains_key(i) && map_index_pathid@[i] == *it.seq()[j].0 by {
                    if j < k {
                        let i = choose|i: usize| #[trigger] m0.contains_key(i) && m0[i] == *it.seq()[j].0;
                        assert(i != idx0);
                        assert(map_index_pathid@.contains_key(i) && map_index_pathid@[i] == *it.seq()[j].0);
                    } else {
                        assert(map_index_pathid@.contains_key(idx0) && map_index_pathid@[idx0] == *it.seq()[j].0);
                    }
                }
            }
//@end
    proof {
        assert forall|k: PathId| pathid_chans@.contains_key(k) && !filter_@.contains(k) implies exists|i: usize| #[trigger] map_index_pathid@.contains_key(i) && map_index_pathid@[i] == k by {
            let j = choose|j: int| 0 <= j < it.seq().len() && *(#[trigger] it.seq()[j]).0 == k;
        }
    }
    index
}

// =====================================================================================================
// RECV-TAIL — the rest of recv_many_chan: the coordinator blocks until an offered channel is ready; it gives up
// (returns None, which makes processing_loop stop) ONLY when nothing could be offered.  C06: it does not stop before
// every source has been drained merely because a worker is slow.
#[verifier::external_body]
pub struct ChanDatum { _p: u8 }
#[verifier::external_body]
pub struct RecvError { _p: u8 }
#[verifier::external_body]
pub struct SelectTimeoutError { _p: u8 }
#[verifier::external_body]
pub struct TrySelectError { _p: u8 }
#[verifier::external_body]
pub struct Duration { _p: u8 }
pub type RecvResult4 = core::result::Result<ChanDatum, RecvError>;
#[verifier::external_body]
pub struct SelectedOperation { _p: u8 }
impl SelectedOperation {
    pub uninterp spec fn idx(&self) -> usize;
    #[verifier::external_body]
    pub fn index(&self) -> (r: usize) ensures r == self.idx() { unimplemented!() }
    #[verifier::external_body]
    pub fn recv(self, r: &ChanRecvDatum) -> RecvResult4 { unimplemented!() }
}
impl Select {
    // assumed (crossbeam): select() blocks until one registered operation is ready and returns it; the timed and
    // non-blocking forms may instead give up
    #[verifier::external_body]
    pub fn select(&mut self) -> (o: SelectedOperation)
        requires old(self).n > 0
        ensures (o.idx() as int) < old(self).n, final(self).n == old(self).n
    { unimplemented!() }
    #[verifier::external_body]
    pub fn select_timeout<T>(&mut self, timeout: T) -> (r: core::result::Result<SelectedOperation, SelectTimeoutError>)
        ensures r is Ok ==> (r->Ok_0.idx() as int) < old(self).n
    { unimplemented!() }
    #[verifier::external_body]
    pub fn try_select(&mut self) -> (r: core::result::Result<SelectedOperation, TrySelectError>)
        ensures r is Ok ==> (r->Ok_0.idx() as int) < old(self).n
    { unimplemented!() }
}
//@opaque_consts_here

pub fn recv_tail<'a>(
    pathid_chans: &'a MapPathIdChanRecvDatum,
    map_index_pathid: &mut MapIndexToPathId,
    filter_: &SetPathId,
    select: &mut Select,
) -> (r: Option<(PathId, RecvResult4)>)
    requires
        offered_ok(pathid_chans@, filter_@, old(map_index_pathid)@, old(select).n),
        old(select).n >= 0, old(map_index_pathid)@.dom().finite(),
        old(select).n == 0 <==> old(map_index_pathid)@.len() == 0,
    ensures
        // gives up only if no channel could be offered
        r is None ==> old(select).n == 0,
        // what is received comes from a live source that has no pending message
        r is Some ==> pathid_chans@.contains_key(r.unwrap().0) && !filter_@.contains(r.unwrap().0),
{
    proof { broadcast use group_btree_axioms; broadcast use vstd::std_specs::hash::group_hash_axioms; }
//@cut slice path=src/bin/s4.rs fn=processing_loop anchor="if map_index_pathid.is_empty()" take=rest_of_block label=RECVTAIL
//@replace "crossbeam_channel::SelectedOperation" "SelectedOperation" count=*
//@end
}

// =====================================================================================================
// SEL (Verus side) — the selection statement.  `Iterator::min_by` itself is decided by unit SEL (Kani, bounded
// in #sources, running core's real adapter); here its result is ASSUMED to be the earliest entry, least key among
// ties, and the real match arms that unpack it are checked.
pub open spec fn is_sel(pending: Map<PathId, (LogMessage, IsLastLogMessage)>, p: PathId) -> bool {
    &&& pending.contains_key(p)
    &&& forall|q: PathId| #[trigger] pending.contains_key(q) ==>
            instant(pending[p].0.dt_spec()) < instant(pending[q].0.dt_spec())
            || (instant(pending[p].0.dt_spec()) == instant(pending[q].0.dt_spec()) && p <= q)
}
//@if path=src/bin/s4.rs regex="type\s+MapPathIdDatum\s*=\s*BTreeMap\s*<"
// the pending-message map is a BTreeMap: iteration is in ascending PathId order, so the FIRST minimal element that
// Iterator::min_by returns is the one with the least PathId (decided for the real expression by unit SEL)
#[verifier::external_body]
pub fn verif_min_by_dt<'a>(m: &'a MapPathIdDatum) -> (r: Option<(&'a PathId, &'a (LogMessage, IsLastLogMessage))>)
    ensures
        r is None <==> m@.dom() =~= Set::<PathId>::empty(),
        r is Some ==> is_sel(m@, *r.unwrap().0) && *r.unwrap().1 == m@[*r.unwrap().0],
{ unimplemented!() }
//@else
// the pending-message map is NOT a BTreeMap: its iteration order is unspecified, so all that Iterator::min_by
// guarantees is SOME entry with a minimal instant -- no tie rule
pub open spec fn is_some_min(pending: Map<PathId, (LogMessage, IsLastLogMessage)>, p: PathId) -> bool {
    &&& pending.contains_key(p)
    &&& forall|q: PathId| #[trigger] pending.contains_key(q) ==> instant(pending[p].0.dt_spec()) <= instant(pending[q].0.dt_spec())
}
#[verifier::external_body]
pub fn verif_min_by_dt<'a>(m: &'a MapPathIdDatum) -> (r: Option<(&'a PathId, &'a (LogMessage, IsLastLogMessage))>)
    ensures
        r is None <==> m@.dom() =~= Set::<PathId>::empty(),
        r is Some ==> is_some_min(m@, *r.unwrap().0) && *r.unwrap().1 == m@[*r.unwrap().0],
{ unimplemented!() }
//@endif

/// stand-in for a selection expression that is NOT the expected `iter_mut().min_by(|x, y| x.1.0.dt().cmp(y.1.0.dt()))`:
/// assumed only what its type gives -- some entry of the map, None iff the map is empty
#[verifier::external_body]
pub fn verif_select_some<'a>(m: &'a MapPathIdDatum) -> (r: Option<(&'a PathId, &'a (LogMessage, IsLastLogMessage))>)
    ensures
        r is None <==> m@.dom() =~= Set::<PathId>::empty(),
        r is Some ==> m@.contains_key(*r.unwrap().0) && *r.unwrap().1 == m@[*r.unwrap().0],
{ unimplemented!() }

#[verifier::exec_allows_no_decreases_clause]
pub fn sel_statement<'a>(map_pathid_datum: &'a MapPathIdDatum) -> (r: (&'a PathId, &'a LogMessage, IsLastLogMessage))
    ensures
        // C01: the message printed next is an earliest pending one; ties go to the source named first
        is_sel(map_pathid_datum@, *r.0),
        *r.1 == map_pathid_datum@[*r.0].0,
        r.2 == map_pathid_datum@[*r.0].1,
{
    let pathid: &PathId;
    let log_message: &LogMessage;
    let is_last: IsLastLogMessage;
    loop
        ensures is_sel(map_pathid_datum@, *pathid), *log_message == map_pathid_datum@[*pathid].0, is_last == map_pathid_datum@[*pathid].1,
    {
//@cut slice path=src/bin/s4.rs fn=processing_loop anchor="(pathid, log_message, is_last) = match " take=stmt label=SELSTMT
//@replace_chain "map_pathid_datum" when="map_pathid_datum.iter_mut().min_by(|x,y|{x.1.0.dt().cmp(y.1.0.dt())})" then="verif_min_by_dt(map_pathid_datum)" else="verif_select_some(map_pathid_datum)"
//@end
        break;
    }
    (pathid, log_message, is_last)
}

// =====================================================================================================
// PL6 — the four print arms, each as cut.  R8: after each output call the splicer appends to the ghost log `out`
// the bytes that call writes (print_*: the payload PRN's contract gives; write_stdout(x): x).
// assumed here, proved in units PRN / SUM: the printers return the payload length; the summary updates add exactly
// what they are handed.
#[verifier::external_body]
pub struct Error { _p: u8 }
pub uninterp spec fn pay_sys(m: &SyslineP) -> Seq<u8>;
pub uninterp spec fn pay_fix(m: &FixedStruct) -> Seq<u8>;
pub uninterp spec fn pay_evtx(m: &Evtx) -> Seq<u8>;
pub uninterp spec fn pay_jrnl(m: &JournalEntry) -> Seq<u8>;
impl PrinterLogMessage {
    #[verifier::external_body]
    pub fn print_sysline(&mut self, syslinep: &SyslineP) -> (r: core::result::Result<(usize, usize), Error>)
        requires pay_sys(syslinep).len() <= usize::MAX
        ensures r is Ok ==> r->Ok_0.0 as int == pay_sys(syslinep).len() { unimplemented!() }
    #[verifier::external_body]
    pub fn print_fixedstruct(&mut self, fixedstruct: &FixedStruct, buffer: &mut [u8]) -> (r: core::result::Result<(usize, usize), Error>)
        requires pay_fix(fixedstruct).len() <= usize::MAX
        ensures r is Ok ==> r->Ok_0.0 as int == pay_fix(fixedstruct).len() { unimplemented!() }
    #[verifier::external_body]
    pub fn print_evtx(&mut self, evtx: &Evtx) -> (r: core::result::Result<(usize, usize), Error>)
        requires pay_evtx(evtx).len() <= usize::MAX
        ensures r is Ok ==> r->Ok_0.0 as int == pay_evtx(evtx).len() { unimplemented!() }
    #[verifier::external_body]
    pub fn print_journalentry(&mut self, journalentry: &JournalEntry) -> (r: core::result::Result<(usize, usize), Error>)
        requires pay_jrnl(journalentry).len() <= usize::MAX
        ensures r is Ok ==> r->Ok_0.0 as int == pay_jrnl(journalentry).len() { unimplemented!() }
}
// assumed: write_stdout writes exactly its argument to standard output (src/printer/printers.rs; lock + write_all + flush)
#[verifier::external_body]
pub fn write_stdout(buffer: &[u8]) { unimplemented!() }
pub const NLu8a: [u8; 1] = [10];

#[derive(Clone, Copy)]
pub struct SummaryPrinted { pub bytes: Count, pub flushed: Count, pub lines: Count, pub syslines: Count, pub fixedstructentries: Count, pub evtxentries: Count, pub journalentries: Count }
pub type MapPathIdSummaryPrint = BTreeMap<PathId, SummaryPrinted>;
pub open spec fn sp_zero() -> SummaryPrinted { SummaryPrinted { bytes: 0, flushed: 0, lines: 0, syslines: 0, fixedstructentries: 0, evtxentries: 0, journalentries: 0 } }
pub open spec fn sp_get(m: Map<PathId, SummaryPrinted>, p: PathId) -> SummaryPrinted { if m.contains_key(p) { m[p] } else { sp_zero() } }
pub open spec fn map_upd(pre: Map<PathId, SummaryPrinted>, post: Map<PathId, SummaryPrinted>, p: PathId, printed: Count) -> bool {
    &&& post.contains_key(p) && post[p].bytes as int == sp_get(pre, p).bytes + printed
    &&& forall|q: PathId| q != p && #[trigger] pre.contains_key(q) ==> post.contains_key(q) && post[q] == pre[q]
}
impl SummaryPrinted {
    pub open spec fn n_msgs(&self) -> int { self.syslines + self.fixedstructentries + self.evtxentries + self.journalentries }
    // contracts as proved in unit SUM (bytes/flushed/counters); first/last datetime omitted here
    #[verifier::external_body]
    pub fn summaryprint_update_sysline(&mut self, syslinep: &SyslineP, printed: Count, flushed: Count)
        requires old(self).bytes + printed <= u64::MAX
        ensures final(self).bytes == old(self).bytes + printed, final(self).syslines == old(self).syslines + 1 { unimplemented!() }
    #[verifier::external_body]
    pub fn summaryprint_update_fixedstruct(&mut self, entry: &FixedStruct, printed: Count, flushed: Count)
        requires old(self).bytes + printed <= u64::MAX
        ensures final(self).bytes == old(self).bytes + printed, final(self).fixedstructentries == old(self).fixedstructentries + 1 { unimplemented!() }
    #[verifier::external_body]
    pub fn summaryprint_update_evtx(&mut self, evtx: &Evtx, printed: Count, flushed: Count)
        requires old(self).bytes + printed <= u64::MAX
        ensures final(self).bytes == old(self).bytes + printed, final(self).evtxentries == old(self).evtxentries + 1 { unimplemented!() }
    #[verifier::external_body]
    pub fn summaryprint_update_journalentry(&mut self, journalentry: &JournalEntry, printed: Count, flushed: Count)
        requires old(self).bytes + printed <= u64::MAX
        ensures final(self).bytes == old(self).bytes + printed, final(self).journalentries == old(self).journalentries + 1 { unimplemented!() }
    #[verifier::external_body]
    pub fn summaryprint_map_update_sysline(syslinep: &SyslineP, pathid: &PathId, map_: &mut MapPathIdSummaryPrint, printed: Count, flushed: Count)
        ensures map_upd(old(map_)@, final(map_)@, *pathid, printed) { unimplemented!() }
    #[verifier::external_body]
    pub fn summaryprint_map_update_fixedstruct(fixedstruct: &FixedStruct, pathid: &PathId, map_: &mut MapPathIdSummaryPrint, printed: Count, flushed: Count)
        ensures map_upd(old(map_)@, final(map_)@, *pathid, printed) { unimplemented!() }
    #[verifier::external_body]
    pub fn summaryprint_map_update_evtx(evtx: &Evtx, pathid: &PathId, map_: &mut MapPathIdSummaryPrint, printed: Count, flushed: Count)
        ensures map_upd(old(map_)@, final(map_)@, *pathid, printed) { unimplemented!() }
    #[verifier::external_body]
    pub fn summaryprint_map_update_journalentry(journalentry: &JournalEntry, pathid: &PathId, map_: &mut MapPathIdSummaryPrint, printed: Count, flushed: Count)
        ensures map_upd(old(map_)@, final(map_)@, *pathid, printed) { unimplemented!() }
}

/// the bytes of the message separator: the UTF-8 encoding of the (unescaped) --separator string
pub open spec fn sep_spec(s: &std::string::String) -> Seq<u8> { vstd::utf8::encode_utf8(s@) }
// assumed: nothing is known about the value of `Chars::count` (declared so that code using it is checked, not rejected)
pub assume_specification<'a>[<core::str::Chars<'a> as Iterator>::count](it: core::str::Chars<'a>) -> (r: usize);

#[verifier::exec_allows_no_decreases_clause]
pub fn pl6_sysline(
    printer: &mut PrinterLogMessage,
    syslinep: &SyslineP,
    pathid: &PathId,
    is_last: IsLastLogMessage,
    log_message_separator: &std::string::String,
    cli_opt_summary: bool,
    has_print_err: &mut bool,
    summaryprinted: &mut SummaryPrinted,
    map_pathid_sumpr: &mut MapPathIdSummaryPrint,
    paths_printed_logmessages: &mut SetPathId,
    disconnect: &mut Vec<PathId>,
    map_pathid_datum: &mut MapPathIdDatum,
    set_pathid: &mut SetPathId,
    Ghost(out_in): Ghost<Seq<u8>>,
) -> (r: (Ghost<Seq<u8>>, Ghost<bool>))
    requires
        old(summaryprinted).bytes as int + pay_sys(syslinep).len() + sep_spec(log_message_separator).len() + 2 <= u64::MAX, old(summaryprinted).flushed < 0x1000_0000_0000_0000,
        old(summaryprinted).n_msgs() < u64::MAX, old(summaryprinted).lines as int + syslinep.count_lines_spec() <= u64::MAX,
        pay_sys(syslinep).len() <= usize::MAX,
    ensures
        // C02 / C13: this step writes the message's payload, then the separator, then (text logs only) a newline
        // if the file's last message lacks one -- in that order, nothing else
        r.1@ ==> r.0@ == out_in + pay_sys(syslinep) + sep_spec(log_message_separator) + (if is_last && !syslinep.ends_with_newline_spec() { seq![10u8] } else { Seq::<u8>::empty() }),
        // C19: with --summary the total grows by exactly the bytes written in this step ...
        (r.1@ && cli_opt_summary) ==> final(summaryprinted).bytes as int == old(summaryprinted).bytes + (r.0@.len() - out_in.len()),
        // ... and the file's own entry by exactly the message's payload (separators and the supplied newline belong to no file)
        (r.1@ && cli_opt_summary) ==> final(map_pathid_sumpr)@.contains_key(*pathid)
            && final(map_pathid_sumpr)@[*pathid].bytes as int == (if old(map_pathid_sumpr)@.contains_key(*pathid) { old(map_pathid_sumpr)@[*pathid].bytes as int } else { 0 }) + pay_sys(syslinep).len(),
        (r.1@ && cli_opt_summary) ==> (forall|p: PathId| p != *pathid && #[trigger] old(map_pathid_sumpr)@.contains_key(p) ==> final(map_pathid_sumpr)@.contains_key(p) && final(map_pathid_sumpr)@[p] == old(map_pathid_sumpr)@[p]),
        !cli_opt_summary ==> *final(summaryprinted) == *old(summaryprinted) && final(map_pathid_sumpr)@ == old(map_pathid_sumpr)@,
        // a print error marks the source for disconnection; otherwise `disconnect` is untouched
        r.1@ ==> final(disconnect)@ == old(disconnect)@,
        !r.1@ ==> final(disconnect)@ == old(disconnect)@.push(*pathid),
        // frame: printing never touches the pending messages
        final(map_pathid_datum)@ == old(map_pathid_datum)@, final(set_pathid)@ == old(set_pathid)@,
{
    proof { broadcast use group_btree_axioms; broadcast use vstd::std_specs::hash::group_hash_axioms; }
    let ghost mut out = out_in;
    let ghost mut ok = true;
//@cut slice path=src/bin/s4.rs fn=processing_loop anchor="let sepb: &[u8]" take=range end_anchor="let mut _count_since_received_fileinfo" label=PL6_sep_sysline
//@end
//@cut slice path=src/bin/s4.rs fn=processing_loop anchor="LogMessage::Sysline(syslinep) =>" take=arm label=PL6_sysline
//@replace "if !has_print_err {" "if !*has_print_err {"
//@replace "has_print_err = true;" "*has_print_err = true;"
//@replace "&mut map_pathid_sumpr" "map_pathid_sumpr"
//@after "flushed = flushed_ as Count;"
                            proof { out = out + pay_sys(syslinep); }
//@after "disconnect.push(*pathid);"
                            proof { ok = false; }
//@after "write_stdout(sepb);"
                        proof { out = out + sepb@; }
//@after "write_stdout(&NLu8a);"
                        proof { out = out + seq![10u8]; }
//@end
    (Ghost(out), Ghost(ok))
}

#[verifier::exec_allows_no_decreases_clause]
pub fn pl6_fixedstruct(
    printer: &mut PrinterLogMessage,
    entry: &FixedStruct,
    pathid: &PathId,
    is_last: IsLastLogMessage,
    buffer_utmp: &mut [u8; 2048],
    log_message_separator: &std::string::String,
    cli_opt_summary: bool,
    has_print_err: &mut bool,
    summaryprinted: &mut SummaryPrinted,
    map_pathid_sumpr: &mut MapPathIdSummaryPrint,
    paths_printed_logmessages: &mut SetPathId,
    disconnect: &mut Vec<PathId>,
    map_pathid_datum: &mut MapPathIdDatum,
    set_pathid: &mut SetPathId,
    Ghost(out_in): Ghost<Seq<u8>>,
) -> (r: (Ghost<Seq<u8>>, Ghost<bool>))
    requires
        old(summaryprinted).bytes as int + pay_fix(entry).len() + sep_spec(log_message_separator).len() + 2 <= u64::MAX, old(summaryprinted).flushed < 0x1000_0000_0000_0000,
        old(summaryprinted).n_msgs() < u64::MAX, old(summaryprinted).lines as int + 0 <= u64::MAX,
        pay_fix(entry).len() <= usize::MAX,
    ensures
        // C02 / C13: this step writes the message's payload, then the separator, then (text logs only) a newline
        // if the file's last message lacks one -- in that order, nothing else
        r.1@ ==> r.0@ == out_in + pay_fix(entry) + sep_spec(log_message_separator),
        // C19: with --summary the total grows by exactly the bytes written in this step ...
        (r.1@ && cli_opt_summary) ==> final(summaryprinted).bytes as int == old(summaryprinted).bytes + (r.0@.len() - out_in.len()),
        // ... and the file's own entry by exactly the message's payload (separators and the supplied newline belong to no file)
        (r.1@ && cli_opt_summary) ==> final(map_pathid_sumpr)@.contains_key(*pathid)
            && final(map_pathid_sumpr)@[*pathid].bytes as int == (if old(map_pathid_sumpr)@.contains_key(*pathid) { old(map_pathid_sumpr)@[*pathid].bytes as int } else { 0 }) + pay_fix(entry).len(),
        (r.1@ && cli_opt_summary) ==> (forall|p: PathId| p != *pathid && #[trigger] old(map_pathid_sumpr)@.contains_key(p) ==> final(map_pathid_sumpr)@.contains_key(p) && final(map_pathid_sumpr)@[p] == old(map_pathid_sumpr)@[p]),
        !cli_opt_summary ==> *final(summaryprinted) == *old(summaryprinted) && final(map_pathid_sumpr)@ == old(map_pathid_sumpr)@,
        // a print error marks the source for disconnection; otherwise `disconnect` is untouched
        r.1@ ==> final(disconnect)@ == old(disconnect)@,
        !r.1@ ==> final(disconnect)@ == old(disconnect)@.push(*pathid),
        // frame: printing never touches the pending messages
        final(map_pathid_datum)@ == old(map_pathid_datum)@, final(set_pathid)@ == old(set_pathid)@,
{
    proof { broadcast use group_btree_axioms; broadcast use vstd::std_specs::hash::group_hash_axioms; }
    let ghost mut out = out_in;
    let ghost mut ok = true;
//@cut slice path=src/bin/s4.rs fn=processing_loop anchor="let sepb: &[u8]" take=range end_anchor="let mut _count_since_received_fileinfo" label=PL6_sep_fixedstruct
//@end
//@cut slice path=src/bin/s4.rs fn=processing_loop anchor="LogMessage::FixedStruct(entry) =>" take=arm label=PL6_fixedstruct
//@replace "if !has_print_err {" "if !*has_print_err {"
//@replace "has_print_err = true;" "*has_print_err = true;"
//@replace "&mut map_pathid_sumpr" "map_pathid_sumpr"
//@replace "&mut buffer_utmp" "buffer_utmp"
//@after "flushed = flushed_ as Count;"
                            proof { out = out + pay_fix(entry); }
//@after "disconnect.push(*pathid);"
                            proof { ok = false; }
//@after "write_stdout(sepb);"
                        proof { out = out + sepb@; }
//@end
    (Ghost(out), Ghost(ok))
}

#[verifier::exec_allows_no_decreases_clause]
pub fn pl6_evtx(
    printer: &mut PrinterLogMessage,
    evtx: &Evtx,
    pathid: &PathId,
    is_last: IsLastLogMessage,
    log_message_separator: &std::string::String,
    cli_opt_summary: bool,
    has_print_err: &mut bool,
    summaryprinted: &mut SummaryPrinted,
    map_pathid_sumpr: &mut MapPathIdSummaryPrint,
    paths_printed_logmessages: &mut SetPathId,
    disconnect: &mut Vec<PathId>,
    map_pathid_datum: &mut MapPathIdDatum,
    set_pathid: &mut SetPathId,
    Ghost(out_in): Ghost<Seq<u8>>,
) -> (r: (Ghost<Seq<u8>>, Ghost<bool>))
    requires
        old(summaryprinted).bytes as int + pay_evtx(evtx).len() + sep_spec(log_message_separator).len() + 2 <= u64::MAX, old(summaryprinted).flushed < 0x1000_0000_0000_0000,
        old(summaryprinted).n_msgs() < u64::MAX, old(summaryprinted).lines as int + 0 <= u64::MAX,
        pay_evtx(evtx).len() <= usize::MAX,
    ensures
        // C02 / C13: this step writes the message's payload, then the separator, then (text logs only) a newline
        // if the file's last message lacks one -- in that order, nothing else
        r.1@ ==> r.0@ == out_in + pay_evtx(evtx) + sep_spec(log_message_separator),
        // C19: with --summary the total grows by exactly the bytes written in this step ...
        (r.1@ && cli_opt_summary) ==> final(summaryprinted).bytes as int == old(summaryprinted).bytes + (r.0@.len() - out_in.len()),
        // ... and the file's own entry by exactly the message's payload (separators and the supplied newline belong to no file)
        (r.1@ && cli_opt_summary) ==> final(map_pathid_sumpr)@.contains_key(*pathid)
            && final(map_pathid_sumpr)@[*pathid].bytes as int == (if old(map_pathid_sumpr)@.contains_key(*pathid) { old(map_pathid_sumpr)@[*pathid].bytes as int } else { 0 }) + pay_evtx(evtx).len(),
        (r.1@ && cli_opt_summary) ==> (forall|p: PathId| p != *pathid && #[trigger] old(map_pathid_sumpr)@.contains_key(p) ==> final(map_pathid_sumpr)@.contains_key(p) && final(map_pathid_sumpr)@[p] == old(map_pathid_sumpr)@[p]),
        !cli_opt_summary ==> *final(summaryprinted) == *old(summaryprinted) && final(map_pathid_sumpr)@ == old(map_pathid_sumpr)@,
        // a print error marks the source for disconnection; otherwise `disconnect` is untouched
        r.1@ ==> final(disconnect)@ == old(disconnect)@,
        !r.1@ ==> final(disconnect)@ == old(disconnect)@.push(*pathid),
        // frame: printing never touches the pending messages
        final(map_pathid_datum)@ == old(map_pathid_datum)@, final(set_pathid)@ == old(set_pathid)@,
{
    proof { broadcast use group_btree_axioms; broadcast use vstd::std_specs::hash::group_hash_axioms; }
    let ghost mut out = out_in;
    let ghost mut ok = true;
//@cut slice path=src/bin/s4.rs fn=processing_loop anchor="let sepb: &[u8]" take=range end_anchor="let mut _count_since_received_fileinfo" label=PL6_sep_evtx
//@end
//@cut slice path=src/bin/s4.rs fn=processing_loop anchor="LogMessage::Evtx(evtx) =>" take=arm label=PL6_evtx
//@replace "if !has_print_err {" "if !*has_print_err {"
//@replace "has_print_err = true;" "*has_print_err = true;"
//@replace "&mut map_pathid_sumpr" "map_pathid_sumpr"
//@after "flushed = flushed_ as Count;"
                            proof { out = out + pay_evtx(evtx); }
//@after "disconnect.push(*pathid);"
                            proof { ok = false; }
//@after "write_stdout(sepb);"
                        proof { out = out + sepb@; }
//@end
    (Ghost(out), Ghost(ok))
}

#[verifier::exec_allows_no_decreases_clause]
pub fn pl6_journal(
    printer: &mut PrinterLogMessage,
    journalentry: &JournalEntry,
    pathid: &PathId,
    is_last: IsLastLogMessage,
    log_message_separator: &std::string::String,
    cli_opt_summary: bool,
    has_print_err: &mut bool,
    summaryprinted: &mut SummaryPrinted,
    map_pathid_sumpr: &mut MapPathIdSummaryPrint,
    paths_printed_logmessages: &mut SetPathId,
    disconnect: &mut Vec<PathId>,
    map_pathid_datum: &mut MapPathIdDatum,
    set_pathid: &mut SetPathId,
    Ghost(out_in): Ghost<Seq<u8>>,
) -> (r: (Ghost<Seq<u8>>, Ghost<bool>))
    requires
        old(summaryprinted).bytes as int + pay_jrnl(journalentry).len() + sep_spec(log_message_separator).len() + 2 <= u64::MAX, old(summaryprinted).flushed < 0x1000_0000_0000_0000,
        old(summaryprinted).n_msgs() < u64::MAX, old(summaryprinted).lines as int + 0 <= u64::MAX,
        pay_jrnl(journalentry).len() <= usize::MAX,
    ensures
        // C02 / C13: this step writes the message's payload, then the separator, then (text logs only) a newline
        // if the file's last message lacks one -- in that order, nothing else
        r.1@ ==> r.0@ == out_in + pay_jrnl(journalentry) + sep_spec(log_message_separator),
        // C19: with --summary the total grows by exactly the bytes written in this step ...
        (r.1@ && cli_opt_summary) ==> final(summaryprinted).bytes as int == old(summaryprinted).bytes + (r.0@.len() - out_in.len()),
        // ... and the file's own entry by exactly the message's payload (separators and the supplied newline belong to no file)
        (r.1@ && cli_opt_summary) ==> final(map_pathid_sumpr)@.contains_key(*pathid)
            && final(map_pathid_sumpr)@[*pathid].bytes as int == (if old(map_pathid_sumpr)@.contains_key(*pathid) { old(map_pathid_sumpr)@[*pathid].bytes as int } else { 0 }) + pay_jrnl(journalentry).len(),
        (r.1@ && cli_opt_summary) ==> (forall|p: PathId| p != *pathid && #[trigger] old(map_pathid_sumpr)@.contains_key(p) ==> final(map_pathid_sumpr)@.contains_key(p) && final(map_pathid_sumpr)@[p] == old(map_pathid_sumpr)@[p]),
        !cli_opt_summary ==> *final(summaryprinted) == *old(summaryprinted) && final(map_pathid_sumpr)@ == old(map_pathid_sumpr)@,
        // a print error marks the source for disconnection; otherwise `disconnect` is untouched
        r.1@ ==> final(disconnect)@ == old(disconnect)@,
        !r.1@ ==> final(disconnect)@ == old(disconnect)@.push(*pathid),
        // frame: printing never touches the pending messages
        final(map_pathid_datum)@ == old(map_pathid_datum)@, final(set_pathid)@ == old(set_pathid)@,
{
    proof { broadcast use group_btree_axioms; broadcast use vstd::std_specs::hash::group_hash_axioms; }
    let ghost mut out = out_in;
    let ghost mut ok = true;
//@cut slice path=src/bin/s4.rs fn=processing_loop anchor="let sepb: &[u8]" take=range end_anchor="let mut _count_since_received_fileinfo" label=PL6_sep_journal
//@end
//@cut slice path=src/bin/s4.rs fn=processing_loop anchor="LogMessage::Journal(journalentry) =>" take=arm label=PL6_journal
//@replace "if !has_print_err {" "if !*has_print_err {"
//@replace "has_print_err = true;" "*has_print_err = true;"
//@replace "&mut map_pathid_sumpr" "map_pathid_sumpr"
//@after "flushed = flushed_ as Count;"
                            proof { out = out + pay_jrnl(journalentry); }
//@after "disconnect.push(*pathid);"
                            proof { ok = false; }
//@after "write_stdout(sepb);"
                        proof { out = out + sepb@; }
//@end
    (Ghost(out), Ghost(ok))
}

// =====================================================================================================
// THE MERGE LEMMA (C01, C06 safety half).  Spec-level; quantifies over the slice contracts above.
//   src[p]   the finite FIFO sequence of messages source p sends (unit WRK: FileInfo · NewMessage* · FileSummary)
//   merge    C01's own statement: repeatedly output the head with the least instant, least p among equals
//   CState   the coordinator's state: live (keys of the channel map), pending (map_pathid_datum),
//            rest (messages not yet received), out (messages printed so far)
// Each transition below is the contract of one slice.  Invariant: merge(src) == out ++ merge(cur).
pub struct Msg { pub t: int, pub id: int }

pub open spec fn total(cur: Seq<Seq<Msg>>) -> nat
    decreases cur.len()
{ if cur.len() == 0 { 0 } else { total(cur.drop_last()) + cur.last().len() } }
pub open spec fn nonempty(cur: Seq<Seq<Msg>>, p: int) -> bool { 0 <= p < cur.len() && cur[p].len() > 0 }
pub open spec fn is_min(cur: Seq<Seq<Msg>>, p: int) -> bool {
    nonempty(cur, p)
    && forall|q: int| nonempty(cur, q) ==> (cur[p][0].t < cur[q][0].t || (cur[p][0].t == cur[q][0].t && p <= q))
}
pub open spec fn has_any(cur: Seq<Seq<Msg>>) -> bool { exists|p: int| nonempty(cur, p) }
pub open spec fn pick(cur: Seq<Seq<Msg>>) -> int { choose|p: int| is_min(cur, p) }
pub open spec fn pop(cur: Seq<Seq<Msg>>, p: int) -> Seq<Seq<Msg>> { cur.update(p, cur[p].skip(1)) }
pub open spec fn merge(cur: Seq<Seq<Msg>>) -> Seq<(int, Msg)>
    decreases total(cur)
{
    if has_any(cur) && is_min(cur, pick(cur)) && total(pop(cur, pick(cur))) < total(cur) {
        seq![(pick(cur), cur[pick(cur)][0])] + merge(pop(cur, pick(cur)))
    } else { Seq::empty() }
}
proof fn lemma_total_update(cur: Seq<Seq<Msg>>, p: int, s: Seq<Msg>)
    requires 0 <= p < cur.len()
    ensures total(cur.update(p, s)) == total(cur) - cur[p].len() + s.len()
    decreases cur.len()
{
    if p == cur.len() - 1 { assert(cur.update(p, s).drop_last() =~= cur.drop_last()); }
    else { lemma_total_update(cur.drop_last(), p, s); assert(cur.update(p, s).drop_last() =~= cur.drop_last().update(p, s)); }
}
proof fn lemma_min_unique(cur: Seq<Seq<Msg>>, p: int, q: int)
    requires is_min(cur, p), is_min(cur, q) ensures p == q
{}
pub proof fn lemma_merge_step(cur: Seq<Seq<Msg>>, sel: int)
    requires is_min(cur, sel)
    ensures merge(cur) == seq![(sel, cur[sel][0])] + merge(pop(cur, sel))
{
    assert(nonempty(cur, sel)); assert(has_any(cur));
    lemma_min_unique(cur, sel, pick(cur));
    lemma_total_update(cur, sel, cur[sel].skip(1));
}
pub proof fn lemma_merge_done(cur: Seq<Seq<Msg>>)
    requires forall|p: int| 0 <= p < cur.len() ==> cur[p].len() == 0
    ensures merge(cur) == Seq::<(int, Msg)>::empty()
{ if has_any(cur) { let p = choose|p: int| nonempty(cur, p); assert(false); } }

pub struct CState {
    pub live: Set<int>,
    pub pending: Map<int, Msg>,
    pub rest: Seq<Seq<Msg>>,
    pub out: Seq<(int, Msg)>,
}
pub open spec fn cur_of(s: CState, p: int) -> Seq<Msg> {
    if s.pending.contains_key(p) { seq![s.pending[p]] + s.rest[p] } else { s.rest[p] }
}
pub open spec fn cur(s: CState) -> Seq<Seq<Msg>> { Seq::new(s.rest.len(), |p: int| cur_of(s, p)) }
pub open spec fn inv(src: Seq<Seq<Msg>>, s: CState) -> bool {
    &&& s.rest.len() == src.len()
    &&& s.live.finite() && s.pending.dom().finite()
    &&& forall|p: int| #[trigger] s.live.contains(p) ==> 0 <= p < src.len()
    &&& s.pending.dom().subset_of(s.live)                                       // PL3 / PL4 / PL5
    &&& forall|p: int| 0 <= p < src.len() && !s.live.contains(p) ==> #[trigger] cur_of(s, p).len() == 0
    &&& merge(src) == s.out + merge(cur(s))
}
// PL3 with the recv filter: a live source WITHOUT a pending message delivers the head of its FIFO
pub open spec fn step_recv_new(a: CState, b: CState, p: int) -> bool {
    &&& a.live.contains(p) && !a.pending.contains_key(p) && a.rest[p].len() > 0
    &&& b.live == a.live && b.out == a.out
    &&& b.pending == a.pending.insert(p, a.rest[p][0])
    &&& b.rest == a.rest.update(p, a.rest[p].skip(1))
}
// PL3b + PL5: FileSummary / RecvError -- last datum of the FIFO (unit WRK), receivable only with no pending message
pub open spec fn step_recv_last(a: CState, b: CState, p: int) -> bool {
    &&& a.live.contains(p) && !a.pending.contains_key(p) && a.rest[p].len() == 0
    &&& b.live == a.live.remove(p) && b.out == a.out && b.pending == a.pending && b.rest == a.rest
}
// PL2 false + SEL + PL6 + PL4: every live source has a pending message; the selected one is printed and popped
pub open spec fn sel_min(pending: Map<int, Msg>, p: int) -> bool {
    pending.contains_key(p)
    && forall|q: int| #[trigger] pending.contains_key(q) ==> (pending[p].t < pending[q].t || (pending[p].t == pending[q].t && p <= q))
}
pub open spec fn step_print(a: CState, b: CState, p: int) -> bool {
    &&& a.live.len() == a.pending.dom().len()                                  // PL2 is false
    &&& sel_min(a.pending, p)                                                 // SEL
    &&& b.out == a.out.push((p, a.pending[p]))                                // PL6
    &&& b.pending == a.pending.remove(p) && b.live == a.live && b.rest == a.rest   // PL4
}

pub proof fn lemma_recv_new_preserves(src: Seq<Seq<Msg>>, a: CState, b: CState, p: int)
    requires inv(src, a), step_recv_new(a, b, p)
    ensures inv(src, b)
{
    assert(cur(b) =~= cur(a)) by {
        assert forall|q: int| 0 <= q < a.rest.len() implies cur_of(b, q) == cur_of(a, q) by {
            if q == p { assert(seq![a.rest[p][0]] + a.rest[p].skip(1) =~= a.rest[p]); }
        }
    }
    assert forall|q: int| 0 <= q < src.len() && !b.live.contains(q) implies #[trigger] cur_of(b, q).len() == 0 by {
        assert(cur_of(b, q) == cur_of(a, q));
    }
}
pub proof fn lemma_recv_last_preserves(src: Seq<Seq<Msg>>, a: CState, b: CState, p: int)
    requires inv(src, a), step_recv_last(a, b, p)
    ensures inv(src, b)
{
    assert(cur(b) =~= cur(a));
    assert(b.pending.dom().subset_of(b.live));
    assert forall|q: int| 0 <= q < src.len() && !b.live.contains(q) implies #[trigger] cur_of(b, q).len() == 0 by {
        if q == p { assert(cur_of(b, p) == a.rest[p]); } else { assert(cur_of(b, q) == cur_of(a, q)); assert(!a.live.contains(q)); }
    }
}
pub proof fn lemma_print_preserves(src: Seq<Seq<Msg>>, a: CState, b: CState, p: int)
    requires inv(src, a), step_print(a, b, p)
    ensures inv(src, b)
{
    // |live| == |pending| and dom(pending) subset of live  ==>  dom(pending) == live
    vstd::set_lib::lemma_subset_equality(a.pending.dom(), a.live);
    assert(a.pending.dom() =~= a.live);
    let ca = cur(a);
    assert(is_min(ca, p)) by {
        assert(a.live.contains(p));
        assert(ca[p] == cur_of(a, p));
        assert forall|q: int| nonempty(ca, q) implies (ca[p][0].t < ca[q][0].t || (ca[p][0].t == ca[q][0].t && p <= q)) by {
            assert(ca[q] == cur_of(a, q));
            if !a.live.contains(q) { assert(cur_of(a, q).len() == 0); }
            assert(a.pending.contains_key(q));
        }
    }
    lemma_merge_step(ca, p);
    assert(cur(b) =~= pop(ca, p)) by {
        assert forall|q: int| 0 <= q < a.rest.len() implies #[trigger] cur(b)[q] == pop(ca, p)[q] by {
            if q == p { assert((seq![a.pending[p]] + a.rest[p]).skip(1) =~= a.rest[p]); }
        }
    }
    assert(b.out + merge(cur(b)) =~= a.out + (seq![(p, a.pending[p])] + merge(pop(ca, p))));
    assert forall|q: int| 0 <= q < src.len() && !b.live.contains(q) implies #[trigger] cur_of(b, q).len() == 0 by {
        assert(cur_of(a, q).len() == 0);
    }
}
/// C01 / C06: when the loop exits (PL5: no live source remains) everything has been printed, in merge order --
/// whatever sequence of receive steps (i.e. whatever arrival order / thread schedule) led there
pub proof fn lemma_exit(src: Seq<Seq<Msg>>, s: CState)
    requires inv(src, s), s.live =~= Set::<int>::empty()
    ensures s.out == merge(src)
{
    assert forall|p: int| 0 <= p < cur(s).len() implies cur(s)[p].len() == 0 by { assert(cur_of(s, p).len() == 0); }
    lemma_merge_done(cur(s));
}
/// the initial state satisfies the invariant
pub proof fn lemma_init(src: Seq<Seq<Msg>>, s: CState)
    requires s.live =~= vstd::set_lib::set_int_range(0, src.len() as int), s.pending =~= Map::<int, Msg>::empty(), s.rest == src, s.out.len() == 0
    ensures inv(src, s)
{
    assert(cur(s) =~= src);
    assert(s.live.finite()) by {
        vstd::set_lib::lemma_int_range(0, src.len() as int);
    }
    assert(s.out + merge(cur(s)) =~= merge(src));
}
/// negative control: without the wait condition (PL2) the selected pending message need not be the merge's next
pub proof fn step_print_without_wait__canary(src: Seq<Seq<Msg>>, a: CState, b: CState, p: int)
    requires inv(src, a), sel_min(a.pending, p), b.out == a.out.push((p, a.pending[p])), b.pending == a.pending.remove(p), b.live == a.live, b.rest == a.rest
    ensures inv(src, b)
{}

} // verus!
fn main() {}
