// UNIT PMY — year-less timestamps receive the right year (C11): the whole function SyslogProcessor::process_missing_year
// (src/readers/syslogprocessor.rs) under contract.  The file is a sequence of messages m[0..n) lying one after the other; inst(k, y)
// is the instant message k denotes when its year-less timestamp is read in year y.  After the pass, over the messages it visited
// (a suffix of the file, the whole file unless it stopped strictly before --dt-after):
//   * the last message is dated in the year of the file's modification time read in the log's zone;
//   * every earlier message k is dated in a year y[k] <= y[k+1] such that time does not run backwards from k to k+1 by more than
//     the threshold (25 hours, as the project documents), and the year steps back only where it would have;
// which is the statement of C11 phrased over inst().
// Assumed by contract (stand-ins): SyslineReader::find_sysline_year (the message that covers the offset -- proved in unit SLN --
// dated in the year given; a stored message is handed back as stored; chrono has no instants before year -262143),
// remove_sysline, clear_syslines, dt_after_or_before (units FLT / SRCH), systemtime_to_datetime / DateTime accessors, DateTime
// subtraction / comparison by instants (nanoseconds), chrono::Duration constructors and whole-unit accessors.  The threshold is
// not assumed: the lazy_static item's initialiser is cut from the source as a function and proved to be 25 hours.  Termination is not proved (the year is
// lowered until the jump is gone; that this ends is a calendar fact).
#![allow(unused_imports, non_camel_case_types, dead_code, unused_variables, unused_parens, unused_mut, unused_assignments, non_snake_case, unused_labels)]
use vstd::prelude::*;
use core::cmp::Ordering;
use vstd::std_specs::cmp::*;
use std::sync::Arc;
verus! {

//@include ../common/datetime.rs
pub type FileOffset = u64;
pub type Year = i32;
#[verifier::external_body]
pub struct Error { _p: u8 }
//@cut type kind=enum path=src/common.rs name=ResultS3 derives=
//@end
//@cut type kind=enum path=src/common.rs name=FileProcessingResult derives=
//@end
pub type FileProcessingResultBlockZero = FileProcessingResult<Error>;
//@cut type kind=enum path=src/data/datetime.rs name=Result_Filter_DateTime1 derives=
//@end

// ---- the file as a sequence of messages
pub struct Msg { pub beg: int, pub end: int }
pub open spec fn model_wf(m: Seq<Msg>, fsz: int) -> bool {
    &&& m.len() >= 1 && m[0].beg == 0 && m.last().end == fsz - 1 && fsz < u64::MAX
    &&& forall|k: int| 0 <= k < m.len() ==> (#[trigger] m[k]).beg <= m[k].end
    &&& forall|k: int| 0 <= k < m.len() - 1 ==> (#[trigger] m[k]).end + 1 == m[k + 1].beg
}
/// the instant message k denotes when its timestamp is read in year y
pub uninterp spec fn inst(k: int, y: int) -> int;
/// instants and durations are counted in nanoseconds; the threshold the project documents: "25 hours ... If there is a datetime jump
/// backwards more than this value then a year rollover happened" (the property says "more than a day"; see not_covered)
pub open spec fn jump_threshold() -> int { 90_000_000_000_000int }   // 25 h
/// read in year y, message k lies after the given instant of its successor by more than the threshold
pub open spec fn jump(k: int, y: int, next_inst: int) -> bool { inst(k, y) > next_inst && inst(k, y) - next_inst > jump_threshold() }
pub proof fn lemma_beg_mono(m: Seq<Msg>, fsz: int, i: int, j: int)
    requires model_wf(m, fsz), 0 <= i <= j < m.len()
    ensures m[i].beg <= m[j].beg, i < j ==> m[i].end < m[j].beg
    decreases j - i
{
    if i < j { lemma_beg_mono(m, fsz, i + 1, j); assert(m[i].end + 1 == m[i + 1].beg); }
}

#[verifier::external_body]
pub struct Sysline { _p: u8 }
pub type SyslineP = Arc<Sysline>;
impl Sysline {
    pub uninterp spec fn idx(&self) -> int;
    pub uninterp spec fn dt_spec(&self) -> DateTimeL;
    pub uninterp spec fn beg_spec(&self) -> int;
    pub uninterp spec fn end_spec(&self) -> int;
    #[verifier::external_body]
    pub fn dt(&self) -> (r: &DateTimeL) ensures *r == self.dt_spec() { unimplemented!() }
    #[verifier::external_body]
    pub fn fileoffset_begin(&self) -> (r: FileOffset) ensures r as int == self.beg_spec() { unimplemented!() }
    #[verifier::external_body]
    pub fn fileoffset_end(&self) -> (r: FileOffset) ensures r as int == self.end_spec() { unimplemented!() }
}
pub type ResultS3SyslineFind = ResultS3<(FileOffset, SyslineP), Error>;

pub struct SyslineReader { pub ghost m: Seq<Msg>, pub ghost fsz: int, pub ghost assigned: Map<int, int>, pub ghost has_year: bool }
/// the message that covers offset fo: the one whose last byte is the first at or after fo
pub open spec fn covers(m: Seq<Msg>, fo: int, j: int) -> bool { 0 <= j < m.len() && m[j].end >= fo && (j == 0 || m[j - 1].end < fo) }
impl SyslineReader {
    #[verifier::external_body]
    pub fn dt_pattern_has_year(&self) -> (r: bool) ensures r == self.has_year { unimplemented!() }
    #[verifier::external_body]
    pub fn clear_syslines(&mut self)
        ensures final(self).m == old(self).m, final(self).fsz == old(self).fsz, final(self).has_year == old(self).has_year, final(self).assigned == Map::<int, int>::empty()
    { unimplemented!() }
    #[verifier::external_body]
    pub fn find_sysline_year(&mut self, fileoffset: FileOffset, year_opt: &Option<Year>) -> (r: ResultS3SyslineFind)
        requires *year_opt is Some
        ensures
            final(self).m == old(self).m, final(self).fsz == old(self).fsz, final(self).has_year == old(self).has_year,
            r is Found ==> ({
                let sl = r->Found_0.1; let j = sl.idx();
                &&& covers(old(self).m, fileoffset as int, j) && sl.beg_spec() == old(self).m[j].beg && sl.end_spec() == old(self).m[j].end
                &&& (old(self).assigned.contains_key(j) ==> final(self).assigned == old(self).assigned && instant(sl.dt_spec()) == inst(j, old(self).assigned[j]))
                &&& (!old(self).assigned.contains_key(j) ==> final(self).assigned == old(self).assigned.insert(j, year_opt.unwrap() as int)
                        && instant(sl.dt_spec()) == inst(j, year_opt.unwrap() as int) && year_opt.unwrap() >= -262143)
            }),
            !(r is Found) ==> final(self).assigned == old(self).assigned,
            r is Done ==> fileoffset as int >= old(self).fsz,
    { unimplemented!() }
    #[verifier::external_body]
    pub fn remove_sysline(&mut self, fileoffset: FileOffset) -> (r: bool)
        ensures final(self).m == old(self).m, final(self).fsz == old(self).fsz, final(self).has_year == old(self).has_year,
            forall|j: int| 0 <= j < old(self).m.len() && (#[trigger] old(self).m[j]).beg == fileoffset as int ==> final(self).assigned == old(self).assigned.remove(j),
    { unimplemented!() }
}

// ---- assumed: chrono / helper functions (see SRCH for the same stand-ins)
#[verifier::external_body]
pub struct Duration { _p: u8 }
pub uninterp spec fn dur(d: Duration) -> int;
impl PartialEq for Duration { #[verifier::external_body] fn eq(&self, other: &Self) -> (r: bool) { self._p == other._p } }
impl PartialEqSpecImpl for Duration {
    open spec fn obeys_eq_spec() -> bool { true }
    open spec fn eq_spec(&self, other: &Self) -> bool { dur(*self) == dur(*other) }
}
impl PartialOrd for Duration { #[verifier::external_body] fn partial_cmp(&self, other: &Self) -> (r: Option<Ordering>) { self._p.partial_cmp(&other._p) } }
impl PartialOrdSpecImpl for Duration {
    open spec fn obeys_partial_cmp_spec() -> bool { true }
    open spec fn partial_cmp_spec(&self, other: &Self) -> Option<Ordering> {
        if dur(*self) < dur(*other) { Some(Ordering::Less) } else if dur(*self) == dur(*other) { Some(Ordering::Equal) } else { Some(Ordering::Greater) }
    }
}
#[verifier::external_body]
pub fn verif_dt_sub(a: &DateTimeL, b: &DateTimeL) -> (r: Duration) ensures dur(r) == instant(*a) - instant(*b) { unimplemented!() }
// assumed (chrono::Duration): constructors and whole-unit accessors (truncating toward zero), in nanoseconds
pub open spec fn trunc_div(a: int, b: int) -> int { if a >= 0 { a / b } else { -((-a) / b) } }
impl Duration {
    #[verifier::external_body]
    pub fn try_seconds(n: i64) -> (r: Option<Duration>) ensures -9_000_000_000 <= n <= 9_000_000_000 ==> r is Some, r is Some ==> dur(r.unwrap()) == n * 1_000_000_000 { unimplemented!() }
    #[verifier::external_body]
    pub fn try_minutes(n: i64) -> (r: Option<Duration>) ensures -150_000_000 <= n <= 150_000_000 ==> r is Some, r is Some ==> dur(r.unwrap()) == n * 60 * 1_000_000_000 { unimplemented!() }
    #[verifier::external_body]
    pub fn try_hours(n: i64) -> (r: Option<Duration>) ensures -2_500_000 <= n <= 2_500_000 ==> r is Some, r is Some ==> dur(r.unwrap()) == n * 3600 * 1_000_000_000 { unimplemented!() }
    #[verifier::external_body]
    pub fn try_days(n: i64) -> (r: Option<Duration>) ensures -100_000 <= n <= 100_000 ==> r is Some, r is Some ==> dur(r.unwrap()) == n * 86400 * 1_000_000_000 { unimplemented!() }
    #[verifier::external_body]
    pub fn num_seconds(&self) -> (r: i64) ensures r as int == trunc_div(dur(*self), 1_000_000_000int) { unimplemented!() }
    #[verifier::external_body]
    pub fn num_minutes(&self) -> (r: i64) ensures r as int == trunc_div(dur(*self), 60_000_000_000int) { unimplemented!() }
    #[verifier::external_body]
    pub fn num_hours(&self) -> (r: i64) ensures r as int == trunc_div(dur(*self), 3_600_000_000_000int) { unimplemented!() }
    #[verifier::external_body]
    pub fn num_days(&self) -> (r: i64) ensures r as int == trunc_div(dur(*self), 86_400_000_000_000int) { unimplemented!() }
}
// the threshold as /repo declares it: a lazy_static item (its initialiser is cut as a function) or, should it become one, a const
//@lazystatic path=src/readers/syslogprocessor.rs name=BACKWARDS_TIME_JUMP_MEANS_NEW_YEAR opt=1 ensures="dur(r) == jump_threshold()"
//@cutall kind=const path=src/readers/syslogprocessor.rs re=^BACKWARDS_TIME_JUMP opt=1
pub fn verif_dt_gt(a: &DateTimeL, b: &DateTimeL) -> (r: bool) ensures r == (instant(*a) > instant(*b)) { *a > *b }
#[verifier::external_body]
pub fn dt_after_or_before(dt: &DateTimeL, dt_filter: &DateTimeLOpt) -> (r: Result_Filter_DateTime1)
    ensures r is OccursBefore <==> (*dt_filter is Some && instant(*dt) < instant(dt_filter.unwrap()))
{ unimplemented!() }
#[verifier::external_body]
pub struct FixedOffset { _p: u8 }
#[verifier::external_body]
pub struct SystemTime { _p: u8 }
#[verifier::external_body]
pub struct NaiveDate { _p: u8 }
impl NaiveDate {
    pub uninterp spec fn y(&self) -> int;
    #[verifier::external_body]
    pub fn year(&self) -> (r: i32) ensures r as int == self.y() { unimplemented!() }
}
#[verifier::external_body]
pub struct NaiveDateTimeS { _p: u8 }
impl NaiveDateTimeS {
    pub uninterp spec fn y(&self) -> int;
    #[verifier::external_body]
    pub fn year(&self) -> (r: i32) ensures r as int == self.y() { unimplemented!() }
    #[verifier::external_body]
    pub fn date(&self) -> (r: NaiveDate) ensures r.y() == self.y() { unimplemented!() }
}
pub uninterp spec fn year_in_zone(tz: FixedOffset, t: SystemTime) -> int;
pub uninterp spec fn year_in_utc(t: SystemTime) -> int;
pub uninterp spec fn local_year(dt: DateTimeL) -> int;
pub uninterp spec fn utc_year(dt: DateTimeL) -> int;
impl DateTimeL {
    #[verifier::external_body]
    pub fn date_naive(&self) -> (r: NaiveDate) ensures r.y() == local_year(*self) { unimplemented!() }
    #[verifier::external_body]
    pub fn naive_local(&self) -> (r: NaiveDateTimeS) ensures r.y() == local_year(*self) { unimplemented!() }
    #[verifier::external_body]
    pub fn naive_utc(&self) -> (r: NaiveDateTimeS) ensures r.y() == utc_year(*self) { unimplemented!() }
    #[verifier::external_body]
    pub fn year(&self) -> (r: i32) ensures r as int == local_year(*self) { unimplemented!() }
}
#[verifier::external_body]
pub fn systemtime_to_datetime(tz: &FixedOffset, t: &SystemTime) -> (r: DateTimeL) ensures local_year(r) == year_in_zone(*tz, *t), utc_year(r) == year_in_utc(*t) { unimplemented!() }
#[verifier::external_body]
pub fn systemtime_year(t: &SystemTime) -> (r: Year) ensures r as int == year_in_utc(*t) { unimplemented!() }

//@cut type kind=enum path=src/readers/syslogprocessor.rs name=ProcessingStage derives=Clone,Copy
//@end
pub struct SyslogProcessor { pub syslinereader: SyslineReader, pub tz_offset: FixedOffset, pub missing_year: Option<Year>, pub processingstage: ProcessingStage, pub ghost file_mtime: SystemTime }
/// C11 over the visited suffix [lo, n): each message's year, and the step from each message to its successor
#[verifier::opaque]
pub open spec fn dated_ok(a: Map<int, int>, n: int, lo: int, y_last: int) -> bool {
    &&& 0 <= lo <= n
    &&& forall|k: int| #[trigger] a.contains_key(k) <==> lo <= k < n
    &&& (lo < n ==> a[n - 1] == y_last)
    &&& forall|k: int| lo <= k < n - 1 ==> #[trigger] a[k] <= a[k + 1] && !jump(k, a[k], inst(k + 1, a[k + 1]))
            && forall|y: int| a[k] < y <= a[k + 1] ==> #[trigger] jump(k, y, inst(k + 1, a[k + 1]))
}
pub proof fn lemma_dated_keys(a: Map<int, int>, n: int, lo: int, y_last: int)
    requires dated_ok(a, n, lo, y_last)
    ensures 0 <= lo <= n, forall|k: int| #[trigger] a.contains_key(k) <==> lo <= k < n, lo < n ==> a[n - 1] == y_last
{ reveal(dated_ok); }
pub proof fn lemma_dated_empty(n: int, y_last: int)
    requires n >= 0
    ensures dated_ok(Map::<int, int>::empty(), n, n, y_last)
{ reveal(dated_ok); }
/// one more message, lo - 1, dated in year y
pub proof fn lemma_dated_extend(a: Map<int, int>, n: int, lo: int, y_last: int, y: int)
    requires
        dated_ok(a, n, lo, y_last), lo >= 1,
        lo == n ==> y == y_last,
        lo < n ==> y <= a[lo] && !jump(lo - 1, y, inst(lo, a[lo])) && forall|yy: int| y < yy <= a[lo] ==> #[trigger] jump(lo - 1, yy, inst(lo, a[lo])),
    ensures dated_ok(a.insert(lo - 1, y), n, lo - 1, y_last)
{
    reveal(dated_ok);
    let b = a.insert(lo - 1, y);
    assert forall|k: int| lo - 1 <= k < n - 1 implies #[trigger] b[k] <= b[k + 1] && !jump(k, b[k], inst(k + 1, b[k + 1]))
            && forall|yy: int| b[k] < yy <= b[k + 1] ==> #[trigger] jump(k, yy, inst(k + 1, b[k + 1])) by {
        if k >= lo { assert(b[k] == a[k] && b[k + 1] == a[k + 1]); assert(a[k] <= a[k + 1]); }
    }
}
impl SyslogProcessor {
    pub fn did_process_missing_year(&self) -> (r: bool) ensures r == self.missing_year.is_some() { self.missing_year.is_some() }
    pub fn charsz(&self) -> (r: usize) ensures r == 1 { 1 }
    #[verifier::external_body]
    pub fn assert_stage(&self, stage_expact: ProcessingStage) { unimplemented!() }
    /// SyslogProcessor::mtime -> SyslineReader -> LineReader -> BlockReader::mtime (verified below)
    #[verifier::external_body]
    pub fn mtime(&self) -> (r: SystemTime) ensures r == self.file_mtime { unimplemented!() }
    #[verifier::external_body]
    pub fn fileoffset_last(&self) -> (r: FileOffset) ensures r as int == self.syslinereader.fsz - 1 { unimplemented!() }
    #[verifier::external_body]
    pub fn set_error(&mut self, error: &Error) ensures *final(self) == *old(self) { unimplemented!() }

//@cut fn path=src/readers/syslogprocessor.rs impl=SyslogProcessor name=process_missing_year ret=r rlimit=200
//@replace "*(*syslinep).dt() - *(*syslinep_prev).dt()" "verif_dt_sub((*syslinep).dt(), (*syslinep_prev).dt())"
//@replace "(*syslinep).dt() > (*syslinep_prev).dt()" "verif_dt_gt((*syslinep).dt(), (*syslinep_prev).dt())"
//@replace "*BACKWARDS_TIME_JUMP_MEANS_NEW_YEAR" "BACKWARDS_TIME_JUMP_MEANS_NEW_YEAR()" count=0+
//@replace "pub fn process_missing_year" "#[verifier::exec_allows_no_decreases_clause] pub fn process_missing_year"
//@spec
    requires old(self).missing_year is None, model_wf(old(self).syslinereader.m, old(self).syslinereader.fsz)
    ensures
        final(self).syslinereader.m == old(self).syslinereader.m,
        // C11
        r is FileOk ==> exists|lo: int| #[trigger] dated_ok(final(self).syslinereader.assigned, old(self).syslinereader.m.len() as int, lo, year_in_zone(old(self).tz_offset, mtime))
            // the whole file, unless the pass met a message strictly before --dt-after
            && (lo > 0 ==> lo < old(self).syslinereader.m.len() && *filter_dt_after_opt is Some
                    && inst(lo, final(self).syslinereader.assigned[lo]) < instant(filter_dt_after_opt.unwrap())),
//@at_entry
    let ghost m = self.syslinereader.m; let ghost n = self.syslinereader.m.len() as int; let ghost fsz = self.syslinereader.fsz;
    let ghost y0 = year_in_zone(self.tz_offset, mtime);
    let ghost mut lo: int = n;   // messages [lo, n) are dated
//@before "let mut fo_prev: FileOffset = self.fileoffset_last();"
    proof { lemma_dated_empty(n, y0); }
//@loop 1
            invariant_except_break
                // the next search finds message lo - 1
                lo >= 1, fo_prev as int == (if lo < n { m[lo].beg } else { fsz }) - 1,
                lo == n ==> syslinep_prev_opt is None && year_opt.unwrap() as int == y0,
                lo < n ==> syslinep_prev_opt is Some && syslinep_prev_opt.unwrap().idx() == lo
                    && instant(syslinep_prev_opt.unwrap().dt_spec()) == inst(lo, self.syslinereader.assigned[lo])
                    // the year now tried for message lo - 1: every year above it, up to the successor's, showed the jump
                    && year_opt.unwrap() as int <= self.syslinereader.assigned[lo]
                    && forall|y: int| (year_opt.unwrap() as int) < y <= self.syslinereader.assigned[lo] ==> #[trigger] jump(lo - 1, y, inst(lo, self.syslinereader.assigned[lo])),
            invariant
                self.syslinereader.m == m, self.syslinereader.fsz == fsz, model_wf(m, fsz), n == m.len(), charsz_fo == 1, y0 == year_in_zone(old(self).tz_offset, mtime),
                m == old(self).syslinereader.m, 0 <= lo <= n,
                dated_ok(self.syslinereader.assigned, n, lo, y0),
                year_opt is Some,
            ensures
                lo > 0 ==> lo < n && *filter_dt_after_opt is Some && inst(lo, self.syslinereader.assigned[lo]) < instant(filter_dt_after_opt.unwrap()),
//@before "break;" 1
                    proof { if lo < n { lemma_beg_mono(m, fsz, lo, n - 1); } assert(false); }
//@before "if fo_prev >= fo_prev_prev {"
            proof { if lo + 1 < n { lemma_beg_mono(m, fsz, lo, lo + 1); } else { lemma_beg_mono(m, fsz, lo, n - 1); } assert(fo_prev < fo_prev_prev); }
//@before "let syslinep: SyslineP = match self"
            let ghost a0 = self.syslinereader.assigned;
            proof {
                lemma_dated_keys(a0, n, lo, y0);
                if lo < n { lemma_beg_mono(m, fsz, lo - 1, lo); }
                if lo - 1 > 0 { assert(m[lo - 2].end + 1 == m[lo - 1].beg); }
                assert(covers(m, fo_prev as int, lo - 1));
            }
//@after "let fo_prev_prev: FileOffset = fo_prev;"
            let ghost yy = year_opt.unwrap() as int;
            proof {
                let j = syslinep.idx();
                assert(j == lo - 1) by {
                    if j < lo - 1 { lemma_beg_mono(m, fsz, j, lo - 1); }
                    if j > lo - 1 { lemma_beg_mono(m, fsz, lo - 1, j - 1); }
                }
                assert(!a0.contains_key(lo - 1));
                assert(self.syslinereader.assigned == a0.insert(lo - 1, yy));
                assert(instant(syslinep.dt_spec()) == inst(lo - 1, yy));
            }
//@before "re:year_opt = Some\(" *
                            proof { assert(m[lo - 1].beg == fo_prev as int); }
//@before "continue;"
                            proof {
                                assert(self.syslinereader.assigned =~= a0);
                                assert(jump(lo - 1, yy, inst(lo, a0[lo])));
                            }
//@before "if fo_prev < charsz_fo {"
            proof {
                // message lo - 1 keeps year yy: no jump to its successor
                if lo < n { assert(!jump(lo - 1, yy, inst(lo, a0[lo]))); }
                lemma_dated_extend(a0, n, lo, y0, yy);
                lo = lo - 1;
                lemma_dated_keys(self.syslinereader.assigned, n, lo, y0);
                assert(self.syslinereader.assigned[lo] == yy);
                if lo == 0 { assert(m[0].beg == 0); } else { lemma_beg_mono(m, fsz, 0, lo); }
            }
//@mutate "year_opt = Some(year_opt.unwrap() - 1);" "year_opt = Some(year_opt.unwrap() - 2);"
//@mutate "syslinep_prev_opt = Some(syslinep_prev.clone());" "syslinep_prev_opt = Some(syslinep.clone());"
//@end
//@cut fn path=src/readers/syslogprocessor.rs impl=SyslogProcessor name=process_stage2_find_dt ret=r
//@spec
    requires old(self).missing_year is None, model_wf(old(self).syslinereader.m, old(self).syslinereader.fsz)
    ensures
        // C11: a notation without a year => the pass is run, from the file's modification time
        r is FileOk && !old(self).syslinereader.has_year ==> exists|lo: int| #[trigger] dated_ok(final(self).syslinereader.assigned, old(self).syslinereader.m.len() as int, lo, year_in_zone(old(self).tz_offset, old(self).file_mtime))
            && (lo > 0 ==> lo < old(self).syslinereader.m.len() && *filter_dt_after_opt is Some
                    && inst(lo, final(self).syslinereader.assigned[lo]) < instant(filter_dt_after_opt.unwrap())),
        // a notation with a year => nothing is re-dated
        old(self).syslinereader.has_year ==> final(self).syslinereader.assigned == old(self).syslinereader.assigned && r is FileOk,
//@end
}

// =====================================================================================================
// which modification time the pass starts from: for .gz and .tar the time stored inside (when there is one), else the file's own
// (BlockReader::mtime, src/readers/blockreader.rs), and SyslogProcessor::process_stage2_find_dt runs the pass, with that time,
// exactly for a notation without a year; GZ-MTIME: the statements of BlockReader::new that take the stored time from the gzip header
impl Copy for SystemTime {}
impl Clone for SystemTime { #[verifier::external_body] fn clone(&self) -> (r: Self) ensures r == *self { unimplemented!() } }
pub uninterp spec fn st_of_secs(s: u64) -> SystemTime;
#[verifier::external_body]
pub fn seconds_to_systemtime(seconds: &u64) -> (r: SystemTime) ensures r == st_of_secs(*seconds) { unimplemented!() }
//@cut type kind=enum path=src/common.rs name=FileTypeArchive derives=Clone,Copy
//@end
//@cut type kind=enum path=src/common.rs name=FileTypeFixedStruct derives=Clone,Copy
//@end
//@cut type kind=enum path=src/common.rs name=FileTypeTextEncoding derives=Clone,Copy
//@end
//@cut type kind=enum path=src/common.rs name=FileType derives=Clone,Copy
//@end
pub struct GzData { pub mtime: u32 }
pub struct TarData { pub mtime: u64 }
pub struct BlockReader { pub filetype: FileType, pub file_metadata_modified: SystemTime, pub gz: Option<GzData>, pub tar: Option<TarData> }
pub open spec fn is_gz(ft: FileType) -> bool { ft matches FileType::Text { archival_type: FileTypeArchive::Gz, .. } || ft matches FileType::FixedStruct { archival_type: FileTypeArchive::Gz, .. } }
pub open spec fn is_tar(ft: FileType) -> bool { ft matches FileType::Text { archival_type: FileTypeArchive::Tar, .. } || ft matches FileType::FixedStruct { archival_type: FileTypeArchive::Tar, .. } }
impl BlockReader {
//@cut fn path=src/readers/blockreader.rs impl=BlockReader name=mtime ret=r
//@spec
    requires
        !(self.filetype is Evtx) && !(self.filetype is Journal) && !(self.filetype is Unparsable),
        is_gz(self.filetype) ==> self.gz is Some, is_tar(self.filetype) ==> self.tar is Some,
    ensures
        // C11: the time stored inside a .gz / .tar when there is one, the file's own otherwise
        is_gz(self.filetype) ==> r == (if self.gz.unwrap().mtime != 0 { st_of_secs(self.gz.unwrap().mtime as u64) } else { self.file_metadata_modified }),
        is_tar(self.filetype) ==> r == (if self.tar.unwrap().mtime != 0 { st_of_secs(self.tar.unwrap().mtime as u64) } else { self.file_metadata_modified }),
        !is_gz(self.filetype) && !is_tar(self.filetype) ==> r == self.file_metadata_modified,
//@end
}

// the time stored inside a .gz: the statements of BlockReader::new that take it from the gzip header -- whenever there is a header,
// whatever else the header holds (a file made with `gzip < in > out.gz` stores a time but no name)
#[verifier::external_body]
pub struct GzHeader { _p: u8 }
impl GzHeader {
    pub uninterp spec fn mtime_spec(&self) -> u32;
    #[verifier::external_body]
    pub fn mtime(&self) -> (r: u32) ensures r == self.mtime_spec() { unimplemented!() }
    #[verifier::external_body]
    pub fn filename(&self) -> (r: Option<&[u8]>) { unimplemented!() }
}
#[verifier::external_body]
pub struct FromUtf8Error { _p: u8 }
#[verifier::external_body]
pub struct String { _p: u8 }
impl String {
    #[verifier::external_body]
    pub fn from_utf8(v: Vec<u8>) -> (r: core::result::Result<String, FromUtf8Error>) { unimplemented!() }
    #[verifier::external_body]
    pub fn with_capacity(n: usize) -> (r: String) { unimplemented!() }
}
impl core::default::Default for String { #[verifier::external_body] fn default() -> (r: String) { unimplemented!() } }
pub assume_specification<T: core::default::Default, E>[core::result::Result::<T, E>::unwrap_or_default](r: core::result::Result<T, E>) -> (o: T);
#[verifier::external_body]
pub fn verif_to_vec(s: &[u8]) -> (r: Vec<u8>) ensures r@ == s@ { unimplemented!() }   // stand-in: <[u8]>::to_vec
pub fn gz_header_mtime(header_opt: Option<&GzHeader>, filename0: String) -> (r: u32)
    ensures header_opt is Some ==> r == header_opt.unwrap().mtime_spec(), header_opt is None ==> r == 0
{
    let mut filename: String = filename0;
//@cut slice path=src/readers/blockreader.rs impl=BlockReader fn=new anchor="let mut mtime: u32 = 0;" take=range end_anchor="match header_opt {" label=GZ-MTIME
//@replace "filename_.to_vec()" "verif_to_vec(filename_)" count=0+
//@end
    mtime
}

/// vacuity guard: must NOT verify
pub proof fn pmy__canary(m: Seq<Msg>)
    requires model_wf(m, 100), m.len() == 3
    ensures false
{}

} // verus!
fn main() {}
