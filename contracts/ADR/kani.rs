// UNIT ADR (Kani, loop-free over all values of the four address words: complete) — FixedStruct::as_bytes, the two Linux utmpx arms:
// a record's remote address is printed as an IPv4 address (from word 0 alone) ONLY when words 1, 2 and 3 are all zero; otherwise
// all four words are printed.  (C08: "each printed line shows that record's own field values": two records with different
// addresses must not print the same address.)  The condition of each `if`, cut from the code.
// ASSUMED: nothing about the condition; how the words are then turned into text (the set_buffer_at_or_err_* macros) is outside.
#![allow(dead_code, unused_variables, unused_mut, non_upper_case_globals, non_snake_case, non_camel_case_types)]

pub struct utmpx_addr { pub ut_addr_v6: [i32; 4] }

pub fn is_ipv4_arm64(utmpx: &utmpx_addr) -> bool {
//@cut slice path=src/data/fixedstruct.rs impl=FixedStruct fn=as_bytes anchor="if utmpx.ut_addr_v6[1.." k=1 take=cond label=ADR-ARM64
//@end
}
pub fn is_ipv4_x86(utmpx: &utmpx_addr) -> bool {
//@cut slice path=src/data/fixedstruct.rs impl=FixedStruct fn=as_bytes anchor="if utmpx.ut_addr_v6[1.." k=2 take=cond label=ADR-X86
//@end
}

#[cfg(kani)]
#[kani::proof]
fn adr_arm64() {
    let u = utmpx_addr { ut_addr_v6: [kani::any(), kani::any(), kani::any(), kani::any()] };
    assert!(is_ipv4_arm64(&u) == (u.ut_addr_v6[1] == 0 && u.ut_addr_v6[2] == 0 && u.ut_addr_v6[3] == 0));
}
#[cfg(kani)]
#[kani::proof]
fn adr_x86() {
    let u = utmpx_addr { ut_addr_v6: [kani::any(), kani::any(), kani::any(), kani::any()] };
    assert!(is_ipv4_x86(&u) == (u.ut_addr_v6[1] == 0 && u.ut_addr_v6[2] == 0 && u.ut_addr_v6[3] == 0));
}
#[cfg(kani)]
#[kani::proof]
fn adr_control_must_fail() {
    let u = utmpx_addr { ut_addr_v6: [kani::any(), kani::any(), kani::any(), kani::any()] };
    assert!(is_ipv4_x86(&u) == (u.ut_addr_v6[1] == 0 && u.ut_addr_v6[2] == 0));
}
