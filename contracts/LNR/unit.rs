// UNIT LNR — LineReader::find_line: the Line handed out for an offset is the file's line around that offset, whatever the block
// size (C12, C02).  The whole 750-line function against a contract on the file's bytes; the block reader (unit RBK), LinePart /
// Line (unit BLK) and the reader's own stores are assumed by their contracts.  PARTIAL correctness for the multi-block loops'
// termination is included (decreases), the stores' representation invariant is assumed (stand-ins).
#![feature(allocator_api)]
#![allow(unused_imports, non_camel_case_types, dead_code, unused_variables, unused_parens, unused_mut, unused_assignments, non_snake_case, unused_labels, non_upper_case_globals)]
use vstd::prelude::*;
use vstd::arithmetic::div_mod::*;
use std::sync::Arc;
verus! {

global size_of usize == 8;
pub type Count = u64;
pub type FileOffset = u64;
pub type FileSz = u64;
pub type BlockOffset = u64;
pub type BlockIndex = usize;
pub type BlockSz = u64;
pub type CharSz = usize;
pub type Block = Vec<u8>;
pub type BlockP = Arc<Block>;
//@cut type kind=const path=src/common.rs name=NLu8
//@end
#[verifier::external_body]
pub struct Error { _p: u8 }
#[verifier::external_body]
pub struct FPath { _p: u8 }
//@cut type kind=enum path=src/common.rs name=ResultS3 derives=
//@end
pub type ResultS3ReadBlock = ResultS3<BlockP, Error>;

/// the bytes of block `bo` of a file read with block size `bs`
pub open spec fn fblock(file: Seq<u8>, bs: int, bo: int) -> Seq<u8> {
    file.subrange(bo * bs, if (bo + 1) * bs <= file.len() { (bo + 1) * bs } else { file.len() as int })
}
pub open spec fn sp_last(filesz: int, bsz: int) -> int { if filesz == 0 { 0 } else { (if filesz % bsz > 0 { filesz / bsz + 1 } else { filesz / bsz }) - 1 } }

// ---- assumed (unit BLK proves these for the real LinePart / Line): a part is a range of one block; a line is a sequence of parts
pub struct LinePart { pub blockp: BlockP, pub blocki_beg: BlockIndex, pub blocki_end: BlockIndex, pub fileoffset: FileOffset, pub blockoffset: BlockOffset, pub blocksz: BlockSz }
pub open spec fn lp_wf(lp: LinePart) -> bool {
    &&& lp.blocksz >= 1
    &&& lp.blockoffset as int == lp.fileoffset as int / lp.blocksz as int
    &&& lp.blocki_beg as int == lp.fileoffset as int % lp.blocksz as int
    &&& lp.blocki_beg < lp.blocki_end
    &&& lp.blocki_end as int <= lp.blocksz as int
    &&& lp.blocki_end - lp.blocki_beg <= lp.blockp@.len()
    &&& lp.blockp@.len() <= lp.blocksz as int
}
pub open spec fn lp_len(lp: LinePart) -> int { lp.blocki_end - lp.blocki_beg }
impl LinePart {
    #[verifier::external_body]
    pub fn new(blockp: BlockP, blocki_beg: BlockIndex, blocki_end: BlockIndex, fileoffset: FileOffset, blockoffset: BlockOffset, blocksz: BlockSz) -> (r: LinePart)
        requires
            blocksz >= 1, fileoffset < u64::MAX, (blockoffset as int + 1) * blocksz as int <= u64::MAX,
            blockoffset as int == fileoffset as int / blocksz as int, blocki_beg as int == fileoffset as int % blocksz as int,
            blocki_beg < blocki_end, blocki_end as int <= blocksz as int, blocki_end - blocki_beg <= blockp@.len(), blockp@.len() <= blocksz as int,
        ensures
            lp_wf(r), r.blockp == blockp, r.blocki_beg == blocki_beg, r.blocki_end == blocki_end, r.fileoffset == fileoffset, r.blockoffset == blockoffset, r.blocksz == blocksz,
    { unimplemented!() }
}
pub struct Line { pub lineparts: Vec<LinePart> }
pub type LineP = Arc<Line>;
pub open spec fn parts_len(s: Seq<LinePart>) -> int decreases s.len() { if s.len() == 0 { 0 } else { parts_len(s.drop_last()) + lp_len(s.last()) } }
impl Line {
    #[verifier::external_body]
    pub fn new() -> (r: Line) ensures r.lineparts@.len() == 0 { unimplemented!() }
    #[verifier::external_body]
    pub fn append(&mut self, linepart: LinePart)
        requires old(self).lineparts@.len() > 0 ==> old(self).lineparts@.last().blockoffset <= linepart.blockoffset && old(self).lineparts@.last().fileoffset < linepart.fileoffset
        ensures final(self).lineparts@ == old(self).lineparts@.push(linepart)
    { unimplemented!() }
    #[verifier::external_body]
    pub fn prepend(&mut self, linepart: LinePart)
        requires old(self).lineparts@.len() > 0 ==> old(self).lineparts@[0].blockoffset >= linepart.blockoffset && old(self).lineparts@[0].fileoffset > linepart.fileoffset
        ensures final(self).lineparts@ == old(self).lineparts@.insert(0, linepart)
    { unimplemented!() }
    #[verifier::external_body]
    pub fn count_lineparts(&self) -> (r: usize) ensures r == self.lineparts@.len() { unimplemented!() }
    #[verifier::external_body]
    pub fn stores_blockoffset(&self, blockoffset: BlockOffset) -> (r: bool)
        ensures r == exists|i: int| 0 <= i < self.lineparts@.len() && (#[trigger] self.lineparts@[i]).blockoffset == blockoffset
    { unimplemented!() }
    #[verifier::external_body]
    pub fn fileoffset_end(&self) -> (r: FileOffset)
        requires self.lineparts@.len() > 0
        ensures r as int == self.lineparts@.last().fileoffset + lp_len(self.lineparts@.last()) - 1
    { unimplemented!() }
    #[verifier::external_body]
    pub fn fileoffset_begin(&self) -> (r: FileOffset)
        requires self.lineparts@.len() > 0
        ensures r == self.lineparts@[0].fileoffset
    { unimplemented!() }
}

// ---- spec: what a line of the file is
pub open spec fn no_nl(f: Seq<u8>, lo: int, hi: int) -> bool { forall|i: int| lo <= i < hi ==> f[i] != 10u8 }
/// [beg, end] is a line of f: starts at 0 or right after a newline, holds no newline before its last byte, ends with a newline or
/// at the end of the file
pub open spec fn is_line(f: Seq<u8>, beg: int, end: int) -> bool {
    &&& 0 <= beg <= end < f.len()
    &&& (beg == 0 || f[beg - 1] == 10u8)
    &&& no_nl(f, beg, end)
    &&& (f[end] == 10u8 || end == f.len() - 1)
}
/// every part holds the true bytes of its block (so the line's bytes are the file's bytes in [beg, end])
pub open spec fn part_true(f: Seq<u8>, bs: int, lp: LinePart) -> bool { lp_wf(lp) && lp.blocksz as int == bs && lp.blockp@ == fblock(f, bs, lp.blockoffset as int) }
pub open spec fn line_true(f: Seq<u8>, bs: int, l: Line) -> bool {
    &&& l.lineparts@.len() >= 1
    &&& forall|i: int| 0 <= i < l.lineparts@.len() ==> part_true(f, bs, #[trigger] l.lineparts@[i])
    &&& forall|i: int| 0 <= i < l.lineparts@.len() - 1 ==> (#[trigger] l.lineparts@[i + 1]).fileoffset as int == l.lineparts@[i].fileoffset as int + lp_len(l.lineparts@[i])
}
pub open spec fn l_beg(l: Line) -> int { l.lineparts@[0].fileoffset as int }
pub open spec fn l_end(l: Line) -> int { l.lineparts@.last().fileoffset as int + lp_len(l.lineparts@.last()) - 1 }
/// e is where the line that contains fo ends
pub open spec fn is_endpoint(f: Seq<u8>, fo: int, e: int) -> bool { fo <= e < f.len() && no_nl(f, fo, e) && (f[e] == 10u8 || e == f.len() - 1) }
/// b is where the line that contains fo begins
pub open spec fn is_startpoint(f: Seq<u8>, fo: int, b: int) -> bool { 0 <= b <= fo && no_nl(f, b, fo) && (b == 0 || f[b - 1] == 10u8) }
/// the parts collected for the blocks after the one that holds the offset: true, contiguous, starting at that block's end, ending at e
pub open spec fn tail_ok(l: Line, f: Seq<u8>, bs: int, bo_m: int, e: int) -> bool {
    &&& forall|i: int| 0 <= i < l.lineparts@.len() ==> part_true(f, bs, #[trigger] l.lineparts@[i]) && l.lineparts@[i].blockoffset as int == bo_m + 1 + i
            && l.lineparts@[i].fileoffset as int == (bo_m + 1 + i) * bs
    &&& forall|i: int| 0 <= i < l.lineparts@.len() - 1 ==> lp_len(#[trigger] l.lineparts@[i]) == bs
    &&& l.lineparts@.len() > 0 ==> l_end(l) == e
}
/// C12 / C02: the Line is the line of the file around `fo`
pub open spec fn good_line(f: Seq<u8>, bs: int, l: Line, fo: int) -> bool {
    line_true(f, bs, l) && is_line(f, l_beg(l), l_end(l)) && l_beg(l) <= fo <= l_end(l)
}


/// block `bo` of the file: its length, its bytes, and where it sits among the blocks
pub proof fn lemma_block(f: Seq<u8>, bs: int, bo: int)
    requires bs >= 1, bo >= 0, bo * bs < f.len()
    ensures
        fblock(f, bs, bo).len() == (if f.len() - bo * bs < bs { f.len() - bo * bs } else { bs }),
        fblock(f, bs, bo).len() >= 1,
        forall|i: int| 0 <= i < fblock(f, bs, bo).len() ==> #[trigger] fblock(f, bs, bo)[i] == f[bo * bs + i],
        (bo + 1) * bs == bo * bs + bs, bo * bs >= 0,
        bo <= sp_last(f.len() as int, bs),
        bo == sp_last(f.len() as int, bs) <==> bo * bs + fblock(f, bs, bo).len() == f.len(),
        bo < sp_last(f.len() as int, bs) ==> fblock(f, bs, bo).len() == bs && (bo + 1) * bs < f.len(),
{
    assert((bo + 1) * bs == bo * bs + bs) by (nonlinear_arith);
    assert(bo * bs >= 0) by (nonlinear_arith) requires bo >= 0, bs >= 1;
    let n = f.len() as int;
    let q = n / bs;
    lemma_fundamental_div_mod(n, bs);
    lemma_mod_bound(n, bs);
    assert(bs * q == q * bs) by (nonlinear_arith);
    // last = ceil(n / bs) - 1
    let last = sp_last(n, bs);
    if n % bs > 0 {
        assert(last == q);
        if bo > q { assert(bo * bs >= (q + 1) * bs) by (nonlinear_arith) requires bo >= q + 1, bs >= 1; assert((q + 1) * bs == q * bs + bs) by (nonlinear_arith); }
        if bo < q { assert((bo + 1) * bs <= q * bs) by (nonlinear_arith) requires bo + 1 <= q, bs >= 1; }
    } else {
        assert(last == q - 1);
        if bo > q - 1 { assert(bo * bs >= q * bs) by (nonlinear_arith) requires bo >= q, bs >= 1; }
        if bo < q - 1 { assert((bo + 1) * bs <= (q - 1) * bs) by (nonlinear_arith) requires bo + 1 <= q - 1, bs >= 1; assert((q - 1) * bs == q * bs - bs) by (nonlinear_arith); }
        if bo == q - 1 { assert((q - 1) * bs == q * bs - bs) by (nonlinear_arith); }
    }
}
/// offset <-> (block, index)
pub proof fn lemma_offs(fo: int, bs: int)
    requires bs >= 1, fo >= 0
    ensures (fo / bs) * bs + fo % bs == fo, 0 <= fo % bs < bs, fo / bs >= 0, (fo / bs) * bs <= fo,
{
    lemma_fundamental_div_mod(fo, bs);
    lemma_mod_bound(fo, bs);
    lemma_div_pos_is_pos(fo, bs);
    assert(bs * (fo / bs) == (fo / bs) * bs) by (nonlinear_arith);
}
/// where a byte of block `bo` sits in the file: its offset splits back into (bo, bi)
pub proof fn lemma_split(bo: int, bi: int, bs: int)
    requires bs >= 1, bo >= 0, 0 <= bi < bs
    ensures (bo * bs + bi) / bs == bo, (bo * bs + bi) % bs == bi
{
    lemma_fundamental_div_mod_converse(bo * bs + bi, bs, bo, bi);
}

// ---- assumed: the block reader (contract proved in unit RBK for plain files)
#[verifier::external_body]
pub struct BlockReader { _p: u8 }
impl BlockReader {
    pub uninterp spec fn file(&self) -> Seq<u8>;
    pub uninterp spec fn bs(&self) -> int;
    #[verifier::external_body]
    pub fn read_block(&mut self, blockoffset: BlockOffset) -> (r: ResultS3ReadBlock)
        ensures final(self).file() == old(self).file(), final(self).bs() == old(self).bs(),
            r is Found ==> r->Found_0@ == fblock(old(self).file(), old(self).bs(), blockoffset as int),
    { unimplemented!() }
}
pub type ResultS3LineFind = ResultS3<(FileOffset, LineP), Error>;
#[verifier::external_body]
pub struct LinesLRUCache { _p: u8 }
impl LinesLRUCache {
    #[verifier::external_body]
    pub fn put(&mut self, k: FileOffset, v: ResultS3LineFind) { unimplemented!() }
}
/// the reader's own store of lines, by what it holds (ghost): every stored line is a true line of the file -- ASSUMED here
/// (it is find_line's own postcondition that establishes it, line by line)
#[verifier::external_body]
pub struct FoToLine { _p: u8 }
pub struct LineReader {
    pub blockreader: BlockReader,
    pub lines: FoToLine,
    pub charsz_: CharSz,
    pub find_line_lru_cache_enabled: bool,
    pub find_line_lru_cache: LinesLRUCache,
    pub find_line_lru_cache_put: Count,
    pub lines_hits: Count,
    pub lines_miss: Count,
}
impl FoToLine {
    /// is a line stored that begins at `k`
    pub uninterp spec fn has(&self, k: FileOffset) -> bool;
    pub uninterp spec fn at(&self, k: FileOffset) -> LineP;
    #[verifier::external_body]
    pub fn contains_key(&self, k: &FileOffset) -> (r: bool) ensures r == self.has(*k) { unimplemented!() }
    #[verifier::external_body]
    pub fn get_clone(&self, k: &FileOffset) -> (r: LineP) requires self.has(*k) ensures r == self.at(*k) { unimplemented!() }
}
impl LineReader {
    pub open spec fn f(&self) -> Seq<u8> { self.blockreader.file() }
    pub open spec fn bs(&self) -> int { self.blockreader.bs() }
    pub open spec fn wf(&self) -> bool {
        &&& self.charsz_ == 1 && self.bs() >= 1 && self.f().len() + self.bs() < u64::MAX
        // store invariant (assumed): every stored line is a true line of the file, keyed by its first byte
        &&& forall|k: FileOffset| #[trigger] self.lines.has(k) ==> line_true(self.f(), self.bs(), *self.lines.at(k)) && is_line(self.f(), l_beg(*self.lines.at(k)), l_end(*self.lines.at(k))) && l_beg(*self.lines.at(k)) == k
    }
    pub open spec fn same(&self, o: &Self) -> bool { self.f() == o.f() && self.bs() == o.bs() && self.charsz_ == o.charsz_ }
    /// some stored line covers byte `fo`
    pub uninterp spec fn covered(&self, fo: int) -> bool;
    #[verifier::external_body]
    pub fn path(&self) -> &FPath { unimplemented!() }
    #[verifier::external_body]
    pub fn filesz(&self) -> (r: FileSz) ensures r as int == self.f().len() { unimplemented!() }
    #[verifier::external_body]
    pub fn blocksz(&self) -> (r: BlockSz) ensures r as int == self.bs() { unimplemented!() }
    // assumed here (proved in unit BLK): the offset arithmetic
    #[verifier::external_body]
    pub fn blockoffset_last(&self) -> (r: BlockOffset) requires self.bs() >= 1 ensures r as int == sp_last(self.f().len() as int, self.bs()) { unimplemented!() }
    #[verifier::external_body]
    pub fn block_offset_at_file_offset(&self, fileoffset: FileOffset) -> (r: BlockOffset) requires self.bs() >= 1 ensures r as int == fileoffset as int / self.bs() { unimplemented!() }
    #[verifier::external_body]
    pub fn block_index_at_file_offset(&self, fileoffset: FileOffset) -> (r: BlockIndex) requires self.bs() >= 1 ensures r as int == fileoffset as int % self.bs() { unimplemented!() }
    #[verifier::external_body]
    pub fn file_offset_at_block_offset_index(&self, blockoffset: BlockOffset, blockindex: BlockIndex) -> (r: FileOffset)
        requires blockoffset * self.bs() + blockindex <= u64::MAX
        ensures r as int == blockoffset * self.bs() + blockindex
    { unimplemented!() }
    /// ASSUMED: the two look-ups return only what find_line stored earlier -- the line around the offset and the offset after it
    #[verifier::external_body]
    pub fn check_store_LRU(&mut self, fileoffset: FileOffset) -> (r: Option<ResultS3LineFind>)
        ensures final(self).same(old(self)), final(self).lines == old(self).lines, final(self).wf() == old(self).wf(),
            r is Some && r.unwrap() is Found ==> good_line(old(self).f(), old(self).bs(), *r.unwrap()->Found_0.1, fileoffset as int) && r.unwrap()->Found_0.0 as int == l_end(*r.unwrap()->Found_0.1) + 1,
    { unimplemented!() }
    #[verifier::external_body]
    pub fn check_store(&mut self, fileoffset: FileOffset) -> (r: Option<ResultS3LineFind>)
        ensures final(self).same(old(self)), final(self).lines == old(self).lines, final(self).wf() == old(self).wf(),
            r is Some && r.unwrap() is Found ==> good_line(old(self).f(), old(self).bs(), *r.unwrap()->Found_0.1, fileoffset as int) && r.unwrap()->Found_0.0 as int == l_end(*r.unwrap()->Found_0.1) + 1,
            // a miss: no stored line covers the offset
            r is None ==> forall|k: FileOffset| #[trigger] old(self).lines.has(k) ==> !(l_beg(*old(self).lines.at(k)) <= fileoffset as int <= l_end(*old(self).lines.at(k))),
    { unimplemented!() }
    /// ASSUMED: the stored line that covers the offset, if any
    #[verifier::external_body]
    pub fn get_linep(&self, fileoffset: &FileOffset) -> (r: Option<LineP>)
        ensures r is Some ==> exists|k: FileOffset| #[trigger] self.lines.has(k) && r.unwrap() == self.lines.at(k) && l_beg(*self.lines.at(k)) <= *fileoffset as int <= l_end(*self.lines.at(k)),
    { unimplemented!() }
    /// ASSUMED: insert_line wraps the line in an Arc and records it (the stores are not modelled beyond `lines`)
    #[verifier::external_body]
    pub fn insert_line(&mut self, line: Line) -> (r: LineP)
        ensures *r == line, final(self).same(old(self)),
    { unimplemented!() }

//@cut fn path=src/readers/linereader.rs impl=LineReader name=find_line ret=r
//@replace "pub fn find_line" "#[verifier::exec_allows_no_decreases_clause] pub fn find_line"
//@replace "self.find_line_lru_cache_put += 1;" "verif_count_inc(&mut self.find_line_lru_cache_put);" count=*
//@replace "self.lines_hits += 1;" "verif_count_inc(&mut self.lines_hits);"
//@replace "self.lines_miss += 1;" "verif_count_inc(&mut self.lines_miss);"
//@replace "self.lines[&fo_nl_a].clone()" "self.lines.get_clone(&fo_nl_a)"
//@replace "std::cmp::max(fileoffset, charsz_fo)" "verif_max(fileoffset, charsz_fo)"
//@replace "const BI_STOP: BlockIndex = 0;" "let BI_STOP: BlockIndex = 0;" count=2
//@replace "const BI_UNINIT: BlockIndex = usize::MAX;" "let BI_UNINIT: BlockIndex = usize::MAX;"
//@spec
    requires old(self).wf()
    ensures
        final(self).same(old(self)),
        // C12 / C02: whatever the block size, the Line returned is the line of the file around `fileoffset` -- its parts hold the
        // file's own bytes, contiguous from the byte after the previous newline to the next newline (or the end of the file) --
        // and the offset returned with it is the first byte after it
        r is Found ==> good_line(old(self).f(), old(self).bs(), *r->Found_0.1, fileoffset as int) && r->Found_0.0 as int == l_end(*r->Found_0.1) + 1,
//@before "let mut found_nl_a = false;"
        let ghost f = self.f();
        let ghost bs = self.bs();
        let ghost fsz = f.len() as int;
        let ghost sp0 = *self;
        proof { lemma_offs(fileoffset as int, bs); }
//@after "let mut bi_middle_end: BlockIndex = bi_middle;"
        proof { lemma_block(f, bs, bo_middle as int); }
        let ghost mbase = bo_middle as int * bs;
//@loop 1
                invariant_except_break
                    bi_middle <= bi_at < bi_stop, !found_nl_b, bi_middle_end == bi_middle, !fo_nl_b_in_middle,
                    no_nl(f, fileoffset as int, mbase + bi_at),
                invariant
                    self.same(&sp0), f == self.f(), bs == self.bs(), fsz == f.len(), bs >= 1, fsz + bs < u64::MAX, charsz_bi == 1,
                    bptr_middle@ == fblock(f, bs, bo_middle as int), bi_stop == bptr_middle@.len(), mbase == bo_middle as int * bs, mbase + bi_middle == fileoffset,
                    mbase + bi_stop <= fsz, mbase >= 0,
                    forall|i: int| 0 <= i < bptr_middle@.len() ==> #[trigger] bptr_middle@[i] == f[mbase + i],
                    !nl_b_eof, line.lineparts@.len() == 0,
                ensures
                    bi_middle <= bi_at <= bi_stop,
                    found_nl_b ==> bi_at < bi_stop && f[mbase + bi_at] == 10u8 && no_nl(f, fileoffset as int, mbase + bi_at) && fo_nl_b as int == mbase + bi_at && bi_middle_end == bi_at && fo_nl_b_in_middle,
                    !found_nl_b ==> bi_at == bi_stop && no_nl(f, fileoffset as int, mbase + bi_stop) && bi_middle_end == bi_middle && !fo_nl_b_in_middle,
                decreases bi_stop - bi_at,
//@end
}
/// stand-in (R9) for `counter += 1` on a u64 statistics counter: assumed not to overflow
#[verifier::external_body]
pub fn verif_count_inc(c: &mut Count) { unimplemented!() }
pub fn verif_max(a: FileOffset, b: FileOffset) -> (r: FileOffset) ensures r == (if a >= b { a } else { b }) { if a >= b { a } else { b } }

} // verus!
fn main() {}
