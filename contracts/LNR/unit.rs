// UNIT LNR — LineReader::find_line and the reader's line stores: the Line handed out for an offset is the file's line around that
// offset, whatever the block size (C12, C02).  Under contract: find_line (whole 750-line function, six loops, termination included),
// find_line_in_block (whole function, two loops),
// insert_line (its two debug assertions are proved at every call site), get_linep, lines_contains, check_store, check_store_LRU.
// The store invariant (every stored line is a true line of the file keyed by its first byte, its last byte recorded in
// foend_to_fobeg and vice versa, every cached answer is the good line around its key) is required on entry and re-established on exit.
// Assumed by contract: the block reader (unit RBK), LinePart / Line (unit BLK), the lru crate's get / put by their view,
// `BTreeMap::range(k..).next()` (stand-in: least key >= k), vstd's BTreeMap specs.
#![feature(allocator_api)]
#![allow(unused_imports, non_camel_case_types, dead_code, unused_variables, unused_parens, unused_mut, unused_assignments, non_snake_case, unused_labels, non_upper_case_globals)]
use vstd::prelude::*;
use vstd::arithmetic::div_mod::*;
use std::sync::Arc;
use std::collections::BTreeMap;
use vstd::std_specs::btree::*;
verus! {

global size_of usize == 8;
pub type Count = u64;
pub type FileOffset = u64;
pub type FileSz = u64;
pub type BlockOffset = u64;
pub type BlockIndex = usize;
pub type BlockSz = u64;
pub type CharSz = usize;
pub type Block = Vec<u8>;
pub type BlockP = Arc<Block>;
//@cut type kind=const path=src/common.rs name=NLu8
//@end
#[verifier::external_body]
pub struct Error { _p: u8 }
#[verifier::external_body]
pub struct FPath { _p: u8 }
//@cut type kind=enum path=src/common.rs name=ResultS3 derives=
//@end
pub type ResultS3ReadBlock = ResultS3<BlockP, Error>;

/// the bytes of block `bo` of a file read with block size `bs`
pub open spec fn fblock(file: Seq<u8>, bs: int, bo: int) -> Seq<u8> {
    file.subrange(bo * bs, if (bo + 1) * bs <= file.len() { (bo + 1) * bs } else { file.len() as int })
}
pub open spec fn sp_last(filesz: int, bsz: int) -> int { if filesz == 0 { 0 } else { (if filesz % bsz > 0 { filesz / bsz + 1 } else { filesz / bsz }) - 1 } }

// ---- assumed (unit BLK proves these for the real LinePart / Line): a part is a range of one block; a line is a sequence of parts
pub struct LinePart { pub blockp: BlockP, pub blocki_beg: BlockIndex, pub blocki_end: BlockIndex, pub fileoffset: FileOffset, pub blockoffset: BlockOffset, pub blocksz: BlockSz }
pub open spec fn lp_wf(lp: LinePart) -> bool {
    &&& lp.blocksz >= 1
    &&& lp.blockoffset as int == lp.fileoffset as int / lp.blocksz as int
    &&& lp.blocki_beg as int == lp.fileoffset as int % lp.blocksz as int
    &&& lp.blocki_beg < lp.blocki_end
    &&& lp.blocki_end as int <= lp.blocksz as int
    &&& lp.blocki_end - lp.blocki_beg <= lp.blockp@.len()
    &&& lp.blockp@.len() <= lp.blocksz as int
}
pub open spec fn lp_len(lp: LinePart) -> int { lp.blocki_end - lp.blocki_beg }
impl LinePart {
    #[verifier::external_body]
    pub fn new(blockp: BlockP, blocki_beg: BlockIndex, blocki_end: BlockIndex, fileoffset: FileOffset, blockoffset: BlockOffset, blocksz: BlockSz) -> (r: LinePart)
        requires
            blocksz >= 1, fileoffset < u64::MAX, (blockoffset as int + 1) * blocksz as int <= u64::MAX,
            blockoffset as int == fileoffset as int / blocksz as int, blocki_beg as int == fileoffset as int % blocksz as int,
            blocki_beg < blocki_end, blocki_end as int <= blocksz as int, blocki_end - blocki_beg <= blockp@.len(), blockp@.len() <= blocksz as int,
        ensures
            lp_wf(r), r.blockp == blockp, r.blocki_beg == blocki_beg, r.blocki_end == blocki_end, r.fileoffset == fileoffset, r.blockoffset == blockoffset, r.blocksz == blocksz,
    { unimplemented!() }
}
pub struct Line { pub lineparts: Vec<LinePart> }
pub type LineP = Arc<Line>;
pub open spec fn parts_len(s: Seq<LinePart>) -> int decreases s.len() { if s.len() == 0 { 0 } else { parts_len(s.drop_last()) + lp_len(s.last()) } }
impl Line {
    #[verifier::external_body]
    pub fn new() -> (r: Line) ensures r.lineparts@.len() == 0 { unimplemented!() }
    #[verifier::external_body]
    pub fn new_from_linepart(linepart: LinePart) -> (r: Line) ensures r.lineparts@ == seq![linepart] { unimplemented!() }
    #[verifier::external_body]
    pub fn append(&mut self, linepart: LinePart)
        requires old(self).lineparts@.len() > 0 ==> old(self).lineparts@.last().blockoffset <= linepart.blockoffset && old(self).lineparts@.last().fileoffset < linepart.fileoffset
        ensures final(self).lineparts@ == old(self).lineparts@.push(linepart)
    { unimplemented!() }
    #[verifier::external_body]
    pub fn prepend(&mut self, linepart: LinePart)
        requires old(self).lineparts@.len() > 0 ==> old(self).lineparts@[0].blockoffset >= linepart.blockoffset && old(self).lineparts@[0].fileoffset > linepart.fileoffset
        ensures final(self).lineparts@ == old(self).lineparts@.insert(0, linepart)
    { unimplemented!() }
    #[verifier::external_body]
    pub fn count_lineparts(&self) -> (r: usize) ensures r == self.lineparts@.len() { unimplemented!() }
    #[verifier::external_body]
    pub fn stores_blockoffset(&self, blockoffset: BlockOffset) -> (r: bool)
        ensures r == exists|i: int| 0 <= i < self.lineparts@.len() && (#[trigger] self.lineparts@[i]).blockoffset == blockoffset
    { unimplemented!() }
    #[verifier::external_body]
    pub fn fileoffset_end(&self) -> (r: FileOffset)
        requires self.lineparts@.len() > 0
        ensures r as int == self.lineparts@.last().fileoffset + lp_len(self.lineparts@.last()) - 1
    { unimplemented!() }
    #[verifier::external_body]
    pub fn fileoffset_begin(&self) -> (r: FileOffset)
        requires self.lineparts@.len() > 0
        ensures r == self.lineparts@[0].fileoffset
    { unimplemented!() }
}

// ---- spec: what a line of the file is
pub open spec fn no_nl(f: Seq<u8>, lo: int, hi: int) -> bool { forall|i: int| lo <= i < hi ==> f[i] != 10u8 }
/// [beg, end] is a line of f: starts at 0 or right after a newline, holds no newline before its last byte, ends with a newline or
/// at the end of the file
pub open spec fn is_line(f: Seq<u8>, beg: int, end: int) -> bool {
    &&& 0 <= beg <= end < f.len()
    &&& (beg == 0 || f[beg - 1] == 10u8)
    &&& no_nl(f, beg, end)
    &&& (f[end] == 10u8 || end == f.len() - 1)
}
/// every part holds the true bytes of its block (so the line's bytes are the file's bytes in [beg, end])
pub open spec fn part_true(f: Seq<u8>, bs: int, lp: LinePart) -> bool { lp_wf(lp) && lp.blocksz as int == bs && lp.blockp@ == fblock(f, bs, lp.blockoffset as int) }
/// parts that follow one another in the file without gap or overlap, each holding its block's own bytes
pub open spec fn parts_true(f: Seq<u8>, bs: int, s: Seq<LinePart>) -> bool {
    &&& s.len() >= 1
    &&& forall|i: int| 0 <= i < s.len() ==> part_true(f, bs, #[trigger] s[i])
    &&& forall|i: int| 0 <= i < s.len() - 1 ==> (#[trigger] s[i + 1]).fileoffset as int == s[i].fileoffset as int + lp_len(s[i])
}
pub open spec fn line_true(f: Seq<u8>, bs: int, l: Line) -> bool { parts_true(f, bs, l.lineparts@) }
pub open spec fn s_beg(s: Seq<LinePart>) -> int { s[0].fileoffset as int }
pub open spec fn s_end(s: Seq<LinePart>) -> int { s.last().fileoffset as int + lp_len(s.last()) - 1 }
pub open spec fn l_beg(l: Line) -> int { s_beg(l.lineparts@) }
pub open spec fn l_end(l: Line) -> int { s_end(l.lineparts@) }
/// e is where the line that contains fo ends
pub open spec fn is_endpoint(f: Seq<u8>, fo: int, e: int) -> bool { fo <= e < f.len() && no_nl(f, fo, e) && (f[e] == 10u8 || e == f.len() - 1) }
/// b is where the line that contains fo begins
pub open spec fn is_startpoint(f: Seq<u8>, fo: int, b: int) -> bool { 0 <= b <= fo && no_nl(f, b, fo) && (b == 0 || f[b - 1] == 10u8) }
/// the parts collected for the blocks after the one that holds the offset: part i is the head of block bo_m+1+i
pub open spec fn tail_parts(l: Seq<LinePart>, f: Seq<u8>, bs: int, bo_m: int) -> bool {
    forall|i: int| 0 <= i < l.len() ==> part_true(f, bs, #[trigger] l[i]) && l[i].blockoffset as int == bo_m + 1 + i
            && l[i].fileoffset as int == (bo_m + 1 + i) * bs && l[i].blocki_beg == 0 && (l[i].fileoffset as int) < f.len()
}
/// ... the first n of them a whole block each
pub open spec fn tail_whole(l: Seq<LinePart>, bs: int, n: int) -> bool {
    forall|i: int| 0 <= i < n && i < l.len() ==> (#[trigger] l[i]).blocki_end as int == bs
}
/// constant facts about the reader during one call
pub open spec fn ctx(s: &LineReader, s0: &LineReader, f: Seq<u8>, bs: int, fsz: int) -> bool {
    s.same(s0) && s.lines == s0.lines && s.foend_to_fobeg == s0.foend_to_fobeg && s.find_line_lru_cache == s0.find_line_lru_cache && s.wf() && f == s.f() && bs == s.bs() && fsz == f.len() && bs >= 1 && fsz + bs < u64::MAX && s.charsz_ == 1
}
/// min(bo * bs, fsz): how far the first `bo` blocks reach
pub open spec fn upto(bo: int, bs: int, fsz: int) -> int { if bo * bs < fsz { bo * bs } else { fsz } }
/// after the forward phase: e is the last byte of the line, the parts after the middle block are in place
pub open spec fn fwd_done(l: Seq<LinePart>, f: Seq<u8>, bs: int, bo_m: int, fo: int, e: int, bi_middle_end: int, nl_b_eof: bool) -> bool {
    &&& is_endpoint(f, fo, e)
    &&& (nl_b_eof ==> e == f.len() - 1) && (!nl_b_eof ==> f[e] == 10u8)
    &&& tail_parts(l, f, bs, bo_m) && tail_whole(l, bs, l.len() - 1)
    &&& l.len() == 0 ==> e == bo_m * bs + bi_middle_end
    &&& l.len() > 0 ==> bo_m * bs + bi_middle_end + 1 == (bo_m + 1) * bs && s_end(l) == e
}
/// C12 / C02: the Line is the line of the file around `fo`
pub open spec fn good_line(f: Seq<u8>, bs: int, l: Line, fo: int) -> bool {
    line_true(f, bs, l) && is_line(f, l_beg(l), l_end(l)) && l_beg(l) <= fo <= l_end(l)
}
/// a part that ends where the sequence begins goes in front of it
pub proof fn lemma_prepend(p: LinePart, s: Seq<LinePart>, f: Seq<u8>, bs: int)
    requires parts_true(f, bs, s), part_true(f, bs, p), p.fileoffset as int + lp_len(p) == s[0].fileoffset as int
    ensures parts_true(f, bs, s.insert(0, p)), s_end(s.insert(0, p)) == s_end(s), s_beg(s.insert(0, p)) == p.fileoffset as int
{
    let t = s.insert(0, p);
    assert(t[0] == p);
    assert forall|i: int| 0 <= i < t.len() implies part_true(f, bs, #[trigger] t[i]) by { if i > 0 { assert(t[i] == s[i - 1]); } }
    assert forall|i: int| 0 <= i < t.len() - 1 implies (#[trigger] t[i + 1]).fileoffset as int == t[i].fileoffset as int + lp_len(t[i]) by {
        assert(t[i + 1] == s[i]);
        if i > 0 { assert(t[i] == s[i - 1]); assert(s[(i - 1) + 1].fileoffset as int == s[i - 1].fileoffset as int + lp_len(s[i - 1])); }
    }
    assert(t.last() == s.last());
}
/// the part of the middle block goes in front of the parts of the blocks after it
pub proof fn lemma_mid(mid: LinePart, tail: Seq<LinePart>, f: Seq<u8>, bs: int, bo_m: int, fo: int, e: int, bi_middle_end: int, nl_b_eof: bool)
    requires
        fwd_done(tail, f, bs, bo_m, fo, e, bi_middle_end, nl_b_eof), part_true(f, bs, mid), mid.blockoffset as int == bo_m,
        mid.blocki_end as int == bi_middle_end + 1, bs >= 1, bo_m >= 0,
    ensures
        parts_true(f, bs, tail.insert(0, mid)), s_end(tail.insert(0, mid)) == e, s_beg(tail.insert(0, mid)) == mid.fileoffset as int,
{
    lemma_offs(mid.fileoffset as int, bs);
    assert(mid.fileoffset as int == bo_m * bs + mid.blocki_beg);
    let t = tail.insert(0, mid);
    assert(t[0] == mid);
    if tail.len() == 0 {
        assert(t.len() == 1);
        assert(t.last() == mid);
    } else {
        assert(parts_true(f, bs, tail)) by {
            assert forall|i: int| 0 <= i < tail.len() - 1 implies (#[trigger] tail[i + 1]).fileoffset as int == tail[i].fileoffset as int + lp_len(tail[i]) by {
                assert((bo_m + 1 + (i + 1)) * bs == (bo_m + 1 + i) * bs + bs) by (nonlinear_arith);
                assert(tail[i].blocki_end as int == bs);
            }
        }
        assert(tail[0].fileoffset as int == (bo_m + 1 + 0) * bs);
        lemma_prepend(mid, tail, f, bs);
    }
}
/// a true sequence of parts from the start point to the end point of the line around `fo` is the good line
pub proof fn lemma_good(f: Seq<u8>, bs: int, l: Line, fo: int, e: int)
    requires parts_true(f, bs, l.lineparts@), s_end(l.lineparts@) == e, is_startpoint(f, fo, s_beg(l.lineparts@)), is_endpoint(f, fo, e)
    ensures good_line(f, bs, l, fo)
{
    let b = s_beg(l.lineparts@);
    assert forall|i: int| b <= i < e implies f[i] != 10u8 by { if i < fo { } else { } }
}
/// a block at or before the last one starts inside the file
pub proof fn lemma_in_file(f: Seq<u8>, bs: int, bo: int)
    requires bs >= 1, 0 <= bo <= sp_last(f.len() as int, bs), f.len() > 0
    ensures bo * bs < f.len()
{
    let n = f.len() as int;
    let last = sp_last(n, bs);
    lemma_fundamental_div_mod(n, bs);
    lemma_mod_bound(n, bs);
    assert(bs * (n / bs) == (n / bs) * bs) by (nonlinear_arith);
    assert(last * bs < n) by {
        if n % bs > 0 { assert(last == n / bs); } else { assert(last == n / bs - 1); assert((n / bs - 1) * bs == (n / bs) * bs - bs) by (nonlinear_arith); }
    }
    assert(bo * bs <= last * bs) by (nonlinear_arith) requires bo <= last, bs >= 1;
}
/// nothing of the file lies beyond the last block
pub proof fn lemma_upto_end(f: Seq<u8>, bs: int)
    requires bs >= 1, f.len() > 0
    ensures upto(sp_last(f.len() as int, bs) + 1, bs, f.len() as int) == f.len()
{
    let n = f.len() as int;
    let last = sp_last(n, bs);
    lemma_fundamental_div_mod(n, bs);
    lemma_mod_bound(n, bs);
    assert(bs * (n / bs) == (n / bs) * bs) by (nonlinear_arith);
    if n % bs > 0 { assert((n / bs + 1) * bs == (n / bs) * bs + bs) by (nonlinear_arith); }
}
/// block `bo` of the file: its length, its bytes, and where it sits among the blocks
pub proof fn lemma_block(f: Seq<u8>, bs: int, bo: int)
    requires bs >= 1, bo >= 0, bo * bs < f.len()
    ensures
        fblock(f, bs, bo).len() == (if f.len() - bo * bs < bs { f.len() - bo * bs } else { bs }),
        fblock(f, bs, bo).len() >= 1,
        forall|i: int| 0 <= i < fblock(f, bs, bo).len() ==> #[trigger] fblock(f, bs, bo)[i] == f[bo * bs + i],
        (bo + 1) * bs == bo * bs + bs, bo * bs >= 0,
        bo <= sp_last(f.len() as int, bs),
        bo == sp_last(f.len() as int, bs) <==> bo * bs + fblock(f, bs, bo).len() == f.len(),
        bo < sp_last(f.len() as int, bs) ==> fblock(f, bs, bo).len() == bs && (bo + 1) * bs < f.len(),
{
    assert((bo + 1) * bs == bo * bs + bs) by (nonlinear_arith);
    assert(bo * bs >= 0) by (nonlinear_arith) requires bo >= 0, bs >= 1;
    let n = f.len() as int;
    let q = n / bs;
    lemma_fundamental_div_mod(n, bs);
    lemma_mod_bound(n, bs);
    assert(bs * q == q * bs) by (nonlinear_arith);
    // last = ceil(n / bs) - 1
    let last = sp_last(n, bs);
    if n % bs > 0 {
        assert(last == q);
        if bo > q { assert(bo * bs >= (q + 1) * bs) by (nonlinear_arith) requires bo >= q + 1, bs >= 1; assert((q + 1) * bs == q * bs + bs) by (nonlinear_arith); }
        if bo < q { assert((bo + 1) * bs <= q * bs) by (nonlinear_arith) requires bo + 1 <= q, bs >= 1; }
    } else {
        assert(last == q - 1);
        if bo > q - 1 { assert(bo * bs >= q * bs) by (nonlinear_arith) requires bo >= q, bs >= 1; }
        if bo < q - 1 { assert((bo + 1) * bs <= (q - 1) * bs) by (nonlinear_arith) requires bo + 1 <= q - 1, bs >= 1; assert((q - 1) * bs == q * bs - bs) by (nonlinear_arith); }
        if bo == q - 1 { assert((q - 1) * bs == q * bs - bs) by (nonlinear_arith); }
    }
}
/// offset <-> (block, index)
pub proof fn lemma_offs(fo: int, bs: int)
    requires bs >= 1, fo >= 0
    ensures (fo / bs) * bs + fo % bs == fo, 0 <= fo % bs < bs, fo / bs >= 0, (fo / bs) * bs <= fo,
{
    lemma_fundamental_div_mod(fo, bs);
    lemma_mod_bound(fo, bs);
    lemma_div_pos_is_pos(fo, bs);
    assert(bs * (fo / bs) == (fo / bs) * bs) by (nonlinear_arith);
}
/// where a byte of block `bo` sits in the file: its offset splits back into (bo, bi)
pub proof fn lemma_split(bo: int, bi: int, bs: int)
    requires bs >= 1, bo >= 0, 0 <= bi < bs
    ensures (bo * bs + bi) / bs == bo, (bo * bs + bi) % bs == bi
{
    lemma_fundamental_div_mod_converse(bo * bs + bi, bs, bo, bi);
}

// ---- assumed: the block reader (contract proved in unit RBK for plain files)
#[verifier::external_body]
pub struct BlockReader { _p: u8 }
impl BlockReader {
    pub uninterp spec fn file(&self) -> Seq<u8>;
    pub uninterp spec fn bs(&self) -> int;
    #[verifier::external_body]
    pub fn read_block(&mut self, blockoffset: BlockOffset) -> (r: ResultS3ReadBlock)
        ensures final(self).file() == old(self).file(), final(self).bs() == old(self).bs(),
            r is Found ==> r->Found_0@ == fblock(old(self).file(), old(self).bs(), blockoffset as int),
    { unimplemented!() }
}
pub type ResultS3LineFind = ResultS3<(FileOffset, LineP), Error>;
// ---- assumed: the lru crate's cache by its view (as in unit RBK): get returns what is stored, put stores the pair and may evict others
#[verifier::external_body]
pub struct LinesLRUCache { _p: u8 }
impl LinesLRUCache {
    pub uninterp spec fn view(&self) -> Map<FileOffset, ResultS3LineFind>;
    #[verifier::external_body]
    pub fn get(&mut self, k: &FileOffset) -> (r: Option<&ResultS3LineFind>)
        ensures final(self)@ == old(self)@, r is Some <==> old(self)@.contains_key(*k), r is Some ==> *r.unwrap() == old(self)@[*k]
    { unimplemented!() }
    #[verifier::external_body]
    pub fn put(&mut self, k: FileOffset, v: ResultS3LineFind) -> (r: Option<ResultS3LineFind>)
        ensures final(self)@.contains_key(k) && final(self)@[k] == v,
            forall|j: FileOffset| #[trigger] final(self)@.contains_key(j) && j != k ==> old(self)@.contains_key(j) && final(self)@[j] == old(self)@[j],
    { unimplemented!() }
}
/// a cached answer for offset k: a Found is the good line around k with the offset after it
pub open spec fn cached_ok(f: Seq<u8>, bs: int, k: FileOffset, v: ResultS3LineFind) -> bool {
    v is Found ==> good_line(f, bs, *v->Found_0.1, k as int) && v->Found_0.0 as int == l_end(*v->Found_0.1) + 1
}
/// the reader's own stores (real types, vstd's BTreeMap specs): `lines` maps a line's first byte to the line, `foend_to_fobeg` its last byte
/// to its first byte
//@cut type kind=type path=src/readers/linereader.rs name=FoToLine
//@end
//@cut type kind=type path=src/readers/linereader.rs name=FoToFo
//@end
pub struct LineReader {
    pub blockreader: BlockReader,
    pub lines: FoToLine,
    pub foend_to_fobeg: FoToFo,
    pub lines_stored_highest: usize,
    pub lines_processed: Count,
    pub charsz_: CharSz,
    pub find_line_lru_cache_enabled: bool,
    pub find_line_lru_cache: LinesLRUCache,
    pub find_line_lru_cache_put: Count,
    pub find_line_lru_cache_hit: Count,
    pub find_line_lru_cache_miss: Count,
    pub lines_hits: Count,
    pub lines_miss: Count,
}
/// a stored line: a true line of the file, keyed by its first byte
pub open spec fn stored_ok(f: Seq<u8>, bs: int, l: Line, k: FileOffset) -> bool {
    line_true(f, bs, l) && is_line(f, l_beg(l), l_end(l)) && l_beg(l) == k
}
/// no stored line covers byte `fo`
pub open spec fn miss(m: Map<FileOffset, LineP>, fo: int) -> bool {
    forall|k: FileOffset| #[trigger] m.contains_key(k) ==> !(l_beg(*m[k]) <= fo <= l_end(*m[k]))
}
/// stand-in (R9) for `map.range(k..).next()`: the entry with the least key >= k
#[verifier::external_body]
pub fn verif_first_at_or_after<'a>(m: &'a FoToFo, k: &FileOffset) -> (r: Option<(&'a FileOffset, &'a FileOffset)>)
    ensures
        r is None ==> forall|k2: FileOffset| #[trigger] m@.contains_key(k2) ==> k2 < *k,
        r is Some ==> m@.contains_key(*r.unwrap().0) && m@[*r.unwrap().0] == *r.unwrap().1 && *r.unwrap().0 >= *k
            && forall|k2: FileOffset| #[trigger] m@.contains_key(k2) && k2 >= *k ==> *r.unwrap().0 <= k2,
{ unimplemented!() }
#[verifier::external_body]
pub fn verif_map_get_clone(m: &FoToLine, k: &FileOffset) -> (r: LineP) requires m@.contains_key(*k) ensures r == m@[*k] { unimplemented!() }
pub fn verif_max_usize(a: usize, b: usize) -> (r: usize) ensures r == (if a >= b { a } else { b }) { if a >= b { a } else { b } }
/// two lines of the same file that share a byte are the same line
pub proof fn lemma_same_line(f: Seq<u8>, b1: int, e1: int, b2: int, e2: int, x: int)
    requires is_line(f, b1, e1), is_line(f, b2, e2), b1 <= x <= e1, b2 <= x <= e2
    ensures b1 == b2, e1 == e2
{
    if e1 < e2 { assert(f[e1] == 10u8); assert(b2 <= e1 < e2); }
    if e2 < e1 { assert(f[e2] == 10u8); assert(b1 <= e2 < e1); }
    if b1 < b2 { assert(f[b2 - 1] == 10u8); assert(b1 <= b2 - 1 < e1); }
    if b2 < b1 { assert(f[b1 - 1] == 10u8); assert(b2 <= b1 - 1 < e2); }
}
impl LineReader {
    pub open spec fn f(&self) -> Seq<u8> { self.blockreader.file() }
    pub open spec fn bs(&self) -> int { self.blockreader.bs() }
    pub open spec fn wf(&self) -> bool {
        &&& self.charsz_ == 1 && self.bs() >= 1 && self.f().len() + self.bs() < u64::MAX
        // store invariant: every stored line is a true line of the file, keyed by its first byte, and its last byte is recorded
        &&& forall|k: FileOffset| #[trigger] self.lines@.contains_key(k) ==> stored_ok(self.f(), self.bs(), *self.lines@[k], k)
                && self.foend_to_fobeg@.contains_key(l_end(*self.lines@[k]) as u64) && self.foend_to_fobeg@[l_end(*self.lines@[k]) as u64] == k
        &&& forall|e: FileOffset| #[trigger] self.foend_to_fobeg@.contains_key(e) ==> self.lines@.contains_key(self.foend_to_fobeg@[e])
                && l_end(*self.lines@[self.foend_to_fobeg@[e]]) == e
        // every cached answer is right
        &&& forall|k: FileOffset| #[trigger] self.find_line_lru_cache@.contains_key(k) ==> cached_ok(self.f(), self.bs(), k, self.find_line_lru_cache@[k])
    }
    pub open spec fn same(&self, o: &Self) -> bool { self.f() == o.f() && self.bs() == o.bs() && self.charsz_ == o.charsz_ }
    /// some stored line covers byte `fo`
    pub uninterp spec fn covered(&self, fo: int) -> bool;
    #[verifier::external_body]
    pub fn path(&self) -> &FPath { unimplemented!() }
    #[verifier::external_body]
    pub fn filesz(&self) -> (r: FileSz) ensures r as int == self.f().len() { unimplemented!() }
    #[verifier::external_body]
    pub fn blocksz(&self) -> (r: BlockSz) ensures r as int == self.bs() { unimplemented!() }
    // assumed here (proved in unit BLK): the offset arithmetic
    #[verifier::external_body]
    pub fn blockoffset_last(&self) -> (r: BlockOffset) requires self.bs() >= 1 ensures r as int == sp_last(self.f().len() as int, self.bs()) { unimplemented!() }
    #[verifier::external_body]
    pub fn block_offset_at_file_offset(&self, fileoffset: FileOffset) -> (r: BlockOffset) requires self.bs() >= 1 ensures r as int == fileoffset as int / self.bs() { unimplemented!() }
    #[verifier::external_body]
    pub fn block_index_at_file_offset(&self, fileoffset: FileOffset) -> (r: BlockIndex) requires self.bs() >= 1 ensures r as int == fileoffset as int % self.bs() { unimplemented!() }
    #[verifier::external_body]
    pub fn file_offset_at_block_offset_index(&self, blockoffset: BlockOffset, blockindex: BlockIndex) -> (r: FileOffset)
        requires blockoffset * self.bs() + blockindex <= u64::MAX
        ensures r as int == blockoffset * self.bs() + blockindex
    { unimplemented!() }
//@cut fn path=src/readers/linereader.rs impl=LineReader name=check_store_LRU ret=r
//@replace "self.find_line_lru_cache_hit += 1;" "verif_count_inc(&mut self.find_line_lru_cache_hit);"
//@replace "self.find_line_lru_cache_miss += 1;" "verif_count_inc(&mut self.find_line_lru_cache_miss);"
//@spec
    requires old(self).wf()
    ensures final(self).same(old(self)), final(self).lines == old(self).lines, final(self).foend_to_fobeg == old(self).foend_to_fobeg, final(self).wf(),
        // a cached Found is the good line around the offset
        r is Some && r.unwrap() is Found ==> good_line(old(self).f(), old(self).bs(), *r.unwrap()->Found_0.1, fileoffset as int) && r.unwrap()->Found_0.0 as int == l_end(*r.unwrap()->Found_0.1) + 1,
//@end
    // assumed (BlockReader::is_fileoffset_last, unit BLK: fileoffset_last = filesz - 1): is this the file's last byte
    #[verifier::external_body]
    pub fn is_fileoffset_last(&self, fileoffset: FileOffset) -> (r: bool) ensures r == (fileoffset as int == self.f().len() - 1) { unimplemented!() }
    #[verifier::external_body]
    pub fn is_line_last(&self, linep: &LineP) -> (r: bool) requires linep.lineparts@.len() > 0 ensures r == (l_end(**linep) == self.f().len() - 1) { unimplemented!() }

//@cut fn path=src/readers/linereader.rs impl=LineReader name=insert_line ret=r
//@replace "LineP::new(line)" "Arc::new(line)"
//@replace "self.lines_processed += 1;" "verif_count_inc(&mut self.lines_processed);"
//@replace "std::cmp::max(self.lines_stored_highest, self.lines.len())" "verif_max_usize(self.lines_stored_highest, self.lines.len())"
//@spec
    requires
        old(self).wf(), stored_ok(old(self).f(), old(self).bs(), line, l_beg(line) as u64),
        // the function's own debug assertions: neither the first nor the last byte of the line is recorded yet
        !old(self).lines@.contains_key(l_beg(line) as u64), !old(self).foend_to_fobeg@.contains_key(l_end(line) as u64),
    ensures
        *r == line, final(self).same(old(self)),
        // the store invariant is kept: the new line is recorded under its first byte, its last byte under foend_to_fobeg
        final(self).wf(), final(self).lines@ == old(self).lines@.insert(l_beg(line) as u64, r),
//@at_entry
        proof { broadcast use group_btree_axioms; }
        let ghost l0 = line;
//@before_tail
        proof {
            let b = l_beg(l0) as u64; let e = l_end(l0) as u64;
            assert forall|k: FileOffset| #[trigger] self.lines@.contains_key(k) implies stored_ok(self.f(), self.bs(), *self.lines@[k], k)
                && self.foend_to_fobeg@.contains_key(l_end(*self.lines@[k]) as u64) && self.foend_to_fobeg@[l_end(*self.lines@[k]) as u64] == k by {
                if k != b { assert(old(self).lines@.contains_key(k)); assert(l_end(*old(self).lines@[k]) as u64 != e); }
            }
            assert forall|e2: FileOffset| #[trigger] self.foend_to_fobeg@.contains_key(e2) implies self.lines@.contains_key(self.foend_to_fobeg@[e2])
                && l_end(*self.lines@[self.foend_to_fobeg@[e2]]) == e2 by {
                if e2 != e { assert(old(self).foend_to_fobeg@.contains_key(e2)); assert(old(self).foend_to_fobeg@[e2] != b); }
            }
        }
//@mutate ".insert(fo_end, fo_beg);" ".insert(fo_beg, fo_end);"
//@end

//@cut fn path=src/readers/linereader.rs impl=LineReader name=lines_contains ret=r
//@replace "self .foend_to_fobeg .range(fileoffset..) .next()" "verif_first_at_or_after(&self.foend_to_fobeg, fileoffset)" ws=1
//@spec
    requires self.wf()
    ensures r == !miss(self.lines@, *fileoffset as int)
//@at_entry
        proof { broadcast use group_btree_axioms; }
//@mutate "if fileoffset < fo_beg {" "if fileoffset <= fo_beg {"
//@end

//@cut fn path=src/readers/linereader.rs impl=LineReader name=get_linep ret=r
//@replace "self .foend_to_fobeg .range(fileoffset..) .next()" "verif_first_at_or_after(&self.foend_to_fobeg, fileoffset)" ws=1
//@spec
    requires self.wf()
    ensures
        // the stored line that covers the offset, if any
        r is Some ==> exists|k: FileOffset| #[trigger] self.lines@.contains_key(k) && r.unwrap() == self.lines@[k] && l_beg(*self.lines@[k]) <= *fileoffset as int <= l_end(*self.lines@[k]),
        r is None ==> miss(self.lines@, *fileoffset as int),
//@at_entry
        proof { broadcast use group_btree_axioms; }
//@mutate "if fileoffset < fo_beg {" "if fileoffset > fo_beg {"
//@mutate "match self.lines.get(fo_beg) {" "match self.lines.get(fileoffset) {"
//@end

//@cut fn path=src/readers/linereader.rs impl=LineReader name=check_store ret=r
//@replace "self.find_line_lru_cache_put += 1;" "verif_count_inc(&mut self.find_line_lru_cache_put);" count=*
//@replace "self.lines_hits += 1;" "verif_count_inc(&mut self.lines_hits);"
//@replace "self.lines_miss += 1;" "verif_count_inc(&mut self.lines_miss);"
//@replace "self.lines[&fileoffset].clone()" "verif_map_get_clone(&self.lines, &fileoffset)"
//@spec
    requires old(self).wf()
    ensures final(self).same(old(self)), final(self).lines == old(self).lines, final(self).foend_to_fobeg == old(self).foend_to_fobeg, final(self).wf(),
        r is Some ==> r.unwrap() is Found,
        r is Some ==> good_line(old(self).f(), old(self).bs(), *r.unwrap()->Found_0.1, fileoffset as int) && r.unwrap()->Found_0.0 as int == l_end(*r.unwrap()->Found_0.1) + 1,
        // a miss: no stored line covers the offset
        r is None ==> miss(old(self).lines@, fileoffset as int),
//@at_entry
        proof { broadcast use group_btree_axioms; }
//@mutate "let fo_next: FileOffset = (*linep).fileoffset_end() + charsz_fo;" "let fo_next: FileOffset = (*linep).fileoffset_end();"
//@end

//@cut fn path=src/readers/linereader.rs impl=LineReader name=find_line ret=r rlimit=400
//@replace "pub fn find_line" "#[verifier::exec_allows_no_decreases_clause] pub fn find_line"
//@replace "self.find_line_lru_cache_put += 1;" "verif_count_inc(&mut self.find_line_lru_cache_put);" count=*
//@replace "self.lines_hits += 1;" "verif_count_inc(&mut self.lines_hits);"
//@replace "self.lines_miss += 1;" "verif_count_inc(&mut self.lines_miss);"
//@replace "self.lines[&fo_nl_a].clone()" "verif_map_get_clone(&self.lines, &fo_nl_a)"
//@replace "std::cmp::max(fileoffset, charsz_fo)" "verif_max(fileoffset, charsz_fo)"
//@replace "const BI_STOP: BlockIndex = 0;" "let BI_STOP: BlockIndex = 0;" count=2
//@replace "const BI_UNINIT: BlockIndex = usize::MAX;" "let BI_UNINIT: BlockIndex = usize::MAX;"
//@spec
    requires old(self).wf()
    ensures
        final(self).same(old(self)), final(self).wf(),
        // C12 / C02: whatever the block size, the Line returned is the line of the file around `fileoffset` -- its parts hold the
        // file's own bytes, contiguous from the byte after the previous newline to the next newline (or the end of the file) --
        // and the offset returned with it is the first byte after it
        r is Found ==> good_line(old(self).f(), old(self).bs(), *r->Found_0.1, fileoffset as int) && r->Found_0.0 as int == l_end(*r->Found_0.1) + 1,
//@before "let mut found_nl_a = false;"
        let ghost f = self.f();
        let ghost bs = self.bs();
        let ghost fsz = f.len() as int;
        let ghost sp0 = *self;
        proof { lemma_offs(fileoffset as int, bs); }
//@after "let mut bi_middle_end: BlockIndex = bi_middle;"
        proof { lemma_block(f, bs, bo_middle as int); }
        let ghost mbase = bo_middle as int * bs;
//@loop 1
                invariant_except_break
                    bi_middle <= bi_at < bi_stop, !found_nl_b, bi_middle_end == bi_middle, !fo_nl_b_in_middle,
                    no_nl(f, fileoffset as int, mbase + bi_at),
                invariant
                    ctx(self, &sp0, f, bs, fsz), miss(sp0.lines@, fileoffset as int), charsz_bi == 1,
                    bptr_middle@ == fblock(f, bs, bo_middle as int), bi_stop == bptr_middle@.len(), mbase == bo_middle as int * bs, mbase + bi_middle == fileoffset,
                    mbase + bi_stop <= fsz, mbase >= 0,
                    forall|i: int| 0 <= i < bptr_middle@.len() ==> #[trigger] bptr_middle@[i] == f[mbase + i],
                    !nl_b_eof, line.lineparts@.len() == 0,
                ensures
                    bi_middle <= bi_at <= bi_stop,
                    found_nl_b ==> bi_at < bi_stop && f[mbase + bi_at] == 10u8 && no_nl(f, fileoffset as int, mbase + bi_at) && fo_nl_b as int == mbase + bi_at && bi_middle_end == bi_at && fo_nl_b_in_middle,
                    !found_nl_b ==> bi_at == bi_stop && no_nl(f, fileoffset as int, mbase + bi_stop) && bi_middle_end == bi_middle && !fo_nl_b_in_middle,
                decreases bi_stop - bi_at,
//@before "if !found_nl_b && bo_middle == blockoffset_last {"
            proof { lemma_block(f, bs, bo_middle as int); }
//@before "let BI_UNINIT: BlockIndex = usize::MAX;"
            proof {
                lemma_block(f, bs, bo_middle as int);
                assert(bo_middle < blockoffset_last);
                assert(upto(bo_middle as int + 1, bs, fsz) == mbase + bs);
            }
//@loop 2
                invariant_except_break
                    !found_nl_b, !nl_b_eof,
                    no_nl(f, fileoffset as int, upto(bof as int, bs, fsz)),
                    line.lineparts@.len() == bof - bo_middle - 1,
                    tail_whole(line.lineparts@, bs, line.lineparts@.len() - 1),
                    bof > bo_middle + 1 ==> bi_beg == bi_end && bi_end as int == fblock(f, bs, bof - 1).len() && line.lineparts@.last().blocki_end == bi_end,
                    bof == blockoffset_last + 1 ==> upto(bof as int, bs, fsz) == fsz,
                invariant
                    ctx(self, &sp0, f, bs, fsz), miss(sp0.lines@, fileoffset as int), sp0.same(old(self)), charsz_bi == 1, charsz_fo == 1, blockoffset_last as int == sp_last(fsz, bs), filesz == fsz, fsz > 0,
                    bo_middle < bof <= blockoffset_last + 1, bo_middle < blockoffset_last, mbase == bo_middle as int * bs, mbase + bi_middle == fileoffset, fileoffset < fsz,
                    (bo_middle as int + 1) * bs == mbase + bs,
                    !fo_nl_b_in_middle, bi_middle_end as int == bs - 1, bi_middle < bs,
                    tail_parts(line.lineparts@, f, bs, bo_middle as int),
                    BI_UNINIT == usize::MAX,
                ensures
                    found_nl_b ==> fwd_done(line.lineparts@, f, bs, bo_middle as int, fileoffset as int, fo_nl_b as int, bi_middle_end as int, nl_b_eof) && !nl_b_eof && line.lineparts@.len() > 0,
                    !found_nl_b ==> bof == blockoffset_last + 1 && no_nl(f, fileoffset as int, fsz) && bi_beg == bi_end && bi_end as int == fblock(f, bs, blockoffset_last as int).len()
                        && line.lineparts@.len() == bof - bo_middle - 1 && line.lineparts@.len() > 0 && line.lineparts@.last().blocki_end == bi_end
                        && tail_whole(line.lineparts@, bs, line.lineparts@.len() - 1) && !nl_b_eof,
                decreases blockoffset_last + 1 - bof,
//@before "let bptr: BlockP = match self"
                proof {
                    lemma_in_file(f, bs, bof as int); lemma_block(f, bs, bof as int); lemma_split(bof as int, 0, bs);
                    // the part appended in the previous round is a whole block: its block is before the last one
                    if bof > bo_middle + 1 { lemma_in_file(f, bs, bof - 1); lemma_block(f, bs, bof - 1); }
                }
//@after "bi_end = (*bptr).len() as BlockIndex;"
                let ghost bbase = bof as int * bs;
                let ghost line0 = line.lineparts@;
                proof {
                    assert(tail_whole(line0, bs, line0.len() as int)); assert(upto(bof as int, bs, fsz) == bbase);
                    assert((bo_middle as int + 1) * bs <= bof as int * bs) by (nonlinear_arith) requires bo_middle as int + 1 <= bof as int, bs >= 1;
                }
//@loop 3
                    invariant_except_break
                        !found_nl_b, bi_beg < bi_end,
                        no_nl(f, fileoffset as int, bbase + bi_beg),
                    invariant
                        ctx(self, &sp0, f, bs, fsz), miss(sp0.lines@, fileoffset as int), charsz_bi == 1, bptr@ == fblock(f, bs, bof as int), bi_end == bptr@.len(), bbase == bof as int * bs,
                        bbase + bi_end <= fsz, bbase >= 0, bi_end <= bs, fileoffset as int <= bbase, !nl_b_eof, !fo_nl_b_in_middle,
                        forall|i: int| 0 <= i < bptr@.len() ==> #[trigger] bptr@[i] == f[bbase + i],
                        (bbase) / bs == bof as int, (bbase) % bs == 0, (bof as int + 1) * bs == bbase + bs,
                        line.lineparts@ == line0 || found_nl_b,
                        line0.len() == bof - bo_middle - 1, tail_parts(line0, f, bs, bo_middle as int), tail_whole(line0, bs, line0.len() as int),
                        line0.len() > 0 ==> line0.last().blockoffset < bof && line0.last().fileoffset < bbase,
                        bo_middle < bof <= blockoffset_last, mbase == bo_middle as int * bs, bi_middle_end as int == bs - 1, (bo_middle as int + 1) * bs == mbase + bs,
                    ensures
                        found_nl_b ==> fwd_done(line.lineparts@, f, bs, bo_middle as int, fileoffset as int, fo_nl_b as int, bi_middle_end as int, nl_b_eof) && line.lineparts@.len() > 0,
                        !found_nl_b ==> bi_beg == bi_end && no_nl(f, fileoffset as int, bbase + bi_end) && line.lineparts@ == line0,
                    decreases bi_end - bi_beg,
//@after "line.append(li);" 1
                        proof {
                            let l = line.lineparts@;
                            assert(l == line0.push(l.last()));
                            assert forall|i: int| 0 <= i < l.len() implies part_true(f, bs, #[trigger] l[i]) && l[i].blockoffset as int == bo_middle + 1 + i
                                && l[i].fileoffset as int == (bo_middle + 1 + i) * bs && l[i].blocki_beg == 0 && (l[i].fileoffset as int) < f.len() by { if i < line0.len() { assert(l[i] == line0[i]); } }
                            assert forall|i: int| 0 <= i < l.len() - 1 && i < l.len() implies (#[trigger] l[i]).blocki_end as int == bs by { assert(l[i] == line0[i]); }
                        }
//@after "line.append(li);" 2
                proof {
                    let l = line.lineparts@;
                    assert(l == line0.push(l.last()));
                    assert forall|i: int| 0 <= i < l.len() implies part_true(f, bs, #[trigger] l[i]) && l[i].blockoffset as int == bo_middle + 1 + i
                        && l[i].fileoffset as int == (bo_middle + 1 + i) * bs && l[i].blocki_beg == 0 && (l[i].fileoffset as int) < f.len() by { if i < line0.len() { assert(l[i] == line0[i]); } }
                    assert forall|i: int| 0 <= i < l.len() - 1 && i < l.len() implies (#[trigger] l[i]).blocki_end as int == bs by { assert(l[i] == line0[i]); }
                    // the bytes of this block hold no newline; with the next block the scan has reached min((bof+1)*bs, fsz)
                    assert(upto(bof as int + 1, bs, fsz) == bbase + bi_end);
                    if bof as int == blockoffset_last as int { lemma_upto_end(f, bs); }
                }
//@before "if !found_nl_b && bof > blockoffset_last {"
            proof { lemma_in_file(f, bs, blockoffset_last as int); lemma_block(f, bs, blockoffset_last as int); }
//@after "nl_b_eof = true;" 2
                proof {
                    let l = line.lineparts@;
                    assert(l.last().blockoffset as int == blockoffset_last as int);
                    assert(s_end(l) == fsz - 1);
                }
//@before "if found_nl_a {" 1
        let ghost e = fo_nl_b as int;
        let ghost tail = line.lineparts@;
        proof {
            lemma_block(f, bs, bo_middle as int);
            assert(fwd_done(tail, f, bs, bo_middle as int, fileoffset as int, e, bi_middle_end as int, nl_b_eof));
            assert(bi_middle <= bi_middle_end < bptr_middle@.len());
            lemma_split(bo_middle as int, bi_middle as int, bs);
            lemma_split(bo_middle as int, 0, bs);
        }
//@after "line.prepend(li);" * to="let fo_nl_a_search_start: FileOffset"
            proof { lemma_mid(line.lineparts@[0], tail, f, bs, bo_middle as int, fileoffset as int, e, bi_middle_end as int, nl_b_eof); }
//@before "if bof == bo_middle {"
        let ghost a2a__ = (bof == bo_middle);
//@after "line.prepend(li);" * from="let fo_nl_a_search_start: FileOffset" to="if !found_nl_a && !begof {"
            proof {
                lemma_mid(line.lineparts@[0], tail, f, bs, bo_middle as int, fileoffset as int, e, bi_middle_end as int, nl_b_eof);
                if !a2a__ {
                // the byte before `fileoffset` lies in the block before the middle one: the offset is the first byte of the middle block
                assert(bi_middle == 0) by {
                    if bi_middle > 0 { lemma_split(bo_middle as int, bi_middle as int - 1, bs); }
                }
                assert(bo_middle >= 1) by { if bo_middle == 0 { assert(mbase == 0); } }
                assert((bo_middle as int - 1) * bs + bs == mbase) by (nonlinear_arith) requires mbase == bo_middle as int * bs;
                lemma_split(bo_middle as int - 1, bs - 1, bs);
                }
            }
//@after "line.prepend(li);" * from="if !found_nl_a && !begof {"
                proof { lemma_prepend(line.lineparts@[0], line1, f, bs); }
//@after "let fo_nl_a_search_start: FileOffset"
        proof { lemma_offs(fo_nl_a_search_start as int, bs); }
//@loop 4
                invariant_except_break
                    !found_nl_a, no_nl(f, mbase + bi_at + 1, fileoffset as int),
                invariant
                    ctx(self, &sp0, f, bs, fsz), miss(sp0.lines@, fileoffset as int), charsz_bi == 1, charsz_fo == 1, BI_STOP == 0,
                    bptr_middle@ == fblock(f, bs, bo_middle as int), mbase == bo_middle as int * bs, mbase + bi_middle == fileoffset, mbase >= 0,
                    bi_at < bi_middle || found_nl_a, bi_middle < bptr_middle@.len(), mbase + bptr_middle@.len() <= fsz,
                    forall|i: int| 0 <= i < bptr_middle@.len() ==> #[trigger] bptr_middle@[i] == f[mbase + i],
                    line.lineparts@ == tail,
                ensures
                    found_nl_a ==> 1 <= bi_at <= bi_middle && f[mbase + bi_at - 1] == 10u8 && fo_nl_a1 as int == mbase + bi_at && no_nl(f, mbase + bi_at, fileoffset as int),
                    !found_nl_a ==> bi_at == 0 && no_nl(f, mbase, fileoffset as int),
                decreases bi_at,
//@before "let fo_: FileOffset = if found_nl_a {"
            proof { lemma_split(bo_middle as int, bi_at as int, bs); }
//@before "if !found_nl_a && begof {"
        proof {
            assert(parts_true(f, bs, line.lineparts@) && s_end(line.lineparts@) == e);
            assert(found_nl_a ==> is_startpoint(f, fileoffset as int, s_beg(line.lineparts@)));
            assert(!found_nl_a ==> s_beg(line.lineparts@) == mbase && no_nl(f, mbase, fileoffset as int) && line.lineparts@[0].blockoffset == bo_middle);
            assert(!found_nl_a && !begof ==> bof as int == bo_middle as int - 1);
            assert(begof ==> bo_middle == 0);
        }
//@loop 5
                invariant
                    ctx(self, &sp0, f, bs, fsz), miss(sp0.lines@, fileoffset as int), sp0.same(old(self)), charsz_bi == 1, charsz_fo == 1, blockoffset_last as int == sp_last(fsz, bs), fsz > 0,
                    parts_true(f, bs, line.lineparts@), s_end(line.lineparts@) == e, fileoffset < fsz, bo_middle <= blockoffset_last,
                    found_nl_a ==> is_startpoint(f, fileoffset as int, s_beg(line.lineparts@)),
                    !found_nl_a ==> s_beg(line.lineparts@) == (bof as int + 1) * bs && line.lineparts@[0].blockoffset as int == bof as int + 1
                        && no_nl(f, (bof as int + 1) * bs, fileoffset as int) && bof < bo_middle && (bof as int + 1) * bs <= fileoffset as int,
                    begof ==> found_nl_a,
                ensures found_nl_a,
                decreases (if found_nl_a { 0int } else { bof as int + 1 }),
//@after "let blen: BlockIndex = bptr.len() as BlockIndex;"
                let ghost bbase = bof as int * bs;
                let ghost line1 = line.lineparts@;
                proof {
                    assert(bof as int * bs < fsz) by { lemma_in_file(f, bs, bo_middle as int); assert(bof as int * bs <= bo_middle as int * bs) by (nonlinear_arith) requires bof as int <= bo_middle as int, bs >= 1; }
                    lemma_block(f, bs, bof as int);
                    assert(blen as int == bs);
                    lemma_split(bof as int, 0, bs);
                }
//@loop 6
                    invariant_except_break
                        !found_nl_a, no_nl(f, bbase + bi_at + 1, fileoffset as int), line.lineparts@ == line1,
                    invariant
                        ctx(self, &sp0, f, bs, fsz), miss(sp0.lines@, fileoffset as int), charsz_bi == 1, charsz_fo == 1, BI_STOP == 0, !begof,
                        bptr@ == fblock(f, bs, bof as int), blen as int == bs, bi_start as int == bs - 1, bi_at <= bi_start || found_nl_a, bbase == bof as int * bs, bbase >= 0,
                        bbase + bs <= fsz, (bof as int + 1) * bs == bbase + bs, fileoffset as int >= bbase + bs,
                        forall|i: int| 0 <= i < bptr@.len() ==> #[trigger] bptr@[i] == f[bbase + i],
                        parts_true(f, bs, line1), s_end(line1) == e, s_beg(line1) == bbase + bs, line1[0].blockoffset as int == bof as int + 1,
                        (bbase) / bs == bof as int, (bbase) % bs == 0,
                    ensures
                        found_nl_a ==> parts_true(f, bs, line.lineparts@) && s_end(line.lineparts@) == e && is_startpoint(f, fileoffset as int, s_beg(line.lineparts@)),
                        !found_nl_a ==> bi_at == 0 && no_nl(f, bbase, fileoffset as int) && line.lineparts@ == line1,
                    decreases bi_at,
//@after "let bof_a1 = self.block_offset_at_file_offset(fo_nl_a1);"
                        proof {
                            if (bi_at as int) < bs { lemma_split(bof as int, bi_at as int, bs); }
                            else { lemma_split(bof as int + 1, 0, bs); }
                        }
//@before "let fo_end: FileOffset = line.fileoffset_end();"
        proof {
            assert(found_nl_a);
            assert(is_endpoint(f, fileoffset as int, e));
            assert(parts_true(f, bs, line.lineparts@) && s_end(line.lineparts@) == e);
            assert(is_startpoint(f, fileoffset as int, s_beg(line.lineparts@)));
            lemma_good(f, bs, line, fileoffset as int, e);
        }
//@mutate "bi_middle_end = bi_at;" "bi_middle_end = bi_middle;"
//@mutate "fo_nl_a1 = fo_nl_a + charsz_fo;" "fo_nl_a1 = fo_nl_a;"
//@mutate "bi_middle_end = bi_stop - charsz_bi;" "bi_middle_end = bi_stop;"
//@mutate ".put(fileoffset, ResultS3LineFind::Found((fo_end + 1, linep.clone())));" ".put(fileoffset, ResultS3LineFind::Found((fo_end, linep.clone())));"
//@before "let linep: LineP = self.insert_line(line);" *
            proof {
                broadcast use group_btree_axioms;
                assert(good_line(f, bs, line, fileoffset as int));
                let b = l_beg(line); let e_ = l_end(line);
                // a stored line sharing the first or the last byte of this one would be this line and cover the offset: check_store missed
                if self.lines@.contains_key(b as u64) { let o = *self.lines@[b as u64]; lemma_same_line(f, b, e_, l_beg(o), l_end(o), b); }
                if self.foend_to_fobeg@.contains_key(e_ as u64) { let k = self.foend_to_fobeg@[e_ as u64]; let o = *self.lines@[k]; lemma_same_line(f, b, e_, l_beg(o), l_end(o), e_); }
            }
//@end

//@cut fn path=src/readers/linereader.rs impl=LineReader name=find_line_in_block ret=r rlimit=400
//@replace "pub fn find_line_in_block" "#[verifier::exec_allows_no_decreases_clause] pub fn find_line_in_block"
//@replace "self.find_line_lru_cache_put += 1;" "verif_count_inc(&mut self.find_line_lru_cache_put);" count=*
//@replace "self.lines_hits += 1;" "verif_count_inc(&mut self.lines_hits);"
//@replace "self.lines_miss += 1;" "verif_count_inc(&mut self.lines_miss);"
//@replace "self.lines[&fo_nl_a].clone()" "verif_map_get_clone(&self.lines, &fo_nl_a)"
//@replace "std::cmp::max(fileoffset, charsz_fo)" "verif_max(fileoffset, charsz_fo)"
//@replace "const BI_STOP: BlockIndex = 0;" "let BI_STOP: BlockIndex = 0;"
//@replace "LineP::new(line)" "Arc::new(line)"
//@spec
    requires old(self).wf()
    ensures
        final(self).same(old(self)), final(self).wf(),
        // C12 / C02 (block-zero analysis): a line found inside its block is the file's line around the offset, with the offset after it
        // (what the "partial" line holds when the line does not end inside the block is unit LNB's concern, known finding D6)
        r.0 is Found ==> good_line(old(self).f(), old(self).bs(), *r.0->Found_0.1, fileoffset as int) && r.0->Found_0.0 as int == l_end(*r.0->Found_0.1) + 1,
//@before "let mut partial_line= false;"
        let ghost f = self.f();
        let ghost bs = self.bs();
        let ghost fsz = f.len() as int;
        let ghost sp0 = *self;
        proof { lemma_offs(fileoffset as int, bs); }
//@after "let mut bi_middle_end: BlockIndex = bi_middle;"
        proof { lemma_block(f, bs, bo_middle as int); }
        let ghost mbase = bo_middle as int * bs;
//@loop 1
            invariant_except_break
                bi_middle <= bi_at < bi_stop, !found_nl_b, bi_middle_end == bi_middle,
                no_nl(f, fileoffset as int, mbase + bi_at),
            invariant
                ctx(self, &sp0, f, bs, fsz), miss(sp0.lines@, fileoffset as int), charsz_bi == 1,
                bptr_middle@ == fblock(f, bs, bo_middle as int), bi_stop == bptr_middle@.len(), mbase == bo_middle as int * bs, mbase + bi_middle == fileoffset,
                mbase + bi_stop <= fsz, mbase >= 0,
                forall|i: int| 0 <= i < bptr_middle@.len() ==> #[trigger] bptr_middle@[i] == f[mbase + i],
                !nl_b_eof, line.lineparts@.len() == 0,
            ensures
                bi_middle <= bi_at <= bi_stop,
                found_nl_b ==> bi_at < bi_stop && f[mbase + bi_at] == 10u8 && no_nl(f, fileoffset as int, mbase + bi_at) && fo_nl_b as int == mbase + bi_at && bi_middle_end == bi_at,
                !found_nl_b ==> bi_at == bi_stop && no_nl(f, fileoffset as int, mbase + bi_stop) && bi_middle_end == bi_middle,
            decreases bi_stop - bi_at,
//@before "if !found_nl_b && bo_middle == blockoffset_last {"
        proof { lemma_block(f, bs, bo_middle as int); }
//@before "if found_nl_a {" 1
        let ghost e = fo_nl_b as int;
        let ghost tail = line.lineparts@;
        proof {
            lemma_block(f, bs, bo_middle as int);
            assert(partial_line == !found_nl_b);
            if found_nl_b {
                assert(nl_b_eof == (e == fsz - 1));
                assert(fwd_done(tail, f, bs, bo_middle as int, fileoffset as int, e, bi_middle_end as int, nl_b_eof));
            }
            assert(bi_middle <= bi_middle_end < bptr_middle@.len());
            lemma_split(bo_middle as int, bi_middle as int, bs);
            lemma_split(bo_middle as int, 0, bs);
        }
//@after "line.prepend(li);" *
            proof { if found_nl_b { lemma_mid(line.lineparts@[0], tail, f, bs, bo_middle as int, fileoffset as int, e, bi_middle_end as int, nl_b_eof); } }
//@before "let linep: LineP = self.insert_line(line);" *
            proof {
                broadcast use group_btree_axioms;
                assert(good_line(f, bs, line, fileoffset as int));
                let b = l_beg(line); let e_ = l_end(line);
                if self.lines@.contains_key(b as u64) { let o = *self.lines@[b as u64]; lemma_same_line(f, b, e_, l_beg(o), l_end(o), b); }
                if self.foend_to_fobeg@.contains_key(e_ as u64) { let k = self.foend_to_fobeg@[e_ as u64]; let o = *self.lines@[k]; lemma_same_line(f, b, e_, l_beg(o), l_end(o), e_); }
            }
//@after "let fo_nl_a_search_start: FileOffset"
        proof { lemma_offs(fo_nl_a_search_start as int, bs); }
//@loop 2
            invariant_except_break
                !found_nl_a, no_nl(f, mbase + bi_at + 1, fileoffset as int),
            invariant
                ctx(self, &sp0, f, bs, fsz), miss(sp0.lines@, fileoffset as int), charsz_bi == 1, charsz_fo == 1, BI_STOP == 0,
                bptr_middle@ == fblock(f, bs, bo_middle as int), mbase == bo_middle as int * bs, mbase + bi_middle == fileoffset, mbase >= 0,
                bi_at < bi_middle || found_nl_a, bi_middle < bptr_middle@.len(), mbase + bptr_middle@.len() <= fsz,
                forall|i: int| 0 <= i < bptr_middle@.len() ==> #[trigger] bptr_middle@[i] == f[mbase + i],
                line.lineparts@ == tail,
            ensures
                found_nl_a ==> 1 <= bi_at <= bi_middle && f[mbase + bi_at - 1] == 10u8 && fo_nl_a1 as int == mbase + bi_at && no_nl(f, mbase + bi_at, fileoffset as int),
                !found_nl_a ==> bi_at == 0 && no_nl(f, mbase, fileoffset as int),
            decreases bi_at,
//@before "let li: LinePart =" 4
        proof { lemma_split(bo_middle as int, bi_at as int, bs); }
//@after "line.prepend(li);" 4
        proof {
            if found_nl_b {
                lemma_mid(line.lineparts@[0], tail, f, bs, bo_middle as int, fileoffset as int, e, bi_middle_end as int, nl_b_eof);
                assert(is_startpoint(f, fileoffset as int, s_beg(line.lineparts@)));
                lemma_good(f, bs, line, fileoffset as int, e);
            }
        }
//@mutate "bi_middle_end = bi_at;" "bi_middle_end = bi_middle;"
//@mutate "fo_nl_a1 = fo_nl_a + charsz_fo;" "fo_nl_a1 = fo_nl_a;"
//@end
}
/// stand-in (R9) for `counter += 1` on a u64 statistics counter: assumed not to overflow
#[verifier::external_body]
pub fn verif_count_inc(c: &mut Count) { unimplemented!() }
pub fn verif_max(a: FileOffset, b: FileOffset) -> (r: FileOffset) ensures r == (if a >= b { a } else { b }) { if a >= b { a } else { b } }

/// vacuity guard: the assumptions about the reader (its store invariant, the file) are satisfiable -- this must NOT verify
pub proof fn lnr__canary(r: LineReader, k: FileOffset)
    requires r.wf(), r.lines@.contains_key(k), r.f().len() == 100, r.bs() == 16
    ensures false
{}

} // verus!
fn main() {}
