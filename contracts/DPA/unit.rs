// UNIT DPA — SyslineReader::dt_patterns_analysis (C04): after block-zero analysis ONE datetime pattern stays in use for the rest
// of the file.  The table of patterns is ordered most specific first (a pattern that reads the zone written in the line comes
// before the same notation without zone), so when several patterns are tied for most matches the one kept must be the one with the
// LOWEST index: a later, more general pattern also matches the zoned lines but ignores the zone they carry, and every instant of the
// file would be read in the --tz-offset zone instead of the zone it denotes.
// Assumed by contract (stand-ins): `iter().fold(MIN, max)` = the greatest count, `retain(|_, v| *v >= max)`, BTreeMap::pop_last /
// pop_first (greatest / least key), dt_patterns_indexes_refresh; DT_PATTERN_MAX = 1 (the code asserts this at compile time).
#![feature(allocator_api)]
#![allow(unused_imports, non_camel_case_types, dead_code, unused_variables, unused_parens, unused_mut, unused_assignments, non_snake_case)]
use vstd::prelude::*;
use std::collections::BTreeMap;
use vstd::std_specs::btree::*;
verus! {

pub type Count = u64;
//@cut type kind=type path=src/data/datetime.rs name=DateTimeParseInstrsIndex
//@end
//@cut type kind=type path=src/readers/syslinereader.rs name=DateTimePatternCounts
//@end

/// stand-in (R9) for `map.iter().fold(u64::MIN, |a, b| a.max(*(b.1)))`: the greatest value, 0 for an empty map
#[verifier::external_body]
pub fn verif_max_count(m: &DateTimePatternCounts) -> (r: Count)
    ensures
        forall|k: DateTimeParseInstrsIndex| #[trigger] m@.contains_key(k) ==> m@[k] <= r,
        r == 0 || exists|k: DateTimeParseInstrsIndex| #[trigger] m@.contains_key(k) && m@[k] == r,
{ unimplemented!() }
/// stand-in (R9) for `map.retain(|_, v| *v >= bound)`
#[verifier::external_body]
pub fn verif_retain_ge(m: &mut DateTimePatternCounts, bound: Count)
    ensures
        forall|k: DateTimeParseInstrsIndex| #[trigger] final(m)@.contains_key(k) <==> old(m)@.contains_key(k) && old(m)@[k] >= bound,
        forall|k: DateTimeParseInstrsIndex| #[trigger] final(m)@.contains_key(k) ==> final(m)@[k] == old(m)@[k],
{ unimplemented!() }
// assumed: BTreeMap::pop_last / pop_first take out the entry with the greatest / least key
pub assume_specification<K: Ord, V, A: core::alloc::Allocator + Clone>[BTreeMap::<K, V, A>::pop_last](m: &mut BTreeMap<K, V, A>) -> (r: Option<(K, V)>)
    ensures
        r is None ==> old(m)@.dom() =~= Set::<K>::empty() && final(m)@ == old(m)@,
        r is Some ==> old(m)@.contains_key(r.unwrap().0) && old(m)@[r.unwrap().0] == r.unwrap().1 && final(m)@ == old(m)@.remove(r.unwrap().0)
            && forall|k: K| #[trigger] old(m)@.contains_key(k) ==> vstd::std_specs::cmp::OrdSpec::cmp_spec(&k, &r.unwrap().0) != core::cmp::Ordering::Greater,
;
pub assume_specification<K: Ord, V, A: core::alloc::Allocator + Clone>[BTreeMap::<K, V, A>::pop_first](m: &mut BTreeMap<K, V, A>) -> (r: Option<(K, V)>)
    ensures
        r is None ==> old(m)@.dom() =~= Set::<K>::empty() && final(m)@ == old(m)@,
        r is Some ==> old(m)@.contains_key(r.unwrap().0) && old(m)@[r.unwrap().0] == r.unwrap().1 && final(m)@ == old(m)@.remove(r.unwrap().0)
            && forall|k: K| #[trigger] old(m)@.contains_key(k) ==> vstd::std_specs::cmp::OrdSpec::cmp_spec(&k, &r.unwrap().0) != core::cmp::Ordering::Less,
;

/// k is the pattern that must stay: most matches, and among those tied the lowest index (the most specific notation)
pub open spec fn is_kept(m: Map<usize, u64>, k: usize) -> bool {
    &&& m.contains_key(k)
    &&& forall|j: usize| #[trigger] m.contains_key(j) ==> m[j] <= m[k] && (m[j] == m[k] ==> k <= j)
}

/// among the patterns with the greatest count there is one with the lowest index
pub proof fn lemma_least(m: Map<usize, u64>, maxv: u64, k: usize)
    requires m.contains_key(k), m[k] == maxv, forall|j: usize| #[trigger] m.contains_key(j) ==> m[j] <= maxv
    ensures exists|k2: usize| is_kept(m, k2) && m[k2] == maxv
    decreases k
{
    if exists|j: usize| m.contains_key(j) && m[j] == maxv && j < k {
        let j = choose|j: usize| m.contains_key(j) && m[j] == maxv && j < k;
        lemma_least(m, maxv, j);
    } else {
        assert(is_kept(m, k));
    }
}

pub struct SyslineReader {
    pub dt_patterns_counts: DateTimePatternCounts,
    pub analyzed: bool,
}
impl SyslineReader {
    pub const DT_PATTERN_MAX: usize = 1;
    // assumed: rebuilds the index list from the counts, touches nothing else
    #[verifier::external_body]
    pub fn dt_patterns_indexes_refresh(&mut self)
        ensures final(self).dt_patterns_counts == old(self).dt_patterns_counts, final(self).analyzed == old(self).analyzed
    { unimplemented!() }

//@cut fn path=src/readers/syslinereader.rs impl=SyslineReader name=dt_patterns_analysis ret=r
//@replace "pub(crate) fn dt_patterns_analysis" "#[verifier::exec_allows_no_decreases_clause] pub fn dt_patterns_analysis"
//@replace "assertcp_eq!(SyslineReader::DT_PATTERN_MAX, 1);" ""
//@replace "self.dt_patterns_counts .iter() .fold(std::u64::MIN, |a, b| a.max(*(b.1)))" "verif_max_count(&self.dt_patterns_counts)" ws=1
//@replace "self.dt_patterns_counts .retain(|_, v| *v >= max_);" "verif_retain_ge(&mut self.dt_patterns_counts, max_);" ws=1
//@spec
    requires !old(self).analyzed
    ensures
        // C04: exactly one pattern stays in use, the one with most matches and, among those tied, the lowest index
        r ==> exists|k: usize| is_kept(old(self).dt_patterns_counts@, k) && #[trigger] final(self).dt_patterns_counts@.contains_key(k)
            && final(self).dt_patterns_counts@.dom() =~= set![k] && final(self).dt_patterns_counts@[k] == old(self).dt_patterns_counts@[k],
        r ==> final(self).analyzed,
        !r ==> final(self).dt_patterns_counts@ == old(self).dt_patterns_counts@
            && forall|k: usize| #[trigger] old(self).dt_patterns_counts@.contains_key(k) ==> old(self).dt_patterns_counts@[k] == 0,
//@at_entry
        proof { broadcast use group_btree_axioms; }
        let ghost m0 = self.dt_patterns_counts@;
//@loop 1
            invariant
                forall|k: usize| #[trigger] self.dt_patterns_counts@.contains_key(k) ==> m0.contains_key(k) && m0[k] == max_ && self.dt_patterns_counts@[k] == m0[k],
                forall|k: usize| #[trigger] m0.contains_key(k) ==> m0[k] <= max_,
                // the lowest tied index is still there
                exists|k: usize| is_kept(m0, k) && #[trigger] self.dt_patterns_counts@.contains_key(k),
                self.dt_patterns_counts@.dom().finite(),
            decreases self.dt_patterns_counts@.dom().len(),
//@before "verif_retain_ge("
        proof {
            let k0 = choose|k: usize| #[trigger] m0.contains_key(k) && m0[k] == max_;
            lemma_least(m0, max_, k0);
        }
//@after "verif_retain_ge("
        proof {
            let k2 = choose|k2: usize| is_kept(m0, k2) && m0[k2] == max_;
            assert(self.dt_patterns_counts@.contains_key(k2));
        }
//@before "self.dt_patterns_indexes_refresh();"
        proof {
            let ks = choose|k: usize| is_kept(m0, k) && #[trigger] self.dt_patterns_counts@.contains_key(k);
            let d = self.dt_patterns_counts@.dom();
            assert forall|j: usize| d.contains(j) implies j == ks by {
                if j != ks { assert(d.remove(ks).contains(j)); assert(d.remove(ks).len() == d.len() - 1); }
            }
            assert(d =~= set![ks]);
        }
//@before_tail
        proof {
            let ks = choose|k: usize| is_kept(m0, k) && #[trigger] self.dt_patterns_counts@.contains_key(k);
            assert(self.dt_patterns_counts@.contains_key(ks) && self.dt_patterns_counts@.dom() =~= set![ks] && self.dt_patterns_counts@[ks] == m0[ks]);
        }
//@before "let rm_key: DateTimeParseInstrsIndex"
            let ghost mprev = self.dt_patterns_counts@;
//@after "self.dt_patterns_counts.remove(&rm_key);"
            proof {
                let ks = choose|k: usize| is_kept(m0, k) && #[trigger] mprev.contains_key(k);
                // more than one pattern is left, so the greatest index is not the lowest tied one
                assert(mprev.dom().remove(rm_key).len() >= 1);
                let j = mprev.dom().remove(rm_key).choose();
                assert(mprev.contains_key(j) && j != rm_key);
                assert(ks <= j);
                assert(ks != rm_key);
                assert(self.dt_patterns_counts@.contains_key(ks));
            }
//@mutate "pop_last()" "pop_first()"
//@end
}

/// vacuity guard: must NOT verify
pub proof fn dpa__canary(m: Map<usize, u64>, k: usize)
    requires is_kept(m, k), m.contains_key(3), m[3] == 7
    ensures false
{}

} // verus!
fn main() {}
