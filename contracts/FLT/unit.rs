// UNIT FLT — window predicates for every source kind (C03).  DESIGN.md section 4.FLT
#![allow(unused_imports, non_camel_case_types, dead_code, unused_variables)]
use vstd::prelude::*;
use vstd::std_specs::cmp::*;
use core::cmp::Ordering;
use std::sync::Arc;
verus! {

//@include ../common/datetime.rs

// ---- the property's own statement of the window (C03): A <= t <= B, both inclusive, missing = unbounded
pub open spec fn in_window(t: int, a: Option<int>, b: Option<int>) -> bool {
    (a is None || a.unwrap() <= t) && (b is None || t <= b.unwrap())
}
pub open spec fn before_window(t: int, a: Option<int>) -> bool { a is Some && t < a.unwrap() }
pub open spec fn after_window(t: int, a: Option<int>, b: Option<int>) -> bool {
    !before_window(t, a) && b is Some && b.unwrap() < t
}
pub open spec fn oi(d: DateTimeLOpt) -> Option<int> { match d { Some(x) => Some(instant(x)), None => None } }
pub open spec fn oti(d: TimestampOpt) -> Option<int> { match d { Some(x) => Some(ts_instant(x)), None => None } }
pub open spec fn oe(d: Option<u64>) -> Option<int> { match d { Some(x) => Some(x as int), None => None } }
pub open spec fn well_ordered(a: Option<int>, b: Option<int>) -> bool { a is Some && b is Some ==> a.unwrap() <= b.unwrap() }

// ---- real: the two result enums and their helpers (src/data/datetime.rs)
//@cut type kind=enum path=src/data/datetime.rs name=Result_Filter_DateTime1 derives=
//@end
//@cut type kind=enum path=src/data/datetime.rs name=Result_Filter_DateTime2 derives=
//@end

impl Result_Filter_DateTime1 {
//@cut fn path=src/data/datetime.rs impl=Result_Filter_DateTime1 name=is_after ret=r
//@spec
    ensures r == (*self is OccursAtOrAfter)
//@end
//@cut fn path=src/data/datetime.rs impl=Result_Filter_DateTime1 name=is_before ret=r
//@spec
    ensures r == (*self is OccursBefore)
//@end
}
impl Result_Filter_DateTime2 {
//@cut fn path=src/data/datetime.rs impl=Result_Filter_DateTime2 name=is_pass ret=r
//@spec
    ensures r == (*self is InRange)
//@end
//@cut fn path=src/data/datetime.rs impl=Result_Filter_DateTime2 name=is_fail ret=r
//@spec
    ensures r == !(*self is InRange)
//@end
}

// ---- real: text-log / accounting-record predicates (src/data/datetime.rs)
//@cut fn path=src/data/datetime.rs name=dt_after_or_before ret=r
//@spec
    ensures
        dt_filter is None ==> r is Pass,
        dt_filter is Some ==> (r is OccursBefore <==> instant(*dt) < instant(dt_filter.unwrap())),
        dt_filter is Some ==> (r is OccursAtOrAfter <==> instant(*dt) >= instant(dt_filter.unwrap())),
//@mutate "dt < dt_a" "dt <= dt_a"
//@end

//@cut fn path=src/data/datetime.rs name=dt_pass_filters ret=r
//@spec
    requires
        well_ordered(oi(*dt_filter_after), oi(*dt_filter_before)),
    ensures
        r is InRange <==> in_window(instant(*dt), oi(*dt_filter_after), oi(*dt_filter_before)),
        r is BeforeRange <==> before_window(instant(*dt), oi(*dt_filter_after)),
        r is AfterRange <==> after_window(instant(*dt), oi(*dt_filter_after), oi(*dt_filter_before)),
//@mutate "db < dt" "db <= dt"
//@end

// ---- real: event-log predicate (src/readers/evtxreader.rs)
//@cut fn path=src/readers/evtxreader.rs name=ts_pass_filters ret=r
//@spec
    requires
        well_ordered(oti(*ts_filter_after), oti(*ts_filter_before)),
    ensures
        r is InRange <==> in_window(ts_instant(*ts), oti(*ts_filter_after), oti(*ts_filter_before)),
        r is BeforeRange <==> before_window(ts_instant(*ts), oti(*ts_filter_after)),
        r is AfterRange <==> after_window(ts_instant(*ts), oti(*ts_filter_after), oti(*ts_filter_before)),
//@mutate "ts < da" "ts <= da"
//@end

// ---- real: journal predicates (src/readers/journalreader.rs); EpochMicroseconds = u64
pub type EpochMicroseconds = u64;
pub type EpochMicrosecondsOpt = Option<EpochMicroseconds>;

//@cut fn path=src/readers/journalreader.rs name=em_pass_filters ret=r
//@spec
    requires
        well_ordered(oe(*em_filter_after), oe(*em_filter_before)),
    ensures
        r is InRange <==> in_window(*em as int, oe(*em_filter_after), oe(*em_filter_before)),
        r is BeforeRange <==> before_window(*em as int, oe(*em_filter_after)),
        r is AfterRange <==> after_window(*em as int, oe(*em_filter_after), oe(*em_filter_before)),
//@mutate "em_b < em" "em_b <= em"
//@end

//@cut fn path=src/readers/journalreader.rs name=em_after_or_before ret=r
//@spec
    ensures
        em_filter is None ==> r is Pass,
        em_filter is Some ==> (r is OccursBefore <==> *em < em_filter.unwrap()),
        em_filter is Some ==> (r is OccursAtOrAfter <==> *em >= em_filter.unwrap()),
//@end

//@include ../common/messages.rs

pub struct SyslineReader { _p: u8 }
impl SyslineReader {
//@cut fn path=src/readers/syslinereader.rs impl=SyslineReader name=sysline_dt_after_or_before ret=r
//@spec
    ensures
        dt_filter is None ==> r is Pass,
        dt_filter is Some ==> (r is OccursBefore <==> instant(syslinep.dt_spec()) < instant(dt_filter.unwrap())),
        dt_filter is Some ==> (r is OccursAtOrAfter <==> instant(syslinep.dt_spec()) >= instant(dt_filter.unwrap())),
//@end
//@cut fn path=src/readers/syslinereader.rs impl=SyslineReader name=sysline_pass_filters ret=r
//@spec
    requires
        well_ordered(oi(*dt_filter_after), oi(*dt_filter_before)),
    ensures
        r is InRange <==> in_window(instant(syslinep.dt_spec()), oi(*dt_filter_after), oi(*dt_filter_before)),
        r is BeforeRange <==> before_window(instant(syslinep.dt_spec()), oi(*dt_filter_after)),
        r is AfterRange <==> after_window(instant(syslinep.dt_spec()), oi(*dt_filter_after), oi(*dt_filter_before)),
//@end
}

pub struct FixedStructReader { _p: u8 }
impl FixedStructReader {
//@cut fn path=src/readers/fixedstructreader.rs impl=FixedStructReader name=entry_dt_after_or_before ret=r
//@spec
    ensures
        dt_filter is None ==> r is Pass,
        dt_filter is Some ==> (r is OccursBefore <==> instant(entry.dt_spec()) < instant(dt_filter.unwrap())),
        dt_filter is Some ==> (r is OccursAtOrAfter <==> instant(entry.dt_spec()) >= instant(dt_filter.unwrap())),
//@end
//@cut fn path=src/readers/fixedstructreader.rs impl=FixedStructReader name=entry_pass_filters ret=r
//@spec
    requires
        well_ordered(oi(*dt_filter_after), oi(*dt_filter_before)),
    ensures
        r is InRange <==> in_window(instant(entry.dt_spec()), oi(*dt_filter_after), oi(*dt_filter_before)),
        r is BeforeRange <==> before_window(instant(entry.dt_spec()), oi(*dt_filter_after)),
        r is AfterRange <==> after_window(instant(entry.dt_spec()), oi(*dt_filter_after), oi(*dt_filter_before)),
//@end
}

// ---- lemma (C03): the three cases partition, and all five predicates denote the same closed interval
pub proof fn window_inclusive(t: int, a: Option<int>, b: Option<int>)
    requires well_ordered(a, b)
    ensures
        in_window(t, a, b) <==> !before_window(t, a) && !after_window(t, a, b),
        !(before_window(t, a) && after_window(t, a, b)),
        (a is Some && t == a.unwrap()) ==> in_window(t, a, b),
        (b is Some && t == b.unwrap()) ==> in_window(t, a, b),
{}

// ---- vacuity guard: the precondition of the window predicates is satisfiable
pub proof fn well_ordered__canary(a: Option<int>, b: Option<int>)
    requires well_ordered(a, b)
    ensures false
{}

} // verus!
fn main() {}
