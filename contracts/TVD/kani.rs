// UNIT TVD (Kani, loop-free, full domain) -- the two decoders of a record's time value agree (C08).
//   path 1: FixedStructType::tv_pair_from_buffer -- used by the prefilter pass to SORT records
//   path 2: the match in FixedStruct::from_fixedstructptr -- the time that is PRINTED and merged on
// For every platform layout and every possible record content the sort key equals the record's own embedded time.
// Each harness is loop-free over fully symbolic record bytes: a complete proof for that layout, not a bounded one.
// ASSUMED: buffer_to_fixedstructptr copies the record bytes into the platform struct (stand-in: read_unaligned)
#![allow(dead_code, unused_variables, unused_mut, non_camel_case_types, unused_imports, non_snake_case, unused_macros, unused_assignments)]
use std::convert::TryInto;

pub mod common { pub type FileOffset = u64; }
pub type FileOffset = u64;
#[macro_export]
macro_rules! assertcp_eq { ($a:expr, $b:expr) => { const _: () = assert!($a == $b); }; }
pub struct Error;
pub enum ErrorKind { InvalidData, Other }
pub fn verif_error() -> Error { Error }
pub fn verif_string() -> () { () }
pub type tv_sec_type = i64;
pub type tv_usec_type = i64;

//@cut type kind=struct path=src/data/fixedstruct.rs name=tv_pair_type
//@end
//@cut type kind=enum path=src/common.rs name=FileTypeFixedStruct derives=Clone,Copy
//@end
//@cut type kind=mod path=src/data/fixedstruct.rs name=freebsd_x8664
//@replace "use ::const_format::assertcp_eq;" "use crate::assertcp_eq;"
//@replace "use ::memoffset::offset_of;" "use core::mem::offset_of;"
//@end
//@cut type kind=mod path=src/data/fixedstruct.rs name=linux_arm64aarch64
//@replace "use ::const_format::assertcp_eq;" "use crate::assertcp_eq;"
//@replace "use ::memoffset::offset_of;" "use core::mem::offset_of;"
//@end
//@cut type kind=mod path=src/data/fixedstruct.rs name=linux_x86
//@replace "use ::const_format::assertcp_eq;" "use crate::assertcp_eq;"
//@replace "use ::memoffset::offset_of;" "use core::mem::offset_of;"
//@end
//@cut type kind=mod path=src/data/fixedstruct.rs name=netbsd_x8632
//@replace "use ::const_format::assertcp_eq;" "use crate::assertcp_eq;"
//@replace "use ::memoffset::offset_of;" "use core::mem::offset_of;"
//@end
//@cut type kind=mod path=src/data/fixedstruct.rs name=netbsd_x8664
//@replace "use ::const_format::assertcp_eq;" "use crate::assertcp_eq;"
//@replace "use ::memoffset::offset_of;" "use core::mem::offset_of;"
//@end
//@cut type kind=mod path=src/data/fixedstruct.rs name=openbsd_x86
//@replace "use ::const_format::assertcp_eq;" "use crate::assertcp_eq;"
//@replace "use ::memoffset::offset_of;" "use core::mem::offset_of;"
//@end

//@cut type kind=enum path=src/data/fixedstruct.rs name=FixedStructType derives=Clone,Copy,PartialEq,Eq
//@end
//@macros path=src/data/fixedstruct.rs names=buffer_to_timeval,buffer_to_time_t,tv_or_err_tv_sec
impl FixedStructType {
//@cut fn path=src/data/fixedstruct.rs impl=FixedStructType name=size
//@end
//@cut fn path=src/data/fixedstruct.rs impl=FixedStructType name=offset_tv
//@end
//@cut fn path=src/data/fixedstruct.rs impl=FixedStructType name=size_tv
//@end
//@cut fn path=src/data/fixedstruct.rs impl=FixedStructType name=tv_pair_from_buffer
//@end
}

/// stand-in for the Box<dyn FixedStructTrait>: holds one platform struct; `as_<layout>()` hands it out
pub struct DynPtr<T> { pub v: T }
impl<T> DynPtr<T> {
    pub fn as_freebsd_x8664_utmpx(&self) -> &freebsd_x8664::utmpx { unsafe { &*(&self.v as *const T as *const freebsd_x8664::utmpx) } }
    pub fn as_linux_arm64aarch64_lastlog(&self) -> &linux_arm64aarch64::lastlog { unsafe { &*(&self.v as *const T as *const linux_arm64aarch64::lastlog) } }
    pub fn as_linux_arm64aarch64_utmpx(&self) -> &linux_arm64aarch64::utmpx { unsafe { &*(&self.v as *const T as *const linux_arm64aarch64::utmpx) } }
    pub fn as_linux_x86_acct(&self) -> &linux_x86::acct { unsafe { &*(&self.v as *const T as *const linux_x86::acct) } }
    pub fn as_linux_x86_acct_v3(&self) -> &linux_x86::acct_v3 { unsafe { &*(&self.v as *const T as *const linux_x86::acct_v3) } }
    pub fn as_linux_x86_lastlog(&self) -> &linux_x86::lastlog { unsafe { &*(&self.v as *const T as *const linux_x86::lastlog) } }
    pub fn as_linux_x86_utmpx(&self) -> &linux_x86::utmpx { unsafe { &*(&self.v as *const T as *const linux_x86::utmpx) } }
    pub fn as_netbsd_x8632_acct(&self) -> &netbsd_x8632::acct { unsafe { &*(&self.v as *const T as *const netbsd_x8632::acct) } }
    pub fn as_netbsd_x8632_lastlogx(&self) -> &netbsd_x8632::lastlogx { unsafe { &*(&self.v as *const T as *const netbsd_x8632::lastlogx) } }
    pub fn as_netbsd_x8632_utmpx(&self) -> &netbsd_x8632::utmpx { unsafe { &*(&self.v as *const T as *const netbsd_x8632::utmpx) } }
    pub fn as_netbsd_x8664_lastlog(&self) -> &netbsd_x8664::lastlog { unsafe { &*(&self.v as *const T as *const netbsd_x8664::lastlog) } }
    pub fn as_netbsd_x8664_lastlogx(&self) -> &netbsd_x8664::lastlogx { unsafe { &*(&self.v as *const T as *const netbsd_x8664::lastlogx) } }
    pub fn as_netbsd_x8664_utmp(&self) -> &netbsd_x8664::utmp { unsafe { &*(&self.v as *const T as *const netbsd_x8664::utmp) } }
    pub fn as_netbsd_x8664_utmpx(&self) -> &netbsd_x8664::utmpx { unsafe { &*(&self.v as *const T as *const netbsd_x8664::utmpx) } }
    pub fn as_openbsd_x86_lastlog(&self) -> &openbsd_x86::lastlog { unsafe { &*(&self.v as *const T as *const openbsd_x86::lastlog) } }
    pub fn as_openbsd_x86_utmp(&self) -> &openbsd_x86::utmp { unsafe { &*(&self.v as *const T as *const openbsd_x86::utmp) } }
}

/// path 2: the match of FixedStruct::from_fixedstructptr, as cut
pub fn embedded_time<T>(fixedstructtype: FixedStructType, fixedstructptr: DynPtr<T>) -> Result<tv_pair_type, Error> {
    let tv_sec: tv_sec_type;
    let tv_usec: tv_usec_type;
    let filetypefixedstruct: FileTypeFixedStruct;
//@cut slice path=src/data/fixedstruct.rs fn=from_fixedstructptr impl=FixedStruct anchor="match fixedstructtype" take=block label=EMBEDDED
//@end
    Ok(tv_pair_type(tv_sec, tv_usec))
}

#[cfg(kani)]
fn check<T: Copy, const SZ: usize>(ft: FixedStructType, control: bool) {
    let bytes: [u8; SZ] = kani::any();
    assert!(ft.size() == SZ);
    assert!(core::mem::size_of::<T>() == SZ);
    let off = ft.offset_tv();
    let tvsz = ft.size_tv();
    assert!(off + tvsz <= SZ);
    let v: T = unsafe { core::ptr::read_unaligned(bytes.as_ptr() as *const T) };
    // as FixedStructReader::preprocess_timevalues does: size_tv() bytes of the record are copied into a zeroed scratch buffer of
    // TIMEVAL_SZ_MAX bytes and the decoder is given that slice -- a size_tv() smaller than what the decoder reads leaves zeros there
    assert!(tvsz <= TIMEVAL_SZ_MAX);
    let mut scratch: [u8; TIMEVAL_SZ_MAX] = [0; TIMEVAL_SZ_MAX];
    let mut i__ = 0;
    while i__ < tvsz { scratch[i__] = bytes[off + i__]; i__ += 1; }
    let sort_key = ft.tv_pair_from_buffer(&scratch[..tvsz]);
    match embedded_time(ft, DynPtr { v }) {
        Ok(t) => {
            // C08: records are ordered by their own embedded time
            assert!(sort_key.is_some());
            let k = sort_key.unwrap();
            if control { assert!(k.0 != t.0 || k.1 != t.1); } else { assert!(k.0 == t.0 && k.1 == t.1); }
        }
        Err(_) => {}   // the record cannot be built at all; it is never printed
    }
}
//@cut fn path=src/common.rs name=max2 keepconst=1
//@end
//@cut fn path=src/common.rs name=max3 keepconst=1
//@end
//@cut fn path=src/common.rs name=max4 keepconst=1
//@end
//@cut fn path=src/common.rs name=max5 keepconst=1
//@end
//@cut fn path=src/common.rs name=max6 keepconst=1
//@end
//@cut fn path=src/common.rs name=max7 keepconst=1
//@end
//@cut fn path=src/common.rs name=max8 keepconst=1
//@end
//@cut fn path=src/common.rs name=max9 keepconst=1
//@end
//@cut fn path=src/common.rs name=max10 keepconst=1
//@end
//@cut fn path=src/common.rs name=max11 keepconst=1
//@end
//@cut fn path=src/common.rs name=max12 keepconst=1
//@end
//@cut fn path=src/common.rs name=max13 keepconst=1
//@end
//@cut fn path=src/common.rs name=max14 keepconst=1
//@end
//@cut fn path=src/common.rs name=max15 keepconst=1
//@end
//@cut fn path=src/common.rs name=max16 keepconst=1
//@end
//@cut fn path=src/common.rs name=min2 keepconst=1
//@end
//@cut fn path=src/common.rs name=min3 keepconst=1
//@end
//@cut fn path=src/common.rs name=min4 keepconst=1
//@end
//@cut fn path=src/common.rs name=min5 keepconst=1
//@end
//@cut fn path=src/common.rs name=min6 keepconst=1
//@end
//@cut fn path=src/common.rs name=min7 keepconst=1
//@end
//@cut fn path=src/common.rs name=min8 keepconst=1
//@end
//@cut fn path=src/common.rs name=min9 keepconst=1
//@end
//@cut fn path=src/common.rs name=min10 keepconst=1
//@end
//@cut fn path=src/common.rs name=min11 keepconst=1
//@end
//@cut fn path=src/common.rs name=min12 keepconst=1
//@end
//@cut fn path=src/common.rs name=min13 keepconst=1
//@end
//@cut fn path=src/common.rs name=min14 keepconst=1
//@end
//@cut fn path=src/common.rs name=min15 keepconst=1
//@end
//@cut fn path=src/common.rs name=min16 keepconst=1
//@end
//@cut type kind=const path=src/data/fixedstruct.rs name=ENTRY_SZ_MAX
//@end
//@cut type kind=const path=src/data/fixedstruct.rs name=ENTRY_SZ_MIN
//@end
//@cut type kind=const path=src/data/fixedstruct.rs name=TIMEVAL_SZ_MAX
//@end

// C08: the reader rejects a file smaller than ENTRY_SZ_MIN and reads records into buffers of ENTRY_SZ_MAX / TIMEVAL_SZ_MAX bytes:
// no supported layout's record may be smaller than the minimum or larger than the maxima (else a file holding one such record is
// never printed, or a buffer is too small).  All 16 layouts, loop-free: complete.
#[cfg(kani)]
fn any_layout() -> FixedStructType {
    let i: u8 = kani::any();
    kani::assume(i < 16);
    match i {
        0 => FixedStructType::Fs_Freebsd_x8664_Utmpx, 1 => FixedStructType::Fs_Linux_Arm64Aarch64_Lastlog, 2 => FixedStructType::Fs_Linux_Arm64Aarch64_Utmpx,
        3 => FixedStructType::Fs_Linux_x86_Acct, 4 => FixedStructType::Fs_Linux_x86_Acct_v3, 5 => FixedStructType::Fs_Linux_x86_Lastlog,
        6 => FixedStructType::Fs_Linux_x86_Utmpx, 7 => FixedStructType::Fs_Netbsd_x8632_Acct, 8 => FixedStructType::Fs_Netbsd_x8632_Lastlogx,
        9 => FixedStructType::Fs_Netbsd_x8632_Utmpx, 10 => FixedStructType::Fs_Netbsd_x8664_Lastlog, 11 => FixedStructType::Fs_Netbsd_x8664_Lastlogx,
        12 => FixedStructType::Fs_Netbsd_x8664_Utmp, 13 => FixedStructType::Fs_Netbsd_x8664_Utmpx, 14 => FixedStructType::Fs_Openbsd_x86_Lastlog,
        _ => FixedStructType::Fs_Openbsd_x86_Utmp,
    }
}
#[cfg(kani)] #[kani::proof] fn tvd_entry_size_bounds() {
    let t = any_layout();
    assert!(ENTRY_SZ_MIN <= t.size());
    assert!(t.size() <= ENTRY_SZ_MAX);
    assert!(t.size_tv() <= TIMEVAL_SZ_MAX);
}
#[cfg(kani)] #[kani::proof] fn tvd_fs_freebsd_x8664_utmpx() { check::<freebsd_x8664::utmpx, { freebsd_x8664::UTMPX_SZ }>(FixedStructType::Fs_Freebsd_x8664_Utmpx, false); }
#[cfg(kani)] #[kani::proof] fn tvd_fs_linux_arm64aarch64_lastlog() { check::<linux_arm64aarch64::lastlog, { linux_arm64aarch64::LASTLOG_SZ }>(FixedStructType::Fs_Linux_Arm64Aarch64_Lastlog, false); }
#[cfg(kani)] #[kani::proof] fn tvd_fs_linux_arm64aarch64_utmpx() { check::<linux_arm64aarch64::utmpx, { linux_arm64aarch64::UTMPX_SZ }>(FixedStructType::Fs_Linux_Arm64Aarch64_Utmpx, false); }
#[cfg(kani)] #[kani::proof] fn tvd_fs_linux_x86_acct() { check::<linux_x86::acct, { linux_x86::ACCT_SZ }>(FixedStructType::Fs_Linux_x86_Acct, false); }
#[cfg(kani)] #[kani::proof] fn tvd_fs_linux_x86_acct_v3() { check::<linux_x86::acct_v3, { linux_x86::ACCT_V3_SZ }>(FixedStructType::Fs_Linux_x86_Acct_v3, false); }
#[cfg(kani)] #[kani::proof] fn tvd_fs_linux_x86_lastlog() { check::<linux_x86::lastlog, { linux_x86::LASTLOG_SZ }>(FixedStructType::Fs_Linux_x86_Lastlog, false); }
#[cfg(kani)] #[kani::proof] fn tvd_fs_linux_x86_utmpx() { check::<linux_x86::utmpx, { linux_x86::UTMPX_SZ }>(FixedStructType::Fs_Linux_x86_Utmpx, false); }
#[cfg(kani)] #[kani::proof] fn tvd_fs_netbsd_x8632_acct() { check::<netbsd_x8632::acct, { netbsd_x8632::ACCT_SZ }>(FixedStructType::Fs_Netbsd_x8632_Acct, false); }
#[cfg(kani)] #[kani::proof] fn tvd_fs_netbsd_x8632_lastlogx() { check::<netbsd_x8632::lastlogx, { netbsd_x8632::LASTLOGX_SZ }>(FixedStructType::Fs_Netbsd_x8632_Lastlogx, false); }
#[cfg(kani)] #[kani::proof] fn tvd_fs_netbsd_x8632_utmpx() { check::<netbsd_x8632::utmpx, { netbsd_x8632::UTMPX_SZ }>(FixedStructType::Fs_Netbsd_x8632_Utmpx, false); }
#[cfg(kani)] #[kani::proof] fn tvd_fs_netbsd_x8664_lastlog() { check::<netbsd_x8664::lastlog, { netbsd_x8664::LASTLOG_SZ }>(FixedStructType::Fs_Netbsd_x8664_Lastlog, false); }
#[cfg(kani)] #[kani::proof] fn tvd_fs_netbsd_x8664_lastlogx() { check::<netbsd_x8664::lastlogx, { netbsd_x8664::LASTLOGX_SZ }>(FixedStructType::Fs_Netbsd_x8664_Lastlogx, false); }
#[cfg(kani)] #[kani::proof] fn tvd_fs_netbsd_x8664_utmp() { check::<netbsd_x8664::utmp, { netbsd_x8664::UTMP_SZ }>(FixedStructType::Fs_Netbsd_x8664_Utmp, false); }
#[cfg(kani)] #[kani::proof] fn tvd_fs_netbsd_x8664_utmpx() { check::<netbsd_x8664::utmpx, { netbsd_x8664::UTMPX_SZ }>(FixedStructType::Fs_Netbsd_x8664_Utmpx, false); }
#[cfg(kani)] #[kani::proof] fn tvd_fs_openbsd_x86_lastlog() { check::<openbsd_x86::lastlog, { openbsd_x86::LASTLOG_SZ }>(FixedStructType::Fs_Openbsd_x86_Lastlog, false); }
#[cfg(kani)] #[kani::proof] fn tvd_fs_openbsd_x86_utmp() { check::<openbsd_x86::utmp, { openbsd_x86::UTMP_SZ }>(FixedStructType::Fs_Openbsd_x86_Utmp, false); }
// vacuity guard: the Ok branch is reachable (this harness must FAIL)
#[cfg(kani)] #[kani::proof] fn tvd_control_must_fail() { check::<linux_x86::utmpx, { linux_x86::UTMPX_SZ }>(FixedStructType::Fs_Linux_x86_Utmpx, true); }
