// UNIT FRAC — "keeping 1 to 9 fractional digits as written" (C04): the fractional-second branch of
// captures_to_buffer_bytes pads the captured digits on the right with '0' to exactly nine, so that chrono's %f
// (nanoseconds) reads d1..dk as d1..dk * 10^(9-k) ns.  Slice of the real function; the copy macro is expanded inline.
#![allow(unused_imports, non_camel_case_types, dead_code, unused_variables, unused_parens, unused_mut, unused_assignments, non_snake_case)]
use vstd::prelude::*;
verus! {

global size_of usize == 8;
/// bytes [at, at+len) of the buffer become the slice; everything else stays
pub open spec fn spliced(b0: Seq<u8>, at: int, s: Seq<u8>) -> Seq<u8> { b0.subrange(0, at) + s + b0.subrange(at + s.len(), b0.len() as int) }
// ---- real: the copy macro, verified once as a function generated from its body (R13)
//@macrofn path=src/data/datetime.rs name=copy_slice_to_buffer
//@params u8_slice:val:&[u8] buffer:mut:[u8] at:mut:usize
//@spec
    requires *old(at) + u8_slice@.len() <= old(buffer)@.len(), old(buffer)@.len() <= usize::MAX,
    ensures *final(at) == *old(at) + u8_slice@.len(), final(buffer)@ =~= spliced(old(buffer)@, *old(at) as int, u8_slice@),
//@end

pub open spec fn is_digit(b: u8) -> bool { 0x30 <= b <= 0x39 }
/// value of a digit string read as a decimal number
pub open spec fn dec(s: Seq<u8>) -> int decreases s.len() { if s.len() == 0 { 0 } else { dec(s.drop_last()) * 10 + (s.last() - 0x30) } }
pub open spec fn pow10(n: nat) -> int decreases n { if n == 0 { 1 } else { 10 * pow10((n - 1) as nat) } }
pub open spec fn zeros(n: int) -> Seq<u8> { Seq::new(n as nat, |i: int| 0x30u8) }

pub proof fn lemma_dec_push(s: Seq<u8>, d: u8) ensures dec(s.push(d)) == dec(s) * 10 + (d - 0x30)
{ assert(s.push(d).drop_last() =~= s); }
/// appending n zeros multiplies the value by 10^n: .5 == .500000000
pub proof fn lemma_dec_zeros(s: Seq<u8>, n: nat) ensures dec(s + zeros(n as int)) == dec(s) * pow10(n) decreases n
{
    if n == 0 { assert(s + zeros(0) =~= s); }
    else {
        assert(s + zeros(n as int) =~= (s + zeros(n - 1)).push(0x30u8));
        lemma_dec_push(s + zeros(n - 1), 0x30u8);
        lemma_dec_zeros(s, (n - 1) as nat);
        assert(dec(s) * pow10((n - 1) as nat) * 10 == dec(s) * pow10(n)) by (nonlinear_arith) requires pow10(n) == 10 * pow10((n - 1) as nat);
    }
}

/// the `match len { .. }` of the fractional branch: `fractional` = the captured digits, `at` = write position
pub fn frac_to_buffer(fractional: &[u8], buffer: &mut [u8], at0: usize) -> (r: usize)
    requires
        fractional@.len() <= 12,
        at0 + 9 <= old(buffer)@.len(), old(buffer)@.len() <= usize::MAX,
    ensures
        final(buffer)@.len() == old(buffer)@.len(),
        // C04: 1 to 9 fractional digits are kept as written and padded with '0' to nine: the nanosecond field chrono
        // reads (%f) is the written fraction (lemma_dec_zeros: value * 10^(9-k))
        fractional@.len() <= 9 ==> r == at0 + 9
            && final(buffer)@.subrange(at0 as int, at0 + 9) =~= fractional@ + zeros(9 - fractional@.len()),
        // more than nine digits: the first nine (nothing finer than a nanosecond can be kept)
        9 < fractional@.len() ==> r == at0 + 9 && final(buffer)@.subrange(at0 as int, at0 + 9) =~= fractional@.subrange(0, 9),
        // nothing outside the nine bytes is touched
        forall|i: int| 0 <= i < at0 || at0 + 9 <= i < old(buffer)@.len() ==> final(buffer)@[i] == old(buffer)@[i],
{
    let mut at: usize = at0;
    let len = fractional.len();
//@cut slice path=src/data/datetime.rs fn=captures_to_buffer_bytes anchor="match len {" take=block label=FRACTIONAL reborrow=buffer
//@bytelits
//@end
    at
}

pub proof fn frac__canary(f: Seq<u8>, b: Seq<u8>)
    requires f.len() == 8, b.len() == 9, b =~= f + zeros(1)
    ensures false
{}

} // verus!
fn main() {}
