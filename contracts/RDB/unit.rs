// UNIT RDB — BlockReader::read_data and read_data_to_buffer (C08, C12): the bytes copied into the caller's buffer for the file
// range [beg, end) are exactly those bytes of the file (up to the end of the file), whether the range lies in one block, spans two,
// or spans many -- the contract unit FXS assumes for the fixed-record readers.
// Assumed by contract: read_block (unit RBK: Found = that block of the file; Done iff past the last block of a non-empty file), the
// offset arithmetic (unit BLK).
#![feature(allocator_api)]
#![allow(unused_imports, non_camel_case_types, dead_code, unused_variables, unused_parens, unused_mut, unused_assignments, non_snake_case, unused_labels)]
use vstd::prelude::*;
use vstd::arithmetic::div_mod::*;
use std::sync::Arc;
verus! {

global size_of usize == 8;
pub type Count = u64;
pub type FileOffset = u64;
pub type FileSz = u64;
pub type BlockOffset = u64;
pub type BlockIndex = usize;
pub type BlockSz = u64;
pub type Block = Vec<u8>;
pub type BlockP = Arc<Block>;
#[verifier::external_body]
pub struct Error { _p: u8 }
#[verifier::external_body]
pub struct FPath { _p: u8 }
//@cut type kind=enum path=src/common.rs name=ResultS3 derives=
//@end
pub type ResultS3ReadBlock = ResultS3<BlockP, Error>;
//@include ../common/blocks.rs
//@cut type kind=enum path=src/readers/blockreader.rs name=ReadDataParts derives=
//@end
//@cut type kind=type path=src/readers/blockreader.rs name=ReadData
//@end
//@cut type kind=type path=src/readers/blockreader.rs name=ResultReadData
//@end
//@cut type kind=type path=src/readers/blockreader.rs name=ResultReadDataToBuffer
//@end
pub fn verif_min_u64(a: u64, b: u64) -> (r: u64) ensures r == (if a <= b { a } else { b }) { if a <= b { a } else { b } }
pub fn verif_min_usize(a: usize, b: usize) -> (r: usize) ensures r == (if a <= b { a } else { b }) { if a <= b { a } else { b } }
#[verifier::external_body]
pub fn verif_error() -> Error { unimplemented!() }
pub enum ErrorKind { Other, InvalidData }
#[verifier::external_body]
pub struct String { _p: u8 }
impl Error {
    #[verifier::external_body]
    pub fn new(kind: ErrorKind, msg: String) -> Error { unimplemented!() }
}
/// the block iterator `blockps.iter().skip(1).take(len_ - 2)`: the blocks strictly between the first and the last (stand-in, R9)
#[verifier::external_body]
pub struct MidIter<'a> { _p: &'a u8 }
impl<'a> MidIter<'a> {
    pub uninterp spec fn rest(&self) -> Seq<BlockP>;
    #[verifier::external_body]
    pub fn next(&mut self) -> (r: Option<&'a BlockP>)
        ensures old(self).rest().len() == 0 ==> r is None && final(self).rest() == old(self).rest(),
            old(self).rest().len() > 0 ==> r is Some && *r.unwrap() == old(self).rest()[0] && final(self).rest() == old(self).rest().subrange(1, old(self).rest().len() as int),
    { unimplemented!() }
}
impl<'a> core::iter::Iterator for MidIter<'a> {
    type Item = &'a BlockP;
    #[verifier::external_body]
    fn next(&mut self) -> Option<&'a BlockP> { unimplemented!() }
}
#[verifier::external_body]
pub fn verif_iter_mid<'a>(v: &'a Vec<BlockP>, n: usize) -> (r: MidIter<'a>)
    requires v@.len() >= 2, n == v@.len() - 2
    ensures r.rest() == v@.subrange(1, v@.len() - 1)
{ unimplemented!() }

/// whole blocks v[i..j) laid end to end
pub open spec fn whole(v: Seq<BlockP>, i: int, j: int) -> Seq<u8>
    decreases j - i
{
    if i >= j { Seq::<u8>::empty() } else { whole(v, i, j - 1) + v[j - 1]@ }
}
/// whole blocks b0+1 .. b0+j-1 of the file, laid end to end, are the bytes between those block boundaries
pub proof fn lemma_whole(v: Seq<BlockP>, f: Seq<u8>, bs: int, b0: int, j: int)
    requires
        bs >= 1, b0 >= 0, 1 <= j <= v.len(), (b0 + j) * bs <= f.len(),
        forall|i: int| 0 <= i < j ==> (#[trigger] v[i])@ == fblock(f, bs, b0 + i),
    ensures whole(v, 1, j) == f.subrange((b0 + 1) * bs, (b0 + j) * bs), (b0 + 1) * bs <= (b0 + j) * bs
    decreases j
{
    assert((b0 + 1) * bs <= (b0 + j) * bs) by (nonlinear_arith) requires b0 + 1 <= b0 + j, bs >= 1;
    if j == 1 {
        assert(whole(v, 1, 1) =~= Seq::<u8>::empty());
        assert(f.subrange((b0 + 1) * bs, (b0 + 1) * bs) =~= Seq::<u8>::empty());
    } else {
        assert((b0 + j) * bs == (b0 + j - 1) * bs + bs) by (nonlinear_arith);
        assert((b0 + j - 1) * bs >= 0) by (nonlinear_arith) requires b0 + j - 1 >= 0, bs >= 1;
        lemma_whole(v, f, bs, b0, j - 1);
        assert(v[j - 1]@ == fblock(f, bs, b0 + (j - 1)));
        assert((b0 + (j - 1) + 1) * bs == (b0 + j) * bs);
        assert(fblock(f, bs, b0 + j - 1) =~= f.subrange((b0 + j - 1) * bs, (b0 + j) * bs));
        assert((b0 + 1) * bs <= (b0 + j - 1) * bs) by (nonlinear_arith) requires b0 + 1 <= b0 + j - 1, bs >= 1;
        assert(f.subrange((b0 + 1) * bs, (b0 + j - 1) * bs) + f.subrange((b0 + j - 1) * bs, (b0 + j) * bs) =~= f.subrange((b0 + 1) * bs, (b0 + j) * bs));
    }
}
pub proof fn lemma_whole_mono(v: Seq<BlockP>, i: int, j1: int, j2: int)
    requires j1 <= j2
    ensures whole(v, i, j1).len() <= whole(v, i, j2).len()
    decreases j2 - j1
{
    if j1 < j2 { lemma_whole_mono(v, i, j1, j2 - 1); if i < j2 { assert(whole(v, i, j2) == whole(v, i, j2 - 1) + v[j2 - 1]@); } }
}
/// the bytes a ReadData value denotes
pub open spec fn data_of(p: ReadDataParts, bi1: int, bi2: int) -> Seq<u8> {
    match p {
        ReadDataParts::One(b) => b@.subrange(bi1, bi2),
        ReadDataParts::Two(b1, b2) => b1@.subrange(bi1, b1@.len() as int) + b2@.subrange(0, bi2),
        ReadDataParts::Many(v) => v@[0]@.subrange(bi1, v@[0]@.len() as int) + whole(v@, 1, v@.len() - 1) + v@.last()@.subrange(0, bi2),
    }
}
/// every block but the last one handed back is a whole block
pub open spec fn parts_full(p: ReadDataParts, bs: int) -> bool {
    match p {
        ReadDataParts::One(b) => true,
        ReadDataParts::Two(b1, b2) => b1@.len() == bs,
        ReadDataParts::Many(v) => forall|i: int| 0 <= i < v@.len() - 1 ==> (#[trigger] v@[i])@.len() == bs,
    }
}
/// the indexes make sense for the parts
pub open spec fn data_ok(p: ReadDataParts, bi1: int, bi2: int) -> bool {
    match p {
        ReadDataParts::One(b) => 0 <= bi1 <= bi2 <= b@.len(),
        ReadDataParts::Two(b1, b2) => 0 <= bi1 <= b1@.len() && 0 <= bi2 <= b2@.len(),
        ReadDataParts::Many(v) => v@.len() >= 3 && 0 <= bi1 <= v@[0]@.len() && 0 <= bi2 <= v@.last()@.len(),
    }
}


#[verifier::external_body]
pub fn verif_fmt_small(a: &usize, b: &usize, c: &&FPath) -> String { unimplemented!() }
//@formatfn "buffer too small, len {}, need {} for file {:?}" verif_fmt_small
//@macrofn path=src/readers/blockreader.rs name=read_data_to_buffer_len_check may_return=1 errwrap=ResultReadDataToBuffer::Err
//@params arg1:val:usize arg2:val:usize path:val:&FPath
//@spec
    ensures r is Ok <==> arg1 >= arg2
//@end

#[verifier::external_body]
pub struct BlockReader { _p: u8 }
impl BlockReader {
    pub uninterp spec fn file(&self) -> Seq<u8>;
    pub uninterp spec fn bs(&self) -> int;
    pub open spec fn wf(&self) -> bool { self.bs() >= 1 && self.file().len() + self.bs() < u64::MAX }
    pub open spec fn same(&self, o: &Self) -> bool { self.file() == o.file() && self.bs() == o.bs() }
    // assumed (unit RBK)
    #[verifier::external_body]
    pub fn read_block(&mut self, blockoffset: BlockOffset) -> (r: ResultS3ReadBlock)
        requires old(self).wf()
        ensures final(self).same(old(self)),
            r is Found ==> r->Found_0@ == fblock(old(self).file(), old(self).bs(), blockoffset as int),
            blockoffset as int > sp_last(old(self).file().len() as int, old(self).bs()) ==> r is Done,
            (old(self).file().len() > 0 && blockoffset as int <= sp_last(old(self).file().len() as int, old(self).bs())) ==> !(r is Done),
    { unimplemented!() }
    #[verifier::external_body]
    pub fn path(&self) -> &FPath { unimplemented!() }
    // assumed (unit BLK)
    #[verifier::external_body]
    pub fn filesz(&self) -> (r: FileSz) ensures r as int == self.file().len() { unimplemented!() }
    #[verifier::external_body]
    pub fn blocksz(&self) -> (r: BlockSz) ensures r as int == self.bs() { unimplemented!() }
    #[verifier::external_body]
    pub fn blockoffset_last(&self) -> (r: BlockOffset) requires self.bs() >= 1 ensures r as int == sp_last(self.file().len() as int, self.bs()) { unimplemented!() }
    #[verifier::external_body]
    pub fn block_offset_at_file_offset_self(&self, fileoffset: FileOffset) -> (r: BlockOffset) requires self.bs() >= 1 ensures r as int == fileoffset as int / self.bs() { unimplemented!() }
    #[verifier::external_body]
    pub fn block_index_at_file_offset_self(&self, fileoffset: FileOffset) -> (r: BlockIndex) requires self.bs() >= 1 ensures r as int == fileoffset as int % self.bs() { unimplemented!() }

//@cut fn path=src/readers/blockreader.rs impl=BlockReader name=read_data ret=r rlimit=200
//@replace "pub(crate) fn read_data" "#[verifier::exec_allows_no_decreases_clause] pub fn read_data"
//@replace "std::cmp::min(fileoffset_end, self.filesz())" "verif_min_u64(fileoffset_end, self.filesz())"
//@replace "std::cmp::min(" "verif_min_usize(" count=*
//@replace "self.blocksz as BlockIndex" "self.blocksz() as BlockIndex"
//@spec
    requires old(self).wf(), fileoffset_beg <= fileoffset_end
    ensures
        final(self).same(old(self)),
        // C08 / C12: the parts denote exactly the bytes [beg, min(end, filesz)) of the file
        r is Found ==> ({
            let e = if (fileoffset_end as int) < old(self).file().len() { fileoffset_end as int } else { old(self).file().len() as int };
            (fileoffset_beg as int) < e && data_ok(r->Found_0.0, r->Found_0.1 as int, r->Found_0.2 as int)
                && data_of(r->Found_0.0, r->Found_0.1 as int, r->Found_0.2 as int) == old(self).file().subrange(fileoffset_beg as int, e)
        }),
        r is Found ==> parts_full(r->Found_0.0, old(self).bs()) && (oneblock ==> r->Found_0.0 is One),
        (r is Done && !oneblock) ==> fileoffset_beg as int >= (if (fileoffset_end as int) < old(self).file().len() { fileoffset_end as int } else { old(self).file().len() as int }),
//@after "let fileoffset_end: FileOffset ="
        let ghost f = self.file();
        let ghost bs = self.bs();
        let ghost fsz = f.len() as int;
        let ghost e = fileoffset_end as int;
        let ghost sp0 = *self;
//@after "let mut bo1: BlockOffset ="
        let ghost b0 = bo1 as int;
        proof { lemma_offs(fileoffset_beg as int, bs); lemma_offs(e, bs); lemma_block(f, bs, b0); }
//@before "let bo2: BlockOffset = match bi2 {"
        proof {
            if e % bs == 0 { assert(e / bs >= 1) by { if e / bs == 0 { assert((e / bs) * bs == 0); } } }
        }
//@before "assert!((bo1) <= (bo2));"
        proof {
            // e = bo2 * bs + bi2 with 1 <= bi2 <= bs, and block bo2 starts inside the file
            if e % bs == 0 { assert(e / bs >= 1) by { if e / bs == 0 { assert((e / bs) * bs == 0); } } assert((e / bs - 1) * bs + bs == (e / bs) * bs) by (nonlinear_arith); }
            assert(e == bo2 as int * bs + bi2 && 1 <= bi2 <= bs);
            assert(bo2 as int * bs >= 0) by (nonlinear_arith) requires bo2 as int >= 0, bs >= 1;
            lemma_block(f, bs, bo2 as int);
            // beg < e, so the first block is not after the last one touched
            assert(b0 <= bo2) by { if b0 > bo2 as int { assert(b0 * bs >= (bo2 as int + 1) * bs) by (nonlinear_arith) requires b0 >= bo2 as int + 1, bs >= 1; assert((bo2 as int + 1) * bs == bo2 as int * bs + bs) by (nonlinear_arith); } }
        }
//@before "if bo1 + 1 == bo2 {"
        proof { assert(b0 < bo2 as int && b0 < bo_last); assert(blockp1@.len() == bs); }
//@before "let rd: ReadData = (ReadDataParts::Two(blockp1, blockp2), bi1, bi2);"
            proof {
                assert((b0 + 1) * bs == b0 * bs + bs) by (nonlinear_arith);
                assert(blockp1@.subrange(bi1 as int, bs) =~= f.subrange(fileoffset_beg as int, (b0 + 1) * bs));
                assert(blockp2@.subrange(0, bi2 as int) =~= f.subrange((b0 + 1) * bs, e));
                assert(f.subrange(fileoffset_beg as int, (b0 + 1) * bs) + f.subrange((b0 + 1) * bs, e) =~= f.subrange(fileoffset_beg as int, e));
            }
//@loop 1
            invariant
                self.same(&sp0), sp0.same(old(self)), self.wf(), f == self.file(), bs == self.bs(), fsz == f.len(), fsz > 0, bs >= 1,
                b0 + 1 <= bo1 <= bo2 + 1, bo2 as int <= sp_last(fsz, bs), bo2 < u64::MAX,
                blockps@.len() == bo1 - b0,
                forall|i: int| 0 <= i < blockps@.len() ==> (#[trigger] blockps@[i])@ == fblock(f, bs, b0 + i),
            ensures
                blockps@.len() == bo2 - b0 + 1,
                forall|i: int| 0 <= i < blockps@.len() ==> (#[trigger] blockps@[i])@ == fblock(f, bs, b0 + i),
            decreases bo2 + 1 - bo1,
//@before "let rd: ReadData = (ReadDataParts::Many(blockps), bi1, bi2);"
        proof {
            let v = blockps@; let n = v.len() as int;
            assert(n == bo2 - b0 + 1 && n >= 3);
            assert((b0 + n - 1) * bs == bo2 as int * bs);
            assert((b0 + (n - 1)) * bs <= fsz);
            lemma_whole(v, f, bs, b0, n - 1);
            assert((b0 + 1) * bs == b0 * bs + bs) by (nonlinear_arith);
            assert(v[0]@ == fblock(f, bs, b0 + 0));
            assert(v[0]@.subrange(bi1 as int, bs) =~= f.subrange(fileoffset_beg as int, (b0 + 1) * bs));
            assert(v.last()@ == fblock(f, bs, b0 + (n - 1)));
            assert(v.last()@.subrange(0, bi2 as int) =~= f.subrange(bo2 as int * bs, e));
            assert(f.subrange(fileoffset_beg as int, (b0 + 1) * bs) + f.subrange((b0 + 1) * bs, bo2 as int * bs) + f.subrange(bo2 as int * bs, e) =~= f.subrange(fileoffset_beg as int, e));
            assert forall|i: int| 0 <= i < n - 1 implies (#[trigger] v[i])@.len() == bs by {
                assert((b0 + i) * bs <= bo2 as int * bs) by (nonlinear_arith) requires b0 + i <= bo2 as int, bs >= 1;
                assert((b0 + i) * bs >= 0) by (nonlinear_arith) requires b0 + i >= 0, bs >= 1;
                lemma_block(f, bs, b0 + i);
            }
        }
//@mutate "self.block_offset_at_file_offset_self(fileoffset_end) - 1" "self.block_offset_at_file_offset_self(fileoffset_end)"
//@end

//@cut fn path=src/readers/blockreader.rs impl=BlockReader name=read_data_to_buffer ret=r rlimit=200
//@replace "pub fn read_data_to_buffer" "#[verifier::exec_allows_no_decreases_clause] pub fn read_data_to_buffer"
//@replace "self.path" "self.path()" count=*
//@replace "blockps.iter().skip(1).take(len_ - 2)" "verif_iter_mid(&blockps, len_ - 2)"
//@desugar_for 1 it plain
//@spec
    requires old(self).wf(), fileoffset_beg <= fileoffset_end, old(buffer)@.len() <= usize::MAX
    ensures
        final(self).same(old(self)), final(buffer)@.len() == old(buffer)@.len(),
        // C08 / C12: Found(n): the first n bytes of the buffer are the bytes [beg, min(end, filesz)) of the file
        r is Found ==> (fileoffset_beg as int) < old(self).file().len()
            && r->Found_0 as int == (if (fileoffset_end as int) < old(self).file().len() { fileoffset_end as int } else { old(self).file().len() as int }) - fileoffset_beg
            && r->Found_0 <= final(buffer)@.len()
            && final(buffer)@.subrange(0, r->Found_0 as int) == old(self).file().subrange(fileoffset_beg as int, fileoffset_beg as int + r->Found_0 as int),
        (r is Done && !oneblock) ==> fileoffset_beg as int >= (if (fileoffset_end as int) < old(self).file().len() { fileoffset_end as int } else { old(self).file().len() as int }),
//@before "let mut at: usize = 0;"
        let ghost want = data_of(readdata.0, readdata.1 as int, readdata.2 as int);
        let ghost blen = buffer@.len();
        let ghost f0 = self.file();
        let ghost bs0 = self.bs();
        proof { assert(want.len() < u64::MAX); }
//@loop 1
                    invariant
                        self.file() == f0, self.bs() == bs0, f0 == old(self).file(), bs0 == old(self).bs(), blen == old(buffer)@.len(),
                        forall|i: int| 0 <= i < blockps@.len() - 1 ==> (#[trigger] blockps@[i])@.len() == bs0, bs0 < u64::MAX, want.len() < u64::MAX,
                        want == blockps@[0]@.subrange(bi1 as int, blockps@[0]@.len() as int) + whole(blockps@, 1, blockps@.len() - 1) + blockps@.last()@.subrange(0, bi2 as int),
                        buffer@.len() == blen, blen <= usize::MAX, blockps@.len() >= 3, len_ == blockps@.len(),
                        it.rest().len() <= len_ - 2, at <= blen,
                        buffer@.subrange(0, at as int) == blockps@[0]@.subrange(bi1 as int, blockps@[0]@.len() as int) + whole(blockps@, 1, len_ - 1 - it.rest().len()),
                        it.rest() == blockps@.subrange(len_ - 1 - it.rest().len(), len_ - 1),
                    ensures
                        buffer@.len() == blen, at <= blen,
                        buffer@.subrange(0, at as int) == blockps@[0]@.subrange(bi1 as int, blockps@[0]@.len() as int) + whole(blockps@, 1, len_ - 1),
//@after "assert!(((*blockp).len()) == (self.blocksz() as usize));"
                    proof {
                        let k = len_ as int - 1 - it__old.rest().len();
                        assert(*blockp == blockps@[k]);
                        lemma_whole_mono(blockps@, 1, k + 1, len_ as int - 1);
                        assert(whole(blockps@, 1, k + 1) == whole(blockps@, 1, k) + blockps@[k]@);
                        let first = blockps@[0]@.subrange(bi1 as int, blockps@[0]@.len() as int);
                        assert(buffer@.subrange(0, at as int).len() == at);
                        assert((first + whole(blockps@, 1, k)).len() == first.len() + whole(blockps@, 1, k).len());
                        assert(want.len() == first.len() + whole(blockps@, 1, len_ as int - 1).len() + blockps@.last()@.subrange(0, bi2 as int).len());
                        assert(at + blockps@[k]@.len() <= want.len());
                    }
//@mutate "buffer[at..at + n].copy_from_slice(&blockp.as_slice()[..n]);" "buffer[at..at + n].copy_from_slice(&blockps[0].as_slice()[..n]);"
//@end
}

/// vacuity guard: must NOT verify
pub proof fn rdb__canary(f: Seq<u8>)
    requires f.len() == 100, fblock(f, 16, 2).len() == 16
    ensures false
{}

} // verus!
fn main() {}
