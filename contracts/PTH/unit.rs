// UNIT PTH — the order in which sources are named (C01: "messages ... that carry the same instant are printed in the order the sources
// were named (command-line order ...)"; the coordinator breaks ties by PathId, and PathIds follow the `paths` vector built in
// cli_process_args, src/bin/s4.rs).  The loop that builds `paths` from the PATHS arguments is cut from the function: every argument
// goes to `paths` in command-line order, and the paths read from standard input stand at the position of the (first) "-".
// The slice runs up to the statement that follows the loop, so that code added between them is inside it.
// Assumed by contract (stand-ins, R9): `std::io::stdin().lock().lines()` as a finite list of results; `match path.as_str()` against
// the constant "-" as a test; String::clone; vstd's Vec / slice-iterator specs.
#![allow(unused_imports, non_camel_case_types, dead_code, unused_variables, unused_parens, unused_mut, unused_assignments, non_snake_case, unused_labels)]
use vstd::prelude::*;
verus! {

#[verifier::external_body]
pub struct FPath { _p: u8 }
impl FPath {
    /// the argument is the special PATHS value "-"
    pub uninterp spec fn is_dash(&self) -> bool;
}
impl Clone for FPath {
    #[verifier::external_body]
    fn clone(&self) -> (r: Self) ensures r == *self { unimplemented!() }
}
#[verifier::external_body]
pub struct IoErr { _p: u8 }
pub type LineResult = core::result::Result<FPath, IoErr>;
/// what standard input yields, line by line
pub uninterp spec fn stdin_results() -> Seq<LineResult>;
/// stand-in (R9) for `std::io::stdin().lock().lines()`
#[verifier::external_body]
pub fn verif_stdin_lines() -> (r: Vec<LineResult>) ensures r@ == stdin_results() { unimplemented!() }
/// stand-in (R9) for `match path.as_str() { PATHS_ON_STDIN => .., _ => .. }`
#[verifier::external_body]
pub fn verif_is_stdin_marker(path: &FPath) -> (r: bool) ensures r == path.is_dash() { unimplemented!() }
#[derive(Clone, Copy)]
pub struct FixedOffset { pub secs: i32 }
pub struct CLI_ArgsP { pub paths: Vec<FPath>, pub tz_offset: FixedOffset }

/// the lines read from standard input from line k on, up to the first read error
pub open spec fn okp_from(rs: Seq<LineResult>, k: int) -> Seq<FPath> decreases rs.len() - k {
    if k < 0 || k >= rs.len() { Seq::empty() } else if rs[k] is Err { Seq::empty() } else { seq![rs[k]->Ok_0] + okp_from(rs, k + 1) }
}
/// the sources named by the arguments from argument i on: each argument in order, the standard-input paths at the first "-"
pub open spec fn named_from(args: Seq<FPath>, i: int, stdin: Seq<FPath>, seen: bool) -> Seq<FPath> decreases args.len() - i {
    if i < 0 || i >= args.len() { Seq::empty() }
    else if args[i].is_dash() { if seen { named_from(args, i + 1, stdin, true) } else { stdin + named_from(args, i + 1, stdin, true) } }
    else { seq![args[i]] + named_from(args, i + 1, stdin, seen) }
}

#[verifier::exec_allows_no_decreases_clause]
pub fn cli_paths(args: &CLI_ArgsP) -> (r: Vec<FPath>)
    requires args.paths@.len() < usize::MAX
    ensures r@ == named_from(args.paths@, 0, okp_from(stdin_results(), 0), false)
{
    let ghost a = args.paths@; let ghost rs = stdin_results(); let ghost sin = okp_from(stdin_results(), 0);
    let ghost mut p_before: Seq<FPath> = Seq::empty();   // the list as it was when standard input began to be read
//@cut slice path=src/bin/s4.rs fn=cli_process_args anchor="let mut paths: Vec<FPath> = Vec::<FPath>::with_capacity(args.paths.len() + 1);" take=range end_anchor="let tz_offset: FixedOffset = args.tz_offset;" label=CLI-PATHS
//@replace "match path.as_str() {" "match verif_is_stdin_marker(path) {"
//@replace "PATHS_ON_STDIN => {" "true => {"
//@replace "_ => paths.push(path.clone())," "false => paths.push(path.clone()),"
//@replace "std::io::stdin() .lock() .lines()" "verif_stdin_lines()" ws=1
//@desugar_for 1 it
//@desugar_for 2 it2
//@before "let mut it2 = vstd"
                proof { p_before = paths@; }
//@loop 1
        invariant_except_break
            vstd::std_specs::iter::IteratorSpec::decrease(&it.iter) is Some,
        invariant
            it.snapshot@ == it__snap0, it.wf(), it.seq().len() == a.len(), a == args.paths@, rs == stdin_results(), sin == okp_from(rs, 0),
            forall|i: int| 0 <= i < a.len() ==> *it.seq()[i] == a[i],
            0 <= it.index@ <= it.seq().len(),
            paths@ + named_from(a, it.index@ as int, sin, stdin_check) == named_from(a, 0, sin, false),
        ensures
            it.index@ == it.seq().len(), paths@ + named_from(a, it.index@ as int, sin, stdin_check) == named_from(a, 0, sin, false), it.seq().len() == a.len(),
        decreases vstd::std_specs::iter::IteratorSpec::decrease(&it.iter).unwrap_or(arbitrary()),
//@loop 2
                    invariant_except_break
                        vstd::std_specs::iter::IteratorSpec::decrease(&it2.iter) is Some,
                        paths@ + okp_from(rs, it2.index@ as int) == p_before + sin,
                    invariant
                        it2.snapshot@ == it2__snap0, it2.wf(), it2.seq() == rs, 0 <= it2.index@ <= it2.seq().len(), sin == okp_from(rs, 0),
                    ensures
                        paths@ == p_before + sin,
                    decreases vstd::std_specs::iter::IteratorSpec::decrease(&it2.iter).unwrap_or(arbitrary()),
//@end
    proof { assert(paths@ + Seq::<FPath>::empty() =~= paths@); }
    paths
}

// =====================================================================================================
// MAIN-FLATTEN — main() turns each named path into its sources (process_path: a file, the files of a walked directory in sorted
// order, the members of a .tar) and appends them to one list whose indexes become the PathIds: the sources of every argument, in
// the order process_path gave them, argument after argument (C01: "... sorted path order inside a walked directory")
#[verifier::external_body]
pub struct ProcessPathResult { _p: u8 }
pub type ProcessPathResults = Vec<ProcessPathResult>;
/// what process_path yields for a path (jwalk, the file system, file-name classification: outside, C15)
pub uninterp spec fn sources_of(path: &FPath) -> Seq<ProcessPathResult>;
#[verifier::external_body]
pub fn process_path(path: &FPath, unparseable_are_text: bool) -> (r: ProcessPathResults) ensures r@ == sources_of(path) { unimplemented!() }
pub open spec fn flat_from(paths: Seq<FPath>, i: int) -> Seq<ProcessPathResult> decreases paths.len() - i {
    if i < 0 || i >= paths.len() { Seq::empty() } else { sources_of(&paths[i]) + flat_from(paths, i + 1) }
}
//@if path=src/bin/s4.rs regex="for ppresult in ppaths\.into_iter\(\)"
pub fn main_flatten(paths: &Vec<FPath>) -> (r: ProcessPathResults)
    requires paths@.len() * 4 <= usize::MAX
    ensures r@ == flat_from(paths@, 0)
{
    let ghost ps = paths@;
//@cut slice path=src/bin/s4.rs fn=main anchor="let mut processed_paths: ProcessPathResults = ProcessPathResults::with_capacity(paths.len() * 4);" take=range end_anchor="for path in paths.iter()" label=MAIN-FLATTEN
//@replace "for path in paths.iter()" "for path in it: paths.iter()"
//@replace "for ppresult in ppaths.into_iter()" "for ppresult in it2: ppaths.into_iter()"
//@before "for ppresult in it2"
        let ghost before__ = processed_paths@; let ghost pp0 = ppaths@;
//@loop 1
        invariant
            ps == paths@, it.seq().len() == ps.len(), forall|i: int| 0 <= i < ps.len() ==> *it.seq()[i] == ps[i],
            processed_paths@ + flat_from(ps, it.index@ as int) == flat_from(ps, 0),
//@loop 2
            invariant
                it2.seq() == pp0, processed_paths@ == before__ + pp0.take(it2.index@ as int),
                pp0 == sources_of(&ps[it.index@ as int]), ps == paths@, 0 <= it.index@ < ps.len(),
                before__ + flat_from(ps, it.index@ as int) == flat_from(ps, 0),
//@loop_end 1
        proof {
            assert(pp0.take(pp0.len() as int) =~= pp0);
            assert(processed_paths@ == before__ + pp0);
            assert((before__ + pp0) + flat_from(ps, it.index@ as int + 1) =~= before__ + (pp0 + flat_from(ps, it.index@ as int + 1)));
        }
//@end
    proof { assert(processed_paths@ + Seq::<ProcessPathResult>::empty() =~= processed_paths@); }
    processed_paths
}

//@else
// the inner loop is not `for .. in ppaths.into_iter()`: the same contract, without the iterator hints of that form
pub fn main_flatten(paths: &Vec<FPath>) -> (r: ProcessPathResults)
    requires paths@.len() * 4 <= usize::MAX
    ensures r@ == flat_from(paths@, 0)
{
    let ghost ps = paths@;
//@cut slice path=src/bin/s4.rs fn=main anchor="let mut processed_paths: ProcessPathResults = ProcessPathResults::with_capacity(paths.len() * 4);" take=range end_anchor="for path in paths.iter()" label=MAIN-FLATTEN
//@replace "for path in paths.iter()" "for path in it: paths.iter()"
//@after "process_path(path, true);"
        let ghost before__ = processed_paths@; let ghost pp0 = ppaths@;
//@loop 1
        invariant
            ps == paths@, it.seq().len() == ps.len(), forall|i: int| 0 <= i < ps.len() ==> *it.seq()[i] == ps[i],
            processed_paths@ + flat_from(ps, it.index@ as int) == flat_from(ps, 0),
//@loop 2
            invariant
                pp0 == sources_of(&ps[it.index@ as int]), ps == paths@, 0 <= it.index@ < ps.len(),
                before__ + flat_from(ps, it.index@ as int) == flat_from(ps, 0),
            decreases ppaths@.len(),
//@loop_end 1
        proof {
            assert(pp0.take(pp0.len() as int) =~= pp0);
            assert(processed_paths@ == before__ + pp0);
            assert((before__ + pp0) + flat_from(ps, it.index@ as int + 1) =~= before__ + (pp0 + flat_from(ps, it.index@ as int + 1)));
        }
//@end
    proof { assert(processed_paths@ + Seq::<ProcessPathResult>::empty() =~= processed_paths@); }
    processed_paths
}

//@endif
/// vacuity guard: must NOT verify
pub proof fn pth__canary(a: Seq<FPath>)
    requires a.len() == 2, !a[0].is_dash(), a[1].is_dash()
    ensures false
{}

} // verus!
fn main() {}
