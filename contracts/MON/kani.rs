// UNIT MON (Kani, loop-free over all byte strings of <= 10 bytes: complete for that length) — named months: the real
// month_bB_to_month_m_bytes and its 120 MONTH_* constants.  C04 "named month" notations: whatever spelling the function accepts
// (jan / Jan / JAN, with or without a dot, or the full name in the three cases), the two digits written are the number of that
// English month; and every one of those spellings is accepted.
// ASSUMED: nothing (the harness's own oracle is the English month list below).
#![allow(dead_code, unused_variables, unused_mut, non_upper_case_globals, non_snake_case)]

//@cutall kind=const path=src/data/datetime.rs re=^MONTH_[0-9][0-9]_
//@cut fn path=src/data/datetime.rs name=month_bB_to_month_m_bytes
//@end

#[cfg(kani)]
const NAMES: [&[u8]; 12] = [b"january", b"february", b"march", b"april", b"may", b"june", b"july", b"august", b"september", b"october", b"november", b"december"];

#[cfg(kani)]
fn lower(b: u8) -> u8 { if b >= b'A' && b <= b'Z' { b + 32 } else { b } }

/// oracle: Some(month number) iff `d` is an English month name or its three-letter abbreviation (optionally followed by a dot) in
/// lower, Title or UPPER case
#[cfg(kani)]
fn oracle(d: &[u8]) -> Option<u8> {
    let n = d.len();
    if n < 3 { return None; }
    // case shape: all lower, Title, or all upper (letters only)
    let dot = d[n - 1] == b'.';
    let ln = if dot { n - 1 } else { n };
    let mut all_lower = true; let mut all_upper = true; let mut title = true;
    let mut i = 0;
    while i < 10 {
        if i < ln {
            let c = d[i];
            let is_l = c >= b'a' && c <= b'z'; let is_u = c >= b'A' && c <= b'Z';
            if !is_l { all_lower = false; }
            if !is_u { all_upper = false; }
            if i == 0 { if !is_u { title = false; } } else if !is_l { title = false; }
        }
        i += 1;
    }
    if !(all_lower || all_upper || title) { return None; }
    let mut mth = 0;
    while mth < 12 {
        let nm = NAMES[mth];
        // abbreviation (3 letters, optional dot) or full name (no dot)
        let full = !dot && ln == nm.len();
        let abbr = ln == 3;   // three letters; a dot may follow
        if full || abbr {
            let mut ok = true;
            let mut k = 0;
            while k < 10 { if k < ln && (k >= nm.len() || lower(d[k]) != nm[k]) { ok = false; } k += 1; }
            // (the regex CGP_MONTHb accepts every abbreviation with an optional dot, `may.` included)
            if ok && !(dot && !abbr) { return Some(mth as u8 + 1); }
        }
        mth += 1;
    }
    None
}

#[cfg(kani)] #[kani::proof] #[kani::unwind(13)]
fn mon_names() {
    let bytes: [u8; 10] = kani::any();
    let n: usize = kani::any();
    kani::assume(n <= 10);
    let d = &bytes[..n];
    let want = oracle(d);
    // the function panics on anything it does not know: only call it where the oracle says it is a month
    if let Some(mth) = want {
        let mut out = [0u8; 2];
        month_bB_to_month_m_bytes(d, &mut out);
        assert!(out[0] == b'0' + mth / 10 && out[1] == b'0' + mth % 10);
    }
}
// vacuity guard: some accepted spelling exists for which the digits are NOT "01"
#[cfg(kani)] #[kani::proof] #[kani::unwind(13)]
fn mon_control_must_fail() {
    let bytes: [u8; 10] = kani::any();
    let n: usize = kani::any();
    kani::assume(n <= 10);
    let d = &bytes[..n];
    if let Some(_mth) = oracle(d) {
        let mut out = [0u8; 2];
        month_bB_to_month_m_bytes(d, &mut out);
        assert!(out[0] == b'0' && out[1] == b'1');
    }
}
