// UNIT DRL — what the streaming stage frees (C02: "no message is dropped ... truncated"; C12: the same at every block size).
// A streamed (compressed) file cannot be read twice, so a block may only be given back once nothing that is still to be printed lies
// in it.  The chain under contract, cut from the sources on every run:
//   SyslineReader::drop_data(bo)   removes only messages whose LAST block is <= bo
//   SyslineReader::drop_sysline    removes exactly the one message and hands exactly its lines to the line reader
//   LineReader::drop_lines / drop_line   remove exactly those lines and hand to BlockReader::drop_block only blocks STRICTLY BEFORE the
//                                  block that holds the line's last byte (that block may also hold the next line's first bytes)
// hence: every block handed to drop_block by drop_data(bo) is < bo, and no stored message or line other than the dropped ones changes.
// This is the contract unit DRP assumes for drop_data.
// Assumed by contract (stand-ins): BlockReader::drop_block (ghost set of the offsets handed to it), Arc::try_unwrap (Ok: the value),
// the lru crates' pop (no effect on the maps), `iter().filter(closure)` of drop_data by //@replace_chain (the exact expression ->
// "the entries whose last block is <= bo"; any other expression -> "some entries"), `into_iter().take(n)` = the first n elements,
// vstd's Vec / BTreeMap specs; parts of a line and lines of a message lie in non-decreasing blocks (units BLK, LNR, SLN).
#![feature(allocator_api)]
#![allow(unused_imports, non_camel_case_types, dead_code, unused_variables, unused_parens, unused_mut, unused_assignments, non_snake_case, unused_labels)]
use vstd::prelude::*;
use std::sync::Arc;
use std::alloc::Allocator;
use std::collections::BTreeMap;
use vstd::std_specs::btree::*;
verus! {

broadcast use group_btree_axioms;
pub type Count = u64;
pub type FileOffset = u64;
pub type BlockOffset = u64;

pub assume_specification<T, A: Allocator>[Arc::<T, A>::try_unwrap](a: Arc<T, A>) -> (r: Result<T, Arc<T, A>>)
    ensures r is Ok ==> r->Ok_0 == *a, r is Err ==> r->Err_0 == a;

pub struct LinePart { pub blockoffset: BlockOffset }
impl LinePart {
//@cut fn path=src/data/line.rs impl=LinePart name=blockoffset ret=r
//@spec
    ensures r == self.blockoffset
//@end
}
pub type LineParts = Vec<LinePart>;
pub struct Line { pub lineparts: LineParts, pub ghost fo_beg: FileOffset }
pub type LineP = Arc<Line>;
pub type Lines = Vec<LineP>;
impl Line {
    #[verifier::external_body]
    pub fn fileoffset_begin(&self) -> (r: FileOffset) ensures r == self.fo_beg { unimplemented!() }
}
/// the parts of a line lie in increasing blocks (consecutive ones in fact; units BLK / LNR)
pub open spec fn line_sorted(l: Line) -> bool { forall|i: int, j: int| 0 <= i < j < l.lineparts@.len() ==> l.lineparts@[i].blockoffset < l.lineparts@[j].blockoffset }
pub open spec fn line_bo_last(l: Line) -> int { if l.lineparts@.len() == 0 { 0 } else { l.lineparts@.last().blockoffset as int } }
/// a block the line lies in, other than the block of its last part
pub open spec fn line_inner_block(l: Line, bo: BlockOffset) -> bool { exists|i: int| 0 <= i < l.lineparts@.len() - 1 && (#[trigger] l.lineparts@[i]).blockoffset == bo }

pub struct BlockReader { pub drop: bool, pub ghost handed: Set<BlockOffset> }
impl BlockReader {
    /// ghost: `handed` = every offset passed to drop_block so far
    #[verifier::external_body]
    pub fn drop_block(&mut self, blockoffset: BlockOffset) -> (r: bool)
        ensures final(self).drop == old(self).drop, final(self).handed == old(self).handed.insert(blockoffset)
    { unimplemented!() }
}
#[verifier::external_body]
pub struct LruFo { _p: u8 }
impl LruFo {
    #[verifier::external_body]
    pub fn pop(&mut self, k: &FileOffset) { unimplemented!() }
}
pub fn verif_count_inc(c: &mut Count) { if *c < u64::MAX { *c = *c + 1; } }   // stand-in for `+= 1` on a statistics counter
#[verifier::external_body]
pub fn verif_take(v: LineParts, n: usize) -> (r: LineParts) ensures r@ == v@.take(if n as int <= v@.len() { n as int } else { v@.len() as int }) { unimplemented!() }  // stand-in: v.into_iter().take(n)

pub struct LineReader {
    pub blockreader: BlockReader, pub lines: BTreeMap<FileOffset, LineP>, pub find_line_lru_cache: LruFo,
    pub drop_line_ok: Count, pub drop_line_errors: Count,
}
/// blocks handed to the block reader by this call: only ones strictly before the last block of one of the given lines
pub open spec fn handed_ok(h0: Set<BlockOffset>, h1: Set<BlockOffset>, ls: Seq<LineP>) -> bool {
    forall|bo: BlockOffset| h1.contains(bo) ==> h0.contains(bo) || exists|i: int| 0 <= i < ls.len() && line_inner_block(*#[trigger] ls[i], bo)
}
/// stored lines: nothing added or altered, removed only the given lines' keys
pub open spec fn lines_ok(m0: Map<FileOffset, LineP>, m1: Map<FileOffset, LineP>, ls: Seq<LineP>) -> bool {
    &&& forall|k: FileOffset| #[trigger] m1.contains_key(k) ==> m0.contains_key(k) && m1[k] == m0[k]
    &&& forall|k: FileOffset| #[trigger] m0.contains_key(k) && !m1.contains_key(k) ==> exists|i: int| 0 <= i < ls.len() && (#[trigger] ls[i]).fo_beg == k
}
impl LineReader {
    pub fn is_drop_data(&self) -> (r: bool) ensures r == self.blockreader.drop { self.blockreader.drop }

//@cut fn path=src/readers/linereader.rs impl=LineReader name=drop_line ret=r
//@replace "self.drop_line_ok += 1;" "verif_count_inc(&mut self.drop_line_ok);"
//@replace "self.drop_line_errors += 1;" "verif_count_inc(&mut self.drop_line_errors);"
//@replace "line .lineparts .into_iter() .take(take_)" "verif_take(line.lineparts, take_)" ws=1
//@replace "drop(linepart);" ""
//@replace "for linepart in verif_take" "for linepart in it: verif_take"
//@before "for linepart in it"
                let ghost lp0 = line.lineparts@;
//@spec
    requires line_sorted(*linep)
    ensures
        final(self).blockreader.drop == old(self).blockreader.drop,
        final(self).lines@ == old(self).lines@.remove(linep.fo_beg),
        handed_ok(old(self).blockreader.handed, final(self).blockreader.handed, seq![linep]),
//@loop 1
                    invariant
                        self.blockreader.drop == old(self).blockreader.drop, self.lines@ == old(self).lines@.remove(linep.fo_beg),
                        handed_ok(old(self).blockreader.handed, self.blockreader.handed, seq![linep]),
                        lp0 == linep.lineparts@, it.seq() =~= lp0.take(take_ as int), take_ as int == (if lp0.len() == 0 { 0 } else { lp0.len() - 1 }),
//@after "let bo = linepart.blockoffset();"
                    proof {
                        let k = it.index@ as int;
                        assert(linepart == lp0[k]);
                        assert(k < linep.lineparts@.len() - 1 && linep.lineparts@[k].blockoffset == bo);
                        assert(line_inner_block(*seq![linep][0], bo));
                    }
//@mutate "val => val - 1," "val => val,"
//@end

//@cut fn path=src/readers/linereader.rs impl=LineReader name=drop_lines ret=r
//@replace "for linep in lines.into_iter()" "for linep in it: lines.into_iter()"
//@spec
    requires forall|i: int| 0 <= i < lines@.len() ==> line_sorted(*#[trigger] lines@[i])
    ensures
        final(self).blockreader.drop == old(self).blockreader.drop,
        lines_ok(old(self).lines@, final(self).lines@, lines@),
        handed_ok(old(self).blockreader.handed, final(self).blockreader.handed, lines@),
        !old(self).blockreader.drop ==> final(self).lines@ == old(self).lines@ && final(self).blockreader.handed == old(self).blockreader.handed,
//@loop 1
            invariant
                self.blockreader.drop == old(self).blockreader.drop,
                lines_ok(old(self).lines@, self.lines@, lines@),
                handed_ok(old(self).blockreader.handed, self.blockreader.handed, lines@),
                forall|i: int| 0 <= i < lines@.len() ==> line_sorted(*#[trigger] lines@[i]),
                it.seq() =~= lines@,
//@before "if self.drop_line(linep)"
            let ghost m_a = self.lines@; let ghost h_a = self.blockreader.handed; let ghost kk = it.index@ as int;
            proof { assert(linep == lines@[kk]); }
//@loop_end 1
            proof {
                assert forall|bo: BlockOffset| self.blockreader.handed.contains(bo) implies old(self).blockreader.handed.contains(bo) || exists|i: int| 0 <= i < lines@.len() && line_inner_block(*#[trigger] lines@[i], bo) by {
                    if !h_a.contains(bo) { assert(line_inner_block(*seq![linep][0], bo)); assert(line_inner_block(*lines@[kk], bo)); }
                }
                assert(self.lines@ == m_a.remove(linep.fo_beg));
                assert forall|k: FileOffset| #[trigger] self.lines@.contains_key(k) implies old(self).lines@.contains_key(k) && self.lines@[k] == old(self).lines@[k] by {
                    assert(m_a.contains_key(k) && m_a[k] == self.lines@[k]);
                }
                assert forall|k: FileOffset| #[trigger] old(self).lines@.contains_key(k) && !self.lines@.contains_key(k) implies exists|i: int| 0 <= i < lines@.len() && (#[trigger] lines@[i]).fo_beg == k by {
                    if m_a.contains_key(k) { assert(lines@[kk].fo_beg == k); }
                }
            }
//@end
}

// ---- the message store
pub struct Sysline { pub lines: Lines, pub ghost fo_beg: FileOffset }
pub type SyslineP = Arc<Sysline>;
impl Line {
//@cut fn path=src/data/line.rs impl=Line name=blockoffset_last ret=r
//@replace "self: &Line" "&self"
//@spec
    requires self.lineparts@.len() > 0
    ensures r as int == line_bo_last(*self)
//@end
}
/// a stored message: at least one line, every line has parts in increasing blocks, no line ends after the last line does
pub open spec fn sl_ok(s: Sysline) -> bool {
    &&& s.lines@.len() > 0
    &&& forall|i: int| 0 <= i < s.lines@.len() ==> (#[trigger] s.lines@[i]).lineparts@.len() > 0 && line_sorted(*s.lines@[i]) && line_bo_last(*s.lines@[i]) <= line_bo_last(*s.lines@.last())
}
pub open spec fn sl_bo_last(s: Sysline) -> int { line_bo_last(*s.lines@.last()) }
impl Sysline {
    #[verifier::external_body]
    pub fn fileoffset_begin(&self) -> (r: FileOffset) ensures r == self.fo_beg { unimplemented!() }
//@cut fn path=src/data/sysline.rs impl=Sysline name=blockoffset_last ret=r
//@replace "self: &Sysline" "&self"
//@spec
    requires sl_ok(*self)
    ensures r as int == sl_bo_last(*self)
//@end
}
pub type Syslines = BTreeMap<FileOffset, SyslineP>;
pub open spec fn store_ok(m: Map<FileOffset, SyslineP>) -> bool { forall|k: FileOffset| #[trigger] m.contains_key(k) ==> sl_ok(*m[k]) }
// stand-ins for `self.syslines.iter().filter(closure)` (see //@replace_chain in drop_data): the exact expression / any other one
#[verifier::external_body]
pub fn verif_entries_bolast_le<'a>(m: &'a Syslines, bo: BlockOffset) -> (r: Vec<(&'a FileOffset, &'a SyslineP)>)
    ensures forall|i: int| 0 <= i < r@.len() ==> m@.contains_key(*(#[trigger] r@[i]).0) && sl_bo_last(*m@[*r@[i].0]) <= bo
{ unimplemented!() }
#[verifier::external_body]
pub fn verif_entries_some<'a>(m: &'a Syslines) -> (r: Vec<(&'a FileOffset, &'a SyslineP)>)
    ensures forall|i: int| 0 <= i < r@.len() ==> m@.contains_key(*(#[trigger] r@[i]).0)
{ unimplemented!() }

pub struct SyslineReader {
    pub linereader: LineReader, pub syslines: Syslines, pub find_sysline_lru_cache: LruFo,
    pub drop_sysline_ok: Count, pub drop_sysline_errors: Count,
}
/// blocks handed to the block reader by this call all lie strictly before `lim`
pub open spec fn handed_before(h0: Set<BlockOffset>, h1: Set<BlockOffset>, lim: int) -> bool { forall|bo: BlockOffset| #[trigger] h1.contains(bo) ==> h0.contains(bo) || (bo as int) < lim }
/// stored lines: nothing added or altered
pub open spec fn lines_sub(m0: Map<FileOffset, LineP>, m1: Map<FileOffset, LineP>) -> bool { forall|k: FileOffset| #[trigger] m1.contains_key(k) ==> m0.contains_key(k) && m1[k] == m0[k] }
impl SyslineReader {
    pub fn is_drop_data(&self) -> (r: bool) ensures r == self.linereader.blockreader.drop { self.linereader.is_drop_data() }

//@cut fn path=src/readers/syslinereader.rs impl=SyslineReader name=drop_sysline ret=r
//@replace "self.drop_sysline_ok += 1;" "verif_count_inc(&mut self.drop_sysline_ok);"
//@replace "self.drop_sysline_errors += 1;" "verif_count_inc(&mut self.drop_sysline_errors);"
//@spec
    requires store_ok(old(self).syslines@)
    ensures
        final(self).linereader.blockreader.drop == old(self).linereader.blockreader.drop,
        // exactly the one message leaves the store (nothing at all when dropping is off)
        old(self).linereader.blockreader.drop ==> final(self).syslines@ == old(self).syslines@.remove(*fileoffset),
        !old(self).linereader.blockreader.drop ==> final(self).syslines@ == old(self).syslines@ && final(self).linereader.lines@ == old(self).linereader.lines@
            && final(self).linereader.blockreader.handed == old(self).linereader.blockreader.handed,
        // of the stored lines only that message's lines may go; blocks given back lie strictly before the message's last block
        old(self).syslines@.contains_key(*fileoffset) ==> lines_ok(old(self).linereader.lines@, final(self).linereader.lines@, old(self).syslines@[*fileoffset].lines@)
            && handed_before(old(self).linereader.blockreader.handed, final(self).linereader.blockreader.handed, sl_bo_last(*old(self).syslines@[*fileoffset])),
        !old(self).syslines@.contains_key(*fileoffset) ==> final(self).linereader.lines@ == old(self).linereader.lines@
            && final(self).linereader.blockreader.handed == old(self).linereader.blockreader.handed,
//@mutate ".remove(fileoffset)" ".remove(&0)"
//@end

//@cut fn path=src/readers/syslinereader.rs impl=SyslineReader name=drop_data ret=r
//@replace "self .syslines .iter()" "self.syslines.iter()" ws=1
//@replace_chain "self.syslines.iter()" when="self.syslines.iter().filter(|(_, s)| (*s).blockoffset_last() <= blockoffset)" then="verif_entries_bolast_le(&self.syslines, blockoffset)" else="verif_entries_some(&self.syslines)"
//@replace "for (fo, _) in" "for (fo, _) in it1:"
//@replace "for fo in drop_fo.iter()" "for fo in it2: drop_fo.iter()"
//@spec
    requires store_ok(old(self).syslines@)
    ensures
        // C02: only messages that END at or before block `blockoffset` leave the store, nothing else in it changes ...
        forall|k: FileOffset| #[trigger] final(self).syslines@.contains_key(k) ==> old(self).syslines@.contains_key(k) && final(self).syslines@[k] == old(self).syslines@[k],
        forall|k: FileOffset| #[trigger] old(self).syslines@.contains_key(k) && !final(self).syslines@.contains_key(k) ==> sl_bo_last(*old(self).syslines@[k]) <= blockoffset as int,
        // ... no stored line is added or altered, and every block given back lies strictly before `blockoffset`
        lines_sub(old(self).linereader.lines@, final(self).linereader.lines@),
        handed_before(old(self).linereader.blockreader.handed, final(self).linereader.blockreader.handed, blockoffset as int),
//@loop 1
            invariant
                *self == *old(self), store_ok(self.syslines@),
                forall|j: int| 0 <= j < drop_fo@.len() ==> self.syslines@.contains_key(#[trigger] drop_fo@[j]) && sl_bo_last(*self.syslines@[drop_fo@[j]]) <= blockoffset as int,
//@loop 2
            invariant
                store_ok(self.syslines@),
                forall|k: FileOffset| #[trigger] self.syslines@.contains_key(k) ==> old(self).syslines@.contains_key(k) && self.syslines@[k] == old(self).syslines@[k],
                forall|k: FileOffset| #[trigger] old(self).syslines@.contains_key(k) && !self.syslines@.contains_key(k) ==> sl_bo_last(*old(self).syslines@[k]) <= blockoffset as int,
                lines_sub(old(self).linereader.lines@, self.linereader.lines@),
                handed_before(old(self).linereader.blockreader.handed, self.linereader.blockreader.handed, blockoffset as int),
                it2.seq().len() == drop_fo@.len(), forall|j: int| 0 <= j < drop_fo@.len() ==> *it2.seq()[j] == drop_fo@[j],
                forall|j: int| 0 <= j < drop_fo@.len() ==> old(self).syslines@.contains_key(#[trigger] drop_fo@[j]) && sl_bo_last(*old(self).syslines@[drop_fo@[j]]) <= blockoffset as int,
//@mutate "verif_entries_bolast_le(&self.syslines, blockoffset)" "verif_entries_some(&self.syslines)"
//@end
}

} // verus!
fn main() {}
