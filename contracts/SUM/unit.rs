// UNIT SUM — summary arithmetic (C19).  DESIGN.md section 4.SUM
#![allow(unused_imports, non_camel_case_types, dead_code, unused_variables, unused_parens)]
use vstd::prelude::*;
use vstd::std_specs::cmp::*;
use core::cmp::Ordering;
use std::sync::Arc;
use std::collections::BTreeMap;
verus! {

pub type Count = u64;
pub type PathId = usize;

//@include ../common/datetime.rs
//@include ../common/messages.rs

// ---- real: LogMessage (src/data/common.rs), LogMessageType (src/common.rs), SummaryPrinted (src/printer/summary.rs)
// the lines of the --summary report that show the totals: each format string is registered so that the statement keeps its argument
//@formatfn "Printed bytes          : {}" verif_show_bytes
//@formatfn "Printed flushes        : {}" verif_show_flushes
//@formatfn "Printed lines          : {}" verif_show_lines
//@formatfn "Printed syslines       : {}" verif_show_syslines
//@formatfn "Printed evtx events    : {}" verif_show_evtx
//@formatfn "Printed fixedstruct    : {}" verif_show_fixedstruct
//@formatfn "Printed journal events : {}" verif_show_journal
//@cut type kind=enum path=src/data/common.rs name=LogMessage derives=
//@end
//@cut type kind=enum path=src/common.rs name=LogMessageType derives=Clone,Copy
//@replace "#[default]" ""
//@end
//@cut type kind=struct path=src/printer/summary.rs name=SummaryPrinted derives=Copy,Clone
//@end
pub type MapPathIdSummaryPrint = BTreeMap<PathId, SummaryPrinted>;

// ---- spec: what one printed message adds to a SummaryPrinted (C19)
pub open spec fn min_i(cur: DateTimeLOpt, dt: DateTimeL) -> int {
    if cur is Some && instant(cur.unwrap()) <= instant(dt) { instant(cur.unwrap()) } else { instant(dt) }
}
pub open spec fn max_i(cur: DateTimeLOpt, dt: DateTimeL) -> int {
    if cur is Some && instant(cur.unwrap()) >= instant(dt) { instant(cur.unwrap()) } else { instant(dt) }
}
pub open spec fn dt_updated(pre: SummaryPrinted, post: SummaryPrinted, dt: DateTimeL) -> bool {
    &&& post.dt_first is Some && instant(post.dt_first.unwrap()) == min_i(pre.dt_first, dt)
    &&& post.dt_last is Some && instant(post.dt_last.unwrap()) == max_i(pre.dt_last, dt)
}
/// `post` is `pre` after one message: +printed bytes, +flushed, exactly one message counter +1, +lines
pub open spec fn added(pre: SummaryPrinted, post: SummaryPrinted, dt: DateTimeL, printed: Count, flushed: Count,
                       d_sys: int, d_fix: int, d_evtx: int, d_jrnl: int, d_lines: int) -> bool {
    &&& post.bytes == pre.bytes + printed
    &&& post.flushed == pre.flushed + flushed
    &&& post.syslines == pre.syslines + d_sys
    &&& post.fixedstructentries == pre.fixedstructentries + d_fix
    &&& post.evtxentries == pre.evtxentries + d_evtx
    &&& post.journalentries == pre.journalentries + d_jrnl
    &&& post.lines == pre.lines + d_lines
    &&& post.logmessagetype == pre.logmessagetype
    &&& dt_updated(pre, post, dt)
}
pub open spec fn room(pre: SummaryPrinted, printed: Count, flushed: Count, lines: int) -> bool {
    &&& pre.bytes + printed <= u64::MAX
    &&& pre.flushed + flushed <= u64::MAX
    &&& pre.syslines < u64::MAX && pre.fixedstructentries < u64::MAX && pre.evtxentries < u64::MAX && pre.journalentries < u64::MAX
    &&& pre.lines + lines <= u64::MAX
}
pub open spec fn zero(t: LogMessageType) -> SummaryPrinted {
    SummaryPrinted { bytes: 0, flushed: 0, logmessagetype: t, lines: 0, syslines: 0, fixedstructentries: 0, evtxentries: 0, journalentries: 0, dt_first: None, dt_last: None }
}

impl SummaryPrinted {
//@cut fn path=src/printer/summary.rs impl=SummaryPrinted name=new ret=r
//@spec
    ensures r == zero(logmessagetype)
//@end

//@cut fn path=src/printer/summary.rs impl=SummaryPrinted name=summaryprint_update_dt
//@spec
    ensures
        dt_updated(*old(self), *final(self), *dt),
        final(self).bytes == old(self).bytes, final(self).flushed == old(self).flushed, final(self).lines == old(self).lines,
        final(self).syslines == old(self).syslines, final(self).fixedstructentries == old(self).fixedstructentries,
        final(self).evtxentries == old(self).evtxentries, final(self).journalentries == old(self).journalentries,
        final(self).logmessagetype == old(self).logmessagetype,
//@mutate "dt < &dt_first" "dt > &dt_first"
//@end

//@cut fn path=src/printer/summary.rs impl=SummaryPrinted name=summaryprint_update_sysline
//@spec
    requires
        old(self).logmessagetype is Sysline || old(self).logmessagetype is All,
        room(*old(self), printed, flushed, syslinep.count_lines_spec() as int),
    ensures
        added(*old(self), *final(self), syslinep.dt_spec(), printed, flushed, 1, 0, 0, 0, syslinep.count_lines_spec() as int),
//@mutate "self.bytes += printed" "self.bytes += flushed"
//@end

//@cut fn path=src/printer/summary.rs impl=SummaryPrinted name=summaryprint_update_fixedstruct
//@spec
    requires
        old(self).logmessagetype is FixedStruct || old(self).logmessagetype is All,
        room(*old(self), printed, flushed, 0),
    ensures
        added(*old(self), *final(self), entry.dt_spec(), printed, flushed, 0, 1, 0, 0, 0),
//@end

//@cut fn path=src/printer/summary.rs impl=SummaryPrinted name=summaryprint_update_evtx
//@spec
    requires
        old(self).logmessagetype is Evtx || old(self).logmessagetype is All,
        room(*old(self), printed, flushed, 0),
    ensures
        added(*old(self), *final(self), evtx.dt_spec(), printed, flushed, 0, 0, 1, 0, 0),
//@end

//@cut fn path=src/printer/summary.rs impl=SummaryPrinted name=summaryprint_update_journalentry
//@spec
    requires
        old(self).logmessagetype is Journal || old(self).logmessagetype is All,
        room(*old(self), printed, flushed, 0),
    ensures
        added(*old(self), *final(self), journalentry.dt_spec(), printed, flushed, 0, 0, 0, 1, 0),
//@end

//@cut fn path=src/printer/summary.rs impl=SummaryPrinted name=summaryprint_map_update_sysline
//@spec
    requires
        old(map_)@.contains_key(*pathid) ==> (old(map_)@[*pathid].logmessagetype is Sysline || old(map_)@[*pathid].logmessagetype is All)
            && room(old(map_)@[*pathid], printed, flushed, syslinep.count_lines_spec() as int),
    ensures
        final(map_)@.contains_key(*pathid),
        // frame: no other file's counts change (C19: per-file counts)
        forall|p: PathId| p != *pathid ==> (final(map_)@.contains_key(p) <==> old(map_)@.contains_key(p)),
        forall|p: PathId| p != *pathid && old(map_)@.contains_key(p) ==> final(map_)@[p] == old(map_)@[p],
        added(if old(map_)@.contains_key(*pathid) { old(map_)@[*pathid] } else { zero(LogMessageType::Sysline) },
              final(map_)@[*pathid], syslinep.dt_spec(), printed, flushed, 1, 0, 0, 0, syslinep.count_lines_spec() as int),
//@end

//@cut fn path=src/printer/summary.rs impl=SummaryPrinted name=summaryprint_map_update_fixedstruct
//@spec
    requires
        old(map_)@.contains_key(*pathid) ==> (old(map_)@[*pathid].logmessagetype is FixedStruct || old(map_)@[*pathid].logmessagetype is All)
            && room(old(map_)@[*pathid], printed, flushed, 0),
    ensures
        final(map_)@.contains_key(*pathid),
        forall|p: PathId| p != *pathid ==> (final(map_)@.contains_key(p) <==> old(map_)@.contains_key(p)),
        forall|p: PathId| p != *pathid && old(map_)@.contains_key(p) ==> final(map_)@[p] == old(map_)@[p],
        added(if old(map_)@.contains_key(*pathid) { old(map_)@[*pathid] } else { zero(LogMessageType::FixedStruct) },
              final(map_)@[*pathid], fixedstruct.dt_spec(), printed, flushed, 0, 1, 0, 0, 0),
//@end

//@cut fn path=src/printer/summary.rs impl=SummaryPrinted name=summaryprint_map_update_evtx
//@spec
    requires
        old(map_)@.contains_key(*pathid) ==> (old(map_)@[*pathid].logmessagetype is Evtx || old(map_)@[*pathid].logmessagetype is All)
            && room(old(map_)@[*pathid], printed, flushed, 0),
    ensures
        final(map_)@.contains_key(*pathid),
        forall|p: PathId| p != *pathid ==> (final(map_)@.contains_key(p) <==> old(map_)@.contains_key(p)),
        forall|p: PathId| p != *pathid && old(map_)@.contains_key(p) ==> final(map_)@[p] == old(map_)@[p],
        added(if old(map_)@.contains_key(*pathid) { old(map_)@[*pathid] } else { zero(LogMessageType::Evtx) },
              final(map_)@[*pathid], evtx.dt_spec(), printed, flushed, 0, 0, 1, 0, 0),
//@end

//@cut fn path=src/printer/summary.rs impl=SummaryPrinted name=summaryprint_map_update_journalentry
//@spec
    requires
        old(map_)@.contains_key(*pathid) ==> (old(map_)@[*pathid].logmessagetype is Journal || old(map_)@[*pathid].logmessagetype is All)
            && room(old(map_)@[*pathid], printed, flushed, 0),
    ensures
        final(map_)@.contains_key(*pathid),
        forall|p: PathId| p != *pathid ==> (final(map_)@.contains_key(p) <==> old(map_)@.contains_key(p)),
        forall|p: PathId| p != *pathid && old(map_)@.contains_key(p) ==> final(map_)@[p] == old(map_)@[p],
        added(if old(map_)@.contains_key(*pathid) { old(map_)@[*pathid] } else { zero(LogMessageType::Journal) },
              final(map_)@[*pathid], journalentry.dt_spec(), printed, flushed, 0, 0, 0, 1, 0),
//@end
}

// ---- lemma (C19): after any sequence of updates the total of bytes equals the sum of what was
// reported printed, and dt_first/dt_last are the min/max instant over the printed messages
pub struct Ev { pub dt: DateTimeL, pub printed: Count, pub flushed: Count }
pub open spec fn sum_printed(s: Seq<Ev>) -> int decreases s.len() { if s.len() == 0 { 0 } else { sum_printed(s.drop_last()) + s.last().printed } }
pub open spec fn all_ge(s: Seq<Ev>, x: int) -> bool { forall|i: int| 0 <= i < s.len() ==> instant(#[trigger] s[i].dt) >= x }
pub open spec fn all_le(s: Seq<Ev>, x: int) -> bool { forall|i: int| 0 <= i < s.len() ==> instant(#[trigger] s[i].dt) <= x }
pub open spec fn attained(s: Seq<Ev>, x: int) -> bool { exists|i: int| 0 <= i < s.len() && instant(#[trigger] s[i].dt) == x }
/// states[i+1] is states[i] after event i (any message kind)
pub open spec fn run_ok(states: Seq<SummaryPrinted>, evs: Seq<Ev>) -> bool {
    &&& states.len() == evs.len() + 1
    &&& states[0].bytes == 0 && states[0].dt_first is None && states[0].dt_last is None
    &&& forall|i: int| 0 <= i < evs.len() ==> states[i + 1].bytes == states[i].bytes + (#[trigger] evs[i]).printed
            && dt_updated(states[i], states[i + 1], evs[i].dt)
}
pub proof fn totals_add_up(states: Seq<SummaryPrinted>, evs: Seq<Ev>)
    requires run_ok(states, evs)
    ensures
        states.last().bytes == sum_printed(evs),
        evs.len() > 0 ==> states.last().dt_first is Some && all_ge(evs, instant(states.last().dt_first.unwrap())) && attained(evs, instant(states.last().dt_first.unwrap())),
        evs.len() > 0 ==> states.last().dt_last is Some && all_le(evs, instant(states.last().dt_last.unwrap())) && attained(evs, instant(states.last().dt_last.unwrap())),
    decreases evs.len()
{
    if evs.len() == 0 {
    } else {
        let n = evs.len() as int;
        let st2 = states.drop_last();
        let ev2 = evs.drop_last();
        assert(run_ok(st2, ev2)) by {
            assert forall|i: int| 0 <= i < ev2.len() implies st2[i + 1].bytes == st2[i].bytes + (#[trigger] ev2[i]).printed && dt_updated(st2[i], st2[i + 1], ev2[i].dt) by {
                assert(ev2[i] == evs[i]);
            }
        }
        totals_add_up(st2, ev2);
        assert(st2.last() == states[n - 1]);
        assert(states.last() == states[n]);
        let e = evs[n - 1];
        assert(e == evs.last());
        assert(dt_updated(states[n - 1], states[n], e.dt));
        let f = instant(states[n].dt_first.unwrap());
        let l = instant(states[n].dt_last.unwrap());
        assert(all_ge(evs, f)) by {
            assert forall|i: int| 0 <= i < evs.len() implies instant(#[trigger] evs[i].dt) >= f by {
                if i < n - 1 { assert(evs[i] == ev2[i]); }
            }
        }
        assert(all_le(evs, l)) by {
            assert forall|i: int| 0 <= i < evs.len() implies instant(#[trigger] evs[i].dt) <= l by {
                if i < n - 1 { assert(evs[i] == ev2[i]); }
            }
        }
        assert(attained(evs, f)) by {
            if f == instant(e.dt) { assert(instant(evs[n - 1].dt) == f); }
            else {
                let j = choose|j: int| 0 <= j < ev2.len() && instant(#[trigger] ev2[j].dt) == f;
                assert(evs[j] == ev2[j]);
            }
        }
        assert(attained(evs, l)) by {
            if l == instant(e.dt) { assert(instant(evs[n - 1].dt) == l); }
            else {
                let j = choose|j: int| 0 <= j < ev2.len() && instant(#[trigger] ev2[j].dt) == l;
                assert(evs[j] == ev2[j]);
            }
        }
    }
}

// =====================================================================================================
// SUM-FILE — the per-file section of --summary (print_all_files_summaries, src/printer/summary.rs): for each file, in turn, what is
// handed to print_file_summary as that file's printed counts is the file's OWN entry of the per-file map -- nothing when the file
// printed nothing (C19: "per-file counts add up to the totals").  The statements of one iteration from the removal of the entries to
// the call, cut from the loop body; the wrapper declares the locals of those statements before the slice with arbitrary earlier
// values, so that a value carried over from a previous iteration is not the file's own.
#[verifier::external_body]
pub struct FPath { _p: u8 }
#[verifier::external_body]
pub struct Opaque { _p: u8 }
#[verifier::external_body]
pub struct Summary { _p: u8 }
pub type SummaryOpt = Option<Summary>;
pub type SummaryPrintedOpt = Option<SummaryPrinted>;
pub type MapPathIdSummary = BTreeMap<PathId, Summary>;
/// ghost: what print_file_summary is expected to be given for the file now being printed
pub uninterp spec fn own_printed(pathid: PathId) -> SummaryPrintedOpt;
pub uninterp spec fn path_id_of(path: &FPath) -> PathId;
/// stand-in for print_file_summary: its obligation is on the printed counts it is given
#[verifier::external_body]
pub fn print_file_summary(path: &FPath, modified_time: &Opaque, file_processing_result: Option<&Opaque>, filetype: &Opaque, logmessagetype: &Opaque,
        summary_opt: &SummaryOpt, summary_print_opt: &SummaryPrintedOpt, color: &Opaque, color_choice: &Opaque)
    requires *summary_print_opt == own_printed(path_id_of(path))
{ unimplemented!() }
pub fn sum_file_iteration(pathid: &PathId, path: &FPath, modified_time: &Opaque, file_processing_result: Option<&Opaque>, filetype: &Opaque, logmessagetype: &Opaque,
        color: &Opaque, color_choice: &Opaque, map_pathid_summary: &mut MapPathIdSummary, map_pathid_sumpr: &mut MapPathIdSummaryPrint,
        carried_summary: SummaryOpt, carried_print: SummaryPrintedOpt)
    requires
        path_id_of(path) == *pathid, old(map_pathid_summary)@.contains_key(*pathid),
        own_printed(*pathid) == (if old(map_pathid_sumpr)@.contains_key(*pathid) { Some(old(map_pathid_sumpr)@[*pathid]) } else { None::<SummaryPrinted> }),
    ensures
        final(map_pathid_sumpr)@ == old(map_pathid_sumpr)@.remove(*pathid),
{
    proof { broadcast use vstd::std_specs::btree::group_btree_axioms; }
    let mut summary_opt: SummaryOpt = carried_summary;
    let mut summary_print_opt: SummaryPrintedOpt = carried_print;
//@cut slice path=src/printer/summary.rs fn=print_all_files_summaries anchor="let summary_opt: SummaryOpt = map_pathid_summary.remove(pathid);" take=range end_anchor="print_file_summary(" label=SUM-FILE
//@end
}

// =====================================================================================================
// SUM-TOTALS — what the report shows (print_summary, src/printer/summary.rs): under each label the total it names.  The seven
// `eprintln!` statements are cut from the function; each is kept as a call whose obligation is on the value it is given.
/// ghost: the totals the report is about
pub uninterp spec fn shown() -> SummaryPrinted;
#[verifier::external_body]
pub fn verif_show_bytes(v: &Count) requires *v == shown().bytes { unimplemented!() }
#[verifier::external_body]
pub fn verif_show_flushes(v: &Count) requires *v == shown().flushed { unimplemented!() }
#[verifier::external_body]
pub fn verif_show_lines(v: &Count) requires *v == shown().lines { unimplemented!() }
#[verifier::external_body]
pub fn verif_show_syslines(v: &Count) requires *v == shown().syslines { unimplemented!() }
#[verifier::external_body]
pub fn verif_show_evtx(v: &Count) requires *v == shown().evtxentries { unimplemented!() }
#[verifier::external_body]
pub fn verif_show_fixedstruct(v: &Count) requires *v == shown().fixedstructentries { unimplemented!() }
#[verifier::external_body]
pub fn verif_show_journal(v: &Count) requires *v == shown().journalentries { unimplemented!() }
pub fn sum_totals_shown(summaryprinted: SummaryPrinted)
    requires shown() == summaryprinted
{
//@cut slice path=src/printer/summary.rs fn=print_summary anchor="summaryprinted.bytes);" take=range end_anchor="summaryprinted.journalentries);" label=SUM-TOTALS
//@end
}

// ---- vacuity guard
pub proof fn room__canary(pre: SummaryPrinted, printed: Count, flushed: Count)
    requires room(pre, printed, flushed, 3)
    ensures false
{}

} // verus!
fn main() {}
