// UNIT EPO — datetime_parse_from_str (src/data/datetime.rs), the last step of turning a timestamp's text into an instant (C04;
// the same function parses the -a/-b values, C03): a text WITH zone is the instant chrono reads; a text WITHOUT zone is its wall
// clock read in the --tz-offset zone -- EXCEPT a Unix epoch (`%s`), which denotes an instant by itself: its value must not move
// with --tz-offset.
// Assumed by contract (stand-ins): chrono's DateTime::parse_from_str / NaiveDateTime::parse_from_str (by an abstract result: the
// instant, resp. the wall clock read as UTC), FixedOffset::from_local_datetime(..).earliest() / from_utc_datetime, the chrono
// Issue-660 workaround check, `pattern.contains("%s")` = "the pattern is an epoch pattern".
#![allow(unused_imports, non_camel_case_types, dead_code, unused_variables, unused_parens, unused_mut, unused_assignments, non_snake_case)]
use vstd::prelude::*;
use core::cmp::Ordering;
use vstd::std_specs::cmp::*;
verus! {

//@include ../common/datetime.rs
pub type DateTimePattern_str = str;
/// what chrono reads from (data, pattern): with a zone -> an instant; without -> a wall clock (as the instant it would be in UTC)
pub uninterp spec fn parsed_instant(data: &str, pattern: &str) -> Option<int>;
pub uninterp spec fn parsed_wall(data: &str, pattern: &str) -> Option<int>;
/// the pattern is chrono's Unix-epoch pattern (`%s`, with or without a fraction)
pub uninterp spec fn epoch_pat(pattern: &str) -> bool;
/// the instant of wall clock `wall` read in zone `tz`
pub uninterp spec fn local_instant(tz: FixedOffset, wall: int) -> int;
#[verifier::external_body]
pub struct FixedOffset { _p: u8 }
#[verifier::external_body]
pub struct ParseError { _p: u8 }
#[verifier::external_body]
pub struct NaiveDateTime { _p: u8 }
impl NaiveDateTime {
    pub uninterp spec fn wall(&self) -> int;
    #[verifier::external_body]
    pub fn parse_from_str(data: &str, pattern: &str) -> (r: core::result::Result<NaiveDateTime, ParseError>)
        ensures r is Ok <==> parsed_wall(data, pattern) is Some, r is Ok ==> r->Ok_0.wall() == parsed_wall(data, pattern).unwrap()
    { unimplemented!() }
}
pub struct DateTime;
impl DateTime {
    #[verifier::external_body]
    pub fn parse_from_str(data: &str, pattern: &str) -> (r: core::result::Result<DateTimeL, ParseError>)
        ensures r is Ok <==> parsed_instant(data, pattern) is Some, r is Ok ==> instant(r->Ok_0) == parsed_instant(data, pattern).unwrap()
    { unimplemented!() }
}
#[verifier::external_body]
pub struct LocalResultDt { _p: u8 }
impl LocalResultDt {
    pub uninterp spec fn first(&self) -> Option<DateTimeL>;
    #[verifier::external_body]
    pub fn earliest(&self) -> (r: Option<DateTimeL>) ensures r == self.first() { unimplemented!() }
}
impl FixedOffset {
    #[verifier::external_body]
    pub fn from_local_datetime(&self, n: &NaiveDateTime) -> (r: LocalResultDt) ensures r.first() is Some ==> instant(r.first().unwrap()) == local_instant(*self, n.wall()) { unimplemented!() }
    #[verifier::external_body]
    pub fn from_utc_datetime(&self, n: &NaiveDateTime) -> (r: DateTimeL) ensures instant(r) == n.wall() { unimplemented!() }
}
#[verifier::external_body]
pub fn datetime_from_str_workaround_Issue660(value: &str, pattern: &DateTimePattern_str) -> bool { unimplemented!() }
/// stand-in (R9) for `pattern.contains("%s")`
#[verifier::external_body]
pub fn verif_is_epoch_pattern(pattern: &str) -> (r: bool) ensures r == epoch_pat(pattern) { unimplemented!() }

//@cut fn path=src/data/datetime.rs name=datetime_parse_from_str ret=r
//@replace "pattern.contains(\"%s\")" "verif_is_epoch_pattern(pattern)" count=0+ ws=1
//@spec
    ensures
        // a text with zone: the instant chrono reads
        (has_tz && r is Some) ==> parsed_instant(data, pattern) is Some && instant(r.unwrap()) == parsed_instant(data, pattern).unwrap(),
        // C04 / C03: a Unix epoch denotes an instant by itself -- it does not move with --tz-offset
        (!has_tz && epoch_pat(pattern) && r is Some) ==> parsed_wall(data, pattern) is Some && instant(r.unwrap()) == parsed_wall(data, pattern).unwrap(),
        // any other text without zone: its wall clock read in the --tz-offset zone
        (!has_tz && !epoch_pat(pattern) && r is Some) ==> parsed_wall(data, pattern) is Some && instant(r.unwrap()) == local_instant(*tz_offset, parsed_wall(data, pattern).unwrap()),
//@mutate "let val = tz_offset.from_utc_datetime(&dt_naive);" "let val = tz_offset.from_local_datetime(&dt_naive).earliest().unwrap();"
//@end

} // verus!
fn main() {}
