// UNIT SRCH — finding the first / every message of a text log inside the window (C03; C02 via WRK).
// DESIGN.md section 4.SRCH.  The reader below the search functions (find_sysline) is an ASSUMED contract.
#![feature(allocator_api)]
#![allow(unused_imports, non_camel_case_types, dead_code, unused_variables, unused_parens, unused_mut, unused_assignments)]
use vstd::prelude::*;
use vstd::std_specs::cmp::*;
use core::cmp::Ordering;
use std::sync::Arc;
verus! {

global size_of usize == 8;
pub type FileOffset = u64;
pub type FileSz = u64;

//@include ../common/datetime.rs

#[verifier::external_body]
pub struct Error { _p: u8 }
//@cut type kind=enum path=src/common.rs name=ResultS3 derives=
//@end
//@cut type kind=enum path=src/data/datetime.rs name=Result_Filter_DateTime1 derives=
//@end
//@cut type kind=enum path=src/data/datetime.rs name=Result_Filter_DateTime2 derives=
//@end

// ---- ghost model of a text log: its messages in file order (C03's premise: instants non-decreasing)
pub struct SL { pub beg: int, pub end: int, pub t: int }
pub open spec fn model_wf(m: Seq<SL>, filesz: int) -> bool {
    &&& forall|i: int| 0 <= i < m.len() ==> 0 <= (#[trigger] m[i]).beg <= m[i].end < filesz
    &&& forall|i: int| 0 <= i < m.len() - 1 ==> (#[trigger] m[i + 1]).beg == m[i].end + 1
    &&& forall|i: int, j: int| 0 <= i <= j < m.len() ==> (#[trigger] m[i]).t <= (#[trigger] m[j]).t
    &&& (m.len() > 0 ==> m.last().end == filesz - 1)
    &&& filesz <= u64::MAX - 1
}
pub open spec fn ge_a(t: int, a: Option<int>) -> bool { a is None || a.unwrap() <= t }
pub open spec fn le_b(t: int, b: Option<int>) -> bool { b is None || t <= b.unwrap() }
pub open spec fn oi(d: DateTimeLOpt) -> Option<int> { match d { Some(x) => Some(instant(x)), None => None } }
/// index of the message that covers offset fo: the first one ending at or after fo (m.len() if none)
pub open spec fn cover(m: Seq<SL>, fo: int, i: int) -> int
    decreases m.len() - i
{
    if i < 0 || i >= m.len() { m.len() as int } else if m[i].end >= fo { i } else { cover(m, fo, i + 1) }
}
/// first index j >= i with m[j].end >= fo and t_j >= A; m.len() if none  (same function as in unit WRK)
pub open spec fn first_from(m: Seq<SL>, a: Option<int>, fo: int, i: int) -> int
    decreases m.len() - i
{
    if i < 0 || i >= m.len() { m.len() as int }
    else if m[i].end >= fo && ge_a(m[i].t, a) { i }
    else { first_from(m, a, fo, i + 1) }
}
pub proof fn lemma_first_from(m: Seq<SL>, a: Option<int>, fo: int, i: int)
    requires 0 <= i <= m.len()
    ensures
        i <= first_from(m, a, fo, i) <= m.len(),
        first_from(m, a, fo, i) < m.len() ==> m[first_from(m, a, fo, i)].end >= fo && ge_a(m[first_from(m, a, fo, i)].t, a),
        forall|k: int| i <= k < first_from(m, a, fo, i) ==> !(#[trigger] m[k].end >= fo && ge_a(m[k].t, a)),
    decreases m.len() - i
{
    if i < m.len() && !(m[i].end >= fo && ge_a(m[i].t, a)) { lemma_first_from(m, a, fo, i + 1); }
}
pub proof fn lemma_cover(m: Seq<SL>, fo: int, i: int)
    requires 0 <= i <= m.len()
    ensures
        i <= cover(m, fo, i) <= m.len(),
        cover(m, fo, i) < m.len() ==> m[cover(m, fo, i)].end >= fo,
        forall|k: int| i <= k < cover(m, fo, i) ==> (#[trigger] m[k]).end < fo,
    decreases m.len() - i
{
    if i < m.len() && m[i].end < fo { lemma_cover(m, fo, i + 1); }
}
pub proof fn lemma_ends(m: Seq<SL>, filesz: int, c: int, k: int)
    requires model_wf(m, filesz), 0 <= c <= k < m.len()
    ensures m[k].end >= m[c].beg, c < k ==> m[k].end > m[c].end
    decreases k - c
{
    if c < k { lemma_ends(m, filesz, c, k - 1); assert(m[(k - 1) + 1].beg == m[k - 1].end + 1); }
}
/// searching from the offset just past message c-1 is searching from index c
pub proof fn lemma_from_next(m: Seq<SL>, a: Option<int>, filesz: int, c: int, i: int)
    requires model_wf(m, filesz), 1 <= c <= m.len(), 0 <= i <= c
    ensures first_from(m, a, m[c - 1].end + 1, i) == first_from(m, a, m[c - 1].end + 1, c),
    decreases c - i
{
    if i < c { lemma_ends(m, filesz, i, c - 1); lemma_from_next(m, a, filesz, c, i + 1); }
}
/// a search that starts inside message k whose instant is below A continues at message k+1
pub proof fn lemma_skip_one(m: Seq<SL>, a: Option<int>, filesz: int, fo: int, k: int)
    requires model_wf(m, filesz), 0 <= k < m.len(), cover(m, fo, 0) == k, !ge_a(m[k].t, a)
    ensures first_from(m, a, fo, 0) == first_from(m, a, m[k].end + 1, 0)
{
    lemma_cover(m, fo, 0);
    lemma_ff_eq(m, a, filesz, fo, k, 0);
    lemma_from_next(m, a, filesz, k + 1, 0);
    // from k+1 on, both offsets are at or before every message end
    assert forall|q: int| k + 1 <= q < m.len() implies (#[trigger] m[q]).end >= fo && m[q].end >= m[k].end + 1 by { lemma_ends(m, filesz, k, q); }
    lemma_ff_tail(m, a, filesz, fo, m[k].end + 1, k + 1);
}
pub proof fn lemma_ff_eq(m: Seq<SL>, a: Option<int>, filesz: int, fo: int, k: int, i: int)
    requires model_wf(m, filesz), 0 <= k < m.len(), 0 <= i <= k, forall|q: int| 0 <= q < k ==> (#[trigger] m[q]).end < fo, m[k].end >= fo, !ge_a(m[k].t, a)
    ensures first_from(m, a, fo, i) == first_from(m, a, fo, k + 1)
    decreases k - i
{
    if i < k { lemma_ff_eq(m, a, filesz, fo, k, i + 1); }
}
pub proof fn lemma_ff_tail(m: Seq<SL>, a: Option<int>, filesz: int, fo1: int, fo2: int, i: int)
    requires model_wf(m, filesz), 0 <= i <= m.len(), forall|q: int| i <= q < m.len() ==> (#[trigger] m[q]).end >= fo1 && m[q].end >= fo2
    ensures first_from(m, a, fo1, i) == first_from(m, a, fo2, i)
    decreases m.len() - i
{
    if i < m.len() { lemma_ff_tail(m, a, filesz, fo1, fo2, i + 1); }
}

// ---- assumed: a message exposes its datetime and offsets; ghost index into the model
#[verifier::external_body]
pub struct Sysline { _p: u8 }
pub type SyslineP = Arc<Sysline>;
impl Sysline {
    pub uninterp spec fn idx(&self) -> int;
    pub uninterp spec fn dt_spec(&self) -> DateTimeL;
    #[verifier::external_body]
    pub fn dt(&self) -> (r: &DateTimeL) ensures *r == self.dt_spec() { unimplemented!() }
    pub uninterp spec fn beg_spec(&self) -> int;
    pub uninterp spec fn end_spec(&self) -> int;
    #[verifier::external_body]
    pub fn fileoffset_begin(&self) -> (r: FileOffset) ensures r as int == self.beg_spec() { unimplemented!() }
    #[verifier::external_body]
    pub fn fileoffset_end(&self) -> (r: FileOffset) ensures r as int == self.end_spec() { unimplemented!() }
    #[verifier::external_body]
    pub fn fileoffset_next(&self) -> (r: FileOffset) requires self.end_spec() < u64::MAX ensures r as int == self.end_spec() + 1 { unimplemented!() }
}
pub type ResultS3SyslineFind = ResultS3<(FileOffset, SyslineP), Error>;
pub fn min(a: FileOffset, b: FileOffset) -> (r: FileOffset) ensures r == (if a <= b { a } else { b }) { if a <= b { a } else { b } }  // stand-in for std::cmp::min
pub fn max(a: FileOffset, b: FileOffset) -> (r: FileOffset) ensures r == (if a >= b { a } else { b }) { if a >= b { a } else { b } }  // stand-in for std::cmp::max
impl<T, E> ResultS3<T, E> { pub fn is_done(&self) -> (r: bool) ensures r == (*self is Done) { matches!(*self, ResultS3::Done) } }

//@cut fn path=src/data/datetime.rs name=dt_after_or_before ret=r
//@spec
    ensures
        dt_filter is None ==> r is Pass,
        dt_filter is Some ==> (r is OccursBefore <==> instant(*dt) < instant(dt_filter.unwrap())),
        dt_filter is Some ==> (r is OccursAtOrAfter <==> instant(*dt) >= instant(dt_filter.unwrap())),
//@end
//@cut fn path=src/data/datetime.rs name=dt_pass_filters ret=r
//@spec
    requires
        (dt_filter_after is Some && dt_filter_before is Some) ==> instant(dt_filter_after.unwrap()) <= instant(dt_filter_before.unwrap()),
    ensures
        r is InRange <==> ge_a(instant(*dt), oi(*dt_filter_after)) && le_b(instant(*dt), oi(*dt_filter_before)),
        r is BeforeRange <==> !ge_a(instant(*dt), oi(*dt_filter_after)),
        r is AfterRange <==> ge_a(instant(*dt), oi(*dt_filter_after)) && !le_b(instant(*dt), oi(*dt_filter_before)),
//@end

// ---- prelude: the reader.  ASSUMED contract of find_sysline (derived from find_sysline_year: walk back to the
// nearest dated line, forward to the next): Done at or past the end of the file, else the message covering the offset
#[verifier::external_body]
pub struct SyslineReader { _p: u8 }
impl SyslineReader {
    pub uninterp spec fn model(&self) -> Seq<SL>;
    pub uninterp spec fn fsz(&self) -> int;
    pub uninterp spec fn streamed(&self) -> bool;
    /// ghost: the underlying reader reported an I/O error at some point
    pub uninterp spec fn io_err(&self) -> bool;
    pub open spec fn same(&self, o: &Self) -> bool { self.model() == o.model() && self.fsz() == o.fsz() && self.streamed() == o.streamed() }
    pub open spec fn wf(&self) -> bool { model_wf(self.model(), self.fsz()) }
    /// every message starts with a line that holds a datetime, so it has at least two bytes (DATETIME_STR_MIN = 8)
    pub open spec fn msgs_ok(&self) -> bool { forall|i: int| 0 <= i < self.model().len() ==> (#[trigger] self.model()[i]).beg < self.model()[i].end }
    /// a Sysline value handed out by this reader is message `idx` of the model and carries its instant
    pub open spec fn is_msg(&self, s: &SyslineP, j: int) -> bool { 0 <= j < self.model().len() && s.idx() == j && instant(s.dt_spec()) == self.model()[j].t
        && s.beg_spec() == self.model()[j].beg && s.end_spec() == self.model()[j].end }

    #[verifier::external_body]
    pub fn find_sysline(&mut self, fileoffset: FileOffset) -> (r: ResultS3SyslineFind)
        requires old(self).wf()
        ensures
            final(self).same(old(self)),
            fileoffset as int >= old(self).fsz() ==> !(r is Found),
            r is Found ==> ({
                let j = cover(old(self).model(), fileoffset as int, 0);
                old(self).is_msg(&r->Found_0.1, j) && r->Found_0.0 as int == old(self).model()[j].end + 1
            }),
            r is Done ==> fileoffset as int >= old(self).fsz() || old(self).model().len() == 0,
            final(self).io_err() == (old(self).io_err() || r is Err),
    { unimplemented!() }
    #[verifier::external_body]
    pub fn is_streamed_file(&self) -> (r: bool) ensures r == self.streamed() { unimplemented!() }
    #[verifier::external_body]
    pub fn filesz(&self) -> (r: FileSz) ensures r as int == self.fsz() { unimplemented!() }
    #[verifier::external_body]
    pub fn is_sysline_last(&self, syslinep: &SyslineP) -> (r: bool) ensures r == (syslinep.end_spec() == self.fsz() - 1) { unimplemented!() }
    #[verifier::external_body]
    pub fn debug_assert_gt_fo_syslineend(fo: &FileOffset, syslinep: &SyslineP) { }

//@cut fn path=src/readers/syslinereader.rs impl=SyslineReader name=sysline_dt_after_or_before ret=r
//@spec
    ensures
        dt_filter is None ==> r is Pass,
        dt_filter is Some ==> (r is OccursBefore <==> instant(syslinep.dt_spec()) < instant(dt_filter.unwrap())),
        dt_filter is Some ==> (r is OccursAtOrAfter <==> instant(syslinep.dt_spec()) >= instant(dt_filter.unwrap())),
//@end
//@cut fn path=src/readers/syslinereader.rs impl=SyslineReader name=sysline_pass_filters ret=r
//@spec
    requires
        (dt_filter_after is Some && dt_filter_before is Some) ==> instant(dt_filter_after.unwrap()) <= instant(dt_filter_before.unwrap()),
    ensures
        r is InRange <==> ge_a(instant(syslinep.dt_spec()), oi(*dt_filter_after)) && le_b(instant(syslinep.dt_spec()), oi(*dt_filter_before)),
        r is BeforeRange <==> !ge_a(instant(syslinep.dt_spec()), oi(*dt_filter_after)),
        r is AfterRange <==> ge_a(instant(syslinep.dt_spec()), oi(*dt_filter_after)) && !le_b(instant(syslinep.dt_spec()), oi(*dt_filter_before)),
//@end

//@cut fn path=src/readers/syslinereader.rs impl=SyslineReader name=find_sysline_at_datetime_filter_linear_search ret=r
//@spec
    requires old(self).wf()
    ensures
        final(self).same(old(self)),
        // C03: the first message at or after `fileoffset` whose instant is >= A -- or Done iff there is none
        r is Found ==> ({
            let j = first_from(old(self).model(), oi(*dt_filter), fileoffset as int, 0);
            old(self).is_msg(&r->Found_0.1, j) && r->Found_0.0 as int == old(self).model()[j].end + 1
        }),
        r is Done ==> first_from(old(self).model(), oi(*dt_filter), fileoffset as int, 0) == old(self).model().len(),
//@at_entry
        let ghost m = self.model();
        let ghost a = oi(*dt_filter);
        let ghost fsz = self.fsz();
        let ghost sp0 = *self;
//@loop 1
            invariant
                self.same(&sp0), sp0 == *old(self), self.wf(), m == self.model(), fsz == self.fsz(), a == oi(*dt_filter),
                first_from(m, a, fo_cursor as int, 0) == first_from(m, a, fileoffset as int, 0),
                fo_cursor as int <= fsz || fo_cursor == fileoffset,
            ensures
                first_from(m, a, fileoffset as int, 0) == m.len(),
            decreases fsz + 1 - fo_cursor,
//@after "loop {"
            proof { lemma_cover(m, fo_cursor as int, 0); lemma_first_from(m, a, fo_cursor as int, 0); }
            let ghost k = cover(m, fo_cursor as int, 0);
//@before "return ResultS3SyslineFind::Found((fo, syslinep));"
                            proof {
                                // message k covers the cursor and passes A: it is the first such
                                assert(first_from(m, a, fo_cursor as int, 0) == k) by {
                                    lemma_ff_found(m, a, fsz, fo_cursor as int, k, 0);
                                }
                            }
//@before "fo_cursor = fo;"
                            proof { lemma_skip_one(m, a, fsz, fo_cursor as int, k); }
//@before "break;"
                    proof {
                        // find_sysline said Done: the cursor is at or past the end of the file (or the file has no message)
                        lemma_done(m, a, fsz, fo_cursor as int);
                    }
//@mutate "fo_cursor = fo;" "fo_cursor = fo + 1;"
//@end
}

impl SyslineReader {
//@cut fn path=src/readers/syslinereader.rs impl=SyslineReader name=find_sysline_at_datetime_filter_binary_search ret=r rlimit=300
//@replace "pub fn find_sysline_at_datetime_filter_binary_search" "#[verifier::exec_allows_no_decreases_clause] pub fn find_sysline_at_datetime_filter_binary_search"
//@spec
    requires
        old(self).wf(), fileoffset as int <= old(self).fsz(), old(self).msgs_ok(),
    ensures
        final(self).same(old(self)),
        // C03 (partial correctness; an I/O error of the reader ends the search with Done: excluded): the first message at or after
        // `fileoffset` whose instant is >= A -- the same contract as the linear search
        r is Found ==> ({
            let j = first_from(old(self).model(), oi(*dt_filter), fileoffset as int, 0);
            old(self).is_msg(&r->Found_0.1, j) && r->Found_0.0 as int == old(self).model()[j].end + 1
        }),
        r is Done && !final(self).io_err() ==> first_from(old(self).model(), oi(*dt_filter), fileoffset as int, 0) == old(self).model().len(),
//@at_entry
        let ghost m = self.model();
        let ghost a = oi(*dt_filter);
        let ghost fsz = self.fsz();
        let ghost sp0 = *self;
        let ghost tt = first_from(m, a, fileoffset as int, 0);
        let ghost k0 = cover(m, fileoffset as int, 0);
        let ghost mut started: bool = false;
        proof { lemma_first_from(m, a, fileoffset as int, 0); lemma_cover(m, fileoffset as int, 0); }
//@loop 1
            invariant_except_break
                fileoffset <= fo_a <= try_fo <= fo_b, fo_b as int <= fsz,
                tt < m.len() ==> fo_a as int <= m[tt].end && m[tt].beg <= fo_b as int,
                tt == m.len() ==> fo_b as int == fsz,
                first ==> try_fo == fileoffset && fo_a == fileoffset && fo_b as int == fsz && !started,
                !first && !started ==> m.len() == 0,
                started ==> a is Some && (tt < m.len() ==> m[tt].beg >= fo_a as int) && (k0 < tt || tt == m.len()) && m.len() > 0,
            invariant
                self.same(&sp0), sp0.same(old(self)), self.wf(), m == self.model(), fsz == self.fsz(), a == oi(*dt_filter), fo_end as int == fsz,
                forall|i: int| 0 <= i < m.len() ==> (#[trigger] m[i]).beg < m[i].end,
                tt == first_from(m, a, fileoffset as int, 0), k0 == cover(m, fileoffset as int, 0), 0 <= k0 <= tt <= m.len(),
                self.io_err() == (old(self).io_err() || erred),
            ensures
                !erred ==> tt == m.len(),
//@before "let mut fo_a: FileOffset = fileoffset;"
        let ghost mut first: bool = true;
        let ghost mut erred: bool = false;
//@after "let done = result.is_done();"
            let ghost j = cover(m, try_fo as int, 0);
            let ghost mut kind: int = 0;
            let ghost fo_a0 = fo_a;
            let ghost fo_b0 = fo_b;
            let ghost was_first = first;
            proof {
                lemma_cover(m, try_fo as int, 0);
                lemma_first_from(m, a, fileoffset as int, 0);
                lemma_cover(m, fileoffset as int, 0);
                first = false;
                if result is Found { lemma_cover_mono(m, fileoffset as int, try_fo as int); }
                if result is Err { erred = true; }
            }
//@before "SyslineReader::debug_assert_gt_fo_syslineend(&fo, &syslinep);" 1
                            proof { assert(was_first); lemma_ff_found(m, a, fsz, fileoffset as int, k0, 0); }
//@before "SyslineReader::debug_assert_gt_fo_syslineend(&fo, &syslinep);" 2
                                proof { lemma_ff_found(m, a, fsz, fileoffset as int, k0, 0); }
//@before "try_fo_last = try_fo;" 1
                            proof {
                                // the probed message is at or after A: it is message tt or a later one
                                assert(!was_first);
                                assert(j >= tt);
                                if j > tt { lemma_ends(m, fsz, tt, j); lemma_begs(m, fsz, tt, j); }
                                if tt > 0 { assert(m[(tt - 1) + 1].beg == m[tt - 1].end + 1); }
                                kind = 1;
                            }
//@after "let syslinep_foe: FileOffset = (*syslinep).fileoffset_end();"
                            proof {
                                // the probed message is before A: it comes before message tt
                                assert(a is Some);
                                if j >= tt && tt < m.len() { assert(m[tt].t <= m[j].t); }
                                assert(j < tt);
                                if tt < m.len() { lemma_ends(m, fsz, j, tt); lemma_begs(m, fsz, j, tt); }
                                kind = 2; started = true;
                            }
//@before "try_fo_last = try_fo;" 3
                    proof { kind = 3; }
//@before "if done && try_fo == try_fo_last {"
            proof {
                if kind == 1 { started = true; }
                if kind == 3 && m.len() > 0 {
                    // Done on a file with messages: the probe was at the end of the file; the cursors have met or the loop stops
                    assert(try_fo_last as int >= fsz);
                    if try_fo == try_fo_last && tt < m.len() { assert(m[tt].end < fsz); }
                }
            }
//@before "let mut syslinep = syslinep_opt.unwrap();"
            proof {
                // the probe did not move: the cursors have met
                let pp = try_fo_last as int;
                assert(0 <= j < m.len());
                if kind == 1 {
                    assert(fo_b as int <= pp);
                    assert(fo_a == fo_b && fo_b as int == pp);
                    assert(m[tt].beg <= pp <= m[tt].end);
                    if tt > 0 { assert(m[(tt - 1) + 1].beg == m[tt - 1].end + 1); }
                    assert(j == tt);
                    assert(m[j].beg == pp);
                } else {
                    assert(kind == 2);
                    if fo_a as int == m[j].end {
                        assert(m[j].end == pp);
                        assert(fo_b as int <= pp + 1);
                        if tt < m.len() { assert(m[j + 1].beg == m[j].end + 1); if j + 1 < tt { lemma_begs(m, fsz, j + 1, tt); } assert(tt == j + 1); }
                        else { lemma_last(m, fsz, j); assert(tt == j + 1); }
                    } else {
                        assert(fo_a == fo_b && fo_b as int == pp);
                        if tt < m.len() { assert(m[tt].beg <= pp <= m[tt].end); if tt > 0 { assert(m[(tt - 1) + 1].beg == m[tt - 1].end + 1); } assert(j == tt); }
                        assert(false);
                    }
                    assert(tt == j + 1 && m[j].end == pp && m[j].beg < pp);
                }
            }
//@before "let fo_next: FileOffset = syslinep.fileoffset_next();"
            proof { if kind == 2 { lemma_last(m, fsz, j); assert(tt < m.len()); lemma_cover_succ(m, fsz, j); } }
//@before "break;" 3
                        proof { assert(false); }
//@before "break;" 4
                        proof { erred = true; }
//@before "break;" 5
                        proof { assert(false); }
//@before "break;" 6
                        proof { assert(false); }
//@end
//@cut fn path=src/readers/syslinereader.rs impl=SyslineReader name=find_sysline_at_datetime_filter ret=r
//@replace "self.linereader.blockreader.is_streamed_file()" "self.is_streamed_file()"
//@spec
    requires old(self).wf(), fileoffset as int <= old(self).fsz(), old(self).msgs_ok(),
    ensures
        final(self).same(old(self)),
        r is Found ==> ({
            let j = first_from(old(self).model(), oi(*dt_filter), fileoffset as int, 0);
            old(self).is_msg(&r->Found_0.1, j) && r->Found_0.0 as int == old(self).model()[j].end + 1
        }),
        // (the binary search ends with Done when the reader reports an I/O error: excluded)
        r is Done && !final(self).io_err() ==> first_from(old(self).model(), oi(*dt_filter), fileoffset as int, 0) == old(self).model().len(),
//@end

//@cut fn path=src/readers/syslinereader.rs impl=SyslineReader name=find_sysline_between_datetime_filters ret=r
//@spec
    requires
        old(self).wf(), fileoffset as int <= old(self).fsz(), old(self).msgs_ok(),
        (dt_filter_after is Some && dt_filter_before is Some) ==> instant(dt_filter_after.unwrap()) <= instant(dt_filter_before.unwrap()),
    ensures
        final(self).same(old(self)),
        // C03: Found iff the first message at/after the offset with instant >= A also has instant <= B (both inclusive);
        // this is exactly the reader contract that unit WRK assumes for the streaming loop
        r is Found ==> ({
            let j = first_from(old(self).model(), oi(*dt_filter_after), fileoffset as int, 0);
            j < old(self).model().len() && le_b(old(self).model()[j].t, oi(*dt_filter_before))
                && old(self).is_msg(&r->Found_0.1, j) && r->Found_0.0 as int == old(self).model()[j].end + 1
        }),
        r is Done && !final(self).io_err() ==> ({
            let j = first_from(old(self).model(), oi(*dt_filter_after), fileoffset as int, 0);
            j == old(self).model().len() || !le_b(old(self).model()[j].t, oi(*dt_filter_before))
        }),
//@at_entry
        proof { lemma_first_from(self.model(), oi(*dt_filter_after), fileoffset as int, 0); }
//@mutate "Result_Filter_DateTime2::AfterRange => {" "Result_Filter_DateTime2::AfterRange => { return ResultS3SyslineFind::Found((fo, syslinep));"
//@end
}

/// the covering index is monotone in the offset
pub proof fn lemma_cover_mono(m: Seq<SL>, fo1: int, fo2: int)
    requires fo1 <= fo2
    ensures cover(m, fo1, 0) <= cover(m, fo2, 0)
{
    lemma_cover(m, fo1, 0); lemma_cover(m, fo2, 0);
    let c1 = cover(m, fo1, 0); let c2 = cover(m, fo2, 0);
    if c2 < c1 { assert(m[c2].end >= fo2); assert(m[c2].end < fo1); }
}
/// the message that ends at the last byte of the file is the last message
pub proof fn lemma_last(m: Seq<SL>, filesz: int, j: int)
    requires model_wf(m, filesz), 0 <= j < m.len()
    ensures m[j].end == filesz - 1 <==> j == m.len() - 1, m[j].end >= filesz - 1 ==> j == m.len() - 1
{
    if j < m.len() - 1 { lemma_ends(m, filesz, j, m.len() - 1); }
}
pub proof fn lemma_cover_succ(m: Seq<SL>, filesz: int, j: int)
    requires model_wf(m, filesz), 0 <= j < m.len() - 1
    ensures cover(m, m[j].end + 1, 0) == j + 1
{
    let fo = m[j].end + 1;
    lemma_cover(m, fo, 0);
    let c = cover(m, fo, 0);
    assert(m[j + 1].beg == m[j].end + 1);
    if c > j + 1 { assert(m[j + 1].end < fo); }
    if c <= j { if c < j { lemma_ends(m, filesz, c, j); } assert(m[c].end <= m[j].end); }
}
pub proof fn lemma_begs(m: Seq<SL>, filesz: int, c: int, k: int)
    requires model_wf(m, filesz), 0 <= c < k < m.len()
    ensures m[k].beg > m[c].end, m[k].beg > m[c].beg
    decreases k - c
{
    if c + 1 < k { lemma_begs(m, filesz, c, k - 1); assert(m[(k - 1) + 1].beg == m[k - 1].end + 1); }
    else { assert(m[c + 1].beg == m[c].end + 1); }
}
pub proof fn lemma_ff_found(m: Seq<SL>, a: Option<int>, filesz: int, fo: int, k: int, i: int)
    requires model_wf(m, filesz), 0 <= k < m.len(), 0 <= i <= k, forall|q: int| 0 <= q < k ==> (#[trigger] m[q]).end < fo, m[k].end >= fo, ge_a(m[k].t, a)
    ensures first_from(m, a, fo, i) == k
    decreases k - i
{
    if i < k { lemma_ff_found(m, a, filesz, fo, k, i + 1); }
}
pub proof fn lemma_done(m: Seq<SL>, a: Option<int>, filesz: int, fo: int)
    requires model_wf(m, filesz), fo >= filesz || m.len() == 0
    ensures first_from(m, a, fo, 0) == m.len()
{
    lemma_done_rec(m, a, filesz, fo, 0);
}
pub proof fn lemma_done_rec(m: Seq<SL>, a: Option<int>, filesz: int, fo: int, i: int)
    requires model_wf(m, filesz), fo >= filesz || m.len() == 0, 0 <= i <= m.len()
    ensures first_from(m, a, fo, i) == m.len()
    decreases m.len() - i
{
    if i < m.len() { lemma_done_rec(m, a, filesz, fo, i + 1); }
}


// =====================================================================================================
// The per-file processor's wrappers around the reader (src/readers/syslogprocessor.rs): what the worker
// (unit WRK) actually calls for the first message and for every following one.  Same contract as the reader's.
//@cut type kind=enum path=src/readers/syslogprocessor.rs name=ProcessingStage derives=PartialEq,Eq,Structural
//@end
impl Result_Filter_DateTime1 {
//@cut fn path=src/data/datetime.rs impl=Result_Filter_DateTime1 name=is_after ret=r
//@spec
    ensures r == (*self is OccursAtOrAfter)
//@end
//@cut fn path=src/data/datetime.rs impl=Result_Filter_DateTime1 name=is_before ret=r
//@spec
    ensures r == (*self is OccursBefore)
//@end
}
impl Result_Filter_DateTime2 {
//@cut fn path=src/data/datetime.rs impl=Result_Filter_DateTime2 name=is_pass ret=r
//@spec
    ensures r == (*self is InRange)
//@end
//@cut fn path=src/data/datetime.rs impl=Result_Filter_DateTime2 name=is_fail ret=r
//@spec
    ensures r == (*self is AfterRange || *self is BeforeRange)
//@end
}
pub struct SyslogProcessor {
    pub syslinereader: SyslineReader,
    pub processingstage: ProcessingStage,
    pub filter_dt_after_opt: DateTimeLOpt,
    pub filter_dt_before_opt: DateTimeLOpt,
    pub error: Option<String>,
}
impl SyslogProcessor {
    pub open spec fn same(&self, o: &Self) -> bool {
        self.syslinereader.same(&o.syslinereader) && self.filter_dt_after_opt == o.filter_dt_after_opt && self.filter_dt_before_opt == o.filter_dt_before_opt
            && self.processingstage == o.processingstage
    }
    // assumed: recording an error touches nothing else
    #[verifier::external_body]
    fn set_error(&mut self, error: &Error)
        ensures final(self).syslinereader == old(self).syslinereader, final(self).filter_dt_after_opt == old(self).filter_dt_after_opt,
            final(self).filter_dt_before_opt == old(self).filter_dt_before_opt, final(self).processingstage == old(self).processingstage,
    { unimplemented!() }
//@cut fn path=src/readers/syslogprocessor.rs impl=SyslogProcessor name=find_sysline ret=r
//@spec
    requires old(self).syslinereader.wf()
    ensures
        final(self).same(old(self)),
        fileoffset as int >= old(self).syslinereader.fsz() ==> !(r is Found),
        r is Found ==> ({
            let j = cover(old(self).syslinereader.model(), fileoffset as int, 0);
            old(self).syslinereader.is_msg(&r->Found_0.1, j) && r->Found_0.0 as int == old(self).syslinereader.model()[j].end + 1
        }),
        r is Done ==> fileoffset as int >= old(self).syslinereader.fsz() || old(self).syslinereader.model().len() == 0,
        final(self).syslinereader.io_err() == (old(self).syslinereader.io_err() || r is Err),
//@end
//@cut fn path=src/readers/syslogprocessor.rs impl=SyslogProcessor name=find_sysline_between_datetime_filters ret=r
//@spec
    requires
        old(self).syslinereader.wf(), fileoffset as int <= old(self).syslinereader.fsz(), old(self).syslinereader.msgs_ok(),
        (old(self).filter_dt_after_opt is Some && old(self).filter_dt_before_opt is Some) ==> instant(old(self).filter_dt_after_opt.unwrap()) <= instant(old(self).filter_dt_before_opt.unwrap()),
    ensures
        final(self).same(old(self)),
        // C03, in every processing stage: Found iff the first message at/after the offset with instant >= A also has
        // instant <= B (both bounds inclusive) -- the contract unit WRK assumes for the first message and the streaming loop
        r is Found ==> ({
            let m = old(self).syslinereader.model();
            let j = first_from(m, oi(old(self).filter_dt_after_opt), fileoffset as int, 0);
            j < m.len() && le_b(m[j].t, oi(old(self).filter_dt_before_opt))
                && old(self).syslinereader.is_msg(&r->Found_0.1, j) && r->Found_0.0 as int == m[j].end + 1
        }),
        r is Done && !final(self).syslinereader.io_err() ==> ({
            let m = old(self).syslinereader.model();
            let j = first_from(m, oi(old(self).filter_dt_after_opt), fileoffset as int, 0);
            j == m.len() || !le_b(m[j].t, oi(old(self).filter_dt_before_opt))
        }),
//@end
}

// =====================================================================================================
// PMY-BODY — logs without a year: SyslogProcessor::process_missing_year re-reads the file backwards assigning years; a message
// whose datetime is later than that of the message FOLLOWING it in the file by more than the threshold marks a year rollover:
// the year is lowered by one, the message is dropped from the store and read again with the new year (C01: the instants
// the merge sorts by; C03: the instants the window compares).  The pass may stop early at --dt-after; messages it does not
// reach keep a filler year and are later taken as before the window, so C03 needs: the pass stops early only at a message
// STRICTLY before the lower bound.  The whole loop body after the search, cut from the function; the rollover decision
// holds for EVERY message found, the one at offset 0 included, before the loop may stop.
// ---- assumed: chrono::Duration by its length (same unit as `instant`); `DateTime - DateTime` is the difference of instants;
// the lazy_static threshold is an opaque constant
#[verifier::external_body]
pub struct Duration { _p: u8 }
pub uninterp spec fn dur(d: Duration) -> int;
pub uninterp spec fn jump_threshold() -> int;
impl PartialEq for Duration {
    #[verifier::external_body]
    fn eq(&self, other: &Self) -> (r: bool) { self._p == other._p }
}
impl PartialEqSpecImpl for Duration {
    open spec fn obeys_eq_spec() -> bool { true }
    open spec fn eq_spec(&self, other: &Self) -> bool { dur(*self) == dur(*other) }
}
impl PartialOrd for Duration {
    #[verifier::external_body]
    fn partial_cmp(&self, other: &Self) -> (r: Option<Ordering>) { self._p.partial_cmp(&other._p) }
}
impl PartialOrdSpecImpl for Duration {
    open spec fn obeys_partial_cmp_spec() -> bool { true }
    open spec fn partial_cmp_spec(&self, other: &Self) -> Option<Ordering> {
        if dur(*self) < dur(*other) { Some(Ordering::Less) }
        else if dur(*self) == dur(*other) { Some(Ordering::Equal) }
        else { Some(Ordering::Greater) }
    }
}
#[verifier::external_body]
pub fn verif_dt_sub(a: &DateTimeL, b: &DateTimeL) -> (r: Duration) ensures dur(r) == instant(*a) - instant(*b) { unimplemented!() }  // stand-in for `*a - *b`
#[verifier::external_body]
pub fn verif_backwards_jump() -> (r: Duration) ensures dur(r) == jump_threshold() { unimplemented!() }  // stand-in for `*BACKWARDS_TIME_JUMP_MEANS_NEW_YEAR`
pub fn verif_dt_gt(a: &DateTimeL, b: &DateTimeL) -> (r: bool) ensures r == (instant(*a) > instant(*b)) { *a > *b }  // `&DateTimeL > &DateTimeL`
// stand-in for `self.syslinereader.remove_sysline(fo)`: records the one removal
pub fn verif_remove_sysline(removed: &mut Option<FileOffset>, fo: FileOffset)
    requires *old(removed) is None ensures *final(removed) == Some(fo)
{ *removed = Some(fo); }

pub enum PmyStep { Retry, Next, Stop }
pub struct PmyOut { pub step: PmyStep, pub fo_prev: FileOffset, pub year_opt: Option<Year>, pub prev: Option<SyslineP>, pub removed: Option<FileOffset> }
pub type Year = i32;

pub open spec fn pmy_rollover(cur: &SyslineP, prev: Option<SyslineP>) -> bool {
    prev is Some && instant(cur.dt_spec()) > instant(prev.unwrap().dt_spec())
        && instant(cur.dt_spec()) - instant(prev.unwrap().dt_spec()) > jump_threshold()
}

#[verifier::exec_allows_no_decreases_clause]
pub fn pmy_body(syslinep: SyslineP, prev0: Option<SyslineP>, filter_dt_after_opt: &DateTimeLOpt, fo_prev0: FileOffset, charsz_fo: FileOffset, year0: Option<Year>) -> (r: PmyOut)
    requires charsz_fo >= 1, year0 is Some, year0.unwrap() > i32::MIN
    ensures
        // the rollover decision is taken for every message found, wherever it starts
        pmy_rollover(&syslinep, prev0) ==> r.step is Retry && r.year_opt == Some((year0.unwrap() - 1) as i32)
            && r.removed == Some(syslinep.beg_spec() as u64) && r.fo_prev == fo_prev0 && r.prev == prev0,
        !pmy_rollover(&syslinep, prev0) ==> !(r.step is Retry) && r.removed is None && r.year_opt == year0,
        // the pass goes on to the preceding message
        r.step is Next ==> r.fo_prev as int == syslinep.beg_spec() - charsz_fo && r.prev == Some(syslinep),
        // it stops only at the start of the file, strictly before the lower bound, or when it cannot move back
        r.step is Stop ==> syslinep.beg_spec() < charsz_fo as int
            || (filter_dt_after_opt is Some && instant(syslinep.dt_spec()) < instant(filter_dt_after_opt.unwrap()))
            || syslinep.beg_spec() - charsz_fo >= fo_prev0 as int,
{
    let mut fo_prev: FileOffset = fo_prev0;
    let mut year_opt: Option<Year> = year0;
    let mut syslinep_prev_opt: Option<SyslineP> = prev0;
    let mut removed: Option<FileOffset> = None;
    let mut first: bool = true;
    loop
        invariant_except_break
            charsz_fo >= 1,
            first ==> fo_prev == fo_prev0 && year_opt == year0 && syslinep_prev_opt == prev0 && removed is None,
            !first ==> pmy_rollover(&syslinep, prev0) && fo_prev == fo_prev0 && year_opt == Some((year0.unwrap() - 1) as i32)
                && syslinep_prev_opt == prev0 && removed == Some(syslinep.beg_spec() as u64),
            year0 is Some, year0.unwrap() > i32::MIN,
        ensures
            !pmy_rollover(&syslinep, prev0), removed is None, year_opt == year0,
            syslinep.beg_spec() < charsz_fo as int
                || (filter_dt_after_opt is Some && instant(syslinep.dt_spec()) < instant(filter_dt_after_opt.unwrap()))
                || syslinep.beg_spec() - charsz_fo >= fo_prev0 as int,
    {
        if !first {
            // reached by the body's `continue`
            return PmyOut { step: PmyStep::Retry, fo_prev, year_opt, prev: syslinep_prev_opt, removed };
        }
        first = false;
//@cut slice path=src/readers/syslogprocessor.rs impl=SyslogProcessor fn=process_missing_year anchor="let fo_prev_prev: FileOffset = fo_prev;" take=range end_anchor="syslinep_prev_opt = Some(syslinep.clone());" label=PMY-BODY
//@replace "*(*syslinep).dt() - *(*syslinep_prev).dt()" "verif_dt_sub((*syslinep).dt(), (*syslinep_prev).dt())"
//@replace "(*syslinep).dt() > (*syslinep_prev).dt()" "verif_dt_gt((*syslinep).dt(), (*syslinep_prev).dt())"
//@replace "*BACKWARDS_TIME_JUMP_MEANS_NEW_YEAR" "verif_backwards_jump()"
//@replace "self.syslinereader .remove_sysline(fo_prev)" "verif_remove_sysline(&mut removed, fo_prev)" ws=1
//@end
        return PmyOut { step: PmyStep::Next, fo_prev, year_opt, prev: syslinep_prev_opt, removed };
    }
    PmyOut { step: PmyStep::Stop, fo_prev, year_opt, prev: None, removed }
}

// PMY-YEAR — logs without a year: the year given to the file's last message is the calendar year of the file's modification time
// AS READ IN THE LOG'S ZONE (--tz-offset), not in UTC: around New Year the two differ and every instant of the file would be off
// by one year (C01: merge order; C03: window).  The one statement of process_missing_year that picks the year, with chrono's
// accessors assumed (date_naive / naive_local read the wall clock of the value's own zone, naive_utc that of UTC).
#[verifier::external_body]
pub struct NaiveDate { _p: u8 }
#[verifier::external_body]
pub struct NaiveDateTimeS { _p: u8 }
pub uninterp spec fn local_year(dt: DateTimeL) -> int;
pub uninterp spec fn utc_year(dt: DateTimeL) -> int;
impl NaiveDate {
    pub uninterp spec fn y(&self) -> int;
    #[verifier::external_body]
    pub fn year(&self) -> (r: i32) ensures r as int == self.y() { unimplemented!() }
}
impl NaiveDateTimeS {
    pub uninterp spec fn y(&self) -> int;
    #[verifier::external_body]
    pub fn year(&self) -> (r: i32) ensures r as int == self.y() { unimplemented!() }
    #[verifier::external_body]
    pub fn date(&self) -> (r: NaiveDate) ensures r.y() == self.y() { unimplemented!() }
}
impl DateTimeL {
    #[verifier::external_body]
    pub fn date_naive(&self) -> (r: NaiveDate) ensures r.y() == local_year(*self) { unimplemented!() }
    #[verifier::external_body]
    pub fn naive_local(&self) -> (r: NaiveDateTimeS) ensures r.y() == local_year(*self) { unimplemented!() }
    #[verifier::external_body]
    pub fn naive_utc(&self) -> (r: NaiveDateTimeS) ensures r.y() == utc_year(*self) { unimplemented!() }
    #[verifier::external_body]
    pub fn year(&self) -> (r: i32) ensures r as int == local_year(*self) { unimplemented!() }
}
// the statements of process_missing_year from its start to the one that picks the year; the conversion helpers of
// src/data/datetime.rs assumed: systemtime_to_datetime(tz, t) is the instant t carried in zone tz; systemtime_year(t) is t's year in UTC
#[verifier::external_body]
pub struct FixedOffset { _p: u8 }
#[verifier::external_body]
pub struct SystemTime { _p: u8 }
pub uninterp spec fn year_in_zone(tz: FixedOffset, t: SystemTime) -> int;
pub uninterp spec fn year_in_utc(t: SystemTime) -> int;
#[verifier::external_body]
pub fn systemtime_to_datetime(tz: &FixedOffset, t: &SystemTime) -> (r: DateTimeL)
    ensures local_year(r) == year_in_zone(*tz, *t), utc_year(r) == year_in_utc(*t)
{ unimplemented!() }
#[verifier::external_body]
pub fn systemtime_year(t: &SystemTime) -> (r: Year) ensures r as int == year_in_utc(*t) { unimplemented!() }
pub struct SyslogProcessorY { pub tz_offset: FixedOffset }
impl SyslogProcessorY {
    #[verifier::external_body]
    pub fn did_process_missing_year(&self) -> (r: bool) ensures !r { unimplemented!() }   // the function's own debug assertion: called once
    pub fn pmy_year(&mut self, mtime: SystemTime) -> (r: Year)
        ensures r as int == year_in_zone(old(self).tz_offset, mtime)
    {
//@cut slice path=src/readers/syslogprocessor.rs impl=SyslogProcessor fn=process_missing_year anchor="debug_assert!(!self.did_process_missing_year()" take=range end_anchor="let year: Year" label=PMY-YEAR
//@end
        year
    }
}

} // verus!
fn main() {}
