// UNIT RGZ — a block of a gzip file (C12: at every block size the block handed out for offset `bo` holds exactly the bytes
// [bo*blocksz, ...) of the uncompressed data).  BlockReader::read_block_FileGz (src/readers/blockreader.rs) fills a block by
// repeated reads of at most 2056 bytes from the decoder; a read may return fewer bytes than asked for (flate2 does so every 32 KiB),
// so the write cursor must advance by what was RETURNED.  The set-up statements and the chunk loop are cut from the function;
// likewise for read_block_FileBz2 and read_block_FileLz4 (defect D8: it used to read once).
// Contract: if the loop falls through, the block holds the next `blocksz_u` bytes of the decoder's stream, in order, and the stream
// has advanced by exactly that much -- whatever the sizes of the individual reads.
// Assumed by contract (stand-in, R9): `std::io::Read::read` on the decoder (Ok(n): n <= the slice's length, the first n bytes of the
// slice are the next n bytes of the stream, the stream advances by n); `[u8]::fill`; vstd's Vec / slice specs.  The surrounding
// block walk of read_block_FileGz (which block to read next, storing it) stays assumed in unit RBK.
#![feature(allocator_api)]
#![allow(unused_imports, non_camel_case_types, dead_code, unused_variables, unused_parens, unused_mut, unused_assignments, non_snake_case, unused_labels)]
use vstd::prelude::*;
use std::sync::Arc;
use std::collections::BTreeMap;
use vstd::std_specs::btree::*;
verus! {

global size_of usize == 8;
pub type Count = u64;
pub type FileOffset = u64;
pub type FileSz = u64;
pub type BlockOffset = u64;
pub type BlockSz = u64;
pub type Block = Vec<u8>;
pub type BlockP = Arc<Block>;
#[verifier::external_body]
pub struct Error { _p: u8 }
#[verifier::external_body]
pub struct FPath { _p: u8 }
#[verifier::external_body]
pub fn verif_error() -> Error { unimplemented!() }
//@cut type kind=enum path=src/common.rs name=ResultS3 derives=
//@end
pub type ResultS3ReadBlock = ResultS3<BlockP, Error>;
#[verifier::external_body]
pub fn err_from_err_path_results3(err: &Error, path: &FPath, mesg: Option<&str>) -> (r: ResultS3ReadBlock) ensures r is Err { unimplemented!() }

/// the decoder: a stream of uncompressed bytes and a cursor
pub struct GzStream { pub ghost data: Seq<u8>, pub ghost pos: nat, pub ghost eof_seen: bool }
/// stand-in (R9) for `(self.gz.as_mut().unwrap().decoder).read(buf[..readsz].as_mut())`
#[verifier::external_body]
pub fn verif_gz_read<const N: usize>(gz: &mut GzStream, buf: &mut [u8; N], readsz: usize) -> (r: core::result::Result<usize, Error>)
    requires readsz <= N
    ensures
        final(gz).data == old(gz).data,
        r is Ok ==> r->Ok_0 <= readsz && final(gz).pos == old(gz).pos + r->Ok_0 && old(gz).pos + r->Ok_0 <= old(gz).data.len()
            && forall|i: int| 0 <= i < r->Ok_0 ==> #[trigger] final(buf)@[i] == old(gz).data[old(gz).pos + i],
        r is Err ==> final(gz).pos == old(gz).pos,
{ unimplemented!() }
#[verifier::external_body]
pub fn verif_fill_zero<const N: usize>(buf: &mut [u8; N]) { unimplemented!() }   // stand-in: buf.fill(0)
/// stand-in (R9) for `v[a..b].copy_from_slice(&buf[..n])` (this Verus has no spec for a mutable range of a Vec): std's meaning --
/// panics unless a <= b <= v.len(), n <= N and b - a == n; copies buf[..n] over v[a..b], nothing else changes
#[verifier::external_body]
pub fn verif_copy_into<const N: usize>(v: &mut Vec<u8>, a: usize, b: usize, buf: &[u8; N], n: usize)
    requires a <= b, b <= old(v)@.len(), n <= N, b - a == n
    ensures final(v)@.len() == old(v)@.len(),
        forall|i: int| 0 <= i < n ==> #[trigger] final(v)@[a + i] == buf@[i],
        forall|i: int| 0 <= i < old(v)@.len() && !(a <= i < b) ==> #[trigger] final(v)@[i] == old(v)@[i],
{ unimplemented!() }
pub fn verif_count_add(c: &mut Count, n: Count) { if *c <= u64::MAX - n { *c = *c + n; } }   // stand-in for `+=` on a statistics counter

pub struct BlockReader { pub gz: GzStream, pub count_bytes_read: Count, pub filesz: FileSz, pub filesz_actual: FileSz, pub blocksz: BlockSz, pub path: FPath }
impl BlockReader {
    /// length of block `bo` (unit BLK proves the real function: the block size, or what is left of the file for the last block)
    pub uninterp spec fn bsz_at(&self, bo: BlockOffset) -> BlockSz;
    #[verifier::external_body]
    pub fn blocksz_at_blockoffset(&self, blockoffset: &BlockOffset) -> (r: BlockSz) ensures r == self.bsz_at(*blockoffset), r <= self.blocksz { unimplemented!() }
    #[verifier::external_body]
    pub fn file_offset_at_block_offset_self(&self, blockoffset: BlockOffset) -> (r: FileOffset) ensures r <= u64::MAX / 2 { unimplemented!() }   // file offsets fit in 63 bits

    #[verifier::exec_allows_no_decreases_clause]
    pub fn gz_fill_block(&mut self, carried: usize, bo_at: BlockOffset, blockoffset: BlockOffset, blockoffset_last: BlockOffset) -> (r: ResultS3ReadBlock)
        requires old(self).blocksz <= u64::MAX / 2, old(self).gz.pos <= old(self).gz.data.len()
        ensures
            final(self).gz.data == old(self).gz.data,
            // C12: the block is the next blocksz_u bytes of the stream, whatever the sizes of the individual reads
            r is Found ==> r->Found_0@ == old(self).gz.data.subrange(old(self).gz.pos as int, old(self).gz.pos + old(self).bsz_at(bo_at))
                && final(self).gz.pos == old(self).gz.pos + old(self).bsz_at(bo_at),
    {
        let ghost d = self.gz.data; let ghost p0 = self.gz.pos; let ghost want = self.bsz_at(bo_at);
        // the per-block locals, declared here with an arbitrary earlier value: a counter carried over from the previous block is not 0
        let mut bytes_read_actual: usize = carried; let mut reads_actual: usize = carried;
//@cut slice path=src/readers/blockreader.rs impl=BlockReader fn=read_block_FileGz anchor="let blocksz_u: usize = self.blocksz_at_blockoffset(" take=range end_anchor="while bytes_read_actual < bytes_read_expect" label=GZ-FILL
//@replace "(self .gz .as_mut() .unwrap() .decoder) .read(buf[..readsz].as_mut())" "verif_gz_read(&mut self.gz, &mut buf, readsz)" ws=1
//@replace "self.count_bytes_read += size_ as Count;" "verif_count_add(&mut self.count_bytes_read, size_ as Count);" count=*
//@replace "buf.fill(0);" "verif_fill_zero(&mut buf);"
//@replace "block[bytes_read_actual..bytes_read_actual + size_].copy_from_slice(&buf[..size_]);" "verif_copy_into(&mut block, bytes_read_actual, bytes_read_actual + size_, &buf, size_);"
//@after "verif_copy_into("
                        proof {
                            assert forall|i: int| 0 <= i < bytes_read_actual + size_ implies #[trigger] block@[i] == d[p0 + i] by {
                                if i >= bytes_read_actual { let j = i - bytes_read_actual; assert(block@[bytes_read_actual + j] == buf@[j]); }
                            }
                        }
//@loop 1
                invariant
                    self.gz.data == d, bytes_read_expect == blocksz_u, bytes_read_actual <= bytes_read_expect, block@.len() == blocksz_u,
                    self.gz.pos == p0 + bytes_read_actual, BUF_SZ == 2056,
                    forall|i: int| 0 <= i < bytes_read_actual ==> #[trigger] block@[i] == d[p0 + i],
                    reads_actual <= bytes_read_actual, self.blocksz == old(self).blocksz,
                    d == old(self).gz.data, p0 == old(self).gz.pos, p0 + bytes_read_actual <= d.len(), blocksz_u as int <= self.blocksz, self.blocksz <= u64::MAX / 2,
                    blocksz_u == want, want == old(self).bsz_at(bo_at),
//@end
        proof { assert(block@ =~= d.subrange(p0 as int, p0 + blocksz_u)); }
        ResultS3ReadBlock::Found(BlockP::new(block))
    }
}

/// stand-in (R9) for `reader.read(&mut block[bytes_read..])` (bzip2 decoder; same `Read::read` contract, the slice being the tail of the block)
#[verifier::external_body]
pub fn verif_read_tail(gz: &mut GzStream, block: &mut Vec<u8>, start: usize) -> (r: core::result::Result<usize, Error>)
    requires start <= old(block)@.len()
    ensures
        final(gz).data == old(gz).data, final(block)@.len() == old(block)@.len(),
        forall|i: int| 0 <= i < start ==> #[trigger] final(block)@[i] == old(block)@[i],
        r is Ok ==> start + r->Ok_0 <= old(block)@.len() && final(gz).pos == old(gz).pos + r->Ok_0 && old(gz).pos + r->Ok_0 <= old(gz).data.len()
            && forall|i: int| 0 <= i < r->Ok_0 ==> #[trigger] final(block)@[start + i] == old(gz).data[old(gz).pos + i],
        r is Err ==> final(gz).pos == old(gz).pos,
        // Ok(0) for a non-empty slice means the end of the data
        final(gz).eof_seen == (old(gz).eof_seen || (r is Ok && r->Ok_0 == 0 && start < old(block)@.len())),
{ unimplemented!() }
impl BlockReader {
    #[verifier::external_body]
    pub fn path(&self) -> (r: &FPath) { unimplemented!() }
    /// the same for a bzip2 file: read_block_FileBz2 reads straight into the tail of the block
    #[verifier::exec_allows_no_decreases_clause]
    pub fn bz2_fill_block(&mut self, carried: usize, bo_at: BlockOffset, blockoffset: BlockOffset, blockoffset_last: BlockOffset) -> (r: ResultS3ReadBlock)
        requires old(self).gz.pos <= old(self).gz.data.len()
        ensures
            final(self).gz.data == old(self).gz.data,
            r is Found ==> r->Found_0@ == old(self).gz.data.subrange(old(self).gz.pos as int, old(self).gz.pos + old(self).bsz_at(bo_at))
                && final(self).gz.pos == old(self).gz.pos + old(self).bsz_at(bo_at),
    {
        let ghost d = self.gz.data; let ghost p0 = self.gz.pos; let ghost want = self.bsz_at(bo_at);
        let mut bytes_read: usize = carried;   // see gz_fill_block
//@cut slice path=src/readers/blockreader.rs impl=BlockReader fn=read_block_FileBz2 anchor="let blocksz_u: usize = self.blocksz_at_blockoffset(" take=stmt label=BZ2-SIZE
//@end
//@cut slice path=src/readers/blockreader.rs impl=BlockReader fn=read_block_FileBz2 anchor="let mut block = Block::with_capacity(blocksz_u);" take=range end_anchor="while bytes_read < blocksz_u" label=BZ2-FILL
//@replace "reader.read(&mut block[bytes_read..])" "verif_read_tail(&mut self.gz, &mut block, bytes_read)"
//@replace "self.count_bytes_read += size as Count;" "verif_count_add(&mut self.count_bytes_read, size as Count);"
//@before "bytes_read += size;"
                        let ghost br0 = bytes_read;
//@after "bytes_read += size;"
                        proof {
                            assert forall|i: int| 0 <= i < bytes_read implies #[trigger] block@[i] == d[p0 + i] by {
                                if i >= br0 { let j = i - br0; assert(block@[br0 + j] == d[(p0 + br0) + j]); }
                            }
                        }
//@loop 1
                invariant
                    self.gz.data == d, d == old(self).gz.data, p0 == old(self).gz.pos, bytes_read <= blocksz_u, block@.len() == blocksz_u,
                    self.gz.pos == p0 + bytes_read, p0 + bytes_read <= d.len(), blocksz_u == want, want == old(self).bsz_at(bo_at),
                    forall|i: int| 0 <= i < bytes_read ==> #[trigger] block@[i] == d[p0 + i],
//@end
        proof { assert(block@ =~= d.subrange(p0 as int, p0 + blocksz_u)); }
        ResultS3ReadBlock::Found(BlockP::new(block))
    }
}

impl BlockReader {
    /// the same for an LZ4 file (read_block_FileLz4; defect D8: it used to call read() once and take the block as filled).  The
    /// block may come out short only when the decoder reported the end of the data (the checks that follow in the function then
    /// turn a short block that is not the file's last into an error)
    #[verifier::exec_allows_no_decreases_clause]
    pub fn lz4_fill_block(&mut self, carried: usize, bo_at: BlockOffset, blockoffset: BlockOffset, blockoffset_last: BlockOffset) -> (r: ResultS3ReadBlock)
        requires old(self).gz.pos <= old(self).gz.data.len(), !old(self).gz.eof_seen
        ensures
            final(self).gz.data == old(self).gz.data,
            r is Found ==> r->Found_0@.len() <= old(self).bsz_at(bo_at)
                && r->Found_0@ == old(self).gz.data.subrange(old(self).gz.pos as int, (old(self).gz.pos + r->Found_0@.len()) as int)
                && final(self).gz.pos == old(self).gz.pos + r->Found_0@.len()
                && (r->Found_0@.len() == old(self).bsz_at(bo_at) || final(self).gz.eof_seen),
    {
        let ghost d = self.gz.data; let ghost p0 = self.gz.pos; let ghost want = self.bsz_at(bo_at);
        let mut bytes_read: usize = carried;   // see gz_fill_block
//@cut slice path=src/readers/blockreader.rs impl=BlockReader fn=read_block_FileLz4 anchor="let blocksz_u: usize = self.blocksz_at_blockoffset(" take=stmt label=LZ4-SIZE
//@end
//@cut slice path=src/readers/blockreader.rs impl=BlockReader fn=read_block_FileLz4 anchor="let mut block = Block::with_capacity(blocksz_u);" take=range end_anchor="while bytes_read < blocksz_u" label=LZ4-FILL
//@replace "reader.read(&mut block[bytes_read..])" "verif_read_tail(&mut self.gz, &mut block, bytes_read)"
//@replace "self.count_bytes_read += size as Count;" "verif_count_add(&mut self.count_bytes_read, size as Count);"
//@before "bytes_read += size;"
                        let ghost br0 = bytes_read;
//@after "bytes_read += size;"
                        proof {
                            assert forall|i: int| 0 <= i < bytes_read implies #[trigger] block@[i] == d[p0 + i] by {
                                if i >= br0 { let j = i - br0; assert(block@[br0 + j] == d[(p0 + br0) + j]); }
                            }
                        }
//@after "block.truncate(bytes_read);"
                            proof { assert(block@ =~= d.subrange(p0 as int, p0 + bytes_read)); }
//@loop 1
                invariant_except_break
                    block@.len() == blocksz_u, !self.gz.eof_seen,
                invariant
                    blocksz_u == want, want == old(self).bsz_at(bo_at),
                    self.gz.data == d, d == old(self).gz.data, p0 == old(self).gz.pos, bytes_read <= blocksz_u,
                    self.gz.pos == p0 + bytes_read, p0 + bytes_read <= d.len(),
                    forall|i: int| 0 <= i < bytes_read ==> #[trigger] block@[i] == d[p0 + i],
                ensures
                    block@.len() <= blocksz_u, block@ =~= d.subrange(p0 as int, (p0 + block@.len()) as int), self.gz.pos == p0 + block@.len(),
                    block@.len() == blocksz_u || self.gz.eof_seen,
//@end
        ResultS3ReadBlock::Found(BlockP::new(block))
    }
}

// =====================================================================================================
// XZ-CUT — an .xz file is decompressed whole when the reader is created (BlockReader::new) and the buffer is cut into blocks there:
// block bo holds exactly the bytes [bo*blocksz, min((bo+1)*blocksz, len)) of the buffer, for every bo that starts inside it, and the
// size recorded for the file is the buffer's length -- at every block size (C12)
pub type Blocks = BTreeMap<BlockOffset, BlockP>;
#[verifier::external_body]
pub struct BlocksTracked { _p: u8 }
impl BlocksTracked {
    #[verifier::external_body]
    pub fn insert(&mut self, k: BlockOffset) -> (r: bool) { unimplemented!() }
}
pub open spec fn xz_piece(buf: Seq<u8>, bs: int, bo: int) -> Seq<u8> { buf.subrange(bo * bs, if (bo + 1) * bs <= buf.len() { (bo + 1) * bs } else { buf.len() as int }) }
pub proof fn lemma_xz_div(len: int, bs: int, bo: int)
    requires bs >= 1, len >= 0, bo >= 0
    ensures bo <= len / bs ==> bo * bs <= len, bo > len / bs ==> bo * bs > len, (bo + 1) * bs == bo * bs + bs, bo * bs >= 0
{
    vstd::arithmetic::div_mod::lemma_fundamental_div_mod(len, bs);
    vstd::arithmetic::div_mod::lemma_mod_bound(len, bs);
    let q = len / bs;
    assert(bs * q == q * bs) by (nonlinear_arith);
    if bo <= q { assert(bo * bs <= q * bs) by (nonlinear_arith) requires bo <= q, bs >= 1, bo >= 0; }
    if bo > q { assert(bo * bs >= (q + 1) * bs) by (nonlinear_arith) requires bo >= q + 1, bs >= 1; assert((q + 1) * bs == q * bs + bs) by (nonlinear_arith); }
    assert((bo + 1) * bs == bo * bs + bs) by (nonlinear_arith);
    assert(bo * bs >= 0) by (nonlinear_arith) requires bo >= 0, bs >= 1;
}
pub fn std_min(a: usize, b: usize) -> (r: usize) ensures r == (if a <= b { a } else { b }) { if a <= b { a } else { b } }   // stand-in for std::cmp::min
#[verifier::exec_allows_no_decreases_clause]
pub fn xz_cut_blocks(buffer: &Vec<u8>, blocksz: BlockSz, blocks: &mut Blocks, blocks_read: &mut BlocksTracked, count_bytes_read_in: Count, read_blocks_put_in: Count) -> (r: (Count, Count))
    requires
        blocksz >= 1, buffer@.len() >= 1, buffer@.len() + 2 * blocksz < 0x7fff_ffff_ffff_ffff, count_bytes_read_in as int + buffer@.len() < u64::MAX,
        read_blocks_put_in as int + buffer@.len() + 2 < u64::MAX, old(blocks)@ == Map::<BlockOffset, BlockP>::empty(),
    ensures
        // every block that starts inside the buffer is stored and is that piece of the buffer
        forall|bo: BlockOffset| (bo as int) * (blocksz as int) < buffer@.len() ==> #[trigger] final(blocks)@.contains_key(bo) && final(blocks)@[bo]@ == xz_piece(buffer@, blocksz as int, bo as int),
        // the size recorded for the file is the buffer's length
        r.0 as int == count_bytes_read_in as int + buffer@.len(),
{
    proof { broadcast use group_btree_axioms; }
    let mut count_bytes_read: Count = count_bytes_read_in;
    let mut read_blocks_put: Count = read_blocks_put_in;
    let ghost bs = blocksz as int; let ghost len = buffer@.len() as int;
//@cut slice path=src/readers/blockreader.rs impl=BlockReader fn=new anchor="let blocksz_u: usize = blocksz as usize;" take=rest_of_block label=XZ-CUT
//@replace "std::cmp::min(" "std_min("
//@replace "read_blocks_put += 1;" "read_blocks_put = read_blocks_put + 1;"
//@after "let mut block: Block = Block::with_capacity(blocksz_u);"
                        proof {
                            lemma_xz_div(len, bs, blockoffset as int);
                            assert((buffer@.len() as int) / (blocksz_u as int) == len / bs);
                            assert((blockoffset as int) * bs <= len);
                        }
                        let ghost bo0 = blockoffset;
//@after "blockoffset += 1;"
                        proof {
                            lemma_xz_div(len, bs, bo0 as int);
                            lemma_xz_div(len, bs, blockoffset as int);
                            assert(block_view__ =~= xz_piece(buffer@, bs, bo0 as int));
                        }
//@after "let blockp: BlockP = BlockP::new(block);"
                        let ghost block_view__ = blockp@;
//@loop 1
                        invariant
                            bs == blocksz as int, len == buffer@.len(), bs >= 1, len >= 1, len + 2 * bs < 0x7fff_ffff_ffff_ffff, blocksz_u as int == bs,
                            (blockoffset as int) * bs <= len + bs, (blockoffset as int) <= len + 1,
                            (blockoffset as int) > len / bs ==> (blockoffset as int) * bs >= len,
                            count_bytes_read as int == count_bytes_read_in as int + (if (blockoffset as int) * bs <= len { (blockoffset as int) * bs } else { len }),
                            count_bytes_read_in as int + len < u64::MAX, read_blocks_put as int <= read_blocks_put_in as int + blockoffset as int, read_blocks_put_in as int + len + 2 < u64::MAX,
                            forall|bo: BlockOffset| bo < blockoffset && (bo as int) * bs < len ==> #[trigger] blocks@.contains_key(bo) && blocks@[bo]@ == xz_piece(buffer@, bs, bo as int),
                        ensures
                            (blockoffset as int) * bs >= len,
//@end
    proof { lemma_xz_div(len, bs, blockoffset as int); }
    proof {
        assert forall|bo: BlockOffset| #[trigger] blocks@.contains_key(bo) || (bo as int) * bs < len implies (bo as int) * bs < len ==> bo < blockoffset by {
            if bo >= blockoffset { assert((bo as int) * bs >= (blockoffset as int) * bs) by (nonlinear_arith) requires bo as int >= blockoffset as int, bs >= 1; }
        }
    }
    (count_bytes_read, read_blocks_put)
}

/// vacuity guard: must NOT verify
pub proof fn rgz__canary(g: GzStream)
    requires g.pos <= g.data.len(), g.data.len() == 10
    ensures false
{}

} // verus!
fn main() {}
