// UNIT BSN — `basename` (src/readers/helpers.rs): the text of the --prepend-filename field and of the alignment width (C13): the
// part of the path after its last separator, and the WHOLE path when it holds no separator (a bare relative file name keeps its name).
// Assumed by contract (stand-ins, R9): `str::rsplit(sep)` (its first item is the piece after the last separator, the whole string
// if there is none) and `str::rsplit_once(sep)` (None if there is no separator) by their std meaning; String::from(&str) copies.
#![allow(unused_imports, non_camel_case_types, dead_code, unused_variables, unused_parens, unused_mut, unused_assignments, non_snake_case)]
use vstd::prelude::*;
verus! {

pub type FPath = String;
/// index of the last `sep` in p[..n], -1 if none
pub open spec fn last_sep(p: Seq<char>, sep: char, n: int) -> int
    decreases n
{
    if n <= 0 { -1 } else if p[n - 1] == sep { n - 1 } else { last_sep(p, sep, n - 1) }
}
/// the piece after the last separator; the whole path if there is none
pub open spec fn last_piece(p: Seq<char>, sep: char) -> Seq<char> { p.subrange(last_sep(p, sep, p.len() as int) + 1, p.len() as int) }
pub uninterp spec fn main_sep() -> char;
#[verifier::external_body]
pub fn verif_main_separator() -> (r: char) ensures r == main_sep() { unimplemented!() }
#[verifier::external_body]
pub struct RSplitStub<'a> { _p: &'a u8 }
impl<'a> RSplitStub<'a> {
    pub uninterp spec fn src(&self) -> Seq<char>;
    pub uninterp spec fn sep(&self) -> char;
    pub uninterp spec fn fresh(&self) -> bool;
    #[verifier::external_body]
    pub fn next(&mut self) -> (r: Option<&'a str>)
        ensures old(self).fresh() ==> r is Some && r.unwrap()@ == last_piece(old(self).src(), old(self).sep()), !final(self).fresh()
    { unimplemented!() }
}
#[verifier::external_body]
pub fn verif_rsplit<'a>(s: &'a String, sep: char) -> (r: RSplitStub<'a>) ensures r.src() == s@, r.sep() == sep, r.fresh() { unimplemented!() }
#[verifier::external_body]
pub fn verif_rsplit_once<'a>(s: &'a String, sep: char) -> (r: Option<(&'a str, &'a str)>)
    ensures r is None <==> last_sep(s@, sep, s@.len() as int) < 0, r is Some ==> r.unwrap().1@ == last_piece(s@, sep)
{ unimplemented!() }
#[verifier::external_body]
pub fn verif_string_from(s: &str) -> (r: String) ensures r@ == s@ { unimplemented!() }
pub proof fn lemma_last_sep_bound(p: Seq<char>, sep: char, n: int)
    requires 0 <= n <= p.len()
    ensures -1 <= last_sep(p, sep, n) < n
    decreases n
{
    if n > 0 && p[n - 1] != sep { lemma_last_sep_bound(p, sep, n - 1); }
}
pub proof fn lemma_no_sep(p: Seq<char>, sep: char, n: int)
    requires 0 <= n <= p.len(), forall|i: int| 0 <= i < n ==> p[i] != sep
    ensures last_sep(p, sep, n) == -1
    decreases n
{
    if n > 0 { lemma_no_sep(p, sep, n - 1); }
}

//@cut fn path=src/readers/helpers.rs name=basename ret=r
//@replace "std::path::MAIN_SEPARATOR" "verif_main_separator()" count=*
//@replace "path.rsplit(" "verif_rsplit(path, " count=0+
//@replace "path.rsplit_once(" "verif_rsplit_once(path, " count=0+
//@replace "FPath::from(" "verif_string_from(" count=*
//@spec
    ensures
        // C13: a path without separator is its own base name; otherwise the part after the last separator
        r@ == last_piece(path@, main_sep()),
        last_sep(path@, main_sep(), path@.len() as int) < 0 ==> r@ == path@,
//@at_entry
    proof { lemma_last_sep_bound(path@, main_sep(), path@.len() as int); assert(path@.subrange(0, path@.len() as int) =~= path@); }
//@end

/// vacuity guard: must NOT verify
pub proof fn bsn__canary(p: Seq<char>)
    requires p.len() == 3, last_sep(p, '/', 3) == 1
    ensures false
{}

} // verus!
fn main() {}
