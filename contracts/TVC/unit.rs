// UNIT TVC — from a record's (seconds, microseconds) to its datetime (C08: "every record ... is printed exactly once"):
// convert_tvpair_to_datetime (src/data/fixedstruct.rs).  The sub-second field merely refines the time: whatever it holds, the
// conversion fails only when the SECONDS are outside what chrono can represent -- a nonsense microseconds value never costs a record.
// Assumed by contract (stand-ins): chrono's FixedOffset::timestamp_opt by an abstract validity predicate and instant function
// (deterministic in its arguments), i64 -> u32 try_into.
#![allow(unused_imports, non_camel_case_types, dead_code, unused_variables, unused_parens, unused_mut, unused_assignments, non_snake_case)]
use vstd::prelude::*;
use core::cmp::Ordering;
use vstd::std_specs::cmp::*;
verus! {

//@include ../common/datetime.rs
pub type tv_sec_type = i64;
pub type tv_usec_type = i64;
//@cut type kind=type path=src/data/fixedstruct.rs name=nsecs_type
//@end
//@cut type kind=struct path=src/data/fixedstruct.rs name=tv_pair_type derives=Clone,Copy
//@end
#[verifier::external_body]
pub struct Error { _p: u8 }
#[verifier::external_body]
pub struct String { _p: u8 }
pub enum ErrorKind { InvalidData, Other }
impl Error { #[verifier::external_body] pub fn new(kind: ErrorKind, msg: String) -> Error { unimplemented!() } }
#[verifier::external_body]
pub fn verif_error() -> Error { unimplemented!() }
/// chrono's LocalResult, by its three variants
pub enum LocalResult<T> { None, Single(T), Ambiguous(T, T) }
/// can chrono represent this (seconds, nanoseconds) timestamp; and the instant it denotes
pub uninterp spec fn ts_valid(secs: i64, nsecs: u32) -> bool;
pub uninterp spec fn inst_of(secs: i64, nsecs: u32) -> int;
#[verifier::external_body]
pub struct FixedOffset { _p: u8 }
impl FixedOffset {
    #[verifier::external_body]
    pub fn timestamp_opt(&self, secs: i64, nsecs: u32) -> (r: LocalResult<DateTimeL>)
        ensures r is None <==> !ts_valid(secs, nsecs),
            r is Single ==> instant(r->Single_0) == inst_of(secs, nsecs),
            r is Ambiguous ==> instant(r->Ambiguous_0) == inst_of(secs, nsecs),
    { unimplemented!() }
}
/// stand-in (R9) for `tv_usec.try_into()` (i64 -> u32)
#[verifier::external_body]
pub fn verif_try_into_u32(v: i64) -> (r: core::result::Result<u32, ()>) ensures r is Ok <==> 0 <= v <= u32::MAX, r is Ok ==> r->Ok_0 as int == v as int { unimplemented!() }
#[verifier::external_body]
pub fn verif_fmt_tvsec(a: &i64, b: &&FixedOffset) -> String { unimplemented!() }
//@formatfn "failed to convert tv_sec 0x{:08X} to DateTime from tz_offset {}" verif_fmt_tvsec

//@cut fn path=src/data/fixedstruct.rs name=convert_tvpair_to_datetime ret=r
//@replace "tv_usec.try_into()" "verif_try_into_u32(tv_usec)"
//@spec
    ensures
        // C08: the microseconds never cost a record: the conversion fails only if the seconds alone cannot be represented
        ts_valid(tv_pair.0, 0) ==> r is Ok,
        // the datetime is the seconds refined by the microseconds, or the seconds alone
        r is Ok ==> exists|ns: u32| #[trigger] inst_of(tv_pair.0, ns) == instant(r->Ok_0),
//@mutate "match tz_offset.timestamp_opt(tv_sec, 0) {" "match tz_offset.timestamp_opt(tv_sec, nsec) {"
//@end

} // verus!
fn main() {}
