// UNIT FXN — a compressed / archived utmp, lastlog or acct file keeps its blocks (C08: "each non-null record is printed exactly
// once ... in order of their embedded time even when the file stores them out of order"; C12: at every block size).
// A FixedStructReader visits records in order of their time values, so it returns to blocks it has read before.  The readers of
// streamed files (gzip, bzip2, xz, lz4, tar) drop the block behind the read position while dropping is on
// (BlockReader::READ_BLOCK_LOOKBACK_DROP, "it is presumed the caller will never call ... with a blockoffset value less than the
// value passed here") and cannot read backwards.  Hence FixedStructReader::new must not leave a streamed file with dropping on.
// The statements of FixedStructReader::new (src/readers/fixedstructreader.rs) from the creation of the block reader to the next
// declaration are cut from the function (defect D9: the dropping was left on).
// Assumed by contract (stand-ins): BlockReader::new (any combination of the two flags), is_streamed_file, is_drop_data,
// disable_drop_data (requires dropping on: the real function panics otherwise).
#![allow(unused_imports, non_camel_case_types, dead_code, unused_variables, unused_parens, unused_mut, unused_assignments, non_snake_case, unused_labels)]
use vstd::prelude::*;
verus! {

pub type BlockSz = u64;
#[verifier::external_body]
pub struct Error { _p: u8 }
#[verifier::external_body]
pub struct FPath { _p: u8 }
impl Clone for FPath { #[verifier::external_body] fn clone(&self) -> (r: Self) ensures r == *self { unimplemented!() } }
#[verifier::external_body]
pub fn verif_error() -> Error { unimplemented!() }
//@cut type kind=enum path=src/common.rs name=FileTypeArchive derives=Clone,Copy
//@end
//@cut type kind=enum path=src/common.rs name=FileTypeFixedStruct derives=Clone,Copy
//@end
//@cut type kind=enum path=src/common.rs name=FileTypeTextEncoding derives=Clone,Copy
//@end
//@cut type kind=enum path=src/common.rs name=FileType derives=Clone,Copy
//@end
pub enum ResultFixedStructReaderNew<E> { FileErrEmpty, FileErrIo(E) }   // the two variants these statements construct

pub struct BlockReader { pub streamed: bool, pub drop: bool }
impl BlockReader {
    #[verifier::external_body]
    pub fn new(path: FPath, filetype: FileType, blocksz: BlockSz) -> (r: core::result::Result<BlockReader, Error>) { unimplemented!() }
    pub fn is_streamed_file(&self) -> (r: bool) ensures r == self.streamed { self.streamed }
    pub fn is_drop_data(&self) -> (r: bool) ensures r == self.drop { self.drop }
    #[verifier::external_body]
    pub fn disable_drop_data(&mut self)
        requires old(self).drop
        ensures !final(self).drop, final(self).streamed == old(self).streamed
    { unimplemented!() }
}

pub fn fxn_open(path: FPath, filetype: FileType, blocksz: BlockSz, out: &mut Option<BlockReader>) -> (r: ResultFixedStructReaderNew<Error>)
    requires *old(out) is None
    ensures
        // C08 / C12: a streamed file is never read with block dropping on
        *final(out) is Some ==> !((*final(out)).unwrap().streamed && (*final(out)).unwrap().drop),
        *final(out) is None ==> r is FileErrIo,
{
//@cut slice path=src/readers/fixedstructreader.rs impl=FixedStructReader fn=new anchor="let mut blockreader = match BlockReader::new(" take=range end_anchor="let filetype_fixedstruct = match filetype {" label=FXN-OPEN
//@end
    *out = Some(blockreader);
    ResultFixedStructReaderNew::FileErrEmpty
}

/// vacuity guard: must NOT verify
pub proof fn fxn__canary(b: BlockReader)
    requires b.streamed, !b.drop
    ensures false
{}

} // verus!
fn main() {}
