// UNIT SRCHB (Kani, BOUNDED stand-in) — the real text of find_sysline_at_datetime_filter_binary_search, run against an
// array-backed reader: at most N messages of 2..=L bytes, optional leading undated bytes, instants full i64 with ties,
// every start offset, filter present or absent.  Labelled bounded; never counted as proved.
// ASSUMED: find_sysline(fo) returns the message covering fo (Done at or past the end of the file) -- as in unit SRCH
#![allow(dead_code, unused_variables, unused_mut, non_camel_case_types, unused_imports, unused_assignments, unused_parens)]
use std::cmp::{max, min};
use std::rc::Rc;

pub type FileOffset = u64;
pub type FileSz = u64;
pub type DateTimeL = i64;
pub type DateTimeLOpt = Option<DateTimeL>;
pub struct Error;
pub struct FPath;

//@cut type kind=enum path=src/common.rs name=ResultS3 derives=
//@end
impl<T, E> ResultS3<T, E> { pub fn is_done(&self) -> bool { matches!(*self, ResultS3::Done) } }
//@cut type kind=enum path=src/data/datetime.rs name=Result_Filter_DateTime1 derives=
//@end
//@cut fn path=src/data/datetime.rs name=dt_after_or_before
//@end

#[derive(Clone, Copy)]
pub struct Sysline { pub beg: u64, pub end: u64, pub t: i64, pub idx: usize }
pub struct SyslineP(pub Sysline);
impl core::ops::Deref for SyslineP { type Target = Sysline; fn deref(&self) -> &Sysline { &self.0 } }
impl Sysline {
    pub fn dt(&self) -> &DateTimeL { &self.t }
    pub fn fileoffset_begin(&self) -> FileOffset { self.beg }
    pub fn fileoffset_end(&self) -> FileOffset { self.end }
    pub fn fileoffset_next(&self) -> FileOffset { self.end + 1 }
}
pub type ResultS3SyslineFind = ResultS3<(FileOffset, SyslineP), Error>;

pub const N: usize = 6;
pub struct SyslineReader { pub msgs: [Sysline; N], pub n: usize, pub filesz_: u64 }
impl SyslineReader {
    pub fn filesz(&self) -> FileSz { self.filesz_ }
    pub fn path(&self) -> FPath { FPath }
    pub fn debug_assert_gt_fo_syslineend(fo: &FileOffset, syslinep: &SyslineP) { assert!(*fo > syslinep.end); }
    pub fn is_sysline_last(&self, s: &Sysline) -> bool { s.end == self.filesz_ - 1 }
    pub fn sysline_dt_after_or_before(syslinep: &SyslineP, dt_filter: &DateTimeLOpt) -> Result_Filter_DateTime1 {
        dt_after_or_before(syslinep.dt(), dt_filter)
    }
    pub fn find_sysline(&mut self, fileoffset: FileOffset) -> ResultS3SyslineFind {
        if fileoffset >= self.filesz_ || self.n == 0 { return ResultS3::Done; }
        let mut i = 0;
        while i < N {
            if i < self.n && self.msgs[i].end >= fileoffset {
                return ResultS3::Found((self.msgs[i].end + 1, SyslineP(self.msgs[i])));
            }
            i += 1;
        }
        ResultS3::Done
    }

//@cut fn path=src/readers/syslinereader.rs impl=SyslineReader name=find_sysline_at_datetime_filter_binary_search
//@mutate "fo_a = min(syslinep_foe, fo_b);" "fo_a = max(syslinep_foe, fo_b);"
//@end
}

#[cfg(kani)]
fn check(nmax: usize, maxlen: u64, control: bool) {
    let n: usize = kani::any();
    kani::assume(n <= nmax && nmax <= N);
    let lead: u64 = kani::any();
    kani::assume(lead <= 2);
    let mut msgs: [Sysline; N] = [Sysline { beg: 0, end: 0, t: 0, idx: 0 }; N];
    let mut at = lead;
    let mut prev_t: i64 = i64::MIN;
    let mut i = 0;
    while i < N {
        if i < n {
            let len: u64 = kani::any();
            kani::assume(2 <= len && len <= maxlen);
            let t: i64 = kani::any();
            kani::assume(t >= prev_t);
            msgs[i] = Sysline { beg: at, end: at + len - 1, t, idx: i };
            at += len;
            prev_t = t;
        }
        i += 1;
    }
    let filesz = if n == 0 { 0 } else { at };
    let mut rd: SyslineReader = SyslineReader { msgs, n, filesz_: filesz };
    let fileoffset: u64 = kani::any();
    kani::assume(fileoffset <= filesz);
    let dt_filter: DateTimeLOpt = kani::any();
    // specification (C03): first message ending at or after `fileoffset` whose instant is >= A
    let mut want: usize = N;
    let mut j = 0;
    while j < N {
        if want == N && j < n && msgs[j].end >= fileoffset && (dt_filter.is_none() || msgs[j].t >= dt_filter.unwrap()) { want = j; }
        j += 1;
    }
    let res = if control { rd.find_sysline_at_datetime_filter_binary_search__negctl1(fileoffset, &dt_filter) } else { rd.find_sysline_at_datetime_filter_binary_search(fileoffset, &dt_filter) };
    match res {
        ResultS3::Found((fo, s)) => { assert!(want < N); assert!(s.idx == want); assert!(fo == msgs[want].end + 1); }
        ResultS3::Done => { assert!(want == N); }
        ResultS3::Err(_) => { assert!(false); }
    }
}
#[cfg(kani)] #[kani::proof] #[kani::unwind(8)] fn bsearch_n2_l3() { check(2, 3, false); }
#[cfg(kani)] #[kani::proof] #[kani::unwind(9)] fn bsearch_n3_l3() { check(3, 3, false); }
#[cfg(kani)] #[kani::proof] #[kani::unwind(10)] fn bsearch_n4_l4() { check(4, 4, false); }
#[cfg(kani)] #[kani::proof] #[kani::unwind(7)] fn bsearch_n2_l2() { check(2, 2, false); }
// vacuity guard: with `min` turned into `max` in the Before branch the harness must FAIL
#[cfg(kani)] #[kani::proof] #[kani::unwind(7)] fn bsearch_n2_l2_control_must_fail() { check(2, 2, true); }
#[cfg(kani)] #[kani::proof] #[kani::unwind(12)] fn bsearch_n5_l5() { check(5, 5, false); }
#[cfg(kani)] #[kani::proof] #[kani::unwind(14)] fn bsearch_n6_l9() { check(6, 9, false); }
